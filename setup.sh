#!/bin/sh
# Build the framework from files on disk only (offline).
set -e
cd "$(dirname "$0")"
export GOFLAGS=-mod=mod GOPROXY=off
unset GOTOOLCHAIN GOSUMDB || true
mkdir -p evidence replays
cd coq
coq_makefile -f _CoqProject -o Makefile
timeout 3000 make -j16
cd ../harness
cp /repo/go.sum go.sum
go build -tags verif -o /dev/null .
echo "setup ok"
