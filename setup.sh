#!/bin/sh
# Build the framework from files on disk only (offline).
set -e
cd "$(dirname "$0")"
export GOFLAGS=-mod=mod GOPROXY=off
unset GOTOOLCHAIN GOSUMDB || true
mkdir -p evidence replays
cd harness
cp /repo/go.sum go.sum
go build -tags verif -o ../.hlimpl-setup .
# Unicode tables of the Go toolchain that builds /repo (IsLetter, IsDigit, ToLower)
../.hlimpl-setup -prop genunicode -out ../coq/theories/Lib
rm -f ../.hlimpl-setup
cd ../coq
coq_makefile -f _CoqProject -o Makefile
timeout 3000 make -j16
echo "setup ok"
