(* Bytes, hex literals, boolean equality on byte strings.  Stdlib only. *)
From Coq Require Export List NArith ZArith Bool Lia String Ascii.
Export ListNotations.
Open Scope N_scope.
(* String.length would shadow List.length after the export above *)
Notation length := List.length (only parsing).

Notation byte := N (only parsing).
Notation bytes := (list N) (only parsing).

(* ---- hex literals: the harness writes every byte string as (hx "6162..") ---- *)
Definition hexval (a : ascii) : N :=
  let n := N_of_ascii a in
  if (48 <=? n) && (n <=? 57) then n - 48
  else if (97 <=? n) && (n <=? 102) then n - 87
  else if (65 <=? n) && (n <=? 70) then n - 55
  else 0.

Fixpoint hx (s : string) : list N :=
  match s with
  | String a (String b r) => (16 * hexval a + hexval b) :: hx r
  | _ => []
  end.

Fixpoint bytes_of_string (s : string) : list N :=
  match s with
  | EmptyString => []
  | String a r => N_of_ascii a :: bytes_of_string r
  end.
Notation bs := bytes_of_string (only parsing).

(* ---- equality ---- *)
Fixpoint beq (a b : list N) : bool :=
  match a, b with
  | [], [] => true
  | x :: a', y :: b' => (x =? y) && beq a' b'
  | _, _ => false
  end.

Lemma beq_eq a b : beq a b = true <-> a = b.
Proof.
  revert b; induction a as [|x a IH]; intros [|y b']; cbn [beq]; split; intro H;
    try reflexivity; try discriminate.
  - apply andb_true_iff in H as [H1 H2]. apply N.eqb_eq in H1. apply IH in H2. congruence.
  - inversion H; subst. rewrite N.eqb_refl. cbn. apply IH. reflexivity.
Qed.

Lemma beq_refl a : beq a a = true.
Proof. apply beq_eq. reflexivity. Qed.

Lemma beq_neq a b : beq a b = false <-> a <> b.
Proof.
  split; intro H.
  - intro E. apply beq_eq in E. congruence.
  - destruct (beq a b) eqn:E; [|reflexivity]. apply beq_eq in E. contradiction.
Qed.

(* lexicographic byte-wise order (Go string comparison) *)
Fixpoint bltb (a b : list N) : bool :=
  match a, b with
  | [], [] => false
  | [], _ :: _ => true
  | _ :: _, [] => false
  | x :: a', y :: b' => if x <? y then true else if y <? x then false else bltb a' b'
  end.
Definition bleb (a b : list N) : bool := negb (bltb b a).

(* generic list equality from an element equality *)
Fixpoint list_eqb {A} (eqb : A -> A -> bool) (a b : list A) : bool :=
  match a, b with
  | [], [] => true
  | x :: a', y :: b' => eqb x y && list_eqb eqb a' b'
  | _, _ => false
  end.

Definition option_eqb {A} (eqb : A -> A -> bool) (a b : option A) : bool :=
  match a, b with
  | None, None => true
  | Some x, Some y => eqb x y
  | _, _ => false
  end.

Definition isSome {A} (o : option A) : bool := match o with Some _ => true | None => false end.

(* association lists keyed by byte strings: Go map[string]V with "last write wins" *)
Fixpoint alookup {V} (k : list N) (m : list (list N * V)) : option V :=
  match m with
  | [] => None
  | (k', v) :: r => if beq k k' then Some v else alookup k r
  end.

(* last binding wins (JSON object decoding into a Go map) *)
Fixpoint alookup_last {V} (k : list N) (m : list (list N * V)) : option V :=
  match m with
  | [] => None
  | (k', v) :: r =>
      match alookup_last k r with
      | Some v' => Some v'
      | None => if beq k k' then Some v else None
      end
  end.
