(* The part of shopspring/decimal v1.4.0 that the analyses use, on (mantissa, exponent):
   Add (rescale to the smaller exponent), Mul, Neg, Abs, IsZero, IsNegative; and the exact
   rational value of a decimal.  The library itself is modelled, not verified. *)
From Coq Require Import QArith Qpower Qabs Lia.
From HL Require Import Lib.Bytes Model.Ast.
Open Scope Z_scope.

Definition dzero : dec := mkDec 0 0.

Definition dadd (a b : dec) : dec :=
  let m := Z.min (dexp a) (dexp b) in
  mkDec (mant a * 10 ^ (dexp a - m) + mant b * 10 ^ (dexp b - m)) m.
Definition dmul (a b : dec) : dec := mkDec (mant a * mant b) (dexp a + dexp b).
Definition dneg (a : dec) : dec := mkDec (- mant a) (dexp a).
Definition dabs (a : dec) : dec := mkDec (Z.abs (mant a)) (dexp a).
Definition dis_zero (a : dec) : bool := mant a =? 0.
Definition dis_neg (a : dec) : bool := mant a <? 0.

(* equality of values (Decimal.Equal / Cmp = 0) *)
Definition deqv (a b : dec) : bool :=
  let m := Z.min (dexp a) (dexp b) in
  mant a * 10 ^ (dexp a - m) =? mant b * 10 ^ (dexp b - m).

(* exact value *)
Definition ten : Q := 10 # 1.
Definition dval (a : dec) : Q := (inject_Z (mant a) * Qpower ten (dexp a))%Q.

Lemma ten_nz : ~ ten == 0%Q.
Proof. unfold ten. intro H. discriminate H. Qed.

Lemma pow_split e m : m <= e -> Qpower ten e == (inject_Z (10 ^ (e - m)) * Qpower ten m)%Q.
Proof.
  intro H. replace e with ((e - m) + m) at 1 by lia.
  rewrite Qpower_plus by exact ten_nz.
  assert (E : Qpower ten (e - m) == inject_Z (10 ^ (e - m))).
  { unfold ten. rewrite <- (Zpower_Qpower 10 (e - m)) by lia. reflexivity. }
  rewrite E. reflexivity.
Qed.

Lemma dval_add a b : dval (dadd a b) == (dval a + dval b)%Q.
Proof.
  unfold dval, dadd. cbn [mant dexp].
  set (m := Z.min (dexp a) (dexp b)).
  rewrite (pow_split (dexp a) m) by (unfold m; lia).
  rewrite (pow_split (dexp b) m) by (unfold m; lia).
  rewrite inject_Z_plus, !inject_Z_mult. ring.
Qed.

Lemma dval_mul a b : dval (dmul a b) == (dval a * dval b)%Q.
Proof.
  unfold dval, dmul. cbn [mant dexp]. rewrite Qpower_plus by exact ten_nz.
  rewrite inject_Z_mult. ring.
Qed.

Lemma dval_neg a : dval (dneg a) == (- dval a)%Q.
Proof. unfold dval, dneg. cbn [mant dexp]. rewrite inject_Z_opp. ring. Qed.

Lemma pow_pos e : (0 < Qpower ten e)%Q.
Proof. apply Qpower_0_lt. reflexivity. Qed.

Lemma dval_abs a : dval (dabs a) == Qabs (dval a).
Proof.
  unfold dval, dabs. cbn [mant dexp]. rewrite Qabs_Qmult.
  rewrite (Qabs_pos (Qpower ten (dexp a))) by (apply Qlt_le_weak, pow_pos).
  assert (E : inject_Z (Z.abs (mant a)) == Qabs (inject_Z (mant a))).
  { unfold Qabs, inject_Z. reflexivity. }
  rewrite E. reflexivity.
Qed.

Lemma dval_zero : dval dzero == 0%Q.
Proof. reflexivity. Qed.

Lemma dis_zero_spec a : dis_zero a = true <-> dval a == 0%Q.
Proof.
  unfold dis_zero, dval. split; intro H.
  - apply Z.eqb_eq in H. rewrite H. ring.
  - apply Z.eqb_eq. destruct (Qmult_integral _ _ H) as [H0|H0].
    + unfold inject_Z, Qeq in H0. cbn in H0. lia.
    + exfalso. pose proof (pow_pos (dexp a)) as P. rewrite H0 in P. discriminate P.
Qed.

Lemma dis_neg_spec a : dis_neg a = true <-> (dval a < 0)%Q.
Proof.
  unfold dis_neg, dval. pose proof (pow_pos (dexp a)) as P. split; intro H.
  - apply Z.ltb_lt in H. setoid_replace 0%Q with (0 * Qpower ten (dexp a))%Q by ring.
    apply Qmult_lt_compat_r; [exact P|]. unfold Qlt, inject_Z. cbn. lia.
  - apply Z.ltb_lt. destruct (Z_lt_le_dec (mant a) 0) as [L|L]; [exact L|exfalso].
    assert (0 <= inject_Z (mant a) * Qpower ten (dexp a))%Q.
    { apply Qmult_le_0_compat; [unfold Qle, inject_Z; cbn; lia|apply Qlt_le_weak; exact P]. }
    apply (Qlt_irrefl 0). eapply Qle_lt_trans; eassumption.
Qed.
