(* UTF-8 decoding as Go does it (utf8.DecodeRuneInString / range over string) and
   utf8.RuneLen.  Rune values are computed arithmetically so that lia can reason on them. *)
From HL Require Import Lib.Bytes.
Open Scope N_scope.

Notation rune := N (only parsing).
Definition RuneError : N := 65533.

Definition cont (x : N) : bool := (128 <=? x) && (x <=? 191).
Definition lo3 (b0 : N) : N := if b0 =? 224 then 160 else 128.
Definition hi3 (b0 : N) : N := if b0 =? 237 then 159 else 191.
Definition lo4 (b0 : N) : N := if b0 =? 240 then 144 else 128.
Definition hi4 (b0 : N) : N := if b0 =? 244 then 143 else 191.

(* (rune, number of bytes consumed); invalid or truncated sequences give (U+FFFD, 1) *)
Definition decode (s : list N) : N * nat :=
  match s with
  | [] => (RuneError, 1%nat)
  | b0 :: r =>
      if b0 <? 128 then (b0, 1%nat)
      else if (194 <=? b0) && (b0 <=? 223) then
        match r with
        | b1 :: _ => if cont b1 then ((b0 - 192) * 64 + (b1 - 128), 2%nat) else (RuneError, 1%nat)
        | _ => (RuneError, 1%nat)
        end
      else if (224 <=? b0) && (b0 <=? 239) then
        match r with
        | b1 :: b2 :: _ =>
            if (lo3 b0 <=? b1) && (b1 <=? hi3 b0) && cont b2
            then ((b0 - 224) * 4096 + (b1 - 128) * 64 + (b2 - 128), 3%nat)
            else (RuneError, 1%nat)
        | _ => (RuneError, 1%nat)
        end
      else if (240 <=? b0) && (b0 <=? 244) then
        match r with
        | b1 :: b2 :: b3 :: _ =>
            if (lo4 b0 <=? b1) && (b1 <=? hi4 b0) && cont b2 && cont b3
            then ((b0 - 240) * 262144 + (b1 - 128) * 4096 + (b2 - 128) * 64 + (b3 - 128), 4%nat)
            else (RuneError, 1%nat)
        | _ => (RuneError, 1%nat)
        end
      else (RuneError, 1%nat)
  end.

(* utf8.RuneLen; -1 (surrogates, > U+10FFFF) cannot arise from decode and is modelled as 0 *)
Definition rune_len (r : N) : N :=
  if r <? 128 then 1
  else if r <? 2048 then 2
  else if (55296 <=? r) && (r <=? 57343) then 0
  else if r <? 65536 then 3
  else if r <=? 1114111 then 4
  else 0.

Definition u16len (r : N) : N := if 65536 <=? r then 2 else 1.

(* length of a byte string in UTF-16 code units (an invalid byte counts as one unit) *)
Fixpoint u16_units_n (s : list N) (skip : nat) : N :=
  match s with
  | [] => 0
  | _ :: r =>
      match skip with
      | S k => u16_units_n r k
      | O => let '(rn, n) := decode s in u16len rn + u16_units_n r (n - 1)
      end
  end.
Definition u16n (s : list N) : N := u16_units_n s 0.

(* well-formed UTF-8, by the same decoder: no step yields the error rune from a bad sequence *)
Fixpoint valid_utf8_fuel (fuel : nat) (s : list N) : bool :=
  match s with
  | [] => true
  | b0 :: _ =>
      match fuel with
      | O => false
      | S f =>
          let '(r, n) := decode s in
          (* a genuine U+FFFD is EF BF BD (3 bytes); size 1 with b0 >= 128 means invalid *)
          if (128 <=? b0) && (Nat.eqb n 1) then false
          else valid_utf8_fuel f (skipn n s)
      end
  end.
Definition valid_utf8 (s : list N) : bool := valid_utf8_fuel (length s) s.

(* code point length from the leading byte (used by the reference client on valid text) *)
Definition cp_len (b0 : N) : nat :=
  if b0 <? 128 then 1%nat else if b0 <? 224 then 2%nat else if b0 <? 240 then 3%nat else 4%nat.
