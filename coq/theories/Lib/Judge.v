(* What every generated cases_*.v shard evaluates: per case (id, (tie, oracle, known)).
   tie    : the model's projection equals the implementation's on this case
   oracle : the property's specification holds on the implementation's output
   known  : 0, or the number of the known-finding classifier that accepts the case     *)
From HL Require Import Lib.Bytes.

Definition judge_with {C} (tie oracle : C -> bool) (known : C -> N) (cs : list (N * C))
  : list (N * (bool * bool * N)) :=
  map (fun ic => (fst ic, (tie (snd ic), oracle (snd ic), known (snd ic)))) cs.
