(* Specification side of C10: include resolution as a depth-first traversal with an
   inclusion STACK (a cycle is an include of a file that is currently being included) and a
   LOADED set (a file reached again along another acyclic path is silently not loaded twice).
   The depth limit is the largest number of files on an inclusion path (the root counts), the
   unit the implementation's limit is expressed in; of several reasons to refuse one include the
   first of: on the stack, already loaded, too deep, missing, too large is the one reported. *)
From HL Require Import Lib.Bytes Model.Loader.
Open Scope N_scope.

(* No cache, no journal objects: the order in which files are loaded, the diagnostics, and the set
   of loaded files.  The inclusion stack is a parameter (pushed for the includes of a file, popped
   by returning), the loaded set is threaded through. *)
Record rout := mkRout { ro_order : list N; ro_errs : list lerr; ro_loaded : list N }.

Definition with_err (e : lerr) (o : option rout) : option rout :=
  match o with
  | Some r => Some (mkRout (ro_order r) (e :: ro_errs r) (ro_loaded r))
  | None => None
  end.

Definition rrecT := N -> list directive -> list N -> list N -> option rout.   (* file, its directives, stack, loaded *)

Fixpoint ref_items (rec : rrecT) (fs : fsys) (L : limits) (stk : list N) (items : list (N * option N))
                   (loaded : list N) : option rout :=
  match items with
  | [] => Some (mkRout [] [] loaded)
  | (line, None) :: rest => with_err (mkErr ENotFound 999999 line) (ref_items rec fs L stk rest loaded)
  | (line, Some q) :: rest =>
      if memN q stk then with_err (mkErr ECycle q line) (ref_items rec fs L stk rest loaded)
      else if memN q loaded then ref_items rec fs L stk rest loaded
      else if max_depth L <=? N.of_nat (length stk) then with_err (mkErr ETooDeep q line) (ref_items rec fs L stk rest loaded)
      else match flookup q fs with
           | None => with_err (mkErr ENotFound q line) (ref_items rec fs L stk rest loaded)
           | Some f =>
               if max_size L <? f_size f then with_err (mkErr ETooLarge q line) (ref_items rec fs L stk rest loaded)
               else match rec q (f_dirs f) stk loaded with
                    | None => None
                    | Some sub =>
                        match ref_items rec fs L stk rest (ro_loaded sub) with
                        | None => None
                        | Some r => Some (mkRout (q :: ro_order sub ++ ro_order r) (ro_errs sub ++ ro_errs r) (ro_loaded r))
                        end
                    end
           end
  end.

(* follow the includes of file p (directives dirs): p goes on the stack and into the loaded set *)
Fixpoint ref_load (fuel : nat) (fs : fsys) (L : limits) (p : N) (dirs : list directive)
                  (stk : list N) (loaded : list N) : option rout :=
  match fuel with
  | O => None
  | S fuel' => ref_items (ref_load fuel' fs L) fs L (p :: stk) (dir_items fs dirs) (p :: loaded)
  end.

Definition ref_root (fs : fsys) (L : limits) (root : N) (override : option file) : option rout :=
  let rf := match override with Some f => Some f | None => flookup root fs end in
  match rf with
  | None => Some (mkRout [] [mkErr ENotFound root 0] [])
  | Some f =>
      if max_size L <? f_size f then Some (mkRout [] [mkErr ETooLarge root 0] [])
      else if max_depth L <=? 0 then Some (mkRout [] [mkErr ETooDeep root 0] [])
      else ref_load (fuel_for fs) fs L root (f_dirs f) [] []
  end.

(* ---- helpers to compare results as sets / multisets ---- *)
Fixpoint insertN (x : N) (l : list N) : list N :=
  match l with [] => [x] | y :: r => if x <=? y then x :: l else y :: insertN x r end.
Definition sortN (l : list N) : list N := fold_right insertN [] l.
Fixpoint nodupb (l : list N) : bool :=
  match l with [] => true | x :: r => negb (memN x r) && nodupb r end.
Definition listN_eqb := list_eqb N.eqb.

Definition ekind_code (k : ekind) : N :=
  match k with ENotFound => 0 | ECycle => 1 | ETooLarge => 2 | ETooDeep => 3 end.
Definition err_code (e : lerr) : N := ekind_code (e_kind e) * 1000000000000 + e_target e * 1000000 + e_line e.
Definition errs_same_multiset (a b : list lerr) : bool :=
  listN_eqb (sortN (map err_code a)) (sortN (map err_code b)).
Definition errs_same_list (a b : list lerr) : bool := listN_eqb (map err_code a) (map err_code b).

Definition pairs_code (l : list (N * N)) : list N := sortN (map (fun kv => fst kv * 1000000 + snd kv) l).
