(* Specification side of C10: include resolution as a depth-first traversal with an
   inclusion STACK (a cycle is an include of a file that is currently being included) and a
   LOADED set (a file reached again along another acyclic path is silently not loaded twice). *)
From HL Require Import Lib.Bytes Model.Loader.
Open Scope N_scope.

Record rout := mkRout { ro_order : list N; ro_errs : list lerr; ro_loaded : list N;
                        ro_again : bool;   (* some include named an already loaded file not on the stack *)
                        ro_deep : bool }.  (* the depth limit was hit *)

Fixpoint ref_load (fuel : nat) (fs : fsys) (L : limits) (depth : N) (stack : list N)
                  (dirs : list directive) (loaded : list N) : option rout :=
  match fuel with
  | O => None
  | S fuel' =>
      (fix go (items : list (N * option N)) (order : list N) (errs : list lerr) (loaded : list N)
              (again deep : bool) {struct items} : option rout :=
         match items with
         | [] => Some (mkRout order errs loaded again deep)
         | (line, None) :: rest => go rest order (errs ++ [mkErr ENotFound 999999 line]) loaded again deep
         | (line, Some q) :: rest =>
             if memN q stack then go rest order (errs ++ [mkErr ECycle q line]) loaded again deep
             else if memN q loaded then go rest order errs loaded true deep
             else match flookup q fs with
                  | None => go rest order (errs ++ [mkErr ENotFound q line]) loaded again deep
                  | Some f =>
                      if max_size L <? f_size f then go rest order (errs ++ [mkErr ETooLarge q line]) loaded again deep
                      else if max_depth L <? depth + 1 then go rest order (errs ++ [mkErr ETooDeep q line]) loaded again true
                      else match ref_load fuel' fs L (depth + 1) (q :: stack) (f_dirs f) (q :: loaded) with
                           | None => None
                           | Some sub =>
                               go rest (order ++ q :: ro_order sub) (errs ++ ro_errs sub) (ro_loaded sub)
                                  (again || ro_again sub) (deep || ro_deep sub)
                           end
                  end
         end)
        (dir_items fs dirs)
        [] [] loaded false false
  end.

Definition ref_root (fs : fsys) (L : limits) (root : N) (override : option file) : option rout :=
  let rf := match override with Some f => Some f | None => flookup root fs end in
  match rf with
  | None => Some (mkRout [] [mkErr ENotFound root 0] [] false false)
  | Some f =>
      if max_size L <? f_size f then Some (mkRout [] [mkErr ETooLarge root 0] [] false false)
      else ref_load (fuel_for fs) fs L 0 [root] (f_dirs f) [root]
  end.

(* ---- helpers to compare results as sets / multisets ---- *)
Fixpoint insertN (x : N) (l : list N) : list N :=
  match l with [] => [x] | y :: r => if x <=? y then x :: l else y :: insertN x r end.
Definition sortN (l : list N) : list N := fold_right insertN [] l.
Fixpoint nodupb (l : list N) : bool :=
  match l with [] => true | x :: r => negb (memN x r) && nodupb r end.
Definition listN_eqb := list_eqb N.eqb.

Definition ekind_code (k : ekind) : N :=
  match k with ENotFound => 0 | ECycle => 1 | ETooLarge => 2 | ETooDeep => 3 end.
Definition err_code (e : lerr) : N := ekind_code (e_kind e) * 1000000000000 + e_target e * 1000000 + e_line e.
Definition errs_same_multiset (a b : list lerr) : bool :=
  listN_eqb (sortN (map err_code a)) (sortN (map err_code b)).
Definition errs_same_list (a b : list lerr) : bool := listN_eqb (map err_code a) (map err_code b).

Definition pairs_code (l : list (N * N)) : list N := sortN (map (fun kv => fst kv * 1000000 + snd kv) l).
