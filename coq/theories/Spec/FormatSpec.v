(* Specification side of C04 / C05: a reference edit applier (what a conforming LSP client does
   with a list of single-line text edits), equality of what two journals say, well-formedness of
   an edit list, and what "aligned" means for a rewritten posting line. *)
From HL Require Import Lib.Bytes Lib.Utf8 Model.Ast Lib.Dec Model.Lexer Model.Formatter.
Open Scope Z_scope.

(* ---------- reference applier ---------- *)
(* a trailing CR belongs to the line ending: positions clamp to the text before it *)
Definition line_body (s : list N) : list N * list N :=
  match rev s with
  | c :: r => if (c =? 13)%N then (rev r, [13%N]) else (s, [])
  | [] => (s, [])
  end.

(* byte offset of UTF-16 column c, clamped to the end of the text; None strictly inside a
   surrogate pair.  skip = bytes of the code point in progress. *)
Fixpoint col_off (s : list N) (skip : nat) (c : Z) : option nat :=
  match s with
  | [] => Some O
  | _ :: r =>
      match skip with
      | S k => option_map S (col_off r k c)
      | O =>
          if c <=? 0 then Some O
          else let '(rn, n) := decode s in
               let w := Z.of_N (u16len rn) in
               if c <? w then None else option_map S (col_off r (n - 1) (c - w))
      end
  end.

Definition resolve (body : list N) (e : fedit) : option (nat * nat * list N) :=
  match col_off body 0 (fe_sc e), col_off body 0 (fe_ec e) with
  | Some a, Some z => if (a <=? z)%nat then Some (a, z, fe_new e) else None
  | _, _ => None
  end.

(* edits sorted by start and not overlapping, offsets relative to the original body; `off` bytes
   of it are already consumed and `rest` is what remains *)
Fixpoint splice (rest : list N) (off : nat) (es : list (nat * nat * list N)) : option (list N) :=
  match es with
  | [] => Some rest
  | (a, z, new) :: r =>
      if (off <=? a)%nat then
        match splice (skipn (z - off) rest) z r with
        | Some tl => Some (firstn (a - off) rest ++ new ++ tl)
        | None => None
        end
      else None
  end.

Fixpoint insert_by_start (e : nat * nat * list N) (l : list (nat * nat * list N)) :=
  match l with
  | [] => [e]
  | x :: r => if (fst (fst e) <=? fst (fst x))%nat then e :: l else x :: insert_by_start e r
  end.
Definition sort_by_start (l : list (nat * nat * list N)) := fold_right insert_by_start [] l.

Fixpoint all_some {A} (l : list (option A)) : option (list A) :=
  match l with
  | [] => Some []
  | Some x :: r => match all_some r with Some t => Some (x :: t) | None => None end
  | None :: _ => None
  end.

Definition apply_line (s : list N) (es : list fedit) : option (list N) :=
  match es with
  | [] => Some s
  | _ =>
      let '(body, eol) := line_body s in
      match all_some (map (resolve body) es) with
      | Some rs => match splice body 0 (sort_by_start rs) with Some b => Some (b ++ eol) | None => None end
      | None => None
      end
  end.

Fixpoint apply_lines (ls : list (list N)) (i : Z) (es : list fedit) : option (list (list N)) :=
  match ls with
  | [] => Some []
  | s :: r =>
      match apply_line s (filter (fun e => fe_sl e =? i) es), apply_lines r (i + 1) es with
      | Some s', Some r' => Some (s' :: r')
      | _, _ => None
      end
  end.

Definition single_line_in (n : Z) (e : fedit) : bool := (fe_sl e =? fe_el e) && (0 <=? fe_sl e) && (fe_sl e <? n).

Definition apply_edits (t : list N) (es : list fedit) : option (list N) :=
  let ls := split_lf t in
  if forallb (single_line_in (Z.of_nat (length ls))) es
  then option_map join_lf (apply_lines ls 0 es) else None.

(* ---------- well-formed edit lists (C05, first sentence) ---------- *)
Definition pos_le (l1 c1 l2 c2 : Z) : bool := (l1 <? l2) || ((l1 =? l2) && (c1 <=? c2)).
Definition edit_in_doc (lines : list (list N)) (e : fedit) : bool :=
  (0 <=? fe_sl e) && (0 <=? fe_sc e) && pos_le (fe_sl e) (fe_sc e) (fe_el e) (fe_ec e) &&
  (fe_el e <? Z.of_nat (length lines)) &&
  (fe_sc e <=? line_u16 lines (fe_sl e)) && (fe_ec e <=? line_u16 lines (fe_el e)).
Definition disjoint (a b : fedit) : bool :=
  pos_le (fe_el a) (fe_ec a) (fe_sl b) (fe_sc b) || pos_le (fe_el b) (fe_ec b) (fe_sl a) (fe_sc a).
Fixpoint pairwise {A} (f : A -> A -> bool) (l : list A) : bool :=
  match l with [] => true | x :: r => forallb (f x) r && pairwise f r end.
Definition edits_wf (lines : list (list N)) (es : list fedit) : bool :=
  forallb (edit_in_doc lines) es && pairwise disjoint es.

(* ---------- what the parser guarantees about postings: each on its own line of the text ---------- *)
Fixpoint nodupb (l : list Z) : bool := match l with [] => true | x :: r => negb (mem_z x r) && nodupb r end.
Definition plines (j : journal) : list Z := map posting_line (all_postings (j_txs j)).
Definition post_lines_ok (j : journal) (lines : list (list N)) : bool :=
  nodupb (plines j) && forallb (fun l => (0 <=? l) && (l <? Z.of_nat (length lines))) (plines j).

(* ---------- what a journal says (ranges, raw spellings, commodity side and the blanks around an
   inline comment are layout) ---------- *)
Definition m_com (a b : commodity) : bool := beq (c_sym a) (c_sym b).
Definition m_amt (a b : amount) : bool := deqv (a_qty a) (a_qty b) && m_com (a_com a) (a_com b).
Definition m_cost (a b : cost) : bool := m_amt (co_amt a) (co_amt b) && Bool.eqb (co_total a) (co_total b).
Definition m_assert (a b : assertion) : bool :=
  m_amt (as_amt a) (as_amt b) && Bool.eqb (as_strict a) (as_strict b) && Bool.eqb (as_incl a) (as_incl b).
Definition m_tag (a b : tag) : bool := beq (tg_name a) (tg_name b) && beq (tg_value a) (tg_value b).
Definition m_status (a b : status) : bool :=
  match a, b with StNone, StNone | StPending, StPending | StCleared, StCleared => true | _, _ => false end.
Definition m_vkind (a b : vkind) : bool :=
  match a, b with VNone, VNone | VBalanced, VBalanced | VUnbalanced, VUnbalanced => true | _, _ => false end.
Definition m_posting (a b : posting) : bool :=
  m_status (po_status a) (po_status b) && beq (po_acct a) (po_acct b) &&
  option_eqb m_amt (po_amount a) (po_amount b) && option_eqb m_assert (po_assert a) (po_assert b) &&
  option_eqb m_cost (po_cost a) (po_cost b) && beq (trim_space_u (po_comment a)) (trim_space_u (po_comment b)) &&
  list_eqb m_tag (po_tags a) (po_tags b) && m_vkind (po_virtual a) (po_virtual b).
Definition m_date (a b : date) : bool := (d_year a =? d_year b) && (d_month a =? d_month b) && (d_day a =? d_day b).
Definition m_comment (a b : comment) : bool :=
  beq (trim_space_u (cm_text a)) (trim_space_u (cm_text b)) && list_eqb m_tag (cm_tags a) (cm_tags b).
Definition m_tx (a b : transaction) : bool :=
  m_date (tx_date a) (tx_date b) && option_eqb m_date (tx_date2 a) (tx_date2 b) && m_status (tx_status a) (tx_status b) &&
  beq (tx_code a) (tx_code b) && beq (tx_desc a) (tx_desc b) && beq (tx_payee a) (tx_payee b) && beq (tx_note a) (tx_note b) &&
  list_eqb m_posting (tx_postings a) (tx_postings b) && list_eqb m_tag (tx_tags a) (tx_tags b) &&
  list_eqb m_comment (tx_comments a) (tx_comments b).
Definition m_smap (a b : list (list N * list N)) : bool :=
  list_eqb (fun x y => beq (fst x) (fst y) && beq (snd x) (snd y)) a b.
Definition m_dir (a b : directive) : bool :=
  match a, b with
  | DAccount n1 _ t1 c1 s1 _, DAccount n2 _ t2 c2 s2 _ => beq n1 n2 && list_eqb m_tag t1 t2 && beq c1 c2 && m_smap s1 s2
  | DCommodity c1 f1 n1 s1 _, DCommodity c2 f2 n2 s2 _ => m_com c1 c2 && beq f1 f2 && beq n1 n2 && m_smap s1 s2
  | DInclude p1 _, DInclude p2 _ => beq p1 p2
  | DPrice d1 c1 a1 _, DPrice d2 c2 a2 _ => m_date d1 d2 && m_com c1 c2 && m_amt a1 a2
  | DYear y1 _, DYear y2 _ => y1 =? y2
  | DDefault s1 f1 _, DDefault s2 f2 _ => beq s1 s2 && beq f1 f2
  | _, _ => false
  end.
Definition same_meaning (a b : journal) : bool :=
  list_eqb m_tx (j_txs a) (j_txs b) && list_eqb m_dir (j_dirs a) (j_dirs b) &&
  list_eqb m_comment (j_comments a) (j_comments b) &&
  list_eqb (fun x y => beq (inc_path x) (inc_path y)) (j_includes a) (j_includes b).

(* ---------- frame: lines that are not postings lose trailing blanks only ---------- *)
Fixpoint is_prefix (p s : list N) : bool :=
  match p, s with
  | [], _ => true
  | x :: p', y :: s' => (x =? y)%N && is_prefix p' s'
  | _ :: _, [] => false
  end.
Definition only_blanks (l : list N) : bool := forallb (fun c => (c =? 32) || (c =? 9))%N l.
Definition lost_blanks_only (old new : list N) : bool :=
  is_prefix new old && only_blanks (skipn (length new) old).

Fixpoint frame_ok (old new : list (list N)) (i : Z) (plines : list Z) : bool :=
  match old, new with
  | [], [] => true
  | o :: r, n :: r' => (mem_z i plines || lost_blanks_only o n) && frame_ok r r' (i + 1) plines
  | _, _ => false
  end.

(* text from the 1-based rune column c on, without surrounding blanks *)
Fixpoint drop_runes (s : list N) (skip : nat) (c : Z) : list N :=
  match s with
  | [] => []
  | _ :: r =>
      match skip with
      | S k => drop_runes r k c
      | O => if c <=? 0 then s else let '(_, n) := decode s in drop_runes r (n - 1) (c - 1)
      end
  end.
Fixpoint is_infix (p s : list N) : bool :=
  if is_prefix p s then true else match s with [] => false | _ :: r => is_infix p r end.
Definition trim_blanks (l : list N) : list N := drop_blank (trim_right l).
Definition line_nth (ls : list (list N)) (l : Z) : list N :=
  if l <? 0 then [] else nth (Z.to_nat l) ls [].

(* what the parser reported it could not read (from the error column to the end of its line)
   is still on that line *)
Definition error_text_kept (old new : list (list N)) (err : Z * Z) : bool :=
  let '(l, c) := err in
  is_infix (trim_blanks (drop_runes (line_nth old (l - 1)) 0 (c - 1))) (line_nth new (l - 1)).

(* ---------- alignment (C05, third sentence) ---------- *)
Fixpoint count_sp (s : list N) : Z := match s with c :: r => if (c =? 32)%N then 1 + count_sp r else 0 | [] => 0 end.
Fixpoint strip_prefix (p s : list N) : option (list N) :=
  match p, s with
  | [], _ => Some s
  | x :: p', y :: s' => if (x =? y)%N then strip_prefix p' s' else None
  | _ :: _, [] => None
  end.

(* the line starts with exactly `indent` blanks *)
Definition indent_ok (indent : Z) (s : list N) : bool :=
  (count_sp s =? indent) &&
  match skipn (Z.to_nat indent) s with c :: _ => negb (c =? 9)%N | [] => false end.

(* column (in characters) at which the amount of posting p starts on the rewritten line s;
   None when the line does not begin with indent, account and at least two blanks *)
Definition amount_col (indent : Z) (p : posting) (s : list N) : option Z :=
  let head := spaces indent ++ v_open (po_virtual p) ++ po_acct p ++ v_close (po_virtual p) in
  match strip_prefix head s with
  | Some rest => let k := count_sp rest in if 2 <=? k then Some (rcount head + k) else None
  | None => None
  end.

Definition wants_column (p : posting) : bool :=
  isSome (po_amount p) && match po_status p with StNone => true | _ => false end.

Fixpoint all_eq_some (c : Z) (l : list (option Z)) : bool :=
  match l with [] => true | Some x :: r => (x =? c) && all_eq_some c r | None :: _ => false end.

(* ps: the postings of the document in order, ts: the new text of their lines *)
Definition aligned_ok (indent : Z) (ps : list posting) (ts : list (list N)) : bool :=
  Nat.eqb (length ps) (length ts) &&
  forallb (indent_ok indent) ts &&
  let cols := map (fun pt => amount_col indent (fst pt) (snd pt)) (filter (fun pt => wants_column (fst pt)) (combine ps ts)) in
  match cols with
  | [] => true
  | Some c :: _ => all_eq_some c cols && forallb (fun p => indent + acct_display_len p + 2 <=? c) ps
  | None :: _ => false
  end.
