(* The composed pipeline the property statements of C04 / C05 talk about: text -> lexer -> parser
   -> Server.Format (model) -> reference applier -> text.  No workspace: the display formats are
   the file's own. *)
From HL Require Import Lib.Bytes Model.Ast Model.Lexer Model.Parser Model.NumberFormat Model.Formatter Spec.FormatSpec.
Open Scope Z_scope.

Definition fmt_text (t : list N) (o : fopts) : option (list N) :=
  match parse t with
  | Some (j, errs) => apply_edits t (server_format j errs t None o)
  | None => None
  end.
Definition jof (t : list N) : journal := match parse t with Some (j, _) => j | None => mkJournal [] [] [] [] end.
Definition doc (ls : list string) : list N := join_lf (map bytes_of_string ls ++ [[]]).

(* a display format with three decimals and a blank group mark *)
Definition w_three_decimals : list N :=
  doc ["commodity 1 000.000 AAPL"; "2025-03-28 x"; "    assets:bank  1838.81 AAPL"; "    assets:cash"]%string.
(* trailing blanks, an inline comment with odd spacing, a quoted commodity, a cost, an assertion,
   more decimals than the display format shows, a non-ASCII account *)
Definition w_sample : list N :=
  doc ["commodity 1,000.00 USD"; "account assets:bank  "; "2025-03-28 x  ; a:b ";
       "  assets:bank   1838.812 USD  ;  note "; "    (assets:кэш)  -5 ""X1"" @ 2 USD = 0.5 USD"; "    assets:cash"]%string.
Definition o4 : fopts := mkFO 4 true 0.
