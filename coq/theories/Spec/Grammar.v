(* Specification side of C03: the STRUCTURE a journal of the supported grammar G was written
   from (positions and layout forgotten), and its extraction from an AST. *)
From HL Require Import Lib.Bytes Model.Ast Lib.Dec Model.Lexer.
Open Scope Z_scope.

Record iamount := mkIA { ia_qty : dec; ia_sym : list N; ia_left : bool }.
Record iposting := mkIP {
  ip_status : status; ip_virtual : vkind; ip_acct : list N; ip_amount : option iamount;
  ip_cost : option (bool * iamount); ip_assert : option (bool * iamount); ip_comment : list N }.
Record itx := mkIT {
  it_date : Z * Z * Z; it_date2 : option (Z * Z * Z); it_status : status; it_code : list N;
  it_desc : list N; it_payee : list N; it_note : list N; it_comments : list (list N); it_postings : list iposting }.
Inductive idir :=
| IAccount (name : list N) | ICommodity (sym : list N) | IPrice (d : Z * Z * Z) (sym : list N) (a : iamount)
| IYear (y : Z) | IDefault (sym : list N).
Record istruct := mkIS { is_txs : list itx; is_dirs : list idir; is_includes : list (list N); is_comments : list (list N) }.

Definition x_amount (a : amount) : iamount := mkIA (a_qty a) (c_sym (a_com a)) (c_left (a_com a)).
Definition x_date (d : date) : Z * Z * Z := (d_year d, d_month d, d_day d).
Definition x_posting (p : posting) : iposting :=
  mkIP (po_status p) (po_virtual p) (po_acct p) (option_map x_amount (po_amount p))
       (option_map (fun c => (co_total c, x_amount (co_amt c))) (po_cost p))
       (option_map (fun b => (as_strict b, x_amount (as_amt b))) (po_assert p))
       (trim_space_u (po_comment p)).
Definition x_tx (t : transaction) : itx :=
  mkIT (x_date (tx_date t)) (option_map x_date (tx_date2 t)) (tx_status t) (tx_code t) (tx_desc t) (tx_payee t) (tx_note t)
       (map (fun c => trim_space_u (cm_text c)) (tx_comments t)) (map x_posting (tx_postings t)).
Definition x_dir (d : directive) : list idir :=
  match d with
  | DAccount n _ _ _ _ _ => [IAccount n]
  | DCommodity c _ _ _ _ => [ICommodity (c_sym c)]
  | DPrice d c a _ => [IPrice (x_date d) (c_sym c) (x_amount a)]
  | DYear y _ => [IYear y]
  | DDefault s _ _ => [IDefault s]
  | DInclude _ _ => []
  end.
Definition extract (j : journal) : istruct :=
  mkIS (map x_tx (j_txs j)) (flat_map x_dir (j_dirs j)) (map inc_path (j_includes j))
       (map (fun c => trim_space_u (cm_text c)) (j_comments j)).

(* equality of structures: quantities by value *)
Definition ia_eqb (a b : iamount) : bool := deqv (ia_qty a) (ia_qty b) && beq (ia_sym a) (ia_sym b) && Bool.eqb (ia_left a) (ia_left b).
Definition bia_eqb (a b : bool * iamount) : bool := Bool.eqb (fst a) (fst b) && ia_eqb (snd a) (snd b).
Definition st_eqb (a b : status) : bool :=
  match a, b with StNone, StNone | StPending, StPending | StCleared, StCleared => true | _, _ => false end.
Definition vk_eqb (a b : vkind) : bool :=
  match a, b with VNone, VNone | VBalanced, VBalanced | VUnbalanced, VUnbalanced => true | _, _ => false end.
Definition ip_eqb (a b : iposting) : bool :=
  st_eqb (ip_status a) (ip_status b) && vk_eqb (ip_virtual a) (ip_virtual b) && beq (ip_acct a) (ip_acct b) &&
  option_eqb ia_eqb (ip_amount a) (ip_amount b) && option_eqb bia_eqb (ip_cost a) (ip_cost b) &&
  option_eqb bia_eqb (ip_assert a) (ip_assert b) && beq (ip_comment a) (ip_comment b).
Definition d3_eqb (a b : Z * Z * Z) : bool :=
  (fst (fst a) =? fst (fst b)) && (snd (fst a) =? snd (fst b)) && (snd a =? snd b).
Definition it_eqb (a b : itx) : bool :=
  d3_eqb (it_date a) (it_date b) && option_eqb d3_eqb (it_date2 a) (it_date2 b) && st_eqb (it_status a) (it_status b) &&
  beq (it_code a) (it_code b) && beq (it_desc a) (it_desc b) && beq (it_payee a) (it_payee b) && beq (it_note a) (it_note b) &&
  list_eqb beq (it_comments a) (it_comments b) && list_eqb ip_eqb (it_postings a) (it_postings b).
Definition idir_eqb (a b : idir) : bool :=
  match a, b with
  | IAccount x, IAccount y | ICommodity x, ICommodity y | IDefault x, IDefault y => beq x y
  | IPrice d1 s1 a1, IPrice d2 s2 a2 => d3_eqb d1 d2 && beq s1 s2 && ia_eqb a1 a2
  | IYear x, IYear y => x =? y
  | _, _ => false
  end.
Definition is_eqb (a b : istruct) : bool :=
  list_eqb it_eqb (is_txs a) (is_txs b) && list_eqb idir_eqb (is_dirs a) (is_dirs b) &&
  list_eqb beq (is_includes a) (is_includes b) && list_eqb beq (is_comments a) (is_comments b).
