(* Specification side of C08: when is a reported range acceptable for a given document text. *)
From HL Require Import Lib.Bytes Lib.Utf8 Model.Parser Model.References.
Open Scope Z_scope.

(* UTF-16 widths of the code points of a line (valid UTF-8 assumed; leading byte decides) *)
Fixpoint widths (l : list N) (skip : nat) : list Z :=
  match l with
  | [] => []
  | b :: r =>
      match skip with
      | S k => widths r k
      | O => let n := cp_len b in (if Nat.eqb n 4 then 2 else 1) :: widths r (n - 1)
      end
  end.
Definition strip_cr (l : list N) : list N := match rev l with 13%N :: r => rev r | _ => l end.
Definition doc_lines (text : list N) : list (list N) := map strip_cr (split_byte 10 text).

Fixpoint on_boundary (ws : list Z) (c : Z) : bool :=
  if c =? 0 then true
  else match ws with
       | [] => false
       | w :: r => if c <? w then false else on_boundary r (c - w)
       end.
Definition zsum (l : list Z) : Z := fold_right Z.add 0 l.

(* written with if-then-else: vm_compute is call-by-value and Z.to_nat of a wrapped uint32 must never be evaluated *)
Definition pos_ok (lines : list (list N)) (l c : Z) : bool :=
  if (0 <=? l) && (l <? Z.of_nat (length lines)) then
    let ws := widths (nth (Z.to_nat l) lines []) 0 in
    if (0 <=? c) && (c <=? zsum ws) then on_boundary ws c else false
  else false.

Definition range_ok (lines : list (list N)) (r : prange) : bool :=
  if pos_ok lines (sl r) (sc r) then
    if pos_ok lines (el r) (ec r) then (sl r <? el r) || ((sl r =? el r) && (sc r <=? ec r)) else false
  else false.

(* bytes of a line between two UTF-16 columns *)
Fixpoint drop_units (l : list N) (skip : nat) (c : Z) : list N :=
  match l with
  | [] => []
  | b :: r =>
      match skip with
      | S k => drop_units r k c
      | O => if c <=? 0 then l else let n := cp_len b in drop_units r (n - 1) (c - (if Nat.eqb n 4 then 2 else 1))
      end
  end.
Fixpoint take_units (l : list N) (skip : nat) (c : Z) : list N :=
  match l with
  | [] => []
  | b :: r =>
      match skip with
      | S k => b :: take_units r k c
      | O => if c <=? 0 then [] else let n := cp_len b in b :: take_units r (n - 1) (c - (if Nat.eqb n 4 then 2 else 1))
      end
  end.
Definition text_under (lines : list (list N)) (r : prange) : list N :=
  take_units (drop_units (nth (Z.to_nat (sl r)) lines []) 0 (sc r)) 0 (ec r - sc r).
Definition covers (lines : list (list N)) (r : prange) (s : list N) : bool :=
  if sl r =? el r then beq (text_under lines r) s else false.

(* laminar families: two ranges are nested or disjoint (half-open comparison on positions) *)
Definition pos_le (l1 c1 l2 c2 : Z) : bool := (l1 <? l2) || ((l1 =? l2) && (c1 <=? c2)).
Definition nested_or_disjoint (a b : prange) : bool :=
  pos_le (el a) (ec a) (sl b) (sc b) || pos_le (el b) (ec b) (sl a) (sc a) ||
  (pos_le (sl a) (sc a) (sl b) (sc b) && pos_le (el b) (ec b) (el a) (ec a)) ||
  (pos_le (sl b) (sc b) (sl a) (sc a) && pos_le (el a) (ec a) (el b) (ec b)).
Fixpoint laminar (l : list prange) : bool :=
  match l with
  | [] => true
  | a :: r => forallb (nested_or_disjoint a) r && laminar r
  end.
(* folds are closed line intervals *)
Definition fold_nd (a b : Z * Z) : bool :=
  (snd a <? fst b) || (snd b <? fst a) || ((fst a <=? fst b) && (snd b <=? snd a)) || ((fst b <=? fst a) && (snd a <=? snd b)).
Fixpoint folds_laminar (l : list (Z * Z)) : bool :=
  match l with [] => true | a :: r => forallb (fold_nd a) r && folds_laminar r end.
