(* Specification side of C02 / C20: exact rational sums per commodity. *)
From Coq Require Import QArith Qabs.
From HL Require Import Lib.Bytes Model.Ast Lib.Dec Model.Balance.

(* the contribution of a posting as (commodity, rational): costed amounts are converted to
   their cost commodity: unit cost |qty| * price, total cost price, both with the sign of qty *)
Definition qeff (p : posting) : option (list N * Q) :=
  match po_amount p with
  | None => None
  | Some a =>
      match po_cost p with
      | Some c =>
          let price := dval (a_qty (co_amt c)) in
          let q := if co_total c then price else (price * Qabs (dval (a_qty a)))%Q in
          Some (c_sym (a_com (co_amt c)), if Qlt_le_dec (dval (a_qty a)) 0 then (- q)%Q else q)
      | None => Some (c_sym (a_com a), dval (a_qty a))
      end
  end.

Fixpoint qsum (k : list N) (ps : list posting) : Q :=
  match ps with
  | [] => 0%Q
  | p :: r =>
      (match qeff p with
       | Some (k', q) => if beq k k' then q else 0%Q
       | None => 0%Q
       end + qsum k r)%Q
  end.

Definition n_missing (ps : list posting) : nat :=
  length (filter (fun p => match po_amount p with None => true | Some _ => false end) ps).
