(* Boolean equality on the AST (all fields, all ranges). *)
From HL Require Import Lib.Bytes Model.Ast.
Open Scope Z_scope.

Definition pos_eqb (a b : pos) : bool := (p_line a =? p_line b) && (p_col a =? p_col b) && (p_off a =? p_off b).
Definition rng_eqb (a b : rng) : bool := pos_eqb (r_start a) (r_start b) && pos_eqb (r_end a) (r_end b).
Definition dec_eqb (a b : dec) : bool := (mant a =? mant b) && (dexp a =? dexp b).
Definition com_eqb (a b : commodity) : bool := beq (c_sym a) (c_sym b) && Bool.eqb (c_left a) (c_left b) && rng_eqb (c_rng a) (c_rng b).
Definition amt_eqb (a b : amount) : bool :=
  dec_eqb (a_qty a) (a_qty b) && beq (a_raw a) (a_raw b) && com_eqb (a_com a) (a_com b) &&
  Bool.eqb (a_signbefore a) (a_signbefore b) && rng_eqb (a_rng a) (a_rng b).
Definition cost_eqb (a b : cost) : bool := amt_eqb (co_amt a) (co_amt b) && Bool.eqb (co_total a) (co_total b) && rng_eqb (co_rng a) (co_rng b).
Definition assert_eqb (a b : assertion) : bool :=
  amt_eqb (as_amt a) (as_amt b) && Bool.eqb (as_strict a) (as_strict b) && Bool.eqb (as_incl a) (as_incl b) && rng_eqb (as_rng a) (as_rng b).
Definition tag_eqb (a b : tag) : bool := beq (tg_name a) (tg_name b) && beq (tg_value a) (tg_value b) && rng_eqb (tg_rng a) (tg_rng b).
Definition status_eqb (a b : status) : bool :=
  match a, b with StNone, StNone | StPending, StPending | StCleared, StCleared => true | _, _ => false end.
Definition vkind_eqb (a b : vkind) : bool :=
  match a, b with VNone, VNone | VBalanced, VBalanced | VUnbalanced, VUnbalanced => true | _, _ => false end.
Definition posting_eqb (a b : posting) : bool :=
  status_eqb (po_status a) (po_status b) && beq (po_acct a) (po_acct b) && rng_eqb (po_acct_rng a) (po_acct_rng b) &&
  option_eqb amt_eqb (po_amount a) (po_amount b) && option_eqb assert_eqb (po_assert a) (po_assert b) &&
  option_eqb cost_eqb (po_cost a) (po_cost b) && beq (po_comment a) (po_comment b) &&
  list_eqb tag_eqb (po_tags a) (po_tags b) && vkind_eqb (po_virtual a) (po_virtual b) && rng_eqb (po_rng a) (po_rng b).
Definition date_eqb (a b : date) : bool :=
  (d_year a =? d_year b) && (d_month a =? d_month b) && (d_day a =? d_day b) && rng_eqb (d_rng a) (d_rng b).
Definition comment_eqb (a b : comment) : bool :=
  beq (cm_text a) (cm_text b) && list_eqb tag_eqb (cm_tags a) (cm_tags b) && rng_eqb (cm_rng a) (cm_rng b).
Definition tx_eqb (a b : transaction) : bool :=
  date_eqb (tx_date a) (tx_date b) && option_eqb date_eqb (tx_date2 a) (tx_date2 b) && status_eqb (tx_status a) (tx_status b) &&
  beq (tx_code a) (tx_code b) && beq (tx_desc a) (tx_desc b) && beq (tx_payee a) (tx_payee b) && beq (tx_note a) (tx_note b) && rng_eqb (tx_prng a) (tx_prng b) &&
  list_eqb posting_eqb (tx_postings a) (tx_postings b) && list_eqb tag_eqb (tx_tags a) (tx_tags b) &&
  list_eqb comment_eqb (tx_comments a) (tx_comments b) && rng_eqb (tx_rng a) (tx_rng b).
Definition smap_eqb (a b : list (list N * list N)) : bool :=
  Nat.eqb (length a) (length b) &&
  forallb (fun kv => option_eqb beq (alookup (fst kv) b) (Some (snd kv))) a.
Definition dir_eqb (a b : directive) : bool :=
  match a, b with
  | DAccount n1 r1 t1 c1 s1 g1, DAccount n2 r2 t2 c2 s2 g2 =>
      beq n1 n2 && rng_eqb r1 r2 && list_eqb tag_eqb t1 t2 && beq c1 c2 && smap_eqb s1 s2 && rng_eqb g1 g2
  | DCommodity c1 f1 n1 s1 g1, DCommodity c2 f2 n2 s2 g2 =>
      com_eqb c1 c2 && beq f1 f2 && beq n1 n2 && smap_eqb s1 s2 && rng_eqb g1 g2
  | DInclude p1 g1, DInclude p2 g2 => beq p1 p2 && rng_eqb g1 g2
  | DPrice d1 c1 a1 g1, DPrice d2 c2 a2 g2 => date_eqb d1 d2 && com_eqb c1 c2 && amt_eqb a1 a2 && rng_eqb g1 g2
  | DYear y1 g1, DYear y2 g2 => (y1 =? y2) && rng_eqb g1 g2
  | DDefault s1 f1 g1, DDefault s2 f2 g2 => beq s1 s2 && beq f1 f2 && rng_eqb g1 g2
  | _, _ => false
  end.
Definition inc_eqb (a b : include) : bool := beq (inc_path a) (inc_path b) && rng_eqb (inc_rng a) (inc_rng b).
Definition journal_eqb (a b : journal) : bool :=
  list_eqb tx_eqb (j_txs a) (j_txs b) && list_eqb dir_eqb (j_dirs a) (j_dirs b) &&
  list_eqb comment_eqb (j_comments a) (j_comments b) && list_eqb inc_eqb (j_includes a) (j_includes b).
