(* Specification side of C01: the buffer of a conforming LSP client.  Positions are
   (line, UTF-16 code unit); line ends are LF or CRLF; a character past the end of the line
   clamps to the line's length (its EOL characters excluded); a line past the end of the
   document is the end of the document; a position strictly inside a surrogate pair is
   ill-formed (None).  Text is valid UTF-8; code-point length is read off the leading byte. *)
From HL Require Import Lib.Bytes Lib.Utf8 Model.Mapper Model.DocStore.
Open Scope N_scope.

Definition at_eol (t : list N) : bool :=
  match t with
  | [] => true
  | c :: r => (c =? LF) || ((c =? CR) && match r with c' :: _ => c' =? LF | [] => false end)
  end.

Definition cp_units (n : nat) : N := if Nat.eqb n 4 then 2 else 1.

(* byte offset, within the text starting at the beginning of a line, of UTF-16 column c.
   Structural on the bytes; `skip` = bytes of the current code point still to step over. *)
Fixpoint ref_col (t : list N) (skip : nat) (c : N) : option N :=
  match t with
  | [] => Some 0
  | b0 :: r =>
      match skip with
      | S k => option_map (N.add 1) (ref_col r k c)
      | O =>
          if c =? 0 then Some 0
          else if at_eol t then Some 0                    (* clamp: EOL characters excluded *)
          else let n := cp_len b0 in
               if c <? cp_units n then None               (* strictly inside a surrogate pair *)
               else option_map (N.add 1) (ref_col r (n - 1) (c - cp_units n))
      end
  end.

(* byte offset of (l, c) in t *)
Fixpoint ref_off (t : list N) (l c : N) : option N :=
  if l =? 0 then ref_col t 0 c
  else match t with
       | [] => Some 0                                   (* line past the end = end of text *)
       | b :: r => option_map (N.add 1) (ref_off r (if b =? LF then l - 1 else l) c)
       end.

Definition ref_apply (t : list N) (c : change) : list N :=
  match ch_range c with
  | None => ch_text c
  | Some r =>
      match ref_off t (sl r) (sc r), ref_off t (el r) (ec r) with
      | Some a, Some z => firstn (N.to_nat a) t ++ ch_text c ++ skipn (N.to_nat z) t
      | _, _ => t                                      (* ill-formed position: excluded by wf *)
      end
  end.

Definition ref_step (d : docs) (e : event) : docs :=
  match e with
  | Open u t => dstore u t d
  | Change u chs =>
      match dlookup u d with
      | Some t => dstore u (fold_left ref_apply chs t) d
      | None => d
      end
  | Close u => dremove u d
  end.

Definition ref_run (h : list event) : docs := fold_left ref_step h [].

(* ---- well-formed histories: what a conforming client sends ---- *)
Fixpoint no_lone_cr (t : list N) : bool :=
  match t with
  | [] => true
  | c :: r => (if c =? CR then match r with c' :: _ => c' =? LF | [] => false end else true) && no_lone_cr r
  end.

(* text made of well-formed code points, as Go's decoder judges them: at every code-point
   start the decoder consumes exactly the length announced by the leading byte, the rune has
   that UTF-8 length and the matching UTF-16 width, and the trailing bytes are >= 128 *)
Definition cp_head_ok (t : list N) : bool :=
  match t with
  | [] => true
  | b0 :: _ =>
      let '(rn, n) := decode t in
      Nat.eqb n (cp_len b0) && (rune_len rn =? N.of_nat n) && (u16len rn =? cp_units n)
  end.

Fixpoint cps_ok (t : list N) (skip : nat) : bool :=
  match t with
  | [] => Nat.eqb skip 0
  | b0 :: r =>
      match skip with
      | S k => (128 <=? b0) && cps_ok r k
      | O => cp_head_ok t && cps_ok r (cp_len b0 - 1)
      end
  end.

Definition wf_text (t : list N) : bool := cps_ok t 0 && no_lone_cr t.

Definition pos_leb (l1 c1 l2 c2 : N) : bool := (l1 <? l2) || ((l1 =? l2) && (c1 <=? c2)).

Definition wf_change (t : list N) (c : change) : bool :=
  wf_text (ch_text c) &&
  match ch_range c with
  | None => true
  | Some r =>
      pos_leb (sl r) (sc r) (el r) (ec r) &&
      match ref_off t (sl r) (sc r), ref_off t (el r) (ec r) with
      | Some a, Some z => a <=? z            (* start <= end, also as offsets *)
      | _, _ => false                        (* a position inside a surrogate pair *)
      end
  end.

(* a list of changes is well-formed relative to the evolving reference text *)
Fixpoint wf_changes (t : list N) (chs : list change) : bool :=
  match chs with
  | [] => true
  | c :: r => wf_change t c && wf_text (ref_apply t c) && wf_changes (ref_apply t c) r
  end.

Definition wf_event (d : docs) (e : event) : bool :=
  match e with
  | Open _ t => wf_text t
  | Change u chs => match dlookup u d with Some t => wf_changes t chs | None => true end
  | Close _ => true
  end.

Fixpoint wf_from (d : docs) (h : list event) : bool :=
  match h with
  | [] => true
  | e :: r => wf_event d e && wf_from (ref_step d e) r
  end.
Definition wf_history (h : list event) : bool := wf_from [] h.
