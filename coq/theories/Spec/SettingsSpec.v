(* Specification side of C19: what a payload must do to each setting, stated per field
   and independently of the order in which the server happens to apply keys.          *)
From HL Require Import Lib.Bytes Model.Settings.
Open Scope Z_scope.

Fixpoint last_some {A} (l : list (option A)) : option A :=
  match l with
  | [] => None
  | x :: r => match last_some r with Some v => Some v | None => x end
  end.

(* the (source, kind) pairs through which a payload can address field f, in precedence
   order: a later one overrides an earlier one *)
Definition candidates (f : field) : list entry :=
  filter (fun e => field_eqb (snd e) f) table.

Definition offered (f : field) (o : list (list N * json)) : option sval :=
  last_some (map (fun e => conv (snd (fst e)) (read_source (fst (fst e)) o)) (candidates f)).

(* the value a field must have after normalisation *)
Definition norm_field (f : field) (v : sval) : sval :=
  match f, v with
  | CMax, VZ z => if z <=? 0 then VZ 50 else v
  | FmtIndent, VZ z => if z <=? 0 then VZ 4 else v
  | CliPath, VS [] => VS hledger_path
  | CliTimeout, VZ z => if z <=? 0 then VZ 30000000000 else v
  | LimSize, VZ z => if z <=? 0 then VZ 10485760 else v
  | LimDepth, VZ z => if z <=? 0 then VZ 50 else v
  | _, _ => v
  end.

Definition spec_object (f : field) (base : settings) (o : list (list N * json)) : sval :=
  norm_field f (match offered f o with Some v => v | None => get f base end).

(* peel "hledger" wrappers: the innermost wrapped value is the payload proper *)
Fixpoint unwrap (fuel : nat) (raw : json) : option json :=
  match raw with
  | JObj o =>
      match alookup_last (bs "hledger") o with
      | Some nested => match fuel with O => None | S n => unwrap n nested end
      | None => Some raw
      end
  | _ => Some raw
  end.

Definition spec_payload (f : field) (base : settings) (raw : json) : sval :=
  match unwrap (jdepth raw) raw with
  | Some (JObj o) => spec_object f base o
  | _ => norm_field f (get f base)
  end.

Definition normalized (s : settings) : Prop :=
  0 < c_max s /\ 0 < fmt_indent s /\ cli_path s <> [] /\ 0 < cli_timeout s /\
  0 < lim_size s /\ 0 < lim_depth s.

Definition normalizedb (s : settings) : bool :=
  (0 <? c_max s) && (0 <? fmt_indent s) && negb (beq (cli_path s) []) && (0 <? cli_timeout s) &&
  (0 <? lim_size s) && (0 <? lim_depth s).
