(* Correspondence and oracle for C09. *)
From HL Require Export Lib.Bytes Lib.Judge Lib.Utf8 Model.Ast Model.References.
Open Scope Z_scope.

Record rq := mkRq {
  r_pl : Z; r_pc : Z; r_incl : bool;
  o_refs : list loc;                 (* textDocument/references *)
  o_rename : list loc;               (* ranges of the rename edits, all files *)
  rename_applies : bool              (* harness: applying the rename edits gives the texts with exactly the occurrences renamed *)
}.
Record case := mkCase {
  res_files : jmap; res_primary : option journal; res_exists : bool;   (* the resolved journal the server consults *)
  current : N; cur_journal : journal;                                  (* the open document (current text) *)
  scope : jmap;                      (* what the property names: current text + every file of its tree / workspace, own paths *)
  has_root : bool; edited : bool (* the open document was changed after it was opened *); reqs : list rq }.

Definition prange_eqb (a b : prange) : bool := (sl a =? sl b) && (sc a =? sc b) && (el a =? el b) && (ec a =? ec b).
Definition loc_full_eqb (a b : loc) : bool := (l_path a =? l_path b)%N && prange_eqb (l_rng a) (l_rng b).

Definition model_refs (c : case) (r : rq) (incl : bool) : list loc :=
  match find_target (j_txs (cur_journal c)) (r_pl r) (r_pc r) with
  | None => []
  | Some (k, name) => find_references k name incl (all_journals (res_files c) (res_primary c) (res_exists c) (current c) (cur_journal c))
  end.

Definition tie_rq (c : case) (r : rq) : bool :=
  list_eqb loc_full_eqb (model_refs c r (r_incl r)) (o_refs r) &&
  list_eqb loc_full_eqb (model_refs c r true) (o_rename r).
Definition tie_ok (c : case) : bool := forallb (tie_rq c) (reqs c).

(* the occurrences of the symbol in the scope, attributed to their own files; compared by
   (file, start line, start character) -- range ends are C08's subject; payees by (file, line) *)
Definition start_key (k : skind) (l : loc) : N * Z * Z :=
  (l_path l, sl (l_rng l), match k with KPayee => 0 | _ => sc (l_rng l) end).
Definition key_eqb (a b : N * Z * Z) : bool := (fst (fst a) =? fst (fst b))%N && (snd (fst a) =? snd (fst b)) && (snd a =? snd b).
Definition keys_same_set (a b : list (N * Z * Z)) : bool :=
  forallb (fun x => existsb (key_eqb x) b) a && forallb (fun x => existsb (key_eqb x) a) b.

Definition spec_occurrences (k : skind) (name : list N) (incl : bool) (m : jmap) : list (N * Z * Z) :=
  flat_map (fun pj => map (fun r => start_key k (mkLoc (fst pj) r)) (hits k name incl (snd pj))) m.

Definition oracle_rq (c : case) (r : rq) : bool :=
  match find_target (j_txs (cur_journal c)) (r_pl r) (r_pc r) with
  | None => match o_refs r with [] => true | _ => false end
  | Some (k, name) =>
      keys_same_set (map (start_key k) (o_refs r)) (spec_occurrences k name (r_incl r) (scope c)) &&
      keys_same_set (map (start_key k) (o_rename r)) (spec_occurrences k name true (scope c)) &&
      rename_applies r
  end.
Definition oracle_ok (c : case) : bool := forallb (oracle_rq c) (reqs c).

(* class 3: no workspace root and the document was edited: the per-document resolved journal comes from the
   second background load, which the shared loader serves from its cache without nested includes (C11) *)
(* class 1: workspace mode and the request comes from a file other than the root journal
   (the root's AST is filed under the requesting file's path); class 2: the symbol has a
   directive declaration in scope (its name range has no end: rename edits are invalid) *)
Definition has_decl (c : case) (r : rq) : bool :=
  match find_target (j_txs (cur_journal c)) (r_pl r) (r_pc r) with
  | Some (KAccount, name) => existsb (fun pj => existsb (fun d => match d with DAccount n _ _ _ _ _ => beq n name | _ => false end) (j_dirs (snd pj))) (scope c)
  | Some (KCommodity, name) => existsb (fun pj => existsb (fun d => match d with DCommodity cm _ _ _ _ => beq (c_sym cm) name | _ => false end) (j_dirs (snd pj))) (scope c)
  | _ => false
  end.
Definition known (c : case) : N :=
  if has_root c && negb (current c =? 3)%N then 1%N   (* file 3 = main.journal, the root *)
  else if negb (has_root c) && edited c &&
          negb (forallb (fun r => keys_same_set (map (start_key KAccount) (o_refs r)) (map (start_key KAccount) (model_refs c r (r_incl r)))) (reqs c) &&
                forallb (fun r => oracle_rq c r || has_decl c r) (reqs c)) then 3%N
  else if forallb (fun r => oracle_rq c r || has_decl c r) (reqs c) then 2%N else 0%N.

Definition judge_all := judge_with tie_ok oracle_ok known.
