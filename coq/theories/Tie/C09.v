(* Correspondence and oracle for C09. *)
From HL Require Export Lib.Bytes Lib.Judge Lib.Utf8 Model.Ast Model.References.
Open Scope Z_scope.

Record rq := mkRq {
  r_pl : Z; r_pc : Z; r_incl : bool;
  o_refs : list loc;                 (* textDocument/references *)
  o_rename : list loc;               (* ranges of the rename edits, all files *)
  rename_applies : bool              (* harness: applying the rename edits gives the texts with exactly the occurrences renamed *)
}.
Record case := mkCase {
  res_files : jmap; res_primary : option journal; res_exists : bool;   (* the resolved journal the server consults *)
  primary_path : N;                                                    (* the file its primary was parsed from *)
  current : N; cur_journal : journal;                                  (* the open document (current text) *)
  scope : jmap;                      (* what the property names: current text + every file of its tree / workspace, own paths *)
  has_root : bool; edited : bool (* the open document was changed after it was opened *); reqs : list rq }.

Definition prange_eqb (a b : prange) : bool := (sl a =? sl b) && (sc a =? sc b) && (el a =? el b) && (ec a =? ec b).
Definition loc_full_eqb (a b : loc) : bool := (l_path a =? l_path b)%N && prange_eqb (l_rng a) (l_rng b).

Definition model_refs (c : case) (r : rq) (incl : bool) : list loc :=
  match find_target (j_txs (cur_journal c)) (r_pl r) (r_pc r) with
  | None => []
  | Some (k, name) => find_references k name incl (all_journals (res_files c) (res_primary c) (res_exists c) (primary_path c) (current c) (cur_journal c))
  end.

Definition tie_rq (c : case) (r : rq) : bool :=
  list_eqb loc_full_eqb (model_refs c r (r_incl r)) (o_refs r) &&
  list_eqb loc_full_eqb (model_refs c r true) (o_rename r).
Definition tie_ok (c : case) : bool := forallb (tie_rq c) (reqs c).

(* the occurrences of the symbol in the scope, attributed to their own files; compared by
   (file, start line, start character) -- range ends are C08's subject; payees by (file, line) *)
Definition start_key (k : skind) (l : loc) : N * Z * Z :=
  (l_path l, sl (l_rng l), match k with KPayee => 0 | _ => sc (l_rng l) end).
Definition key_eqb (a b : N * Z * Z) : bool := (fst (fst a) =? fst (fst b))%N && (snd (fst a) =? snd (fst b)) && (snd a =? snd b).
Definition keys_same_set (a b : list (N * Z * Z)) : bool :=
  forallb (fun x => existsb (key_eqb x) b) a && forallb (fun x => existsb (key_eqb x) a) b.

Definition spec_occurrences (k : skind) (name : list N) (incl : bool) (m : jmap) : list (N * Z * Z) :=
  flat_map (fun pj => map (fun r => start_key k (mkLoc (fst pj) r)) (hits k name incl (snd pj))) m.

Definition oracle_rq (c : case) (r : rq) : bool :=
  match find_target (j_txs (cur_journal c)) (r_pl r) (r_pc r) with
  | None => match o_refs r with [] => true | _ => false end
  | Some (k, name) =>
      keys_same_set (map (start_key k) (o_refs r)) (spec_occurrences k name (r_incl r) (scope c)) &&
      keys_same_set (map (start_key k) (o_rename r)) (spec_occurrences k name true (scope c)) &&
      rename_applies r
  end.
Definition oracle_ok (c : case) : bool := forallb (oracle_rq c) (reqs c).

(* no recorded finding is left for C09.  Repaired in /repo: 1 (request from an included file in
   workspace mode, dcc8365: getResolvedAround), 2 (directive name range without an end, 46ef8ab),
   3 (cache hit without nested includes, 01b2939). *)
Definition known (c : case) : N := 0%N.

Definition judge_all := judge_with tie_ok oracle_ok known.
