(* Correspondence and oracle for C16. *)
From HL Require Export Lib.Bytes Lib.Judge Lib.Utf8 Lib.UnicodeTables Model.Mapper Model.Lexer Model.Parser Model.Completion.
Open Scope Z_scope.

(* one completion request: position, trigger, settings, and the answers of two servers that
   differ only in maxResults (maxr < maxr2): labels in order, LSP item kind of the first item
   (0 = no item), start character of the text edit (None = no text edit) *)
Record req := mkReq {
  q_ln : N; q_ch : N; q_trigger : N; q_fuzzy : bool; q_max : Z; q_max2 : Z;
  o_labels : list (list N); o_labels2 : list (list N); o_kind : N; o_edit : option Z }.
Record case := mkCase { an : analysis;
  true_acc : list (list N * Z); true_payee : list (list N * Z);   (* usage counts recomputed by the harness from the files in scope *)
  content : list N; reqs : list req }.

Definition labels_eqb := list_eqb beq.

Definition counts_kind (kind : N) (c : case) : list (list N * Z) :=
  if (kind =? 6)%N then true_acc c else if (kind =? 7)%N then true_payee c
  else if (kind =? 13)%N then an_com_counts (an c) else if (kind =? 10)%N then an_tag_counts (an c) else [].



Definition tie_req (c : case) (r : req) : bool :=
  let '(cx, labels, es) := completion (an c) (content c) (q_ln r) (q_ch r) (q_trigger r) (q_fuzzy r) (q_max r) in
  let '(_, labels2, _) := completion (an c) (content c) (q_ln r) (q_ch r) (q_trigger r) (q_fuzzy r) (q_max2 r) in
  match cx with
  | CDate => true                                   (* date items depend on the clock: not compared *)
  | _ => labels_eqb labels (o_labels r) && labels_eqb labels2 (o_labels2 r) &&
         (match o_labels r with [] => true | _ => option_eqb Z.eqb es (o_edit r) end)
  end.
Definition tie_ok (c : case) : bool := forallb (tie_req c) (reqs c).

(* ---- the property, clause by clause, on the implementation's answers ---- *)
Fixpoint is_subseq (p s : list N) : bool :=
  match p, s with
  | [], _ => true
  | _, [] => false
  | x :: p', y :: s' => if (x =? y)%N then is_subseq p' s' else is_subseq p s'
  end.

Definition universe (kind : N) (a : analysis) : list (list N) :=
  if (kind =? 6)%N then an_accounts a            (* Variable *)
  else if (kind =? 7)%N then an_payees a          (* Class *)
  else if (kind =? 13)%N then an_commodities a    (* Enum *)
  else if (kind =? 10)%N then an_tags a           (* Property *)
  else if (kind =? 12)%N then flat_map snd (an_tagvalues a)   (* Value *)
  else [].
Fixpoint non_increasing (l : list Z) : bool :=
  match l with
  | a :: ((b :: _) as r) => (b <=? a) && non_increasing r
  | _ => true
  end.

(* bit 0 sound, 1 prefix-complete, 2 bounded, 3 monotone, 4 ranked, 5 edit range is [start <= cursor, cursor],
   6 the text under the edit range is exactly the typed fragment *)
Definition clause_mask (c : case) (r : req) : N :=
  let cx := determine_context (content c) (q_ln r) (q_ch r) (q_trigger r) in
  match cx with
  | CDate => 0%N
  | _ =>
      let frag := extract_query (content c) (q_ln r) (q_ch r) cx in
      let lf := lower_runes frag in
      let k := o_kind r in
      let uni := universe k (an c) in
      let sound :=
        forallb (fun l => existsb (beq l) uni &&
                          (if q_fuzzy r then is_subseq (lower_runes (trim_suffix_colon frag)) (lower_runes l) || is_subseq lf (lower_runes l)
                           else runes_prefix lf (lower_runes l))) (o_labels r) in
      let complete :=
        if Z.of_nat (length (o_labels r)) <? q_max r then
          match k with
          | 0%N => true
          | _ => forallb (fun n => negb (runes_prefix lf (lower_runes n)) || existsb (beq n) (o_labels r))
                         (match cx with CTagValue => o_labels r | _ => uni end)
          end
        else true in
      let bounded := Z.of_nat (length (o_labels r)) <=? q_max r in
      let monotone := labels_eqb (o_labels r) (firstn (Z.to_nat (q_max r)) (o_labels2 r)) in
      let ranked :=
        match frag with
        | [] => non_increasing (map (count_of (counts_kind k c)) (o_labels r))
        | _ => true
        end in
      let edit :=
        match o_labels r, o_edit r with
        | [], _ => true
        | _, None => match cx with CAccount | CCommodity | CPayee => false | _ => true end
        | _, Some s =>
            match nth_line (content c) (q_ln r) with
            | Some line => s <=? Z.of_N (q_ch r)
            | None => false
            end
        end in
      let edit_text :=
        match o_labels r, o_edit r with
        | [], _ | _, None => true
        | _, Some s =>
            match nth_line (content c) (q_ln r) with
            | Some line =>
                negb (s <=? Z.of_N (q_ch r)) ||
                beq (skipn (N.to_nat (u16_to_byte line 0 0 (Z.to_N s))) (zfirstn (clamp_col line (q_ch r)) line)) frag
            | None => true
            end
        end in
      ((if sound then 0 else 1) + (if complete then 0 else 2) + (if bounded then 0 else 4) +
       (if monotone then 0 else 8) + (if ranked then 0 else 16) + (if edit then 0 else 32) + (if edit_text then 0 else 64))%N
  end.

Definition oracle_ok (c : case) : bool := forallb (fun r => (clause_mask c r =? 0)%N) (reqs c).

(* no recorded finding is left for C16.  Repaired in /repo: the edit range (54bc582), the argument
   context inside a directive keyword (5efbcb0), the by-prefix narrowing cut at a blank and
   case-sensitive (9b23eda). *)
Definition known (c : case) : N := 0%N.

Definition judge_all := judge_with tie_ok oracle_ok known.
