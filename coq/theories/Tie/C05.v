(* Oracle for C05: the clauses of the property on the implementation's edits. *)
From HL Require Export Tie.Fmt.
Open Scope Z_scope.

(* the posting lines of t as they read after the edits (t' = the edited text) *)
Definition on_error_line (errs : list (N * N)) (p : posting) : bool :=
  existsb (fun e => posting_line p =? Z.of_N (fst e) - 1) errs.

Definition round_aligned (strict : bool) (c : fcase) (t t' : list N) (errs : list (N * N)) : bool :=
  let o := norm_opts (opts c) in
  if fo_align o then
    let ps := Formatter.all_postings (j_txs (journal_of t)) in
    let ps := if strict then ps else filter (fun p => negb (on_error_line errs p)) ps in
    let ls := split_lf t' in
    aligned_ok (fo_indent o) ps (map (fun p => fst (line_body (line_nth ls (posting_line p)))) ps)
  else true.

(* failing clauses: 1 an edit list is not well-formed, 2 formatting the formatted text changes it,
   4 alignment is on and a rewritten posting line is not aligned *)
Definition failmask (c : fcase) : N :=
  ((if edits_wf (split_lf (text c)) (edits1 c) && edits_wf (split_lf (text1 c)) (edits2 c) then 0 else 1) +
   (if beq (text1 c) (text2 c) then 0 else 2) +
   (if round_aligned true c (text c) (text1 c) (errs0 c) && round_aligned true c (text1 c) (text2 c) (errs1 c) then 0 else 4))%N.

Definition oracle_ok (c : fcase) : bool := (failmask c =? 0)%N.
(* ---- known findings (bit mask)
   1  formatted_number_misread: explains "formatting the formatted text changes it"
   2  error_line_left_unformatted: a posting on a line with a syntax error is not rewritten; explains
      "not aligned" when every posting on an error-free line is aligned *)
Definition explained (c : fcase) : N * N :=
  let k1 := if misread_in c (text c) || misread_in c (text1 c) then (1, 2)%N else (0, 0)%N in
  let k2 := if round_aligned false c (text c) (text1 c) (errs0 c) && round_aligned false c (text1 c) (text2 c) (errs1 c) &&
               existsb (on_error_line (errs0 c)) (Formatter.all_postings (j_txs (journal_of (text c))))
            then (2, 4)%N else (0, 0)%N in
  (N.lor (fst k1) (fst k2), N.lor (snd k1) (snd k2)).

Definition known (c : fcase) : N :=
  let m := failmask c in
  if (m =? 0)%N then 0%N
  else let '(cls, cl) := explained c in
       if (N.land m (N.lnot cl 8) =? 0)%N
       then N.lor (if (N.land m 2 =? 0)%N then 0 else N.land cls 1) (if (N.land m 4 =? 0)%N then 0 else N.land cls 2)
       else 0%N.
Definition judge_all := judge_with tie_ok oracle_ok known.
