(* Cases and oracle for C14.
   LocCase    one shared location with its access rows, regenerated from the Go source by the
              translator (harness/c14extract.go) on every run; canary = the translator still sees
              the accesses it must see for this location
   BlockCase  the requests to the client that wait for an answer, with the locks held across them
   OrderCase  the lock nesting edges (outer, inner) in the translator's numbering
   LeakCase   number of return points reached with a lock held and no deferred release
   RunCase    a batch of race-detector stress scenarios: scenarios run, race report signatures,
              hang, crash, responses that differ from the quiesced sequential replay *)
From HL Require Export Lib.Bytes Lib.Judge Model.Locks.
Open Scope N_scope.

Inductive ccase :=
| LocCase (name : list N) (rows : list row) (canary : bool)
| BlockCase (rows : list brow) (canary : bool)
| OrderCase (edges : list (N * N))
| LeakCase (held_at_return : N)
| RunCase (scenarios : N) (races : list (list N)) (hang crash : bool) (mismatch : list (list N)).

(* thread kinds: 0 initialisation (before any other thread exists), 1 the dispatcher (one
   instance), >= 2 background goroutines (any number of instances of each) *)
Definition conc (a b : N) : bool := negb (a =? 0) && negb (b =? 0) && negb ((a =? 1) && (b =? 1)).

Definition tie_ok (c : ccase) : bool :=
  match c with
  | LocCase _ _ canary => canary
  | BlockCase _ canary => canary
  | OrderCase _ => true
  | LeakCase _ => true
  | RunCase n _ _ _ _ => 0 <? n
  end.

Definition oracle_ok (c : ccase) : bool :=
  match c with
  | LocCase _ rows _ => disciplined conc rows
  | BlockCase rows _ => no_lock_across_blocking rows
  | OrderCase edges => order_ok edges
  | LeakCase n => n =? 0
  | RunCase _ races hang crash mismatch => match races with [] => true | _ => false end && negb hang && negb crash && match mismatch with [] => true | _ => false end
  end.

Fixpoint is_infix (p s : list N) : bool :=
  (fix pre (p s : list N) : bool := match p, s with [] , _ => true | x :: p', y :: s' => (x =? y) && pre p' s' | _, [] => false end) p s
  || match s with [] => false | _ :: r => is_infix p r end.

(* known findings
   2  stale_snapshot_without_root: without a root journal, position requests are answered from
      the last published analysis of the document, not from its current text *)
Definition known (c : ccase) : N :=
  match c with
  | RunCase _ races hang crash mismatch =>
      if hang || crash then 0
      else
        match races with
        | [] => if forallb (is_infix (bs "noroot:")) mismatch then (match mismatch with [] => 0 | _ => 2 end) else 0
        | _ => 0
        end
  | _ => 0
  end.

Definition judge_all := judge_with tie_ok oracle_ok known.
