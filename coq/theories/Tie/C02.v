(* Correspondence and oracle for C02. *)
From Coq Require Import QArith Qabs.
From HL Require Export Lib.Bytes Lib.Judge Model.Ast Lib.Dec Model.Balance Spec.Rational.

Inductive overdict := OOk | OUnbalanced (parts : list (list N * dec)) | OMultiple.

(* per transaction: the postings as the generator intended them, the postings the
   implementation's parser produced, and the balance diagnostic that was published *)
Record txcase := mkTxCase { intended : list posting; parsed : list posting; observed : overdict }.
Record case := mkCase { txs : list txcase; flags : N }.

Definition parts_match (a b : list (list N * dec)) : bool :=
  forallb (fun kd => existsb (fun kd' => beq (fst kd) (fst kd') && deqv (snd kd) (snd kd')) b) a &&
  forallb (fun kd => existsb (fun kd' => beq (fst kd) (fst kd') && deqv (snd kd) (snd kd')) a) b &&
  Nat.eqb (length a) (length b).

Definition tie_tx (t : txcase) : bool :=
  match balance_verdict (parsed t), observed t with
  | BOk, OOk => true
  | BMultiple, OMultiple => true
  | BUnbalanced p, OUnbalanced q => parts_match p q
  | _, _ => false
  end.
Definition tie_ok (c : case) : bool := forallb tie_tx (txs c).

(* the exact-sum rule, evaluated in Q on the intended structure *)
Fixpoint keys_of (ps : list posting) (acc : list (list N)) : list (list N) :=
  match ps with
  | [] => acc
  | p :: r =>
      match qeff p with
      | Some (k, _) => if existsb (beq k) acc then keys_of r acc else keys_of r (acc ++ [k])
      | None => keys_of r acc
      end
  end.

Definition qparts (ps : list posting) : list (list N * Q) :=
  flat_map (fun k => let s := qsum k ps in if Qeq_bool s 0 then [] else [(k, Qabs s)]) (keys_of ps []).

Definition qparts_match (e : list (list N * Q)) (o : list (list N * dec)) : bool :=
  forallb (fun kq => existsb (fun kd => beq (fst kq) (fst kd) && Qeq_bool (snd kq) (dval (snd kd))) o) e &&
  forallb (fun kd => existsb (fun kq => beq (fst kq) (fst kd) && Qeq_bool (snd kq) (dval (snd kd))) e) o &&
  Nat.eqb (length e) (length o).

Definition oracle_tx (t : txcase) : bool :=
  let real := real_postings (intended t) in
  let miss := n_missing real in
  match observed t with
  | OMultiple => Nat.leb 2 miss
  | OOk => Nat.eqb miss 1 || (Nat.eqb miss 0 && match qparts real with [] => true | _ => false end)
  | OUnbalanced parts => Nat.eqb miss 0 && negb (match qparts real with [] => true | _ => false end) && qparts_match (qparts real) parts
  end.
Definition oracle_ok (c : case) : bool := forallb oracle_tx (txs c).

Definition known (c : case) : N := flags c.
Definition judge_all := judge_with tie_ok oracle_ok known.
