(* Correspondence and oracle for C20. *)
From Coq Require Import QArith.
From HL Require Export Lib.Bytes Lib.Judge Model.Ast Lib.Dec Model.Balance Model.Hover.

Inductive hkind := HAccount (name : list N) | HPayee (name : list N) | HTag (name : list N)
                 | HTagValue (name value : list N).

(* one hover: what was asked, the transaction list the server aggregated over (its resolved
   journal at that moment), the transactions of the scope the property names (current text +
   every file of its include tree or workspace, each once), and the figures shown *)
Record hobs := mkHobs { h_kind : hkind; h_bal : list (list N * dec); h_count : nat }.
(* a round = the hovers made between two edits: they share the server's transaction list, the
   scope's transactions (real parser) and the scope's amounts as the generator intended them *)
Record round := mkRound { r_src : list transaction; r_scope : list transaction;
                          r_intended : list (list N * list N * dec);   (* account, commodity, quantity *)
                          r_hovers : list hobs }.
Record case := mkCase { rounds : list round; flags : N }.

Definition bal_eqb (a b : list (list N * dec)) : bool :=
  Nat.eqb (length a) (length b) &&
  forallb (fun kd => match alookup (fst kd) b with Some d => deqv (snd kd) d | None => false end) a.

Definition figures (k : hkind) (txs : list transaction) : list (list N * dec) * nat :=
  match k with
  | HAccount n => (acct_balances n txs, count_postings n txs)
  | HPayee n => ([], count_payee n txs)
  | HTag n => ([], count_tag n txs)
  | HTagValue n v => ([], count_tag_value n v txs)
  end.

Definition matches (h : hobs) (txs : list transaction) : bool :=
  let '(b, c) := figures (h_kind h) txs in bal_eqb b (h_bal h) && bal_eqb (h_bal h) b && Nat.eqb c (h_count h).

(* sums of the intended quantities (notation-independent): every displayed figure equals the
   sum for its commodity and every commodity with a posted amount is displayed *)
Definition intended_sum (name sym : list N) (l : list (list N * list N * dec)) : dec :=
  fold_left (fun acc x => if beq (fst (fst x)) name && beq (snd (fst x)) sym then dadd acc (snd x) else acc) l dzero.
Definition intended_ok (h : hobs) (l : list (list N * list N * dec)) : bool :=
  match h_kind h with
  | HAccount n =>
      forallb (fun kd => deqv (snd kd) (intended_sum n (fst kd) l)) (h_bal h) &&
      forallb (fun x => negb (beq (fst (fst x)) n) || isSome (alookup (snd (fst x)) (h_bal h))) l
  | _ => true
  end.

Definition tie_ok (c : case) : bool :=
  forallb (fun r => forallb (fun h => matches h (r_src r)) (r_hovers r)) (rounds c).
Definition oracle_ok (c : case) : bool :=
  forallb (fun r => forallb (fun h => matches h (r_scope r) && intended_ok h (r_intended r)) (r_hovers r)) (rounds c).
Definition known (c : case) : N := flags c.
Definition judge_all := judge_with tie_ok oracle_ok known.
