(* Case type and correspondence shared by C04 and C05: one formatting session against the real
   server (open, format, apply, change, format again, apply). *)
From HL Require Export Lib.Bytes Lib.Judge Lib.Utf8 Model.Ast Lib.Dec Model.Lexer Model.Parser
  Model.NumberFormat Model.Formatter Spec.FormatSpec.
Open Scope Z_scope.

Record diag := mkDiag { dg_line : Z; dg_code : list N; dg_msg : list N }.

Record fcase := mkCase {
  text : list N;
  workspace : bool;                 (* a workspace root whose root journal is this document *)
  inc : option (list N);            (* content of formats.journal beside it, when present *)
  opts : fopts;
  errs0 : list (N * N); edits1 : list fedit; text1 : list N; diags0 : list diag;
  errs1 : list (N * N); edits2 : list fedit; text2 : list N; diags1 : list diag;
  features : N }.                   (* what the generator put into the text (bit mask, see harness/c04.go) *)

Definition fe_eqb (a b : fedit) : bool :=
  (fe_sl a =? fe_sl b) && (fe_sc a =? fe_sc b) && (fe_el a =? fe_el b) && (fe_ec a =? fe_ec b) && beq (fe_new a) (fe_new b).
Definition errs_eqb (a b : list (N * N)) : bool :=
  list_eqb (fun x y => (fst x =? fst y)%N && (snd x =? snd y)%N) a b.

Definition inc_name : list N := bs "formats.journal".

(* the format table Server.Format passes to the formatter *)
Definition formats_for (c : fcase) (j : journal) : option (option fmap) :=
  if workspace c then
    match inc c with
    | None => Some (Some (ws_formats (j_dirs j)))
    | Some it =>
        match parse it with
        | Some (ji, _) =>
            Some (Some (ws_formats (j_dirs j ++ (if existsb (fun i => beq (inc_path i) inc_name) (j_includes j) then j_dirs ji else []))))
        | None => None
        end
    end
  else Some None.

Definition model_round (c : fcase) (t : list N) : option (journal * list (N * N) * list fedit) :=
  match parse t with
  | Some (j, errs) =>
      match formats_for c j with
      | Some fm => Some (j, errs, server_format j errs t fm (opts c))
      | None => None
      end
  | None => None
  end.

Definition round_ok (c : fcase) (t : list N) (errs : list (N * N)) (es : list fedit) (t' : list N) : bool :=
  match model_round c t with
  | Some (j, merrs, mes) =>
      errs_eqb merrs errs && list_eqb fe_eqb mes es && option_eqb beq (apply_edits t es) (Some t') &&
      post_lines_ok j (split_lf t)              (* the premise of C04_frame / C05_edits_wf *)
  | None => false
  end.

Definition tie_ok (c : fcase) : bool :=
  round_ok c (text c) (errs0 c) (edits1 c) (text1 c) && round_ok c (text1 c) (errs1 c) (edits2 c) (text2 c).

Definition has_feature (c : fcase) (b : N) : bool := negb (N.land (features c) b =? 0)%N.
Definition journal_of (t : list N) : journal :=
  match parse t with Some (j, _) => j | None => mkJournal [] [] [] [] end.
Definition posting_lines_of (j : journal) : list Z := map posting_line (Formatter.all_postings (j_txs j)).
Definition errs_lines_eqb (a b : list (N * N)) : bool := list_eqb (fun x y => (fst x =? fst y)%N) a b.

(* ---- classifier shared by C04 and C05: a number the formatter wrote correctly under the display
   format in scope (read with that format's decimal mark it is the posting's quantity) that the
   parser's own number reader takes for another quantity ---- *)
Definition fm_of (c : fcase) (j : journal) : fmap :=
  match formats_for c j with Some (Some m) => m | _ => extract_formats j end.

Definition format_in_scope (a : amount) (fm : fmap) : option nf :=
  match alookup (c_sym (a_com a)) fm with
  | Some f => Some (keep_precision f a)
  | None => match alookup [] fm with Some f => Some (keep_precision f a) | None => None end
  end.

Definition intended_value (s : list N) (mark : N) : dec :=
  let neg := match s with ch :: _ => (ch =? 45)%N | [] => false end in
  let '(m, e, _) :=
    fold_left (fun (st : Z * Z * bool) (ch : N) =>
                 let '(m, e, seen) := st in
                 if ((48 <=? ch) && (ch <=? 57))%N then (m * 10 + Z.of_N (ch - 48), (if seen then e + 1 else e), seen)
                 else if (ch =? mark)%N then (m, e, true) else (m, e, seen)) s (0, 0, false) in
  mkDec (if neg then - m else m) (- e).

Definition parser_reads (s : list N) (q : dec) : bool :=
  match new_from_string (normalize_number (remove_byte 32 s)) with
  | Some q' => deqv q' q
  | None => false
  end.

Definition misread (fm : fmap) (a : amount) : bool :=
  match format_in_scope a fm with
  | Some f => let s := format_qty a fm in deqv (intended_value s (nf_mark f)) (a_qty a) && negb (parser_reads s (a_qty a))
  | None => false
  end.

Definition amounts_of_posting (p : posting) : list amount :=
  match po_amount p with Some a => [a] | None => [] end ++
  match po_cost p with Some k => [co_amt k] | None => [] end ++
  match po_assert p with Some k => [as_amt k] | None => [] end.
Definition amounts_of (j : journal) : list amount := flat_map amounts_of_posting (Formatter.all_postings (j_txs j)).

Definition misread_in (c : fcase) (t : list N) : bool :=
  let j := journal_of t in existsb (misread (fm_of c j)) (amounts_of j).
