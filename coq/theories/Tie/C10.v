(* Correspondence and oracle for C10 (one cold load per case). *)
From HL Require Export Lib.Bytes Lib.Judge Model.Loader Spec.LoaderSpec.
Open Scope N_scope.

(* ob_perrs: the syntax errors of the loaded files (file, line) as the loader reports them; files are not
   parsed in the model, so this component is compared between loaders (C11), not with the model *)
Record obs := mkObs { ob_nil : bool; ob_order : list N; ob_files : list (N * N); ob_errs : list lerr;
                      ob_perrs : list (N * N) }.
Record case := mkCase { c_fs : fsys; c_lim : limits; c_root : N; c_override : option file; c_obs : obs }.

Definition obs_matches_model (o : obs) (m : lout) : bool :=
  match o_res m with
  | None => ob_nil o && errs_same_list (ob_errs o) (o_errs m)
  | Some r =>
      negb (ob_nil o) && listN_eqb (ob_order o) (r_order r) &&
      listN_eqb (pairs_code (ob_files o)) (pairs_code (r_files r)) &&
      errs_same_list (ob_errs o) (o_errs m)
  end.

Definition tie_ok (c : case) : bool :=
  match load_root (c_fs c) (c_lim c) [] (c_root c) (c_override c) with
  | Some m => obs_matches_model (c_obs c) m
  | None => false
  end.

(* the specification on the implementation's output: the loaded files are exactly those of
   the reference traversal, each once, and the diagnostics are exactly the reference ones *)
Definition oracle_ok (c : case) : bool :=
  match ref_root (c_fs c) (c_lim c) (c_root c) (c_override c) with
  | Some r =>
      let o := c_obs c in
      listN_eqb (sortN (ob_order o)) (sortN (ro_order r)) && nodupb (ob_order o) &&
      listN_eqb (sortN (map fst (ob_files o))) (sortN (ro_order r)) &&
      errs_same_multiset (ob_errs o) (ro_errs r)
  | None => false
  end.

(* no recorded finding is left for C10 (the two classes of the pinned tree -- a file reached again
   reported as a cycle, the depth limit counting files -- were repaired in /repo) *)
Definition known (c : case) : N := 0.

Definition judge_all := judge_with tie_ok oracle_ok known.
