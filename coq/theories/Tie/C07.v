(* Correspondence and oracle for C07: a journal J and the same journal with one entry damaged. *)
From HL Require Export Lib.Bytes Lib.Judge Model.Ast Lib.Dec Model.Lexer Model.Parser Spec.AstEq Spec.Grammar.
Open Scope Z_scope.

Record case := mkCase {
  input2 : list N;                                   (* the damaged text *)
  ast1 : journal; errs1 : list (N * N);              (* real parser on J *)
  ast2 : journal; errs2 : list (N * N);              (* real parser on the damaged text *)
  lo : Z; hi1 : Z; hi2 : Z                           (* the entry occupies lines [lo, hi1) of J and [lo, hi2) of the damaged text *)
}.

Definition errs_eqb (a b : list (N * N)) : bool :=
  list_eqb (fun x y => (fst x =? fst y)%N && (snd x =? snd y)%N) a b.

Definition tie_ok (c : case) : bool :=
  match parse (input2 c) with
  | Some (j, errs) => journal_eqb j (ast2 c) && errs_eqb errs (errs2 c)
  | None => false
  end.

(* the entries outside the damaged one: (start line, content) *)
Definition outside (lo hi : Z) (l : Z) : bool := (l <? lo) || (hi <=? l).
Definition dir_line (d : directive) : Z :=
  match d with
  | DAccount _ _ _ _ _ r | DCommodity _ _ _ _ r | DInclude _ r | DPrice _ _ _ r | DYear _ r | DDefault _ _ r => p_line (r_start r)
  end.
Definition others_tx (lo hi shift : Z) (j : journal) : list (Z * itx) :=
  flat_map (fun t => let l := p_line (r_start (tx_rng t)) in
                     if outside lo hi l then [((if l <? lo then l else l + shift), x_tx t)] else []) (j_txs j).
Definition others_dir (lo hi shift : Z) (j : journal) : list (Z * list idir) :=
  flat_map (fun d => let l := dir_line d in
                     if outside lo hi l then [((if l <? lo then l else l + shift), x_dir d)] else []) (j_dirs j).
Definition others_inc (lo hi shift : Z) (j : journal) : list (Z * list N) :=
  flat_map (fun i => let l := p_line (r_start (inc_rng i)) in
                     if outside lo hi l then [((if l <? lo then l else l + shift), inc_path i)] else []) (j_includes j).

Definition oracle_ok (c : case) : bool :=
  let shift := hi2 c - hi1 c in
  list_eqb (fun a b => (fst a =? fst b) && it_eqb (snd a) (snd b))
           (others_tx (lo c) (hi1 c) shift (ast1 c)) (others_tx (lo c) (hi2 c) 0 (ast2 c)) &&
  list_eqb (fun a b => (fst a =? fst b) && list_eqb idir_eqb (snd a) (snd b))
           (others_dir (lo c) (hi1 c) shift (ast1 c)) (others_dir (lo c) (hi2 c) 0 (ast2 c)) &&
  list_eqb (fun a b => (fst a =? fst b) && beq (snd a) (snd b))
           (others_inc (lo c) (hi1 c) shift (ast1 c)) (others_inc (lo c) (hi2 c) 0 (ast2 c)) &&
  (* syntax errors outside the damaged entry's lines are exactly those J already had there *)
  list_eqb (fun a b => (fst a =? fst b) && (snd a =? snd b))
    (flat_map (fun e => let l := Z.of_N (fst e) in if outside (lo c) (hi1 c) l then [((if l <? lo c then l else l + shift), Z.of_N (snd e))] else []) (errs1 c))
    (flat_map (fun e => let l := Z.of_N (fst e) in if outside (lo c) (hi2 c) l then [(l, Z.of_N (snd e))] else []) (errs2 c)).

Definition known (c : case) : N := 0%N.
Definition judge_all := judge_with tie_ok oracle_ok known.
