(* Correspondence and oracle for C12. *)
From HL Require Export Lib.Bytes Lib.Judge Model.WsIndex.
Open Scope N_scope.

(* index level: after every operation the aggregated counters (all maps flattened with a kind
   prefix), the derived key lists (flattened likewise) and the payee-template table (payee, fingerprint of the posting list) *)
Record isnap := mkSnap { s_counts : cmap; s_derived : list (list N); s_templates : tmap }.
(* workspace level: per update step, a bit mask of the view components that differ between the
   incrementally maintained workspace and a fresh one (bit 0 members, 1 counters and lists,
   2 transaction index, 3 payee templates, 4 declared accounts/commodities, 5 commodity formats) *)
Record case := mkCase { iops : list (wop * isnap); ws_masks : list N }.

(* the per-date aggregate (number of files with that date) is not exposed by Snapshot: date
   keys ('D') are compared by presence only, through the derived lists *)
Definition is_date_key (k : list N) : bool := match k with 68 :: _ => true | _ => false end.
Definition same_counts (m : cmap) (o : cmap) : bool :=
  Nat.eqb (length (filter (fun kc => negb (is_date_key (fst kc))) m)) (length o) &&
  forallb (fun kc => cget (fst kc) m =? snd kc) o.
Definition same_set (a b : list (list N)) : bool :=
  forallb (fun x => existsb (beq x) b) a && forallb (fun x => existsb (beq x) a) b.

Definition same_tmap (a b : tmap) : bool :=
  Nat.eqb (length a) (length b) &&
  forallb (fun kv => option_eqb N.eqb (alookup (fst kv) a) (Some (snd kv))) b.

(* derived lists = keys with a positive aggregate, except tag values ('V'), whose derived form
   is not part of the flattened lists *)
Definition derived_of (m : cmap) : list (list N) :=
  map fst (filter (fun kc => negb (match fst kc with 86 :: _ => true | _ => false end)) m).

Fixpoint tie_from (w : wsindex) (l : list (wop * isnap)) : bool :=
  match l with
  | [] => true
  | (o, s) :: r =>
      let w' := wstep w o in
      same_counts (wi_counts w') (s_counts s) && same_set (derived_of (wi_counts w')) (s_derived s) &&
      same_tmap (wi_templates w') (s_templates s) && tie_from w' r
  end.
Definition tie_ok (c : case) : bool := tie_from winit (iops c).

Definition oracle_ok (c : case) : bool := forallb (fun m => m =? 0) (ws_masks c).

(* no recorded finding is left for C12: class 1 (payee templates) was repaired in /repo 8a0a0e8, class 2
   (commodity formats depending on a drifting FileOrder) in 6c47e39: any difference from a rebuild is a violation *)
Definition known (c : case) : N := 0.

Definition judge_all := judge_with tie_ok oracle_ok known.
