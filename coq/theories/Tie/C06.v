(* Correspondence and oracle for C06 (tokenisation clause; crash / time clauses are reported by
   the harness as implementation failures). *)
From HL Require Export Lib.Bytes Lib.Judge Lib.Utf8 Model.Lexer.
Open Scope N_scope.

(* observed token: type code, value, (line, col, offset) of Pos and End *)
Record otok := mkOT { o_type : N; o_val : list N; o_pl : N; o_pc : N; o_po : N; o_el : N; o_ec : N; o_eo : N }.
Record case := mkCase { input : list N; otoks : list otok; time_ok : bool (* every request within its time budget *); flags : N }.

Definition tok_matches (t : token) (o : otok) : bool :=
  (ttype_code (tk_type t) =? o_type o) && beq (tk_val t) (o_val o) &&
  (tp_line (tk_pos t) =? o_pl o) && (tp_col (tk_pos t) =? o_pc o) && (tp_off (tk_pos t) =? o_po o) &&
  (tp_line (tk_end t) =? o_el o) && (tp_col (tk_end t) =? o_ec o) && (tp_off (tk_end t) =? o_eo o).

Fixpoint all2 {A B} (f : A -> B -> bool) (a : list A) (b : list B) : bool :=
  match a, b with
  | [], [] => true
  | x :: a', y :: b' => f x y && all2 f a' b'
  | _, _ => false
  end.

Definition tie_ok (c : case) : bool :=
  match lex (input c) with
  | Some ts => all2 tok_matches ts (otoks c)
  | None => false
  end.

(* tokens cover the input left to right without overlap, stay inside it and end with EOF at
   the end of the input; there are at most |input| + 1 of them *)
Fixpoint cover_from (prev_end len : N) (l : list otok) : bool :=
  match l with
  | [] => false
  | [o] => (o_type o =? 0) && (o_po o =? len) && (o_eo o =? len) && (prev_end <=? o_po o)
  | o :: r =>
      negb (o_type o =? 0) && (prev_end <=? o_po o) && (o_po o <=? o_eo o) && (o_eo o <=? len) &&
      cover_from (o_eo o) len r
  end.

Definition oracle_ok (c : case) : bool :=
  let n := N.of_nat (length (input c)) in
  cover_from 0 n (otoks c) && (N.of_nat (length (otoks c)) <=? n + 1) && time_ok c.

(* no recorded finding is left for C06 (huge exponents are refused by the parser since /repo 7a99301;
   the flag the harness sets on such documents is kept in the case for the record only) *)
Definition known (c : case) : N := 0.
Definition judge_all := judge_with tie_ok oracle_ok known.
