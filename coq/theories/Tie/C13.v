(* Correspondence and oracle for C13. *)
From HL Require Export Lib.Bytes Lib.Judge Model.Publish.
Open Scope N_scope.

(* fps: content index -> diagnostics class; observed: publishDiagnostics calls in order;
   final: open documents at the end (uri, content) *)
Record case := mkCase {
  fps : list N; trace : list pevent; observed : list (N * N); final_docs : list (N * N);
  client_gated : bool   (* the notifications were withheld at the client and released by the harness: the
                           order in which the tasks pass the lock is the scheduler's, so only the oracle applies *)
}.

Definition diag_of (c : case) (k : N) : N := nth (N.to_nat k) (fps c) 999999.

Definition pair_eqb (a b : N * N) : bool := (fst a =? fst b) && (snd a =? snd b).

Definition tie_ok (c : case) : bool :=
  if client_gated c then forallb (fun o => negb (snd o =? 777777)) (observed c) else
  let st := prun (diag_of c) true (trace c) in
  list_eqb pair_eqb (published st) (observed c) &&
  forallb (fun ud => match plookup (fst ud) (pdocs st) with Some k => k =? snd ud | None => false end) (final_docs c) &&
  Nat.eqb (length (pdocs st)) (length (final_docs c)).

(* the specification on the implementation's output: all tasks are complete when the harness
   stops, so for every open document the last published diagnostics are those of its content *)
Definition oracle_ok (c : case) : bool :=
  forallb (fun ud => match last_pub (fst ud) (observed c) with
                     | Some d => d =? diag_of c (snd ud)
                     | None => false
                     end) (final_docs c).

Definition known (c : case) : N := 0.
Definition judge_all := judge_with tie_ok oracle_ok known.
