(* Correspondence and oracle for C18. *)
From HL Require Export Lib.Bytes Lib.Judge Model.Ast Model.Settings Model.Undeclared.
Open Scope N_scope.

Record case := mkCase {
  cur : journal;                        (* the open document as the real parser read it *)
  ws_acc : list (list N); ws_com : list (list N);       (* declared in the workspace root's tree (empty without a root) *)
  tree_acc : list (list N); tree_com : list (list N);   (* declared in the document's own include tree *)
  has_root : bool;
  sw_acc : bool; sw_com : bool;         (* the two undeclared-* switches *)
  observed : list wdiag }.

Definition with_switches (a c : bool) : settings :=
  set DCommodities (VB c) (set DAccounts (VB a) default_settings).

Definition wdiag_eqb (x y : wdiag) : bool :=
  match x, y with
  | WAccount i a, WAccount j b => Nat.eqb i j && beq a b
  | WCommodity i a, WCommodity j b => Nat.eqb i j && beq a b
  | _, _ => false
  end.

(* Server.externalDeclarations: the workspace's declarations plus those of the files the document includes *)
Definition tie_ok (c : case) : bool :=
  list_eqb wdiag_eqb (analyze_warnings (cur c) (tree_acc c ++ ws_acc c) (tree_com c ++ ws_com c) (with_switches (sw_acc c) (sw_com c))) (observed c).

(* the rule over the full scope: current file + its include tree + its workspace *)
Definition oracle_ok (c : case) : bool :=
  list_eqb wdiag_eqb
    (analyze_warnings (cur c) (tree_acc c ++ ws_acc c) (tree_com c ++ ws_com c) (with_switches (sw_acc c) (sw_com c)))
    (observed c).

(* no recorded finding is left (the scope defect of the pinned tree was repaired) *)
Definition known (c : case) : N := 0.

Definition judge_all := judge_with tie_ok oracle_ok known.
