(* Correspondence and oracle for C01, evaluated on harness output by vm_compute. *)
From HL Require Export Lib.Bytes Lib.Utf8 Lib.Judge Model.Mapper Model.DocStore Spec.RefClient.
Open Scope N_scope.

(* after every event the harness reports the text of uris 0,1,2 (None = not open) *)
Definition snap := list (option (list N)).
Record case := mkCase { hist : list event; snaps : list snap; fresh_ok : bool }.

Definition uris : list N := [0; 1; 2].
Definition snap_of (d : docs) : snap := map (fun u => dlookup u d) uris.
Definition snap_eqb (a b : snap) : bool := list_eqb (option_eqb beq) a b.

Fixpoint run_snaps (step : docs -> event -> docs) (d : docs) (h : list event) : list snap :=
  match h with
  | [] => []
  | e :: r => let d' := step d e in snap_of d' :: run_snaps step d' r
  end.

Definition tie_ok (c : case) : bool :=
  list_eqb snap_eqb (run_snaps srv_step [] (hist c)) (snaps c).

Definition oracle_ok (c : case) : bool :=
  fresh_ok c &&
  (if wf_history (hist c) then list_eqb snap_eqb (run_snaps ref_step [] (hist c)) (snaps c) else true).

(* ---- known-finding classifiers (KNOWN_FINDINGS.jsonl, property C01) ---- *)
(* class 1  zero_range_insert: a ranged change with the empty range 0:0-0:0 on a non-empty text *)
Definition is_zero_insert (t : list N) (c : change) : bool :=
  match ch_range c with
  | Some r => is_full_change r && negb (beq t [])
  | None => false
  end.

(* class 2  crlf_past_eol: a position whose character lies past the end of a CRLF-terminated line:
   the reference walk reaches CR LF with columns still to go *)
Fixpoint crlf_clamp (t : list N) (skip : nat) (c : N) : bool :=
  match t with
  | [] => false
  | b0 :: r =>
      match skip with
      | S k => crlf_clamp r k c
      | O =>
          if c =? 0 then false
          else if b0 =? LF then false
          else if (b0 =? CR) && match r with c' :: _ => c' =? LF | [] => false end then true
          else let n := cp_len b0 in
               if c <? cp_units n then false else crlf_clamp r (n - 1) (c - cp_units n)
      end
  end.

Definition past_eol_crlf (t : list N) (l c : N) : bool :=
  match skip_lines t l with
  | None => false
  | Some rest => crlf_clamp rest 0 c
  end.

Definition is_crlf_past (t : list N) (c : change) : bool :=
  match ch_range c with
  | Some r => past_eol_crlf t (sl r) (sc r) || past_eol_crlf t (el r) (ec r)
  | None => false
  end.

Fixpoint any_change (p : list N -> change -> bool) (t : list N) (chs : list change) : bool :=
  match chs with
  | [] => false
  | c :: r => p t c || any_change p (ref_apply t c) r
  end.

Fixpoint any_event (p : list N -> change -> bool) (d : docs) (h : list event) : bool :=
  match h with
  | [] => false
  | e :: r =>
      (match e with
       | Change u chs => match dlookup u d with Some t => any_change p t chs | None => false end
       | _ => false
       end) || any_event p (ref_step d e) r
  end.

Definition has_zero_insert (h : list event) : bool := any_event is_zero_insert [] h.
Definition has_crlf_past (h : list event) : bool := any_event is_crlf_past [] h.

(* class 2 (crlf_past_eol) was repaired in /repo and is not a class any more *)
Definition known (c : case) : N :=
  if has_zero_insert (hist c) then 1 else 0.

Definition judge_all := judge_with tie_ok oracle_ok known.
