(* Oracle for C04: the clauses of the property on the implementation's edits. *)
From HL Require Export Tie.Fmt.
Open Scope Z_scope.

Definition diag_eqb (a b : diag) : bool := (dg_line a =? dg_line b) && beq (dg_code a) (dg_code b) && beq (dg_msg a) (dg_msg b).

(* failing clauses: 1 the journal says something else, 2 other diagnostics, 4 a line that is not a
   posting changed by more than trailing blanks, 8 text the parser could not read is gone *)
Definition failmask (c : fcase) : N :=
  let j0 := journal_of (text c) in
  let j1 := journal_of (text1 c) in
  let l0 := split_lf (text c) in
  let l1 := split_lf (text1 c) in
  ((if same_meaning j0 j1 then 0 else 1) +
   (if list_eqb diag_eqb (diags0 c) (diags1 c) && errs_lines_eqb (errs0 c) (errs1 c) then 0 else 2) +
   (if frame_ok l0 l1 0 (posting_lines_of j0) then 0 else 4) +
   (if forallb (fun e => error_text_kept l0 l1 (Z.of_N (fst e), Z.of_N (snd e))) (errs0 c) then 0 else 8))%N.

Definition oracle_ok (c : fcase) : bool := (failmask c =? 0)%N.

(* ---- known findings (bit mask): a failing clause must be explained by a recorded finding whose
   witness is in the case ----
   1  formatted_number_misread: explains "says something else" and "other diagnostics" *)
Definition explained (c : fcase) : N * N :=          (* (classes present, clauses they explain) *)
  if misread_in c (text c) then (1, 3)%N else (0, 0)%N.

Definition known (c : fcase) : N :=
  let m := failmask c in
  if (m =? 0)%N then 0%N
  else let '(cls, cl) := explained c in
       if (N.land m (N.lnot cl 8) =? 0)%N then cls else 0%N.
Definition judge_all := judge_with tie_ok oracle_ok known.
