(* Correspondence and oracle for C11 (operation sequences on one shared loader). *)
From HL Require Export Lib.Bytes Lib.Judge Model.Loader Spec.LoaderSpec Tie.C10.
Open Scope N_scope.

(* every load operation carries what the shared loader returned and what a fresh loader
   returned on the same files *)
Record lstep := mkStep { st_op : lop; st_shared : option obs; st_fresh : option obs }.
(* k_server: server-level histories -- after every re-analysis of the root document, per file of the
   fresh loader's tree: (file, version in the server's resolved tree or 888888 if absent, version in
   the fresh loader's tree) *)
Record case11 := mkCase11 { k_fs : fsys; k_lim : limits; k_steps : list lstep; k_server : list (N * N * N) }.

Definition obs_eqb (a b : obs) : bool :=
  Bool.eqb (ob_nil a) (ob_nil b) && listN_eqb (ob_order a) (ob_order b) &&
  listN_eqb (pairs_code (ob_files a)) (pairs_code (ob_files b)) && errs_same_list (ob_errs a) (ob_errs b) &&
  (* the syntax errors reported for the loaded files, in order *)
  listN_eqb (map (fun kv => fst kv * 1000000 + snd kv) (ob_perrs a)) (map (fun kv => fst kv * 1000000 + snd kv) (ob_perrs b)).

Definition fresh_of (s : lsys) (L : limits) (op : lop) : option lout :=
  match op with
  | OLoad root => load_root (s_fs s) L [] root None
  | OLoadContent root f => load_root (s_fs s) L [] root (Some f)
  | _ => None
  end.

Fixpoint tie_from (L : limits) (s : lsys) (steps : list lstep) : bool :=
  match steps with
  | [] => true
  | st :: r =>
      let '(s', out) := lsys_step L s (st_op st) in
      (match out, st_shared st with
       | Some m, Some o => obs_matches_model o m
       | None, None => true
       | _, _ => false
       end) &&
      (match fresh_of s L (st_op st), st_fresh st with
       | Some m, Some o => obs_matches_model o m
       | None, None => true
       | _, _ => false
       end) && tie_from L s' r
  end.
Definition tie_ok11 (c : case11) : bool := tie_from (k_lim c) (mkSys (k_fs c) []) (k_steps c).

Definition oracle_ok11 (c : case11) : bool :=
  forallb (fun st => match st_shared st, st_fresh st with
                     | Some a, Some b => obs_eqb a b
                     | None, None => true
                     | _, _ => false
                     end) (k_steps c) &&
  (* a file the server's tree holds is the version a fresh loader reads now (a file it lacks is the
     truncation of the recorded findings, not staleness) *)
  forallb (fun t => let '(_, sv, fv) := t in (sv =? 888888) || (sv =? fv)) (k_server c).

(* no recorded finding is left for C11 (the two classes of the pinned tree were repaired) *)
Definition known11 (c : case11) : N := 0.

Definition judge_all := judge_with tie_ok11 oracle_ok11 known11.
