(* Correspondence and oracle for C17 (transport layer: cache, delta, range, geometry). *)
From HL Require Export Lib.Bytes Lib.Judge Model.Semantic Model.SemTokens.
Open Scope N_scope.

(* per content: the data of a full answer on a fresh server, the UTF-16 length of every line,
   whether the text is empty, and content flags used by the known-finding classifiers *)
(* ci_cover: per token of the full answer (type, the bytes it covers, the bytes of the line behind it) *)
(* ci_text: the bytes of the content (the tokenizer model runs on them) *)
Record cinfo := mkInfo { ci_data : list N; ci_lens : list N; ci_empty : bool; ci_flags : N;
                         ci_cover : list (N * list N * list N); ci_text : list N }.
Record case := mkCase { table : list cinfo; hist : list (sreq * sresp) }.

Definition info (c : case) (k : N) : cinfo := nth (N.to_nat k) (table c) (mkInfo [] [] true 0 [] []).
Definition toks_of (c : case) (k : N) : list tok := decode (ci_data (info c k)).
Definition empty_of (c : case) (k : N) : bool := ci_empty (info c k).

Definition edit_eqb (a b : edit) : bool :=
  (e_start a =? e_start b) && (e_delete a =? e_delete b) && list_eqb N.eqb (e_data a) (e_data b).
Definition resp_eqb (a b : sresp) : bool :=
  match a, b with
  | RNone, RNone => true
  | RData i d, RData j e => option_eqb N.eqb i j && list_eqb N.eqb d e
  | RDelta i d, RDelta j e => (i =? j) && list_eqb edit_eqb d e
  | _, _ => false
  end.

Fixpoint tie_from (c : case) (s : sstate) (h : list (sreq * sresp)) : bool :=
  match h with
  | [] => true
  | (r, o) :: rest =>
      let '(s', m) := sstep (toks_of c) (empty_of c) s r in
      resp_eqb m o && tie_from c s' rest
  end.
(* the tokenizer: the transcribed tokenizeForSemantics, run on the content's bytes through the lexer
   model, gives the data of the implementation's full answer *)
Definition tokenizer_tie (i : cinfo) : bool :=
  ci_empty i || list_eqb N.eqb (encode (sem_tokens (ci_text i))) (ci_data i).

Definition tie_ok (c : case) : bool :=
  tie_from c sinit (hist c) &&
  forallb (fun k => tokenizer_tie (info c k))
          (flat_map (fun ro => match fst ro with SOpen _ k | SEdit _ k => [k] | _ => [] end) (hist c)).

(* ---- oracle on the implementation's answers ---- *)
(* (a) delta clause: the client's reconstruction equals the full data of the current text
   (b) range clause: a range answer decodes to the decoded full answer restricted to the lines *)
Definition tok_eqb (a b : tok) : bool :=
  (t_line a =? t_line b) && (t_col a =? t_col b) && (t_len a =? t_len b) &&
  (t_type a =? t_type b) && (t_mod a =? t_mod b).

Fixpoint oracle_from (c : case) (docs : list (N * N)) (cl : client) (h : list (sreq * sresp)) : bool :=
  match h with
  | [] => true
  | (r, o) :: rest =>
      let docs' := match r with
                   | SOpen u k | SEdit u k => sput u k docs
                   | SClose u => sremove u docs
                   | _ => docs
                   end in
      let cl' := cstep cl r o in
      (match r with
       | SFull u | SDelta u _ =>
           match slookup u docs with
           | Some k =>
               if empty_of c k then resp_eqb o (RData None [])
               else match believed cl' o with
                    | Some d => list_eqb N.eqb d (ci_data (info c k))
                    | None => false
                    end
           | None => true
           end
       | SRange u sl el =>
           match slookup u docs, o with
           | Some k, RData None d =>
               if empty_of c k then list_eqb N.eqb d []
               else list_eqb tok_eqb (decode d) (filter_range (toks_of c k) sl el)
           | Some _, _ => false
           | None, _ => true
           end
       | _ => true
       end) && oracle_from c docs' cl' rest
  end.

(* (c) geometry of the full answer of every content: document order, no overlap, inside the
   line, type within the 13-entry legend *)
Fixpoint geom_from (lens : list N) (pl pc pe : N) (l : list tok) : bool :=
  match l with
  | [] => true
  | t :: r =>
      ((pl <? t_line t) || ((pl =? t_line t) && (pe <=? t_col t))) &&
      (t_col t + t_len t <=? nth (N.to_nat (t_line t)) lens 0) &&
      (t_type t <? 13) && (0 <? t_len t) &&
      geom_from lens (t_line t) (t_col t) (t_col t + t_len t) r
  end.
Definition geom_ok (i : cinfo) : bool := geom_from (ci_lens i) 0 0 0 (decode (ci_data i)).

(* (d) lexemes: a code token covers the code with its parentheses, a commodity token a quoted
   commodity with its quotes, an operator token exactly the operator, a tag token the tag name with
   its colon (one colon, at the end, no blank or comma), a tag-value token a trimmed text without comma *)
Definition last_byte (l : list N) : N := match rev l with c :: _ => c | [] => 0 end.
Definition lexeme_ok (e : N * list N * list N) : bool :=
  let '(ty, cover, after) := e in
  if ty =? 7 then                                                   (* code *)
    match cover with
    | 40 :: _ => (last_byte cover =? 41) || negb (existsb (fun c => c =? 41) after)
    | _ => false
    end
  else if ty =? 1 then                                              (* commodity *)
    match cover with
    | 34 :: r => (match r with [] => false | _ => last_byte cover =? 34 end) || negb (existsb (fun c => c =? 34) after)
    | _ => true
    end
  else if ty =? 11 then                                             (* operator *)
    list_eqb N.eqb cover [64] || list_eqb N.eqb cover [64; 64] || list_eqb N.eqb cover [61] ||
    list_eqb N.eqb cover [61; 61] || list_eqb N.eqb cover [124]
  else if ty =? 5 then                                              (* tag: the name with its colon *)
    (last_byte cover =? 58) && negb (existsb (fun c => (c =? 32) || (c =? 9) || (c =? 44)) cover) &&
    (N.of_nat (count_occ N.eq_dec cover 58) =? 1)
  else if ty =? 12 then                                             (* tag value: trimmed, inside one part *)
    match cover with
    | [] => false
    | c0 :: _ => negb ((c0 =? 32) || (c0 =? 9)) && negb ((last_byte cover =? 32) || (last_byte cover =? 9)) &&
                 negb (existsb (fun c => c =? 44) cover)
    end
  else true.
Definition lexemes_ok (i : cinfo) : bool := forallb lexeme_ok (ci_cover i).

Definition used_contents (c : case) : list N :=
  flat_map (fun ro => match fst ro with SOpen _ k | SEdit _ k => [k] | _ => [] end) (hist c).

Definition oracle_ok (c : case) : bool :=
  oracle_from c [] [] (hist c) && forallb (fun k => geom_ok (info c k) && lexemes_ok (info c k)) (used_contents c).

(* no recorded finding is left for C17 (token columns in runes and tag columns / lengths in bytes on
   lines with non-ASCII text were repaired in /repo 6efc7b5: columns count UTF-16 code units) *)
Definition known (c : case) : N := 0.

Definition judge_all := judge_with tie_ok oracle_ok known.
