(* Correspondence and oracle for C03 (and the parser tie shared by C07). *)
From HL Require Export Lib.Bytes Lib.Judge Model.Ast Lib.Dec Model.Lexer Model.Parser Spec.AstEq Spec.Grammar.
Open Scope N_scope.

Record case := mkCase {
  input : list N;
  impl_ast : journal; impl_errs : list (N * N);   (* parser.Parse of the real code: AST and error positions *)
  intended : option istruct;                      (* the structure the text was printed from (None: not a G text) *)
  flags : N }.

Definition errs_eqb (a b : list (N * N)) : bool :=
  list_eqb (fun x y => (fst x =? fst y) && (snd x =? snd y)) a b.

Definition tie_ok (c : case) : bool :=
  match parse (input c) with
  | Some (j, errs) => journal_eqb j (impl_ast c) && errs_eqb errs (impl_errs c)
  | None => false
  end.

(* a supported journal parses without any syntax error and to the structure it was written from *)
Definition oracle_ok (c : case) : bool :=
  match intended c with
  | Some s => match impl_errs c with [] => is_eqb (extract (impl_ast c)) s | _ => false end
  | None => true
  end.

Definition known (c : case) : N := flags c.
Definition judge_all := judge_with tie_ok oracle_ok known.
