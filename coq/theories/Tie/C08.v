(* Correspondence and oracle for C08. *)
From HL Require Export Lib.Bytes Lib.Judge Lib.Utf8 Model.Ast Model.Lexer Model.Parser Model.References Model.Ranges Spec.RangeSpec Spec.AstEq.
Open Scope Z_scope.

(* an observed range: feature code, position the request was made at (-1 for position-free
   features), the range, and the text it is supposed to cover (None: no "covers" claim)
   features: 1 diagnostics  2 hover  3 prepareRename  4 documentSymbol  6 documentLink
             7 references  8 definition  9 workspaceSymbol  10 completion edit  11 rename edit
             13 documentSymbol selection range *)
Record obs := mkObs { o_feat : N; o_pl : Z; o_pc : Z; o_rng : prange; o_text : option (list N); o_code : N }.
Record case := mkCase { text : list N; impl_ast : journal (* every position the parser assigns *); observations : list obs; folds : list (Z * Z) }.

Definition pr_eqb (a b : prange) : bool := (sl a =? sl b) && (sc a =? sc b) && (el a =? el b) && (ec a =? ec b).

(* tie: the ranges the model derives from the text through lexer, parser and the producers *)
Definition tie_ok (c : case) : bool :=
  match parse (text c) with
  | None => false
  | Some (j, errs) =>
      let obs_of f := filter (fun o => (o_feat o =? f)%N) (observations c) in
      journal_eqb j (impl_ast c) &&
      list_eqb pr_eqb (map o_rng (obs_of 4%N)) (doc_symbols j) &&
      list_eqb pr_eqb (map o_rng (obs_of 13%N)) (doc_symbols j) &&      (* selection range = range *)
      list_eqb pr_eqb (map o_rng (obs_of 6%N)) (doc_links j) &&
      list_eqb (fun a b => (fst a =? fst b) && (snd a =? snd b)) (folds c) (folding_ranges (text c) j) &&
      list_eqb (fun a b => pr_eqb (fst a) (fst b) && (snd a =? snd b)%N)
               (map (fun o => (o_rng o, o_code o)) (obs_of 1%N)) (map (fun d => (fst d, dcode_n (snd d))) (diagnostics j errs)) &&
      forallb (fun o => option_eqb pr_eqb (option_map snd (hover_element j (o_pl o) (o_pc o))) (Some (o_rng o))) (obs_of 2%N) &&
      forallb (fun o => option_eqb pr_eqb (prepare_rename j (o_pl o) (o_pc o)) (Some (o_rng o))) (obs_of 3%N)
  end.

(* oracle: clause mask per observation: 1 not a well-formed in-document UTF-16 range, 2 does not cover its text *)
Definition obs_mask (lines : list (list N)) (o : obs) : N :=
  if range_ok lines (o_rng o) then
    match o_text o with Some s => if covers lines (o_rng o) s then 0%N else 2%N | None => 0%N end
  else 1%N.

Definition oracle_ok (c : case) : bool :=
  let lines := doc_lines (text c) in
  forallb (fun o => (obs_mask lines o =? 0)%N) (observations c) &&
  laminar (map o_rng (filter (fun o => (o_feat o =? 4)%N) (observations c))) &&
  folds_laminar (folds c) &&
  forallb (fun f => (0 <=? fst f) && (fst f <=? snd f) && (snd f <? Z.of_nat (length lines))) (folds c).

(* ---- known findings, as a bit mask (each bit one recorded finding); an observation that fails
   must be explained by at least one of them, otherwise the case is not "known" ---- *)
Definition has_nonbmp (l : list N) : bool := existsb (fun b => (240 <=? b)%N) l.
Definition has_nonascii (l : list N) : bool := existsb (fun b => (128 <=? b)%N) l.
Definition line_at (lines : list (list N)) (l : Z) : list N :=
  if (0 <=? l) && (l <? Z.of_nat (length lines)) then nth (Z.to_nat l) lines [] else [].
Fixpoint is_infix (p s : list N) : bool :=
  if has_prefix_b p s then true else match s with [] => false | _ :: r => is_infix p r end.

(* a character offset counted in runes, converted to UTF-16 units on its line *)
Fixpoint units_of_runes (ws : list Z) (n : Z) : Z :=
  if n <=? 0 then 0 else match ws with [] => n | w :: r => w + units_of_runes r (n - 1) end.
Definition as_rune_columns (lines : list (list N)) (r : prange) : prange :=
  mkPR (sl r) (units_of_runes (widths (line_at lines (sl r)) 0) (sc r)) (el r) (units_of_runes (widths (line_at lines (el r)) 0) (ec r)).

Definition explain (lines : list (list N)) (o : obs) : N :=
  let r := o_rng o in
  let ln := line_at lines (sl r) in
  let reqln := line_at lines (o_pl o) in
  (* repaired in /repo and not explained any more: bit 1 directive_range_end_unset (46ef8ab),
     bit 2 nonbmp_rune_columns and bit 64 tag_columns_are_byte_offsets (6efc7b5) *)
  (* bit 4 (payee_range_is_an_estimate) was repaired in /repo 45141d0 and is not explained any more *)
  if (o_code o =? 4)%N && (sl r =? el r) &&
          match o_text o with Some t => is_infix t (text_under lines r) | None => false end then 8%N   (* commodity_range_with_quotes_or_blanks *)
  else if (o_feat o =? 6)%N then 16%N                                                 (* link_range_includes_keyword *)
  else 0%N.

Definition known (c : case) : N :=
  let lines := doc_lines (text c) in
  let failing := filter (fun o => negb (obs_mask lines o =? 0)%N) (observations c) in
  let kinds := map (explain lines) failing in
  if existsb (fun k => (k =? 0)%N) kinds then 0%N
  else if negb (laminar (map o_rng (filter (fun o => (o_feat o =? 4)%N) (observations c)))) then 0%N
  else if negb (forallb (fun f => (0 <=? fst f) && (fst f <=? snd f) && (snd f <? Z.of_nat (length lines))) (folds c)) then 0%N
  else if negb (folds_laminar (folds c)) then 0%N    (* bit 32 (fold_ends_on_next_entry) was repaired in /repo: overlapping folds are a violation again *)
  else fold_left N.lor kinds 0%N.

Definition judge_all := judge_with tie_ok oracle_ok known.
