(* Correspondence and oracle for C19, evaluated on harness output by vm_compute. *)
From HL Require Export Lib.Bytes Lib.Judge Model.Settings Spec.SettingsSpec.
Open Scope Z_scope.

Inductive trigger := TInit | TChange | TNoReply.
Record step := mkStep { trig : trigger; payload : json; after : settings; caps : option (list bool) }.
Definition case := list step.

(* capabilities advertised by Initialize, in the order the harness reports them *)
Definition model_caps (s : settings) : list bool :=
  [f_hover s; f_completion s; f_formatting s; f_semantic s; f_codeactions s; f_folding s;
   f_links s; f_wssymbol s; f_inline s].

Definition model_step (s : settings) (st : step) : settings :=
  match trig st with
  | TNoReply => s
  | _ => cfg_step s (payload st)
  end.

Definition caps_ok (st : step) (s : settings) : bool :=
  match caps st with
  | Some l => list_eqb Bool.eqb l (model_caps s)
  | None => true
  end.

(* tie: thread the MODEL state, compare with the implementation after every step *)
Fixpoint tie_from (s : settings) (c : case) : bool :=
  match c with
  | [] => true
  | st :: r =>
      let s' := model_step s st in
      settings_eqb s' (after st) && caps_ok st s' && tie_from s' r
  end.
Definition tie_ok (c : case) : bool := tie_from init_settings c.

(* oracle: thread the IMPLEMENTATION state, check the per-field specification *)
Definition step_spec_ok (prev : settings) (st : step) : bool :=
  match trig st with
  | TNoReply => settings_eqb prev (after st)
  | _ => forallb (fun f => sval_eqb (get f (after st)) (spec_payload f prev (payload st))) all_fields
  end && normalizedb (after st) &&
  match caps st with
  | Some l => list_eqb Bool.eqb l (model_caps (after st))
  | None => true
  end.

Fixpoint oracle_from (prev : settings) (c : case) : bool :=
  match c with
  | [] => true
  | st :: r => step_spec_ok prev st && oracle_from (after st) r
  end.
Definition oracle_ok (c : case) : bool := oracle_from init_settings c.

Definition known (c : case) : N := 0%N.

Definition judge_all := judge_with tie_ok oracle_ok known.
