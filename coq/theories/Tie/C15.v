(* Oracle for C15: every response must fall into ONE class over all repetitions. *)
From HL Require Export Lib.Bytes Lib.Judge Proofs.OrderProofs.
Open Scope N_scope.

(* per request: kind code (1 completion, 2 workspace symbol, 3 inline completion, 4 diagnostics,
   5 formatting, 0 other) and the class index of the response in every repetition *)
Record case := mkCase { reqs : list (N * list N);
  msgs : list (list (list N)) (* commodity sequences of the UNBALANCED messages seen *) }.

Definition constant (l : list N) : bool := forallb (fun x => x =? 0) l.
(* the model names the commodities in sort.Strings order *)
Definition tie_ok (c : case) : bool :=
  forallb (fun m => list_eqb beq m (isort _ bltb m)) (msgs c).
Definition oracle_ok (c : case) : bool := forallb (fun r => constant (snd r)) (reqs c).
Definition known (c : case) : N :=
  match filter (fun r => negb (constant (snd r))) (reqs c) with
  | [] => 0
  | r :: _ => 10 + fst r
  end.
Definition judge_all := judge_with tie_ok oracle_ok known.
