(* Proofs about the include loader model (C10, C11). *)
From HL Require Import Lib.Bytes Model.Loader Spec.LoaderSpec Tie.C10 Tie.C11.
Open Scope N_scope.

Definition big : limits := mkLim 10485760 50.
Definition plain (line q : N) : directive := mkDir line [q] false.
Definition leaf (v : N) : file := mkFile v 100 [].

(* ---------------- C10 ---------------- *)
(* sample graphs (the first three used to be refutation witnesses before the loader was repaired) *)

(* a diamond: 0 -> 1, 2 ; 1 -> 3 ; 2 -> 3 *)
Definition diamond : fsys :=
  [ (0, mkFile 1 100 [plain 2 1; plain 3 2]); (1, mkFile 1 100 [plain 12 3]);
    (2, mkFile 1 100 [plain 22 3]); (3, leaf 1) ].

Lemma diamond_is_not_a_cycle :
  exists m, load_root diamond big [] 0 None = Some m /\ o_errs m = [] /\
    option_map r_order (o_res m) = Some [1; 3; 2].
Proof. vm_compute. eexists. repeat split; reflexivity. Qed.

(* the same file included twice from one file: loaded once, no diagnostic *)
Definition double_inc : fsys := [ (0, mkFile 1 100 [plain 2 1; plain 3 1]); (1, leaf 1) ].
Lemma double_include_loads_once :
  exists m, load_root double_inc big [] 0 None = Some m /\ o_errs m = [] /\
    option_map r_order (o_res m) = Some [1].
Proof. vm_compute. eexists. repeat split; reflexivity. Qed.

(* the depth limit counts the files on the inclusion path: two siblings at depth 1 under a limit
   of 2 are both loaded; a grandchild is refused on the directive that names it and its sibling
   include is still followed *)
Definition siblings : fsys := [ (0, mkFile 1 100 [plain 2 1; plain 3 2]); (1, leaf 1); (2, leaf 1) ].
Lemma depth_is_a_path_length :
  exists m, load_root siblings (mkLim 10485760 2) [] 0 None = Some m /\ o_errs m = [] /\
    option_map r_order (o_res m) = Some [1; 2].
Proof. vm_compute. eexists. repeat split; reflexivity. Qed.

Definition chain : fsys := [ (0, mkFile 1 100 [plain 2 1; plain 3 3]); (1, mkFile 1 100 [plain 12 2]); (2, leaf 1); (3, leaf 1) ].
Lemma too_deep_on_its_directive :
  exists m, load_root chain (mkLim 10485760 2) [] 0 None = Some m /\ o_errs m = [mkErr ETooDeep 2 12] /\
    option_map r_order (o_res m) = Some [1; 3].
Proof. vm_compute. eexists. repeat split; reflexivity. Qed.

(* a real cycle: 0 -> 1 -> 2 -> 1 *)
Definition looped : fsys := [ (0, mkFile 1 100 [plain 2 1]); (1, mkFile 1 100 [plain 12 2]); (2, mkFile 1 100 [plain 22 1]) ].
Lemma cycle_is_reported_where_it_closes :
  exists m, load_root looped big [] 0 None = Some m /\ o_errs m = [mkErr ECycle 1 22] /\
    option_map r_order (o_res m) = Some [1; 2].
Proof. vm_compute. eexists. repeat split; reflexivity. Qed.

(* root-level verdicts, for all file systems *)
Lemma root_missing fs L c root :
  flookup root fs = None ->
  load_root fs L c root None = Some (mkOut None [mkErr ENotFound root 0] (mkLS [] [] c) [] []).
Proof. intro H. unfold load_root. rewrite H. reflexivity. Qed.

Lemma root_too_large fs L c root f :
  flookup root fs = Some f -> (max_size L <? f_size f) = true ->
  load_root fs L c root None = Some (mkOut None [mkErr ETooLarge root 0] (mkLS [] [] c) [] []).
Proof. intros H1 H2. unfold load_root. rewrite H1, H2. reflexivity. Qed.




(* ---------------- C11 ---------------- *)
(* the full statement and its proof are in Proofs/LoaderHistory.v *)

(* after ClearCache the next load is a fresh load, in every state *)
Lemma clear_then_load_is_fresh L s root :
  let s' := fst (lsys_step L s OClear) in
  snd (lsys_step L s' (OLoad root)) = fresh_of s L (OLoad root).
Proof.
  cbn [lsys_step fst s_fs s_cache fresh_of].
  destruct (load_root (s_fs s) L [] root None); reflexivity.
Qed.

(* writing a file and invalidating it removes it from the cache, whatever the state *)
Lemma write_invalidates L s k f : flookup k (s_cache (fst (lsys_step L s (OWrite k f)))) = None.
Proof.
  cbn [lsys_step fst s_cache]. unfold cache_del.
  induction (s_cache s) as [|[k' v] c IH]; cbn [filter fst]; [reflexivity|].
  destruct (k' =? k) eqn:E; cbn [negb]; [exact IH|].
  cbn [flookup]. rewrite N.eqb_sym, E. exact IH.
Qed.
