From Coq Require Import QArith Qabs Lia.
From HL Require Import Lib.Bytes Model.Ast Lib.Dec Model.Balance Spec.Rational.

(* effective agrees with qeff *)
Lemma effective_qeff p :
  match effective p, qeff p with
  | Some (k, d), Some (k', q) => k = k' /\ dval d == q
  | None, None => True
  | _, _ => False
  end.
Proof.
  unfold effective, qeff. destruct (po_amount p) as [a|]; [|exact I].
  destruct (po_cost p) as [c|]; [|split; reflexivity].
  split; [reflexivity|].
  destruct (Qlt_le_dec (dval (a_qty a)) 0) as [L|L].
  - assert (E : dis_neg (a_qty a) = true) by (apply dis_neg_spec; exact L). rewrite E.
    rewrite dval_neg. destruct (co_total c); [reflexivity|]. rewrite dval_mul, dval_abs. reflexivity.
  - assert (E : dis_neg (a_qty a) = false).
    { destruct (dis_neg (a_qty a)) eqn:E; [|reflexivity]. apply dis_neg_spec in E.
      exfalso. apply (Qlt_irrefl 0). eapply Qle_lt_trans; eassumption. }
    rewrite E. destruct (co_total c); [reflexivity|]. rewrite dval_mul, dval_abs. reflexivity.
Qed.

Definition lookup_val (k : list N) (m : list (list N * dec)) : Q :=
  match alookup k m with Some d => dval d | None => 0%Q end.

Lemma lookup_bal_add k k' q m :
  lookup_val k (bal_add k' q m) == (lookup_val k m + (if beq k k' then dval q else 0))%Q.
Proof.
  unfold lookup_val. induction m as [|[k2 v] m IH]; cbn [bal_add alookup].
  - destruct (beq k k'); cbn [alookup]; [rewrite dval_add, dval_zero; reflexivity|reflexivity].
  - destruct (beq k' k2) eqn:E2; cbn [alookup].
    + apply beq_eq in E2. subst k2. destruct (beq k k') eqn:E.
      * rewrite dval_add. reflexivity.
      * ring.
    + destruct (beq k k2) eqn:E3.
      * destruct (beq k k') eqn:E; [|ring]. apply beq_eq in E. apply beq_eq in E3. subst.
        rewrite beq_refl in E2. discriminate.
      * exact IH.
Qed.

Lemma sum_fold k ps : forall m,
  lookup_val k (fold_left sum_step ps m) == (lookup_val k m + qsum k ps)%Q.
Proof.
  induction ps as [|p ps IH]; intro m; cbn [fold_left qsum]; [ring|].
  rewrite IH. unfold sum_step. pose proof (effective_qeff p) as H.
  destruct (effective p) as [[k1 d]|], (qeff p) as [[k2 q]|]; try contradiction.
  - destruct H as [-> Hq]. rewrite lookup_bal_add. destruct (beq k k2); [rewrite Hq|]; ring.
  - ring.
Qed.

(* the per-commodity sums the code computes are the exact rational sums *)
Lemma sums_exact k ps : lookup_val k (sum_by_commodity ps) == qsum k ps.
Proof. unfold sum_by_commodity. rewrite sum_fold. unfold lookup_val. cbn. ring. Qed.

(* keys of the association list are distinct *)
Lemma bal_add_keys k q m x :
  In x (map fst (bal_add k q m)) <-> x = k \/ In x (map fst m).
Proof.
  induction m as [|[k2 v] m IH]; cbn [bal_add map fst In].
  - intuition.
  - destruct (beq k k2) eqn:E; cbn [map fst In].
    + apply beq_eq in E. subst. intuition.
    + rewrite IH. intuition.
Qed.

Lemma bal_add_nodup k q m : NoDup (map fst m) -> NoDup (map fst (bal_add k q m)).
Proof.
  induction m as [|[k2 v] m IH]; intro H; cbn [bal_add map fst].
  - constructor; [intros []|constructor].
  - inversion H as [|? ? Hn Hd]; subst. destruct (beq k k2) eqn:E; cbn [map fst].
    + constructor; assumption.
    + constructor; [|apply IH; exact Hd]. rewrite bal_add_keys. intros [->|Hin]; [|contradiction].
      rewrite beq_refl in E. discriminate.
Qed.

Lemma sum_nodup ps : NoDup (map fst (sum_by_commodity ps)).
Proof.
  unfold sum_by_commodity. assert (H : NoDup (map fst (@nil (list N * dec)))) by constructor.
  revert H. generalize (@nil (list N * dec)). induction ps as [|p ps IH]; intros m H; cbn [fold_left]; [exact H|].
  apply IH. unfold sum_step. destruct (effective p) as [[k q]|]; [apply bal_add_nodup; exact H|exact H].
Qed.

Lemma alookup_in k (m : list (list N * dec)) d : NoDup (map fst m) -> In (k, d) m -> alookup k m = Some d.
Proof.
  induction m as [|[k2 v] m IH]; intros Hn Hin; [destruct Hin|].
  cbn [map fst] in Hn. inversion Hn as [|? ? Hni Hnd]; subst. cbn [alookup].
  destruct Hin as [E|Hin].
  - inversion E; subst. rewrite beq_refl. reflexivity.
  - destruct (beq k k2) eqn:E; [|apply IH; assumption].
    apply beq_eq in E. subst. exfalso. apply Hni. apply (in_map fst) in Hin. exact Hin.
Qed.

Lemma alookup_some_in k (m : list (list N * dec)) d : alookup k m = Some d -> In (k, d) m.
Proof.
  induction m as [|[k2 v] m IH]; cbn [alookup]; intro H; [discriminate|].
  destruct (beq k k2) eqn:E; [apply beq_eq in E; inversion H; subst; left; reflexivity|right; apply IH; exact H].
Qed.

(* ---- the verdict ---- *)
Lemma count_inferred_spec ps : forall i cnt last,
  fst (count_inferred_from i ps cnt last) = (cnt + Z.of_nat (n_missing ps))%Z.
Proof.
  induction ps as [|p ps IH]; intros i cnt last; cbn [count_inferred_from n_missing filter length].
  - cbn. lia.
  - unfold n_missing in *. cbn [filter]. destruct (po_amount p); cbn [length]; rewrite IH; lia.
Qed.

Definition diffs_of (m : list (list N * dec)) : list (list N * dec) :=
  flat_map (fun kv => if dis_zero (snd kv) then [] else [(fst kv, dabs (snd kv))]) m.

Lemma in_diffs k d m : In (k, d) (diffs_of m) <-> exists v, In (k, v) m /\ dis_zero v = false /\ d = dabs v.
Proof.
  unfold diffs_of. rewrite in_flat_map. split.
  - intros ([k2 v] & Hin & H). cbn [fst snd] in H. destruct (dis_zero v) eqn:E; [destruct H|].
    destruct H as [H|[]]. inversion H; subst. exists v. auto.
  - intros (v & Hin & Hz & ->). exists (k, v). split; [exact Hin|]. cbn [fst snd]. rewrite Hz. left. reflexivity.
Qed.

(* Main theorem (C02_ast): for every posting list,
   - "multiple missing amounts" is the verdict iff more than one real posting has no amount;
   - with exactly one, the transaction is accepted;
   - with none, "unbalanced" is the verdict iff some commodity's exact rational sum over the
     real postings is non-zero, and the parts named are exactly those commodities with the
     absolute value of their sum. *)
Theorem verdict_exact ps :
  let real := real_postings ps in
  match balance_verdict ps with
  | BMultiple => (2 <= n_missing real)%nat
  | BOk => n_missing real = 1%nat \/ (n_missing real = 0%nat /\ forall k, qsum k real == 0%Q)
  | BUnbalanced parts =>
      n_missing real = 0%nat /\ parts <> [] /\
      (forall k d, In (k, d) parts -> ~ qsum k real == 0%Q /\ dval d == Qabs (qsum k real)) /\
      (forall k, ~ qsum k real == 0%Q -> exists d, In (k, d) parts)
  end.
Proof.
  cbv zeta. unfold balance_verdict, check_balance.
  set (real := real_postings ps).
  pose proof (count_inferred_spec real 0 0 (-1)%Z) as Hc. unfold count_inferred.
  destruct (count_inferred_from 0 real 0 (-1)) as [cnt idx] eqn:Ec. cbn [fst] in Hc.
  destruct (1 <? cnt)%Z eqn:E1.
  - cbn [balanced inferred_idx differences]. cbn. apply Z.ltb_lt in E1. lia.
  - destruct (cnt =? 1)%Z eqn:E2.
    + cbn [balanced]. left. apply Z.eqb_eq in E2. lia.
    + assert (Hn : n_missing real = 0%nat) by (apply Z.ltb_ge in E1; apply Z.eqb_neq in E2; lia).
      fold (diffs_of (sum_by_commodity real)).
      pose proof (sum_nodup real) as Hnd.
      destruct (diffs_of (sum_by_commodity real)) as [|x xs] eqn:Ed; cbn [balanced inferred_idx differences].
      * right. split; [exact Hn|]. intro k. rewrite <- sums_exact. unfold lookup_val.
        destruct (alookup k (sum_by_commodity real)) as [v|] eqn:El; [|reflexivity].
        destruct (dis_zero v) eqn:Ez; [apply dis_zero_spec; exact Ez|].
        exfalso. assert (Hin : In (k, dabs v) (diffs_of (sum_by_commodity real))).
        { apply in_diffs. exists v. split; [apply alookup_some_in; exact El|auto]. }
        rewrite Ed in Hin. destruct Hin.
      * replace ((idx =? -1)%Z && false) with false by (destruct (idx =? -1)%Z; reflexivity).
        split; [exact Hn|]. split; [discriminate|]. rewrite <- Ed. split.
        { intros k d Hin. apply in_diffs in Hin. destruct Hin as (v & Hin & Hz & ->).
          pose proof (alookup_in k _ v Hnd Hin) as El.
          assert (Hv : dval v == qsum k real) by (rewrite <- sums_exact; unfold lookup_val; rewrite El; reflexivity).
          split.
          - intro H0. rewrite <- Hv in H0. apply dis_zero_spec in H0. congruence.
          - rewrite dval_abs, Hv. reflexivity. }
        { intros k Hk. rewrite <- sums_exact in Hk. unfold lookup_val in Hk.
          destruct (alookup k (sum_by_commodity real)) as [v|] eqn:El; [|exfalso; apply Hk; reflexivity].
          exists (dabs v). apply in_diffs. exists v. split; [apply alookup_some_in; exact El|].
          split; [|reflexivity]. destruct (dis_zero v) eqn:Ez; [|reflexivity].
          exfalso. apply Hk. apply dis_zero_spec. exact Ez. }
Qed.
