(* Termination of the transcribed parser: on every token list that ends in EOF (what the lexer
   always produces) every parsing function keeps that shape and never un-consumes a token, the
   functions that must make progress do, and so the drivers' fuel (postings loop, sub-directive
   loop, journal loop) is never exhausted: parse returns a journal for EVERY byte string. *)
From HL Require Import Lib.Bytes Lib.Utf8 Model.Ast Model.Lexer Model.Parser Proofs.LexerProofs.
Open Scope nat_scope.

(* the token list the parser works on always ends in the EOF token *)
Definition wf (ps : pstate) : Prop := exists l e, toks ps = l ++ [e] /\ is_ty (tk_type e) TEOF = true.
Definition len (ps : pstate) : nat := length (toks ps).
(* ps' is reached from ps without going back: well-formedness is kept, nothing is un-consumed *)
Definition le (ps' ps : pstate) : Prop := wf ps -> wf ps' /\ len ps' <= len ps.
Definition lt (ps' ps : pstate) : Prop := wf ps -> wf ps' /\ len ps' < len ps.

Lemma le_refl ps : le ps ps. Proof. intro H. split; [exact H|lia]. Qed.
Lemma le_trans a b c : le a b -> le b c -> le a c.
Proof. intros H1 H2 W. destruct (H2 W) as [W2 L2]. destruct (H1 W2) as [W1 L1]. split; [exact W1|lia]. Qed.
Lemma lt_le a b : lt a b -> le a b.
Proof. intros H W. destruct (H W). split; [assumption|lia]. Qed.
Lemma lt_le_trans a b c : lt a b -> le b c -> lt a c.
Proof. intros H1 H2 W. destruct (H2 W) as [W2 L2]. destruct (H1 W2) as [W1 L1]. split; [exact W1|lia]. Qed.
Lemma le_lt_trans a b c : le a b -> lt b c -> lt a c.
Proof. intros H1 H2 W. destruct (H2 W) as [W2 L2]. destruct (H1 W2) as [W1 L1]. split; [exact W1|lia]. Qed.

Lemma wf_same_toks ps ps' : toks ps' = toks ps -> le ps' ps.
Proof. intros E W. unfold wf, len in *. rewrite E. split; [exact W|lia]. Qed.

Lemma perr_at_le p ps : le (perr_at p ps) ps. Proof. apply wf_same_toks. reflexivity. Qed.
Lemma perr_le ps : le (perr ps) ps. Proof. apply perr_at_le. Qed.

(* a well-formed state whose current token is not EOF has at least two tokens *)
Lemma wf_two ps : wf ps -> is_ty (ctype ps) TEOF = false -> exists t t' r, toks ps = t :: t' :: r.
Proof.
  intros (l & e & E & He) H. unfold ctype, cur in H. rewrite E in *.
  destruct l as [|a [|b l]]; cbn [app] in *.
  - congruence.
  - exists a, e, []. reflexivity.
  - exists a, b, (l ++ [e]). reflexivity.
Qed.

Lemma wf_tail t t' r e0 d : wf (mkPS (t :: t' :: r) e0 d) -> forall e1 d1, wf (mkPS (t' :: r) e1 d1).
Proof.
  intros (l & e & E & He) e1 d1. cbn [toks] in *. destruct l as [|a l]; cbn [app] in E; [discriminate|].
  inversion E; subst. exists l, e. split; [cbn [toks]; assumption|exact He].
Qed.

Lemma adv_le ps : le (adv ps) ps.
Proof.
  intro W. unfold adv. destruct (toks ps) as [|t [|t' r]] eqn:E; try (split; [exact W|lia]).
  split.
  - destruct ps as [tk e0 d]. cbn [toks perrs dyear] in *. subst tk. eapply wf_tail. exact W.
  - unfold len. cbn [toks]. rewrite E. cbn [length]. lia.
Qed.

Lemma adv_lt ps : is_ty (ctype ps) TEOF = false -> lt (adv ps) ps.
Proof.
  intros H W. destruct (wf_two ps W H) as (t & t' & r & E). unfold adv. rewrite E. split.
  - destruct ps as [tk e0 d]. cbn [toks perrs dyear] in *. subst tk. eapply wf_tail. exact W.
  - unfold len. cbn [toks]. rewrite E. cbn [length]. lia.
Qed.

(* is_ty is an equivalence on token types via their codes *)
Lemma is_ty_eof_other a b : is_ty a b = true -> is_ty a TEOF = is_ty b TEOF.
Proof. unfold is_ty. intro H. apply N.eqb_eq in H. rewrite H. reflexivity. Qed.

Lemma not_eof_of ty ps : is_ty (ctype ps) ty = true -> is_ty ty TEOF = false -> is_ty (ctype ps) TEOF = false.
Proof. intros H1 H2. rewrite (is_ty_eof_other _ _ H1). exact H2. Qed.

Definition ends_eof (l : list token) : Prop := exists pre e, l = pre ++ [e] /\ is_ty (tk_type e) TEOF = true.

Lemma ends_eof_tail t t' r : ends_eof (t :: t' :: r) -> ends_eof (t' :: r).
Proof.
  intros (pre & e & E & He). destruct pre as [|a pre]; cbn [app] in E; [discriminate|].
  inversion E; subst. exists pre, e. split; [assumption|exact He].
Qed.

Lemma skip_line_toks_spec : forall l, ends_eof l ->
  ends_eof (skip_line_toks l) /\ length (skip_line_toks l) <= length l.
Proof.
  induction l as [|t r IH]; intro W; [destruct W as (pre & e & E & _); destruct pre; discriminate|].
  destruct r as [|t' r']; [cbn; split; [exact W|lia]|].
  cbn [skip_line_toks].
  destruct (is_ty (tk_type t) TNewline); [split; [eapply ends_eof_tail; exact W|simpl; lia]|].
  destruct (is_ty (tk_type t) TEOF); [split; [exact W|lia]|].
  destruct (IH (ends_eof_tail _ _ _ W)) as [A B]. split; [exact A|simpl in *; lia].
Qed.

Lemma skip_line_toks_lt t t' r : ends_eof (t :: t' :: r) -> is_ty (tk_type t) TEOF = false ->
  length (skip_line_toks (t :: t' :: r)) < length (t :: t' :: r).
Proof.
  intros W H. cbn [skip_line_toks]. destruct (is_ty (tk_type t) TNewline); [simpl; lia|].
  rewrite H. destruct (skip_line_toks_spec (t' :: r) (ends_eof_tail _ _ _ W)) as [_ B]. simpl in *. lia.
Qed.

Lemma wf_ends ps : wf ps <-> ends_eof (toks ps).
Proof. unfold wf, ends_eof. tauto. Qed.

Lemma skip_to_next_line_le ps : le (skip_to_next_line ps) ps.
Proof.
  intro W. apply wf_ends in W. destruct (skip_line_toks_spec _ W) as [A B].
  split; [apply wf_ends; exact A|exact B].
Qed.

Lemma skip_to_next_line_lt ps : is_ty (ctype ps) TEOF = false -> lt (skip_to_next_line ps) ps.
Proof.
  intros H W. destruct (wf_two ps W H) as (t & t' & r & E).
  assert (W' : ends_eof (t :: t' :: r)) by (rewrite <- E; apply wf_ends; exact W).
  destruct (skip_line_toks_spec _ W') as [A _].
  split; [apply wf_ends; unfold skip_to_next_line; cbn [toks]; rewrite E; exact A|].
  unfold len, skip_to_next_line. cbn [toks]. rewrite E. apply skip_line_toks_lt; [exact W'|].
  unfold ctype, cur in H. rewrite E in H. exact H.
Qed.

Lemma skip_until_toks_spec stop : forall l, ends_eof l ->
  ends_eof (skip_until_toks stop l) /\ length (skip_until_toks stop l) <= length l.
Proof.
  induction l as [|t r IH]; intro W; [destruct W as (pre & e & E & _); destruct pre; discriminate|].
  destruct r as [|t' r']; [cbn; split; [exact W|lia]|].
  cbn [skip_until_toks]. destruct (stop (tk_type t)); [split; [exact W|lia]|].
  destruct (IH (ends_eof_tail _ _ _ W)) as [A B]. split; [exact A|simpl in *; lia].
Qed.

Lemma skip_until_le stop ps : le (skip_until stop ps) ps.
Proof.
  intro W. apply wf_ends in W. destruct (skip_until_toks_spec stop _ W) as [A B].
  split; [apply wf_ends; exact A|exact B].
Qed.

(* syntactic peeling (plain `apply` unifies perr / skip_to_next_line / adv up to conversion) *)
Ltac peel :=
  match goal with
  | |- le (adv ?x) _ => eapply le_trans; [apply (adv_le x)|]
  | |- le (perr ?x) _ => eapply le_trans; [apply (perr_le x)|]
  | |- le (perr_at ?p ?x) _ => eapply le_trans; [apply (perr_at_le p x)|]
  | |- le (skip_to_next_line ?x) _ => eapply le_trans; [apply (skip_to_next_line_le x)|]
  | |- le (skip_until ?s ?x) _ => eapply le_trans; [apply (skip_until_le s x)|]
  | |- le (mkPS (toks ?x) ?e ?d) _ => eapply le_trans; [apply (wf_same_toks x (mkPS (toks x) e d) eq_refl)|]
  | H : le ?a ?b |- le ?a _ => eapply le_trans; [exact H|]
  end.
Ltac le_tac := lazymatch goal with |- le ?a ?a => apply le_refl | _ => peel; le_tac end.

Ltac break_match :=
  repeat match goal with
         | |- context [if ?c then _ else _] => destruct c eqn:?
         | |- context [match ?x with _ => _ end] => destruct x eqn:?
         end.

Lemma parse_comment_le ps : le (snd (parse_comment ps)) ps.
Proof. unfold parse_comment. cbn [snd]. le_tac. Qed.

Lemma parse_comment_lt ps : is_ty (ctype ps) TEOF = false -> lt (snd (parse_comment ps)) ps.
Proof. intro H. unfold parse_comment. cbn [snd]. apply adv_lt. exact H. Qed.

Lemma parse_date_le ps : le (snd (parse_date ps)) ps.
Proof. unfold parse_date. break_match; cbn [snd]; le_tac. Qed.

(* when the current token is a date it is consumed whatever its value *)
Lemma parse_date_lt ps : is_ty (ctype ps) TDate = true -> lt (snd (parse_date ps)) ps.
Proof.
  intro H. assert (NE : is_ty (ctype ps) TEOF = false) by (eapply not_eof_of; [exact H|reflexivity]).
  unfold parse_date. rewrite H. cbn [negb].
  break_match; cbn [snd]; first [apply adv_lt; exact NE | eapply le_lt_trans; [apply perr_at_le|apply adv_lt; exact NE]].
Qed.

Lemma parse_status_le ps : le (snd (parse_status ps)) ps.
Proof. unfold parse_status. break_match; cbn [snd]; le_tac. Qed.

Ltac break_all :=
  repeat (match goal with
          | |- context [if ?c then _ else _] => destruct c eqn:?
          | |- context [match ?x with _ => _ end] => destruct x eqn:?
          end; cbv beta iota).

Lemma parse_amount_le ps : le (snd (parse_amount ps)) ps.
Proof. unfold parse_amount. break_all; cbn [snd]; le_tac. Qed.

Lemma parse_cost_le ps : le (snd (parse_cost ps)) ps.
Proof.
  unfold parse_cost. pose proof (parse_amount_le (adv ps)) as A.
  destruct (parse_amount (adv ps)) as [[a|] ps'] eqn:E; cbn [snd] in *; (eapply le_trans; [exact A|apply adv_le]).
Qed.

Lemma parse_assertion_le ps : le (snd (parse_assertion ps)) ps.
Proof.
  unfold parse_assertion. pose proof (parse_amount_le (adv ps)) as A.
  destruct (parse_amount (adv ps)) as [[a|] ps'] eqn:E; cbn [snd] in *; (eapply le_trans; [exact A|apply adv_le]).
Qed.

(* facts about the sub-parsers whose results were named by destructing *)
Ltac sub_facts :=
  repeat match goal with
         | H : parse_amount ?x = (_, ?p) |- _ =>
             lazymatch goal with L : le p x |- _ => fail | _ => let L := fresh "L" in pose proof (parse_amount_le x) as L; rewrite H in L; cbn [snd] in L end
         | H : parse_cost ?x = (_, ?p) |- _ =>
             lazymatch goal with L : le p x |- _ => fail | _ => let L := fresh "L" in pose proof (parse_cost_le x) as L; rewrite H in L; cbn [snd] in L end
         | H : parse_assertion ?x = (_, ?p) |- _ =>
             lazymatch goal with L : le p x |- _ => fail | _ => let L := fresh "L" in pose proof (parse_assertion_le x) as L; rewrite H in L; cbn [snd] in L end
         | H : parse_status ?x = (_, ?p) |- _ =>
             lazymatch goal with L : le p x |- _ => fail | _ => let L := fresh "L" in pose proof (parse_status_le x) as L; rewrite H in L; cbn [snd] in L end
         | H : parse_date ?x = (_, ?p) |- _ =>
             lazymatch goal with L : le p x |- _ => fail | _ => let L := fresh "L" in pose proof (parse_date_le x) as L; rewrite H in L; cbn [snd] in L end
         | H : parse_comment ?x = (_, ?p) |- _ =>
             lazymatch goal with L : le p x |- _ => fail | _ => let L := fresh "L" in pose proof (parse_comment_le x) as L; rewrite H in L; cbn [snd] in L end
         end.

Ltac peel2 :=
  match goal with
  | |- le (snd (parse_comment ?x)) _ => eapply le_trans; [apply (parse_comment_le x)|]
  | _ => peel
  end.
Ltac le_solve := lazymatch goal with |- le ?a ?a => apply le_refl | _ => peel2; le_solve end.

Lemma parse_posting_body_le ps : le (snd (parse_posting ps)) ps.
Proof. unfold parse_posting. break_all; cbn [snd]; sub_facts; le_solve. Qed.

Lemma parse_posting_lt ps : is_ty (ctype ps) TIndent = true -> lt (snd (parse_posting ps)) ps.
Proof.
  intro H. assert (NE : is_ty (ctype ps) TEOF = false) by (eapply not_eof_of; [exact H|reflexivity]).
  eapply le_lt_trans; [|apply adv_lt; exact NE].
  unfold parse_posting. rewrite H. cbn [negb]. set (ps1 := adv ps). clearbody ps1.
  break_all; cbn [snd]; sub_facts; le_solve.
Qed.

(* the postings loop: with fuel above the number of tokens left it does not run dry *)
Lemma parse_postings_total : forall fuel ps acc, wf ps -> len ps < fuel ->
  exists r ps', parse_postings fuel ps acc = Some (r, ps') /\ wf ps' /\ len ps' <= len ps.
Proof.
  induction fuel as [|fuel IH]; intros ps acc W L; [lia|].
  cbn [parse_postings]. destruct (is_ty (ctype ps) TIndent) eqn:Ti.
  - pose proof (parse_posting_lt ps Ti W) as [W1 L1].
    destruct (parse_posting ps) as [p ps1] eqn:Ep. cbn [snd] in *.
    set (acc' := match p with Some x => acc ++ [x] | None => acc end).
    set (ps2 := if is_ty (ctype ps1) TNewline then adv ps1 else ps1).
    assert (L2 : le ps2 ps1) by (unfold ps2; destruct (is_ty (ctype ps1) TNewline); [apply adv_le|apply le_refl]).
    destruct (L2 W1) as [W2 L2'].
    destruct (IH ps2 acc' W2 ltac:(lia)) as (r & ps' & E & W' & L').
    exists r, ps'. split; [exact E|]. split; [exact W'|lia].
  - exists acc, ps. split; [reflexivity|]. split; [exact W|lia].
Qed.

Ltac break_hdr :=
  repeat (match goal with
          | |- context [if ?c then _ else _] => destruct c eqn:?
          | |- context [match parse_date ?x with _ => _ end] => destruct (parse_date x) eqn:?
          | |- context [match parse_status ?x with _ => _ end] => destruct (parse_status x) eqn:?
          | |- context [match parse_comment ?x with _ => _ end] => destruct (parse_comment x) eqn:?
          | |- context [match parse_amount ?x with _ => _ end] => destruct (parse_amount x) eqn:?
          end; cbv beta iota).

(* The header of a transaction is a chain of seven stages, each handing its state to the next.  The
   stages are named here (the model writes them inline) so that the proof follows the chain once
   instead of splitting it into its 2^7 paths. *)
Definition hdr_date2 (ps : pstate) := if is_ty (ctype ps) TEquals then parse_date (adv ps) else (None, ps).
Definition hdr_status (ps : pstate) := if is_ty (ctype ps) TStatus then parse_status ps else (StNone, ps).
Definition hdr_code (ps : pstate) := if is_ty (ctype ps) TCode then (tk_val (cur ps), adv ps) else ([], ps).
Definition hdr_desc (ps : pstate) :=
  if is_ty (ctype ps) TText then
    let d0 := tk_val (cur ps) in
    let prng := text_range (tk_pos (cur ps)) d0 in
    let ps := adv ps in
    if is_ty (ctype ps) TPipe then
      let payee := trim_space_u d0 in
      let ps := adv ps in
      let '(note, ps) := if is_ty (ctype ps) TText then (trim_space_u (tk_val (cur ps)), adv ps) else ([], ps) in
      ((match note with [] => payee | _ => payee ++ sep_note ++ note end), payee, note, prng, ps)
    else (d0, [], [], prng, ps)
  else ([], [], [], rng0, ps).
Definition hdr_cmts (ps : pstate) :=
  if is_ty (ctype ps) TComment then let '(c, ps) := parse_comment ps in ([c], ps) else ([], ps).
Definition hdr_nl (ps : pstate) := if is_ty (ctype ps) TNewline then adv ps else ps.

Lemma parse_transaction_stages fuel ps : parse_transaction fuel ps =
  let start := zpos (tk_pos (cur ps)) in
  match parse_date ps with
  | (None, ps) => Some (None, skip_to_next_line ps)
  | (Some d, ps) =>
      let '(d2, ps) := hdr_date2 ps in
      let '(st, ps) := hdr_status ps in
      let '(code, ps) := hdr_code ps in
      let '(desc, payee, note, prng, ps) := hdr_desc ps in
      let '(cmts, ps) := hdr_cmts ps in
      let ps := hdr_nl ps in
      match parse_postings fuel ps [] with
      | None => None
      | Some (posts, ps) =>
          Some (Some (mkTx d d2 st code desc payee note prng posts [] cmts (mkRng start (zpos (tk_pos (cur ps))))), ps)
      end
  end.
Proof. reflexivity. Qed.

Lemma hdr_date2_le ps : le (snd (hdr_date2 ps)) ps.
Proof.
  unfold hdr_date2. destruct (is_ty (ctype ps) TEquals); [|apply le_refl].
  eapply le_trans; [apply parse_date_le|apply adv_le].
Qed.
Lemma hdr_status_le ps : le (snd (hdr_status ps)) ps.
Proof. unfold hdr_status. destruct (is_ty (ctype ps) TStatus); [apply parse_status_le|apply le_refl]. Qed.
Lemma hdr_code_le ps : le (snd (hdr_code ps)) ps.
Proof. unfold hdr_code. destruct (is_ty (ctype ps) TCode); cbn [snd]; [apply adv_le|apply le_refl]. Qed.
Lemma hdr_desc_le ps : le (snd (hdr_desc ps)) ps.
Proof.
  unfold hdr_desc. destruct (is_ty (ctype ps) TText); [|apply le_refl]. cbv zeta.
  destruct (is_ty (ctype (adv ps)) TPipe); [|cbn [snd]; apply adv_le].
  destruct (is_ty (ctype (adv (adv ps))) TText); cbn [snd]; le_tac.
Qed.
Lemma hdr_cmts_le ps : le (snd (hdr_cmts ps)) ps.
Proof.
  unfold hdr_cmts. destruct (is_ty (ctype ps) TComment); [|apply le_refl].
  pose proof (parse_comment_le ps) as L. destruct (parse_comment ps) as [c p]. exact L.
Qed.
Lemma hdr_nl_le ps : le (hdr_nl ps) ps.
Proof. unfold hdr_nl. destruct (is_ty (ctype ps) TNewline); [apply adv_le|apply le_refl]. Qed.

Lemma parse_transaction_total fuel ps : wf ps -> len ps <= fuel -> is_ty (ctype ps) TDate = true ->
  exists r ps', parse_transaction fuel ps = Some (r, ps') /\ wf ps' /\ len ps' < len ps.
Proof.
  intros W L Td. pose proof (parse_date_lt ps Td) as D.
  rewrite parse_transaction_stages. cbv zeta. destruct (parse_date ps) as [od ps1] eqn:Ed. cbn [snd] in D.
  destruct (D W) as [W1 L1].
  destruct od as [d|].
  - pose proof (hdr_date2_le ps1) as A2. destruct (hdr_date2 ps1) as [d2 ps2]. cbn [snd] in A2.
    pose proof (hdr_status_le ps2) as A3. destruct (hdr_status ps2) as [st ps3]. cbn [snd] in A3.
    pose proof (hdr_code_le ps3) as A4. destruct (hdr_code ps3) as [code ps4]. cbn [snd] in A4.
    pose proof (hdr_desc_le ps4) as A5. destruct (hdr_desc ps4) as [[[[desc payee] note] prng] ps5]. cbn [snd] in A5.
    pose proof (hdr_cmts_le ps5) as A6. destruct (hdr_cmts ps5) as [cmts ps6]. cbn [snd] in A6.
    pose proof (hdr_nl_le ps6) as A7.
    assert (LE : le (hdr_nl ps6) ps1) by (repeat (eapply le_trans; [eassumption|]); apply le_refl).
    destruct (LE W1) as [Wn Ln].
    destruct (parse_postings_total fuel (hdr_nl ps6) [] Wn ltac:(lia)) as (r & ps' & E & W' & L').
    rewrite E. eexists; eexists. split; [reflexivity|]. split; [exact W'|lia].
  - eexists; eexists. split; [reflexivity|]. destruct (skip_to_next_line_le ps1 W1) as [W2 L2]. split; [exact W2|lia].
Qed.

Lemma parse_subdirs_total : forall fuel ps m, wf ps -> len ps < fuel ->
  exists m' ps', parse_subdirs fuel ps m = Some (m', ps') /\ wf ps' /\ len ps' <= len ps.
Proof.
  induction fuel as [|fuel IH]; intros ps m W L; [lia|].
  cbn [parse_subdirs].
  destruct (is_ty (ctype ps) TNewline) eqn:Tn; cbn [negb].
  2:{ exists m, ps. split; [reflexivity|]. split; [exact W|lia]. }
  assert (NE : is_ty (ctype ps) TEOF = false) by (eapply not_eof_of; [exact Tn|reflexivity]).
  destruct (adv_lt ps NE W) as [W1 L1].
  set (ps1 := adv ps) in *.
  assert (REC : forall X m0, le X ps1 -> exists m' ps', parse_subdirs fuel X m0 = Some (m', ps') /\ wf ps' /\ len ps' <= len ps).
  { intros X m0 LE. destruct (LE W1) as [WX LX]. destruct (IH X m0 WX ltac:(lia)) as (m' & ps' & E & W' & L').
    exists m', ps'. split; [exact E|]. split; [exact W'|lia]. }
  destruct (is_ty (ctype ps1) TIndent); cbn [negb].
  2:{ exists m, ps1. split; [reflexivity|]. split; [exact W1|lia]. }
  break_all; apply REC; le_tac.
Qed.

Ltac with_subdirs fuel W1 :=
  match goal with
  | |- context [parse_subdirs fuel ?PS []] =>
      let LE := fresh "LE" in
      assert (LE : le PS _) by (sub_facts; le_solve);
      let Wn := fresh "Wn" in let Ln := fresh "Ln" in
      destruct (LE W1) as [Wn Ln];
      let E := fresh "E" in
      destruct (parse_subdirs_total fuel PS [] Wn ltac:(lia)) as (?m' & ?ps' & E & ?W' & ?L');
      rewrite E; eexists; eexists; split; [reflexivity|]; split; [eassumption|lia]
  end.

Lemma parse_account_directive_total fuel sp ps : wf ps -> len ps < fuel ->
  exists r ps', parse_account_directive fuel sp ps = Some (r, ps') /\ wf ps' /\ len ps' <= len ps.
Proof.
  intros W L. unfold parse_account_directive.
  destruct (negb (is_ty (ctype ps) TAccount || is_ty (ctype ps) TText)).
  - eexists; eexists. split; [reflexivity|].
    assert (LE : le (skip_to_next_line (perr ps)) ps) by le_tac. destruct (LE W). split; [assumption|lia].
  - break_hdr;
      match goal with
      | |- context [parse_subdirs fuel ?PS []] =>
          assert (LE : le PS ps) by (sub_facts; le_solve);
          destruct (LE W) as [Wn Ln];
          destruct (parse_subdirs_total fuel PS [] Wn ltac:(lia)) as (m' & ps' & E & W' & L');
          rewrite E; eexists; eexists; split; [reflexivity|]; split; [exact W'|lia]
      end.
Qed.

Lemma parse_commodity_directive_total fuel sp ps : wf ps -> len ps < fuel ->
  exists r ps', parse_commodity_directive fuel sp ps = Some (r, ps') /\ wf ps' /\ len ps' <= len ps.
Proof.
  intros W L. unfold parse_commodity_directive.
  break_hdr;
    match goal with
    | |- context [parse_subdirs fuel ?PS []] =>
        assert (LE : le PS ps) by (sub_facts; le_solve);
        destruct (LE W) as [Wn Ln];
        destruct (parse_subdirs_total fuel PS [] Wn ltac:(lia)) as (m' & ps' & E & W' & L');
        rewrite E; eexists; eexists; split; [reflexivity|]; split; [exact W'|lia]
    end.
Qed.

Lemma parse_include_directive_le sp ps : le (snd (parse_include_directive sp ps)) ps.
Proof. unfold parse_include_directive. break_all; cbn [snd]; sub_facts; le_solve. Qed.
Lemma parse_price_directive_le sp ps : le (snd (parse_price_directive sp ps)) ps.
Proof. unfold parse_price_directive. break_all; cbn [snd]; sub_facts; le_solve. Qed.
Lemma parse_default_directive_le sp ps : le (snd (parse_default_directive sp ps)) ps.
Proof. unfold parse_default_directive. break_all; cbn [snd]; sub_facts; le_solve. Qed.
Lemma parse_year_directive_le sp ps : le (snd (parse_year_directive sp ps)) ps.
Proof. unfold parse_year_directive. break_all; cbn [snd]; sub_facts; le_solve. Qed.

Lemma parse_directive_total fuel ps : wf ps -> len ps <= fuel -> is_ty (ctype ps) TDirective = true ->
  exists r ps', parse_directive fuel ps = Some (r, ps') /\ wf ps' /\ len ps' < len ps.
Proof.
  intros W L Td.
  assert (NE : is_ty (ctype ps) TEOF = false) by (eapply not_eof_of; [exact Td|reflexivity]).
  destruct (adv_lt ps NE W) as [W1 L1].
  unfold parse_directive. set (ps1 := adv ps) in *. set (p := tk_pos (cur ps)).
  assert (PAIR : forall (x : option directive * pstate), le (snd x) ps1 ->
            exists r ps', Some x = Some (r, ps') /\ wf ps' /\ len ps' < len ps).
  { intros [r ps'] LE. cbn [snd] in LE. destruct (LE W1). exists r, ps'. split; [reflexivity|]. split; [assumption|lia]. }
  destruct (beq (tk_val (cur ps)) (bs "account")).
  { destruct (parse_account_directive_total fuel p ps1 W1 ltac:(lia)) as (r & ps' & E & W' & L').
    exists r, ps'. split; [exact E|]. split; [exact W'|lia]. }
  destruct (beq (tk_val (cur ps)) (bs "commodity")).
  { destruct (parse_commodity_directive_total fuel p ps1 W1 ltac:(lia)) as (r & ps' & E & W' & L').
    exists r, ps'. split; [exact E|]. split; [exact W'|lia]. }
  destruct (beq (tk_val (cur ps)) (bs "include")); [apply PAIR, parse_include_directive_le|].
  destruct (beq (tk_val (cur ps)) (bs "P")); [apply PAIR, parse_price_directive_le|].
  destruct (beq (tk_val (cur ps)) (bs "Y") || beq (tk_val (cur ps)) (bs "year")); [apply PAIR, parse_year_directive_le|].
  destruct (beq (tk_val (cur ps)) (bs "D")); [apply PAIR, parse_default_directive_le|].
  apply (PAIR (None, skip_to_next_line ps1)). cbn [snd]. apply skip_to_next_line_le.
Qed.

Lemma parse_journal_total : forall fuel ps j, wf ps -> len ps < fuel -> parse_journal fuel ps j <> None.
Proof.
  induction fuel as [|fuel IH]; intros ps j W L; [lia|].
  cbn [parse_journal].
  destruct (is_ty (ctype ps) TEOF) eqn:Te; [discriminate|].
  destruct (is_ty (ctype ps) TNewline).
  { destruct (adv_lt ps Te W) as [W1 L1]. apply IH; [exact W1|lia]. }
  destruct (is_ty (ctype ps) TComment).
  { pose proof (parse_comment_lt ps Te W) as [W1 L1]. destruct (parse_comment ps) as [c ps1]. cbn [snd] in *.
    apply IH; [exact W1|lia]. }
  destruct (is_ty (ctype ps) TDate) eqn:Td.
  { destruct (parse_transaction_total fuel ps W ltac:(lia) Td) as (r & ps' & E & W' & L'). rewrite E.
    destruct r; apply IH; try exact W'; lia. }
  destruct (is_ty (ctype ps) TDirective) eqn:Tdir.
  { destruct (parse_directive_total fuel ps W ltac:(lia) Tdir) as (r & ps' & E & W' & L'). rewrite E.
    destruct r as [d|]; [destruct d|]; apply IH; try exact W'; lia. }
  assert (LT : lt (skip_to_next_line (perr ps)) ps).
  { eapply lt_le_trans; [apply skip_to_next_line_lt|apply perr_le]. exact Te. }
  destruct (LT W) as [W1 L1]. apply IH; [exact W1|lia].
Qed.

Lemma lex_all_ends_eof : forall fuel s ts, lex_all fuel s = Some ts -> ends_eof ts.
Proof.
  induction fuel as [|fuel IH]; intros s ts H; [discriminate|].
  cbn [lex_all] in H. destruct (next s) as [t s'] eqn:En.
  destruct (tk_type t) eqn:Et;
    try (destruct (lex_all fuel s') as [l|] eqn:El; [|discriminate]; inversion H; subst ts;
         destruct (IH s' l El) as (pre & e & E & He); exists (t :: pre), e; split; [rewrite E; reflexivity|exact He]).
  inversion H; subst ts. exists [], t. split; [reflexivity|]. rewrite Et. reflexivity.
Qed.

(* the parser never runs out of fuel: on every input, every byte string, parse returns a journal *)
Theorem parse_total input : parse input <> None.
Proof.
  unfold parse. destruct (lex input) as [ts|] eqn:El; [|exfalso; exact (lex_total input El)].
  assert (W : wf (mkPS ts [] 0%Z)) by (apply wf_ends; cbn [toks]; exact (lex_all_ends_eof _ _ _ El)).
  pose proof (parse_journal_total (length ts + 2) (mkPS ts [] 0%Z) (mkJournal [] [] [] []) W ltac:(unfold len; cbn [toks]; lia)) as T.
  destruct (parse_journal (length ts + 2) (mkPS ts [] 0%Z) (mkJournal [] [] [] [])) as [[j ps]|]; [discriminate|contradiction].
Qed.

