(* Line numbers of the token stream: only the line-break scanner changes the lexer's line, the
   token that follows a non-line-break token is on the same line, indent tokens are only produced
   at the start of a line, so the lines of the indent tokens of a stream are strictly increasing;
   every token's line lies between 1 and 1 + the number of line feeds of the input. *)
From HL Require Import Lib.Bytes Lib.Utf8 Lib.UnicodeTables Model.Lexer Proofs.LexerProofs.
From Coq Require Import Sorted.
Open Scope N_scope.

Fixpoint count10 (l : list N) : N := match l with [] => 0 | c :: r => (if c =? 10 then 1 else 0) + count10 r end.
Lemma count10_skipn m : forall l, count10 (skipn m l) <= count10 l.
Proof. induction m as [|m IH]; intro l; [cbn; lia|]. destruct l as [|c r]; [cbn; lia|]. cbn [skipn count10]. specialize (IH r). lia. Qed.

Lemma lline_consume n c s : lline (consume n c s) = lline s. Proof. reflexivity. Qed.
Lemma at_start_consume n c s : at_start (consume n c s) = at_start s. Proof. reflexivity. Qed.
Lemma lline_advance s : lline (advance s) = lline s. Proof. unfold advance. destruct (rest s); reflexivity. Qed.
Lemma at_start_advance s : at_start (advance s) = at_start s. Proof. unfold advance. destruct (rest s); reflexivity. Qed.

(* an ordinary token: same line, flag untouched, neither a line break nor an indent *)
Definition plain (s : lx) (r : token * lx) : Prop :=
  lline (snd r) = lline s /\ at_start (snd r) = at_start s /\
  tk_type (fst r) <> TNewline /\ tk_type (fst r) <> TIndent /\ tp_line (tk_pos (fst r)) = lline s.

Ltac plain_tac :=
  unfold plain;
  repeat match goal with
         | |- context [let '(_, _) := ?x in _] => destruct x
         | |- context [match ?x with _ => _ end] => destruct x
         | |- context [if ?c then _ else _] => destruct c
         end;
  cbn [fst snd tk_type tk_pos tok makeToken position tp_line];
  rewrite ?lline_consume, ?at_start_consume, ?lline_advance, ?at_start_advance, ?lline_consume, ?at_start_consume, ?lline_advance, ?at_start_advance;
  repeat split; try reflexivity; try discriminate.

Lemma plain_scanDate s : plain s (scanDate s). Proof. unfold scanDate. plain_tac. Qed.
Lemma plain_scanStatus s : plain s (scanStatus s). Proof. unfold scanStatus. plain_tac. Qed.
Lemma plain_scanCode s : plain s (scanCode s). Proof. unfold scanCode. plain_tac. Qed.
Lemma plain_scanComment s : plain s (scanComment s). Proof. unfold scanComment. plain_tac. Qed.
Lemma plain_scanAccount s : plain s (scanAccount s). Proof. unfold scanAccount. plain_tac. Qed.
Lemma plain_scanNumber s : plain s (scanNumber s). Proof. unfold scanNumber. plain_tac. Qed.
Lemma plain_scanCurrencySymbol s : plain s (scanCurrencySymbol s). Proof. unfold scanCurrencySymbol. plain_tac. Qed.
Lemma plain_scanQuotedCommodity s : plain s (scanQuotedCommodity s). Proof. unfold scanQuotedCommodity. plain_tac. Qed.
Lemma plain_scanAt s : plain s (scanAt s). Proof. unfold scanAt. plain_tac. Qed.
Lemma plain_scanEquals s : plain s (scanEquals s). Proof. unfold scanEquals. plain_tac. Qed.
Lemma plain_scanSign s : plain s (scanSign s). Proof. unfold scanSign. plain_tac. Qed.
Lemma plain_scanText s : plain s (scanText s). Proof. unfold scanText. plain_tac. Qed.
Lemma plain_scanSingle ty v s : ty <> TNewline -> ty <> TIndent -> plain s (scanSingle ty v s).
Proof. intros A B. unfold scanSingle, plain. cbn [fst snd tk_type tk_pos tok position tp_line]. rewrite lline_advance, at_start_advance. repeat split; auto. Qed.

Lemma plain_scanDirectiveOrAccount s : plain s (scanDirectiveOrAccount s).
Proof.
  unfold scanDirectiveOrAccount. destruct (isDirective _); [plain_tac|].
  destruct (looksLikeAccount s); [apply plain_scanAccount|apply plain_scanText].
Qed.

Lemma plain_scanCommodityOrText s : plain s (scanCommodityOrText s).
Proof.
  unfold scanCommodityOrText.
  match goal with |- context [if ?c then _ else _] => destruct c end; [plain_tac|].
  match goal with |- context [if ?c then _ else _] => destruct c end; [plain_tac|apply plain_scanText].
Qed.

(* moving the start state over blanks does not matter *)
Lemma plain_shift s0 s r : lline s = lline s0 -> at_start s = at_start s0 -> plain s r -> plain s0 r.
Proof. unfold plain. intros E1 E2 (A & B & C & D & F). rewrite <- E1, <- E2. auto. Qed.

(* scanInLine: an ordinary token, or the line break *)
Definition newline_step (s : lx) (r : token * lx) : Prop :=
  tk_type (fst r) = TNewline /\ lline (snd r) = lline s + 1 /\ at_start (snd r) = true /\ lcol (snd r) = 1 /\
  tp_line (tk_pos (fst r)) = lline s /\ count10 (rest (snd r)) + 1 <= count10 (rest s).

Lemma scanNewline_step s r : rest s = 10 :: r -> newline_step s (scanNewline s).
Proof.
  intro Er. unfold scanNewline, newline_step. cbn [fst snd tk_type tk_pos tok position tp_line lline at_start lcol rest].
  rewrite lline_advance.
  assert (A : rest (advance s) = r).
  { unfold advance. rewrite Er. unfold consume. cbn [rest]. rewrite Er. reflexivity. }
  rewrite A, Er. repeat split; try reflexivity. cbn [count10]. change (10 =? 10) with true. cbv iota. lia.
Qed.

Lemma scanInLine_cases s0 : plain s0 (scanInLine s0) \/ newline_step s0 (scanInLine s0).
Proof.
  unfold scanInLine. set (s := consume _ _ s0).
  assert (E1 : lline s = lline s0) by reflexivity. assert (E2 : at_start s = at_start s0) by reflexivity.
  destruct (rest s) as [|ch r] eqn:Er.
  { left. unfold plain. cbn [fst snd makeToken tok tk_type tk_pos position tp_line]. rewrite ?E1, ?E2. repeat split; try reflexivity; discriminate. }
  destruct (ch =? 10) eqn:C10.
  { right. apply N.eqb_eq in C10. subst ch. destruct (scanNewline_step s r Er) as (A & B & C & D & F & G).
    unfold newline_step. rewrite <- E1. repeat split; auto.
    pose proof (count10_skipn (skip_spaces_n (rest s0)) (rest s0)) as L.
    change (skipn (skip_spaces_n (rest s0)) (rest s0)) with (rest s) in L. lia. }
  left. apply (plain_shift s0 s _ E1 E2).
  repeat match goal with
         | |- context [if ?c then _ else _] => destruct c
         end;
    first [ apply plain_scanComment | apply plain_scanCode | apply plain_scanAt | apply plain_scanEquals | apply plain_scanStatus
          | apply plain_scanCurrencySymbol | apply plain_scanQuotedCommodity | apply plain_scanSign | apply plain_scanText
          | apply plain_scanDate | apply plain_scanNumber | apply plain_scanAccount | apply plain_scanCommodityOrText
          | apply plain_scanSingle; discriminate
          | plain_tac ].
Qed.

(* scanLineStart: ordinary (the flag is cleared), an indent (flag cleared), or the line break *)
Definition start_step (s : lx) (r : token * lx) : Prop :=
  lline (snd r) = lline s /\ at_start (snd r) = false /\ tk_type (fst r) <> TNewline /\ tp_line (tk_pos (fst r)) = lline s.

Lemma scanIndent_step s : at_start s = false -> start_step s (scanIndent s).
Proof. intro H. unfold scanIndent, start_step. cbn. rewrite H. repeat split; try reflexivity; discriminate. Qed.

Lemma plain_start s r : at_start s = false -> plain s r -> start_step s r.
Proof. intros H (A & B & C & D & F). unfold start_step. rewrite B, H. auto. Qed.

Lemma scanLineStart_cases s0 : start_step s0 (scanLineStart s0) \/ newline_step s0 (scanLineStart s0).
Proof.
  unfold scanLineStart. set (s := set_at_start false s0).
  assert (E1 : lline s = lline s0) by reflexivity. assert (E2 : at_start s = false) by reflexivity.
  assert (SH : forall r, start_step s r -> start_step s0 r) by (unfold start_step; intros r H; rewrite <- E1; exact H).
  assert (NH : forall r, newline_step s r -> newline_step s0 r) by (unfold newline_step; intros r H; rewrite <- E1; exact H).
  repeat match goal with |- context [if ?c then _ else _] => destruct c end.
  - left. apply SH, plain_start; [exact E2|apply plain_scanComment].
  - left. apply SH, scanIndent_step. exact E2.
  - left. apply SH, plain_start; [exact E2|apply plain_scanDate].
  - left. apply SH, plain_start; [exact E2|apply plain_scanDirectiveOrAccount].
  - destruct (scanInLine_cases s) as [P|P]; [left; apply SH, plain_start; [exact E2|exact P]|right; apply NH; exact P].
Qed.

(* only the line-start scanner produces an indent *)
Lemma scanInLine_no_indent s : tk_type (fst (scanInLine s)) <> TIndent.
Proof.
  destruct (scanInLine_cases s) as [(_ & _ & _ & D & _)|(A & _)]; [exact D|rewrite A; discriminate].
Qed.

Definition tline (t : token) : N := tp_line (tk_pos t).
Definition is_indent (t : token) : bool := match tk_type t with TIndent => true | _ => false end.
Definition is_newline (t : token) : bool := match tk_type t with TNewline => true | _ => false end.
Definition flag_ok (s : lx) : Prop := at_start s = true -> lcol s = 1.

Lemma next_cases s : flag_ok s -> rest s <> [] ->
  let r := next s in
  tline (fst r) = lline s /\ flag_ok (snd r) /\
  (tk_type (fst r) = TIndent -> at_start s = true) /\
  ((tk_type (fst r) = TNewline /\ lline (snd r) = lline s + 1) \/
   (tk_type (fst r) <> TNewline /\ lline (snd r) = lline s /\ at_start (snd r) = false)).
Proof.
  intros F NE. unfold next. destruct (rest s) as [|c l] eqn:Er; [contradiction|].
  destruct (at_start s && (lcol s =? 1)) eqn:C.
  - apply andb_true_iff in C as [C1 C2].
    destruct (scanLineStart_cases s) as [(A & B & T & P)|(A & B & T & Cc & P & _)]; cbv zeta; unfold tline.
    + split; [exact P|]. split; [intro X; congruence|]. split; [intros _; exact C1|]. right. auto.
    + split; [exact P|]. split; [intros _; exact Cc|]. split; [intros _; exact C1|]. left. auto.
  - assert (AS : at_start s = false).
    { destruct (at_start s) eqn:E; [|reflexivity]. rewrite (F E) in C. discriminate C. }
    destruct (scanInLine_cases s) as [(A & B & T & I & P)|(A & B & T & Cc & P & _)]; cbv zeta; unfold tline.
    + split; [exact P|]. split; [intro X; congruence|]. split; [intro X; contradiction|]. right. rewrite B. auto.
    + split; [exact P|]. split; [intros _; exact Cc|]. split; [intro X; congruence|]. left. auto.
Qed.

Lemma next_eof_line s : rest s = [] -> tline (fst (next s)) = lline s /\ tk_type (fst (next s)) = TEOF.
Proof. intro E. unfold next. rewrite E. split; reflexivity. Qed.

Lemma next_type_eof s : tk_type (fst (next s)) = TEOF -> rest s = [] \/ rest s <> [].
Proof. destruct (rest s); [left; reflexivity|right; discriminate]. Qed.

Definition indent_lines (ts : list token) : list N := map tline (filter is_indent ts).

(* what the token list of a lexer run looks like, seen from the state it started in *)
Record stream_ok (s : lx) (ts : list token) : Prop := {
  so_head : match ts with t :: _ => tline t = lline s | [] => True end;
  so_ge : Forall (fun t => lline s <= tline t) ts;
  so_sorted : StronglySorted N.lt (indent_lines ts);
  so_later : at_start s = false -> Forall (fun l => lline s < l) (indent_lines ts);
  so_adj : forall a t1 t2 b, ts = a ++ t1 :: t2 :: b -> tk_type t1 <> TNewline -> tline t2 = tline t1
}.

Lemma indent_lines_cons t l : indent_lines (t :: l) = if is_indent t then tline t :: indent_lines l else indent_lines l.
Proof. unfold indent_lines. cbn [filter]. destruct (is_indent t); reflexivity. Qed.

Lemma stream_one s t : tline t = lline s -> tk_type t = TEOF -> stream_ok s [t].
Proof.
  intros L T. constructor.
  - exact L.
  - constructor; [rewrite L; lia|constructor].
  - rewrite indent_lines_cons. unfold is_indent. rewrite T. constructor.
  - intros _. rewrite indent_lines_cons. unfold is_indent. rewrite T. constructor.
  - intros a t1 t2 b E. destruct a as [|x [|y a]]; discriminate.
Qed.

Lemma stream_cons s s' t l :
  tline t = lline s -> (tk_type t = TIndent -> at_start s = true) -> stream_ok s' l ->
  ((tk_type t = TNewline /\ lline s' = lline s + 1) \/
   (tk_type t <> TNewline /\ lline s' = lline s /\ at_start s' = false)) ->
  stream_ok s (t :: l).
Proof.
  intros L I [Hh Hge Hs Hl Ha] Cases.
  assert (LE : lline s <= lline s') by (destruct Cases as [[_ E]|(_ & E & _)]; lia).
  assert (GE : Forall (fun t0 => lline s <= tline t0) l) by (eapply Forall_impl; [|exact Hge]; cbn; intros; lia).
  constructor.
  - exact L.
  - constructor; [rewrite L; lia|exact GE].
  - rewrite indent_lines_cons. destruct (is_indent t) eqn:It; [|exact Hs].
    constructor; [exact Hs|]. destruct Cases as [[Tn _]|(_ & Ln & As)].
    + unfold is_indent in It. rewrite Tn in It. discriminate.
    + rewrite L, <- Ln. exact (Hl As).
  - intro A0. rewrite indent_lines_cons. destruct (is_indent t) eqn:It.
    + unfold is_indent in It. destruct (tk_type t) eqn:Et; try discriminate. rewrite (I eq_refl) in A0. discriminate.
    + destruct Cases as [[_ Ln]|(_ & Ln & As)].
      * unfold indent_lines. apply Forall_forall. intros x Ix. apply in_map_iff in Ix as (y & E & Iy).
        apply filter_In in Iy as [Iy _]. rewrite Forall_forall in Hge. specialize (Hge y Iy). subst x. lia.
      * rewrite <- Ln. exact (Hl As).
  - intros a t1 t2 b E NT. destruct a as [|x a]; cbn [app] in E; inversion E; subst.
    + cbn in Hh. rewrite Hh.
      destruct Cases as [[Tn _]|(_ & Ln & _)]; [contradiction|]. rewrite Ln, L. reflexivity.
    + eapply Ha; eauto.
Qed.

Lemma lex_all_stream : forall fuel s ts, flag_ok s -> lex_all fuel s = Some ts -> stream_ok s ts.
Proof.
  induction fuel as [|fuel IH]; intros s ts F H; [discriminate|].
  cbn [lex_all] in H. destruct (next s) as [t s'] eqn:En.
  destruct (rest s) as [|c0 l0] eqn:Er.
  { destruct (next_eof_line s Er) as [L T]. rewrite En in L, T. cbn [fst] in L, T. rewrite T in H. inversion H; subst ts.
    apply stream_one; assumption. }
  assert (NE : rest s <> []) by (rewrite Er; discriminate).
  pose proof (next_cases s F NE) as NC. rewrite En in NC. cbv zeta in NC. cbn [fst snd] in NC.
  destruct NC as (L & F' & I & Cases).
  destruct (tk_type t) eqn:Et;
    try (destruct (lex_all fuel s') as [l|] eqn:El; [|discriminate]; inversion H; subst ts; clear H;
         apply (stream_cons s s' t l L); [rewrite Et; exact I|exact (IH s' l F' El)|rewrite Et; exact Cases]).
  inversion H; subst ts. apply stream_one; assumption.
Qed.

Theorem lex_stream input ts : lex input = Some ts -> stream_ok (lx_init input) ts.
Proof. unfold lex. apply lex_all_stream. intros _. reflexivity. Qed.

Lemma next_rest_le s : rest s <> [] -> count10 (rest (snd (next s))) <= count10 (rest s).
Proof.
  intro NE. unfold next. destruct (rest s) as [|c r] eqn:E; [contradiction|].
  assert (NE' : rest s <> []) by (rewrite E; discriminate).
  destruct (at_start s && (lcol s =? 1)).
  - destruct (p_scanLineStart s NE') as (m & _ & D). unfold drops in D. rewrite D, <- E. apply count10_skipn.
  - destruct (p_scanInLine s NE') as (m & _ & D). unfold drops in D. rewrite D, <- E. apply count10_skipn.
Qed.

Lemma next_newline_count s : flag_ok s -> rest s <> [] -> tk_type (fst (next s)) = TNewline ->
  count10 (rest (snd (next s))) + 1 <= count10 (rest s).
Proof.
  intros F NE T. unfold next in *. destruct (rest s) as [|c l] eqn:Er; [contradiction|].
  destruct (at_start s && (lcol s =? 1)).
  - destruct (scanLineStart_cases s) as [(_ & _ & NT & _)|(_ & _ & _ & _ & _ & G)]; [contradiction|].
    rewrite Er in G. exact G.
  - destruct (scanInLine_cases s) as [(_ & _ & NT & _)|(_ & _ & _ & _ & _ & G)]; [contradiction|].
    rewrite Er in G. exact G.
Qed.

Lemma lex_all_bound : forall fuel s ts, flag_ok s -> lex_all fuel s = Some ts ->
  Forall (fun t => tline t <= lline s + count10 (rest s)) ts.
Proof.
  induction fuel as [|fuel IH]; intros s ts F H; [discriminate|].
  cbn [lex_all] in H. destruct (next s) as [t s'] eqn:En.
  destruct (rest s) as [|c0 l0] eqn:Er.
  { destruct (next_eof_line s Er) as [L T]. rewrite En in L, T. cbn [fst] in L, T. rewrite T in H. inversion H; subst ts.
    constructor; [rewrite L; cbn [count10]; lia|constructor]. }
  assert (NE : rest s <> []) by (rewrite Er; discriminate).
  pose proof (next_cases s F NE) as NC. pose proof (next_rest_le s NE) as RL. pose proof (next_newline_count s F NE) as NL.
  rewrite En in NC, RL, NL. cbv zeta in NC. cbn [fst snd] in NC, RL, NL. rewrite Er in RL, NL.
  destruct NC as (L & F' & _ & Cases).
  assert (HD : tline t <= lline s + count10 (c0 :: l0)) by (rewrite L; lia).
  destruct (tk_type t) eqn:Et;
    try (destruct (lex_all fuel s') as [l|] eqn:El; [|discriminate]; inversion H; subst ts; clear H;
         constructor; [exact HD|];
         eapply Forall_impl; [|exact (IH s' l F' El)]; cbn beta; intros a Ha;
         destruct Cases as [[Tn Ln]|(Tn & Ln & _)]; [specialize (NL Tn); lia|lia]).
  inversion H; subst ts. constructor; [exact HD|constructor].
Qed.

Theorem lex_line_bounds input ts : lex input = Some ts -> Forall (fun t => 1 <= tline t <= 1 + count10 input) ts.
Proof.
  intro H. pose proof (lex_stream input ts H) as [_ Hge _ _ _].
  assert (F : flag_ok (lx_init input)) by (intros _; reflexivity).
  pose proof (lex_all_bound _ _ _ F H) as B. cbn [lx_init lline rest] in *.
  apply Forall_forall. intros t It. rewrite Forall_forall in Hge, B. specialize (Hge t It). specialize (B t It). lia.
Qed.

