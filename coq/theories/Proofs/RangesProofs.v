(* C08: witnesses through the composed models (text -> lexer -> parser -> range producers). *)
From HL Require Import Lib.Bytes Lib.Utf8 Model.Ast Model.Lexer Model.Parser Model.References Model.Ranges Spec.RangeSpec.
Open Scope Z_scope.

Definition nl : list N := [10%N].
Definition ranges_of (text : list N) : option (list prange * list (Z * Z)) :=
  match parse text with Some (j, _) => Some (doc_symbols j, folding_ranges text j) | None => None end.
Definition hover_of (text : list N) (pl pc : Z) : option (hkind * prange) :=
  match parse text with Some (j, _) => hover_element j pl pc | None => None end.

(* baseline: on an ASCII transaction the hover range of the account is well-formed and covers it *)
Definition t_ascii := bs "2024-01-01 shop" ++ nl ++ bs "    assets:cash  1 USD" ++ nl.
Lemma ascii_account_ok :
  match hover_of t_ascii 1 5 with
  | Some (HAccount, r) => range_ok (doc_lines t_ascii) r && covers (doc_lines t_ascii) r (bs "assets:cash") = true
  | _ => False
  end.
Proof. vm_compute. reflexivity. Qed.

(* a non-BMP character inside the element: columns are UTF-16 code units (before the repair of
   the lexer's column counter they were runes, the range ended at 17, one unit short) *)
Definition t_emoji := bs "2024-01-01 shop" ++ nl ++ bs "    expenses:" ++ hx "f09f9880" ++ bs "fun  1 USD" ++ nl.
Lemma nonbmp_account_covered :
  match hover_of t_emoji 1 5 with
  | Some (HAccount, r) =>
      range_ok (doc_lines t_emoji) r && covers (doc_lines t_emoji) r (bs "expenses:" ++ hx "f09f9880" ++ bs "fun") = true /\ ec r = 18
  | _ => False
  end.
Proof. vm_compute. split; reflexivity. Qed.

(* the payee range with a code in the header: the parser records where the payee stands (it used to be
   estimated from the date width, so that with a code it covered '(chk 5) mont') *)
Definition t_code := bs "2024-02-12 * (chk 5) monthly rent" ++ nl ++ bs "    a:b  1 USD" ++ nl.
Lemma payee_range_recorded :
  match hover_of t_code 0 24 with
  | Some (HPayee, r) => range_ok (doc_lines t_code) r && covers (doc_lines t_code) r (bs "monthly rent") = true
  | _ => False
  end.
Proof. vm_compute. reflexivity. Qed.

(* two adjacent transactions: each fold ends on its transaction's last line (before the repair of
   the fold range the first ended on the second header's line and the second on the empty line
   after the final newline: [(0, 2); (2, 5)], overlapping) *)
Definition t_adjacent := bs "2024-01-01 a" ++ nl ++ bs "    a:b  1 USD" ++ nl ++ bs "2024-01-02 b" ++ nl ++ bs "    a:b  1 USD" ++ nl ++ bs "    c:d" ++ nl.
Lemma folds_adjacent :
  match ranges_of t_adjacent with
  | Some (_, fs) => fs = [(0, 1); (2, 4)] /\ folds_laminar fs = true
  | None => False
  end.
Proof. vm_compute. split; reflexivity. Qed.

(* the validator means what it says *)
Lemma range_ok_sound lines r :
  range_ok lines r = true ->
  pos_ok lines (sl r) (sc r) = true /\ pos_ok lines (el r) (ec r) = true /\
  (sl r < el r \/ (sl r = el r /\ sc r <= ec r)).
Proof.
  unfold range_ok. destruct (pos_ok lines (sl r) (sc r)); [|discriminate].
  destruct (pos_ok lines (el r) (ec r)); [|discriminate]. intro H. repeat split.
  apply Bool.orb_true_iff in H as [H|H]; [left; apply Z.ltb_lt; exact H|].
  apply Bool.andb_true_iff in H as [H1 H2]. right. split; [apply Z.eqb_eq; exact H1|apply Z.leb_le; exact H2].
Qed.

Lemma pos_ok_sound lines l c :
  pos_ok lines l c = true ->
  0 <= l < Z.of_nat (length lines) /\ 0 <= c <= zsum (widths (nth (Z.to_nat l) lines []) 0) /\
  on_boundary (widths (nth (Z.to_nat l) lines []) 0) c = true.
Proof.
  unfold pos_ok. destruct ((0 <=? l) && (l <? Z.of_nat (length lines))) eqn:E1; [|discriminate].
  destruct ((0 <=? c) && (c <=? zsum (widths (nth (Z.to_nat l) lines []) 0))) eqn:E2; [|discriminate].
  intro H. apply Bool.andb_true_iff in E1 as [A B]. apply Bool.andb_true_iff in E2 as [C D].
  apply Z.leb_le in A, C, D. apply Z.ltb_lt in B. auto.
Qed.

(* the document link of an include directive spans the whole directive, keyword included: it does not
   cover exactly the path (recorded finding link_range_includes_keyword) *)
Definition t_include := bs "include other.journal" ++ nl.
Lemma link_range_includes_keyword :
  match parse t_include with
  | Some (j, _) => doc_links j = [mkPR 0 0 0 21] /\ covers (doc_lines t_include) (mkPR 0 0 0 21) (bs "other.journal") = false
  | None => False
  end.
Proof. vm_compute. split; reflexivity. Qed.
