(* Facts about the transcribed semantic tokenizer that hold for every byte string. *)
From HL Require Import Lib.Bytes Lib.Utf8 Lib.UnicodeTables Model.Lexer Model.Parser Model.Semantic Model.SemTokens Proofs.LexerColumns.
From Coq Require Import ZifyN ZifyNat ZifyBool.
Open Scope N_scope.
Arguments N.add : simpl never.
Arguments N.sub : simpl never.

Definition tok_fine (t : tok) : Prop := t_type t < 13 /\ 0 < t_len t.

Lemma u16len_pos r : 1 <= u16len r.
Proof. unfold u16len. destruct (65536 <=? r); lia. Qed.

Lemma u16n_pos c r : 1 <= u16n (c :: r).
Proof.
  unfold u16n. cbn [u16_units_n]. destruct (Utf8.decode (c :: r)) as [rn n].
  pose proof (u16len_pos rn). lia.
Qed.

Lemma tag_tokens_parts_fine : forall parts text bl bc ss, Forall tok_fine (tag_tokens_parts parts text bl bc ss).
Proof.
  induction parts as [|part rest IH]; intros text bl bc ss; cbn [tag_tokens_parts]; [constructor|].
  cbv zeta.
  destruct (index_byte 58 (trim_space_u part)) as [ci|]; [|apply IH].
  destruct (beq _ [] || negb (sem_valid_tag_name _)); [apply IH|].
  destruct (index_sub _ (skipn ss text)) as [ts|]; [|apply IH].
  assert (T1 : forall col name, tok_fine (mkTok bl col (u16n name + 1) 5 0)).
  { intros col name. unfold tok_fine. cbn [t_type t_len]. lia. }
  destruct (trim_space_u (skipn (S ci) (trim_space_u part))) as [|v0 vr] eqn:Ev.
  - constructor; [apply T1|apply IH].
  - destruct (index_sub (v0 :: vr) _) as [vs|].
    + constructor; [apply T1|]. constructor; [|apply IH].
      unfold tok_fine. cbn [t_type t_len]. pose proof (u16n_pos v0 vr). lia.
    + constructor; [apply T1|apply IH].
Qed.

Lemma tag_tokens_fine t : Forall tok_fine (tag_tokens t).
Proof. unfold tag_tokens. destruct (index_byte 58 (tk_val t)); [apply tag_tokens_parts_fine|constructor]. Qed.

Lemma map_token_type_lt ty n : map_token_type ty = Some n -> n < 13.
Proof. destruct ty; cbn [map_token_type]; intro H; inversion H; lia. Qed.

Lemma sem_step_fine st t : Forall tok_fine (snd (sem_step st t)).
Proof.
  unfold sem_step. cbv zeta.
  match goal with |- context [match map_token_type ?ty with _ => _ end] => destruct (map_token_type ty) as [ty0|] eqn:Em end;
    [|cbn [snd]; constructor].
  apply map_token_type_lt in Em.
  match goal with |- context [if ?c then (2, ?a) else (ty0, ?b)] => destruct c end;
  (match goal with |- context [if ?c then tag_tokens t else []] => destruct c end;
   [pose proof (tag_tokens_fine t) as TF; destruct (tag_tokens t) as [|x xs]; [|cbn [snd]; exact TF]|];
   match goal with |- context [if ?l =? 0 then _ else _] => destruct (l =? 0) eqn:El end; cbn [snd];
   try constructor; try constructor; unfold tok_fine; cbn [t_type t_len]; lia).
Qed.

Lemma sem_loop_fine : forall l st, Forall tok_fine (sem_loop st l).
Proof.
  induction l as [|t r IH]; intro st; cbn [sem_loop]; [constructor|].
  destruct (is_ty (tk_type t) TEOF); [constructor|].
  pose proof (sem_step_fine st t) as F. destruct (sem_step st t) as [st' out]. cbn [snd] in F.
  apply Forall_app. split; [exact F|apply IH].
Qed.

(* for every byte string: every semantic token has a type of the 13-entry legend and a non-zero length *)
Theorem sem_tokens_fine text : Forall tok_fine (sem_tokens text).
Proof. unfold sem_tokens. destruct (lex text); [apply sem_loop_fine|constructor]. Qed.

(* ---- where the tokens sit: every token that is not a tag / tag-value token starts where a token of
   the lexer starts ---- *)
Definition is_tag_tok (x : tok) : Prop := t_type x = 5 \/ t_type x = 12.
Definition starts_at (k : token) (x : tok) : Prop :=
  t_line x = tp_line (tk_pos k) - 1 /\ t_col x = tp_col (tk_pos k) - 1.

Lemma tag_tokens_parts_tags : forall parts text bl bc ss, Forall is_tag_tok (tag_tokens_parts parts text bl bc ss).
Proof.
  induction parts as [|part rest IH]; intros text bl bc ss; cbn [tag_tokens_parts]; [constructor|].
  cbv zeta.
  destruct (index_byte 58 (trim_space_u part)) as [ci|]; [|apply IH].
  destruct (beq _ [] || negb (sem_valid_tag_name _)); [apply IH|].
  destruct (index_sub _ (skipn ss text)) as [ts|]; [|apply IH].
  destruct (trim_space_u (skipn (S ci) (trim_space_u part))) as [|v0 vr] eqn:Ev.
  - constructor; [left; reflexivity|apply IH].
  - destruct (index_sub (v0 :: vr) _) as [vs|].
    + constructor; [left; reflexivity|]. constructor; [right; reflexivity|apply IH].
    + constructor; [left; reflexivity|apply IH].
Qed.

Lemma tag_tokens_tags t : Forall is_tag_tok (tag_tokens t).
Proof. unfold tag_tokens. destruct (index_byte 58 (tk_val t)); [apply tag_tokens_parts_tags|constructor]. Qed.

Lemma sem_step_origin st t : Forall (fun x => is_tag_tok x \/ starts_at t x) (snd (sem_step st t)).
Proof.
  unfold sem_step. cbv zeta.
  match goal with |- context [match map_token_type ?ty with _ => _ end] => destruct (map_token_type ty) as [ty0|] end;
    [|cbn [snd]; constructor].
  match goal with |- context [if ?c then (2, ?a) else (ty0, ?b)] => destruct c end;
  (match goal with |- context [if ?c then tag_tokens t else []] => destruct c end;
   [pose proof (tag_tokens_tags t) as TF; destruct (tag_tokens t) as [|x xs];
    [|cbn [snd]; eapply Forall_impl; [|exact TF]; intros a Ha; left; exact Ha]|];
   match goal with |- context [if ?l =? 0 then _ else _] => destruct (l =? 0) end; cbn [snd];
   match goal with
   | |- Forall _ [] => constructor
   | |- Forall _ [_] => constructor; [right; unfold starts_at; cbn [t_line t_col]; split; reflexivity|constructor]
   end).
Qed.

Lemma sem_loop_origin : forall l st,
  Forall (fun x => is_tag_tok x \/ exists k, In k l /\ starts_at k x) (sem_loop st l).
Proof.
  induction l as [|t r IH]; intro st; cbn [sem_loop]; [constructor|].
  destruct (is_ty (tk_type t) TEOF); [constructor|].
  pose proof (sem_step_origin st t) as F. destruct (sem_step st t) as [st' out]. cbn [snd] in F.
  apply Forall_app. split.
  - eapply Forall_impl; [|exact F]. intros a [Ha|Ha]; [left; exact Ha|right; exists t; split; [left; reflexivity|exact Ha]].
  - eapply Forall_impl; [|apply IH]. intros a [Ha|(k & Hk & Ha)]; [left; exact Ha|right; exists k; split; [right; exact Hk|exact Ha]].
Qed.

(* for every byte string: a semantic token that is not a tag / tag-value token starts at the start of a
   token of the lexer, which is a place of the text on a rune boundary (tok_ok, LexerColumns) *)
Theorem sem_tokens_start_at_lexer_tokens text toks : lex text = Some toks ->
  Forall (fun x => is_tag_tok x \/ exists k, In k toks /\ Proofs.LexerColumns.tok_ok text k /\ starts_at k x) (sem_tokens text).
Proof.
  intro H. unfold sem_tokens. rewrite H. pose proof (Proofs.LexerColumns.lex_positions text toks H) as P.
  rewrite Forall_forall in P.
  eapply Forall_impl; [|apply sem_loop_origin]. intros a [Ha|(k & Hk & Ha)]; [left; exact Ha|].
  right. exists k. split; [exact Hk|]. split; [apply P; exact Hk|exact Ha].
Qed.

(* ---- tag and tag-value tokens sit on the line of their comment, behind its semicolon ---- *)
Definition in_comment (k : token) (x : tok) : Prop :=
  is_ty (tk_type k) TComment = true /\ t_line x = tp_line (tk_pos k) - 1 /\ tp_col (tk_pos k) - 1 < t_col x.

Lemma tag_tokens_parts_place : forall parts text bl bc ss,
  Forall (fun x => t_line x = bl /\ bc < t_col x) (tag_tokens_parts parts text bl bc ss).
Proof.
  induction parts as [|part rest IH]; intros text bl bc ss; cbn [tag_tokens_parts]; [constructor|].
  cbv zeta.
  destruct (index_byte 58 (trim_space_u part)) as [ci|]; [|apply IH].
  destruct (beq _ [] || negb (sem_valid_tag_name _)); [apply IH|].
  destruct (index_sub _ (skipn ss text)) as [ts|]; [|apply IH].
  assert (T : forall u len ty, (fun x => t_line x = bl /\ bc < t_col x) (mkTok bl (bc + 1 + u) len ty 0)).
  { intros u len ty. cbn [t_line t_col]. split; [reflexivity|lia]. }
  destruct (trim_space_u (skipn (S ci) (trim_space_u part))) as [|v0 vr] eqn:Ev.
  - constructor; [apply T|apply IH].
  - destruct (index_sub (v0 :: vr) _) as [vs|].
    + constructor; [apply T|]. constructor; [apply T|apply IH].
    + constructor; [apply T|apply IH].
Qed.

Lemma sem_step_place st t : Forall (fun x => starts_at t x \/ in_comment t x) (snd (sem_step st t)).
Proof.
  unfold sem_step. cbv zeta.
  match goal with |- context [match map_token_type ?ty with _ => _ end] => destruct (map_token_type ty) as [ty0|] end;
    [|cbn [snd]; constructor].
  match goal with |- context [if ?c then (2, ?a) else (ty0, ?b)] => destruct c end;
  (destruct (is_ty (tk_type t) TComment) eqn:Ec;
   [assert (TF : Forall (fun x => starts_at t x \/ in_comment t x) (tag_tokens t));
    [unfold tag_tokens; destruct (index_byte 58 (tk_val t)); [|constructor];
     eapply Forall_impl; [|apply tag_tokens_parts_place]; intros a [A B]; right; unfold in_comment;
     split; [exact Ec|split; [exact A|exact B]]|];
    destruct (tag_tokens t) as [|x xs]; [|cbn [snd]; exact TF]|];
   match goal with |- context [if ?l =? 0 then _ else _] => destruct (l =? 0) end; cbn [snd];
   match goal with
   | |- Forall _ [] => constructor
   | |- Forall _ [_] => constructor; [left; unfold starts_at; cbn [t_line t_col]; split; reflexivity|constructor]
   end).
Qed.

Lemma sem_loop_place : forall l st,
  Forall (fun x => exists k, In k l /\ (starts_at k x \/ in_comment k x)) (sem_loop st l).
Proof.
  induction l as [|t r IH]; intro st; cbn [sem_loop]; [constructor|].
  destruct (is_ty (tk_type t) TEOF); [constructor|].
  pose proof (sem_step_place st t) as F. destruct (sem_step st t) as [st' out]. cbn [snd] in F.
  apply Forall_app. split.
  - eapply Forall_impl; [|exact F]. intros a Ha. exists t. split; [left; reflexivity|exact Ha].
  - eapply Forall_impl; [|apply IH]. intros a (k & Hk & Ha). exists k. split; [right; exact Hk|exact Ha].
Qed.

(* for every byte string: every semantic token sits on the line of a token of the lexer (whose start is
   a place of the text, tok_ok), at its start -- or, for the tag and tag-value tokens cut out of a
   comment, on the comment's line behind its semicolon *)
Theorem sem_tokens_place text toks : lex text = Some toks ->
  Forall (fun x => exists k, In k toks /\ tok_ok text k /\ (starts_at k x \/ in_comment k x)) (sem_tokens text).
Proof.
  intro H. unfold sem_tokens. rewrite H. pose proof (lex_positions text toks H) as P.
  rewrite Forall_forall in P.
  eapply Forall_impl; [|apply sem_loop_place]. intros a (k & Hk & Ha).
  exists k. split; [exact Hk|]. split; [apply P; exact Hk|exact Ha].
Qed.
