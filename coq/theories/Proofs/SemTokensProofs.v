(* Facts about the transcribed semantic tokenizer that hold for every byte string. *)
From HL Require Import Lib.Bytes Lib.Utf8 Lib.UnicodeTables Model.Lexer Model.Parser Model.Semantic Model.SemTokens.
From Coq Require Import ZifyN ZifyNat ZifyBool.
Open Scope N_scope.
Arguments N.add : simpl never.
Arguments N.sub : simpl never.

Definition tok_fine (t : tok) : Prop := t_type t < 13 /\ 0 < t_len t.

Lemma u16len_pos r : 1 <= u16len r.
Proof. unfold u16len. destruct (65536 <=? r); lia. Qed.

Lemma u16n_pos c r : 1 <= u16n (c :: r).
Proof.
  unfold u16n. cbn [u16_units_n]. destruct (Utf8.decode (c :: r)) as [rn n].
  pose proof (u16len_pos rn). lia.
Qed.

Lemma tag_tokens_parts_fine : forall parts text bl bc ss, Forall tok_fine (tag_tokens_parts parts text bl bc ss).
Proof.
  induction parts as [|part rest IH]; intros text bl bc ss; cbn [tag_tokens_parts]; [constructor|].
  cbv zeta.
  destruct (index_byte 58 (trim_space_u part)) as [ci|]; [|apply IH].
  destruct (beq _ [] || negb (sem_valid_tag_name _)); [apply IH|].
  destruct (index_sub _ (skipn ss text)) as [ts|]; [|apply IH].
  assert (T1 : forall col name, tok_fine (mkTok bl col (u16n name + 1) 5 0)).
  { intros col name. unfold tok_fine. cbn [t_type t_len]. lia. }
  destruct (trim_space_u (skipn (S ci) (trim_space_u part))) as [|v0 vr] eqn:Ev.
  - constructor; [apply T1|apply IH].
  - destruct (index_sub (v0 :: vr) _) as [vs|].
    + constructor; [apply T1|]. constructor; [|apply IH].
      unfold tok_fine. cbn [t_type t_len]. pose proof (u16n_pos v0 vr). lia.
    + constructor; [apply T1|apply IH].
Qed.

Lemma tag_tokens_fine t : Forall tok_fine (tag_tokens t).
Proof. unfold tag_tokens. destruct (index_byte 58 (tk_val t)); [apply tag_tokens_parts_fine|constructor]. Qed.

Lemma map_token_type_lt ty n : map_token_type ty = Some n -> n < 13.
Proof. destruct ty; cbn [map_token_type]; intro H; inversion H; lia. Qed.

Lemma sem_step_fine st t : Forall tok_fine (snd (sem_step st t)).
Proof.
  unfold sem_step. cbv zeta.
  match goal with |- context [match map_token_type ?ty with _ => _ end] => destruct (map_token_type ty) as [ty0|] eqn:Em end;
    [|cbn [snd]; constructor].
  apply map_token_type_lt in Em.
  match goal with |- context [if ?c then (2, ?a) else (ty0, ?b)] => destruct c end;
  (match goal with |- context [if ?c then tag_tokens t else []] => destruct c end;
   [pose proof (tag_tokens_fine t) as TF; destruct (tag_tokens t) as [|x xs]; [|cbn [snd]; exact TF]|];
   match goal with |- context [if ?l =? 0 then _ else _] => destruct (l =? 0) eqn:El end; cbn [snd];
   try constructor; try constructor; unfold tok_fine; cbn [t_type t_len]; lia).
Qed.

Lemma sem_loop_fine : forall l st, Forall tok_fine (sem_loop st l).
Proof.
  induction l as [|t r IH]; intro st; cbn [sem_loop]; [constructor|].
  destruct (is_ty (tk_type t) TEOF); [constructor|].
  pose proof (sem_step_fine st t) as F. destruct (sem_step st t) as [st' out]. cbn [snd] in F.
  apply Forall_app. split; [exact F|apply IH].
Qed.

(* for every byte string: every semantic token has a type of the 13-entry legend and a non-zero length *)
Theorem sem_tokens_fine text : Forall tok_fine (sem_tokens text).
Proof. unfold sem_tokens. destruct (lex text); [apply sem_loop_fine|constructor]. Qed.
