From HL Require Import Lib.Bytes Model.Semantic.
From Coq Require Import ZifyN ZifyNat ZifyBool.
Open Scope N_scope.
Arguments N.add : simpl never.
Arguments N.sub : simpl never.
Arguments N.modulo : simpl never.

(* ---------- decode (encode l) = l on position-sorted token lists ---------- *)
Fixpoint sorted_from (line col : N) (l : list tok) : Prop :=
  match l with
  | [] => True
  | t :: r =>
      t_line t < two32 /\ t_col t < two32 /\
      (line < t_line t \/ (line = t_line t /\ col <= t_col t)) /\
      sorted_from (t_line t) (t_col t) r
  end.

Lemma sub32_exact a b : b <= a -> a < two32 -> sub32 a b = a - b.
Proof.
  intros H1 H2. unfold sub32, two32 in *. rewrite (N.mod_small b) by lia.
  replace (a + 4294967296 - b) with ((a - b) + 1 * 4294967296) by lia.
  rewrite N.mod_add by lia. apply N.mod_small. lia.
Qed.

Lemma decode_encode_from line col l :
  line < two32 -> col < two32 -> sorted_from line col l ->
  decode_from line col (encode_from line col l) = l.
Proof.
  revert line col. induction l as [|[tl tc tn ty tm] r IH]; intros line col Hl Hc Hs; [reflexivity|].
  cbn [sorted_from t_line t_col] in Hs. destruct Hs as (H1 & H2 & H3 & H4).
  cbn [encode_from decode_from t_line t_col t_len t_type t_mod].
  assert (Hle : line <= tl) by lia.
  rewrite (sub32_exact tl line Hle H1).
  destruct (tl - line =? 0) eqn:E.
  - assert (tl = line) by lia. subst tl.
    assert (Hcc : col <= tc) by lia. rewrite (sub32_exact tc col Hcc H2).
    replace (line + (line - line)) with line by lia.
    replace (col + (tc - col)) with tc by lia.
    f_equal. apply IH; assumption.
  - replace (line + (tl - line)) with tl by lia. f_equal. apply IH; assumption.
Qed.

Lemma decode_encode l : sorted_from 0 0 l -> decode (encode l) = l.
Proof. intro H. apply decode_encode_from; [unfold two32; lia|unfold two32; lia|exact H]. Qed.

Lemma sorted_from_filter p : forall l line col,
  sorted_from line col l -> sorted_from line col (filter p l).
Proof.
  induction l as [|t r IH]; intros line col H; [exact I|].
  cbn [sorted_from] in H. destruct H as (H1 & H2 & H3 & H4). cbn [filter].
  destruct (p t).
  - cbn [sorted_from]. repeat split; try assumption. apply IH. exact H4.
  - apply IH. clear IH. revert H4. destruct r as [|t' r']; [intros; exact I|].
    cbn [sorted_from]. intros (G1 & G2 & G3 & G4). repeat split; try assumption. lia.
Qed.

(* a range answer decodes to the full answer restricted to the requested lines *)
Lemma range_is_filtered_full l sl el :
  sorted_from 0 0 l ->
  decode (encode (filter_range l sl el)) = filter_range (decode (encode l)) sl el.
Proof.
  intro H. rewrite (decode_encode l H). apply decode_encode. apply sorted_from_filter. exact H.
Qed.

(* ---------- the delta protocol ---------- *)
Section Delta.
Variable toks : N -> list tok.
Variable empty : N -> bool.

Lemma slookup_sput {A} u v (x : A) m : slookup u (sput v x m) = if u =? v then Some x else slookup u m.
Proof.
  unfold sput. cbn [slookup]. destruct (u =? v) eqn:E; [reflexivity|].
  unfold sremove. induction m as [|[w y] m IH]; [reflexivity|]. cbn [filter fst].
  destruct (w =? v) eqn:E2; cbn [negb slookup].
  - rewrite IH. destruct (u =? w) eqn:E3; [lia|reflexivity].
  - rewrite IH. reflexivity.
Qed.

Lemma slookup_sremove {A} u v (m : list (N * A)) : slookup u (sremove v m) = if u =? v then None else slookup u m.
Proof.
  unfold sremove. induction m as [|[w y] m IH]; cbn [filter fst slookup].
  - destruct (u =? v); reflexivity.
  - destruct (w =? v) eqn:E2; cbn [negb slookup]; rewrite IH.
    + destruct (u =? v) eqn:E; [reflexivity|]. destruct (u =? w) eqn:E3; [lia|reflexivity].
    + destruct (u =? w) eqn:E3; [|reflexivity]. destruct (u =? v) eqn:E; [lia|reflexivity].
Qed.

Lemma apply_whole_edit old new :
  fold_left apply_edit (compute_edits old new) old = new.
Proof.
  unfold compute_edits. destruct (list_eqb N.eqb old new) eqn:E.
  - cbn [fold_left]. revert new E. induction old as [|x old IH]; intros [|y new] E; cbn [list_eqb] in E;
      try discriminate; [reflexivity|]. apply andb_true_iff in E as [E1 E2]. f_equal; [lia|apply IH; exact E2].
  - cbn [fold_left]. unfold apply_edit. cbn [e_start e_delete e_data N.to_nat firstn app].
    rewrite N.add_0_l, Nat2N.id, skipn_all. apply app_nil_r.
Qed.

(* invariant: whatever the server caches for a document, the client holds under the same id;
   and the client has never seen an id above the server's counter *)
Definition dinv (s : sstate) (cl : client) : Prop :=
  (forall u id d, slookup u (scache s) = Some (id, d) -> slookup id cl = Some d) /\
  (forall id d, slookup id cl = Some d -> id <= snext s).

Lemma dinv_init : dinv sinit [].
Proof. split; intros; discriminate. Qed.

Lemma dinv_fresh s cl u c :
  dinv s cl ->
  dinv (mkS (sdocs s) (snext s + 1) (sput u (snext s + 1, encode (toks c)) (scache s)))
       (sput (snext s + 1) (encode (toks c)) cl).
Proof.
  intros [I1 I2]. split.
  - intros v id d H. cbn [scache] in H. rewrite slookup_sput in H. rewrite slookup_sput.
    destruct (v =? u) eqn:E.
    + inversion H; subst. rewrite N.eqb_refl. reflexivity.
    + specialize (I1 v id d H). destruct (id =? snext s + 1) eqn:E2; [|exact I1].
      apply I2 in I1. lia.
  - intros id d H. cbn [snext]. rewrite slookup_sput in H. destruct (id =? snext s + 1) eqn:E; [lia|].
    apply I2 in H. lia.
Qed.

(* one step: invariant preserved, and an answer carrying an id leaves the client believing
   exactly the tokens of the current text *)
Lemma step_ok s cl r :
  dinv s cl ->
  let '(s', resp) := sstep toks empty s r in
  let cl' := cstep cl r resp in
  dinv s' cl' /\
  (forall u, (r = SFull u \/ exists p, r = SDelta u p) ->
     forall c, slookup u (sdocs s) = Some c ->
       match believed cl' resp with
       | Some d => d = encode (toks c)
       | None => resp = RData None []
       end).
Proof.
  intros I. destruct r as [u c|u c|u|u|u prev|u sl el]; cbn [sstep].
  - cbn [cstep]. split; [exact I|]. intros v [H|[p H]]; discriminate H.
  - cbn [cstep]. split; [exact I|]. intros v [H|[p H]]; discriminate H.
  - cbn [cstep]. split.
    + destruct I as [I1 I2]. split; [|exact I2]. intros v id d H. cbn [scache] in H.
      rewrite slookup_sremove in H. destruct (v =? u); [discriminate|]. exact (I1 v id d H).
    + intros v [H|[p H]]; discriminate H.
  - destruct (slookup u (sdocs s)) as [c|] eqn:Ed.
    + destruct (empty c) eqn:Ee.
      * cbn [cstep]. split; [exact I|]. intros v _ c' _. reflexivity.
      * cbn [cstep]. split; [apply dinv_fresh; exact I|].
        intros v [H|[p H]]; [|discriminate H]. inversion H; subst v. intros c' Hc'.
        rewrite Ed in Hc'. inversion Hc'; subst c'. cbn [believed]. rewrite slookup_sput, N.eqb_refl. reflexivity.
    + cbn [cstep]. split; [exact I|]. intros v _ c' _. reflexivity.
  - destruct (slookup u (sdocs s)) as [c|] eqn:Ed.
    + destruct (empty c) eqn:Ee.
      * cbn [cstep]. split; [exact I|]. intros v _ c' _. reflexivity.
      * destruct (slookup u (scache s)) as [[cid old]|] eqn:Ec.
        { destruct (cid =? prev) eqn:Ep.
          - assert (cid = prev) by lia. subst cid. cbn [cstep].
            destruct I as [I1 I2]. pose proof (I1 u prev old Ec) as Hold. rewrite Hold.
            rewrite apply_whole_edit. split; [apply dinv_fresh; split; assumption|].
            intros v [H|[p H]]; [discriminate H|]. inversion H; subst v p. intros c' Hc'.
            rewrite Ed in Hc'. inversion Hc'; subst c'. cbn [believed]. rewrite slookup_sput, N.eqb_refl. reflexivity.
          - cbn [cstep]. split; [apply dinv_fresh; exact I|].
            intros v [H|[p H]]; [discriminate H|]. inversion H; subst v p. intros c' Hc'.
            rewrite Ed in Hc'. inversion Hc'; subst c'. cbn [believed]. rewrite slookup_sput, N.eqb_refl. reflexivity. }
        cbn [cstep]. split; [apply dinv_fresh; exact I|].
        intros v [H|[p H]]; [discriminate H|]. inversion H; subst v p. intros c' Hc'.
        rewrite Ed in Hc'. inversion Hc'; subst c'. cbn [believed]. rewrite slookup_sput, N.eqb_refl. reflexivity.
    + cbn [cstep]. split; [exact I|]. intros v _ c' _. reflexivity.
  - destruct (slookup u (sdocs s)) as [c|]; [destruct (empty c)|]; cbn [cstep];
      (split; [exact I|]); intros v [H|[p H]]; discriminate H.
Qed.

(* every reachable state satisfies the invariant *)
Lemma run_inv : forall h s cl, dinv s cl -> dinv (fst (run toks empty s cl h)) (snd (run toks empty s cl h)).
Proof.
  induction h as [|r h IH]; intros s cl I; cbn [run]; [exact I|].
  pose proof (step_ok s cl r I) as H. destruct (sstep toks empty s r) as [s' resp].
  destruct H as [I' _]. apply IH. exact I'.
Qed.

(* C17 delta clause: after ANY history, a full or delta request (quoting any id whatsoever)
   on an open, non-empty document leaves the client with the tokens of its current text *)
Theorem delta_reconstructs h r u :
  (r = SFull u \/ exists p, r = SDelta u p) ->
  let '(s, cl) := run toks empty sinit [] h in
  forall c, slookup u (sdocs s) = Some c -> empty c = false ->
    let '(s', resp) := sstep toks empty s r in
    believed (cstep cl r resp) resp = Some (encode (toks c)).
Proof.
  intro Hr. pose proof (run_inv h sinit [] dinv_init) as I.
  destruct (run toks empty sinit [] h) as [s cl]. cbn [fst snd] in I.
  intros c Hc He. pose proof (step_ok s cl r I) as H.
  destruct (sstep toks empty s r) as [s' resp] eqn:Es. destruct H as [_ H].
  specialize (H u Hr c Hc).
  destruct (believed (cstep cl r resp) resp) as [d|] eqn:Eb; [subst d; reflexivity|].
  (* the answer carried no id: impossible for a non-empty open document *)
  exfalso. subst resp. destruct Hr as [->|[p ->]]; cbn [sstep] in Es; rewrite Hc, He in Es.
  - inversion Es.
  - destruct (slookup u (scache s)) as [[cid old]|]; [destruct (cid =? p)|]; inversion Es.
Qed.
End Delta.
