(* C06: the lexer always makes progress and the driver's fuel always suffices. *)
From HL Require Import Lib.Bytes Lib.Utf8 Lib.UnicodeTables Model.Lexer.
From Coq Require Import ZifyN ZifyNat ZifyBool.
Open Scope N_scope.

(* [drops m s s']: s' has consumed exactly m more bytes of the input than s *)
Definition drops (m : nat) (s s' : lx) : Prop := rest s' = skipn m (rest s).

Lemma skipn_skipn_add {A} a b (l : list A) : skipn a (skipn b l) = skipn (b + a) l.
Proof. revert l. induction b as [|b IH]; intro l; [reflexivity|]. destruct l; [rewrite !skipn_nil; reflexivity|]. cbn. apply IH. Qed.

Lemma drops_trans a b s1 s2 s3 : drops a s1 s2 -> drops b s2 s3 -> drops (a + b) s1 s3.
Proof. unfold drops. intros H1 H2. rewrite H2, H1. apply skipn_skipn_add. Qed.

Lemma drops_consume n c s : drops n s (consume n c s).
Proof. reflexivity. Qed.

Lemma decode_size_pos l : (1 <= snd (decode l))%nat.
Proof.
  unfold decode. destruct l as [|b0 r]; [cbn; lia|].
  destruct (b0 <? 128); [cbn; lia|].
  destruct ((194 <=? b0) && (b0 <=? 223)).
  { destruct r as [|b1 r]; [cbn; lia|]. destruct (cont b1); cbn; lia. }
  destruct ((224 <=? b0) && (b0 <=? 239)).
  { destruct r as [|b1 [|b2 r]]; try (cbn; lia). destruct ((lo3 b0 <=? b1) && (b1 <=? hi3 b0) && cont b2); cbn; lia. }
  destruct ((240 <=? b0) && (b0 <=? 244)).
  { destruct r as [|b1 [|b2 [|b3 r]]]; try (cbn; lia).
    destruct ((lo4 b0 <=? b1) && (b1 <=? hi4 b0) && cont b2 && cont b3); cbn; lia. }
  cbn; lia.
Qed.

Lemma drops_advance s : rest s <> [] -> exists m, (1 <= m)%nat /\ drops m s (advance s).
Proof.
  intro H. unfold advance. destruct (rest s) as [|c r] eqn:E; [contradiction|].
  exists (snd (decode (c :: r))). split; [apply decode_size_pos|]. unfold drops, consume. cbn [rest]. rewrite E. reflexivity.
Qed.

Lemma drops_advance0 s : exists m, drops m s (advance s).
Proof.
  unfold advance. destruct (rest s) as [|c r] eqn:E.
  - exists 0%nat. unfold drops. rewrite E. reflexivity.
  - exists (snd (decode (c :: r))). unfold drops, consume. cbn [rest]. rewrite E. reflexivity.
Qed.

(* a state that has dropped m >= 1 bytes of a non-empty input is strictly shorter *)
Lemma drops_shorter m s s' : (1 <= m)%nat -> rest s <> [] -> drops m s s' -> (length (rest s') < length (rest s))%nat.
Proof.
  unfold drops. intros Hm Hne H. rewrite H, skipn_length. destruct (rest s); [contradiction|]. cbn [length]. lia.
Qed.

Lemma span_while_pos p c r : p c = true -> (1 <= span_while p (c :: r))%nat.
Proof. intro H. cbn [span_while]. rewrite H. lia. Qed.

Lemma span_until_pos stop c r : stop c = false -> (1 <= fst (span_until stop (c :: r) 0))%nat.
Proof.
  intro H. cbn [span_until]. rewrite H.
  destruct (span_until stop r (snd (decode (c :: r)) - 1)) as [n cols]. cbn. lia.
Qed.

(* ---- every scanner drops at least one byte under its dispatch condition ---- *)
Ltac exm := eexists; split; [|apply drops_consume].

Lemma p_scanDate s c r : rest s = c :: r -> isDigitB c = true -> exists m, (1 <= m)%nat /\ drops m s (snd (scanDate s)).
Proof.
  intros E H. unfold scanDate. cbn [snd]. exm. rewrite E. apply span_while_pos. rewrite H. reflexivity.
Qed.

Lemma p_scanIndent s c r : rest s = c :: r -> (isWhitespaceB c && negb (c =? 10)) = true ->
  exists m, (1 <= m)%nat /\ drops m s (snd (scanIndent s)).
Proof. intros E H. unfold scanIndent. cbn [snd]. exm. rewrite E. apply span_while_pos. exact H. Qed.

Lemma p_scanNumber s c r : rest s = c :: r -> isDigitB c = true -> exists m, (1 <= m)%nat /\ drops m s (snd (scanNumber s)).
Proof.
  intros E H. unfold scanNumber. cbn [snd]. exm. rewrite E. cbn [number_span]. rewrite H. lia.
Qed.

Lemma p_scanText s c r : rest s = c :: r -> ((c =? 10) || (c =? 59) || (c =? 124)) = false ->
  exists m, (1 <= m)%nat /\ drops m s (snd (scanText s)).
Proof.
  intros E H. unfold scanText.
  pose proof (span_until_pos (fun c => (c =? 10) || (c =? 59) || (c =? 124)) c r H) as P.
  rewrite E. destruct (span_until _ (c :: r) 0) as [n cols]. cbn [snd fst] in *. exm. exact P.
Qed.

Lemma after_advance_nogrow s (f : lx -> lx) :
  rest s <> [] -> (forall x, exists k, drops k x (f x)) -> exists m, (1 <= m)%nat /\ drops m s (f (advance s)).
Proof.
  intros Hne Hf. destruct (drops_advance s Hne) as (m & Hm & Hd). destruct (Hf (advance s)) as (k & Hk).
  exists (m + k)%nat. split; [lia|]. eapply drops_trans; eassumption.
Qed.

Lemma p_one s : rest s <> [] -> exists m, (1 <= m)%nat /\ drops m s (advance s).
Proof. apply drops_advance. Qed.

Lemma p_scanCode s : rest s <> [] -> exists m, (1 <= m)%nat /\ drops m s (snd (scanCode s)).
Proof.
  intro Hne. unfold scanCode. destruct (span_until _ (rest (advance s)) 0) as [n cols]. cbn [snd].
  destruct (drops_advance s Hne) as (m & Hm & Hd).
  set (s2 := consume n cols (advance s)).
  destruct ((peek s2 =? 41) && negb match rest s2 with [] => true | _ => false end).
  - destruct (drops_advance0 s2) as (k & Hk). exists (m + n + k)%nat. split; [lia|].
    eapply drops_trans; [eapply drops_trans; [exact Hd|apply drops_consume]|exact Hk].
  - exists (m + n)%nat. split; [lia|]. eapply drops_trans; [exact Hd|apply drops_consume].
Qed.

Lemma p_scanQuoted s : rest s <> [] -> exists m, (1 <= m)%nat /\ drops m s (snd (scanQuotedCommodity s)).
Proof.
  intro Hne. unfold scanQuotedCommodity. destruct (span_until _ (rest (advance s)) 0) as [n cols]. cbn [snd].
  destruct (drops_advance s Hne) as (m & Hm & Hd).
  set (s2 := consume n cols (advance s)).
  destruct ((peek s2 =? 34) && negb match rest s2 with [] => true | _ => false end).
  - destruct (drops_advance0 s2) as (k & Hk). exists (m + n + k)%nat. split; [lia|].
    eapply drops_trans; [eapply drops_trans; [exact Hd|apply drops_consume]|exact Hk].
  - exists (m + n)%nat. split; [lia|]. eapply drops_trans; [exact Hd|apply drops_consume].
Qed.

Lemma p_scanComment s : rest s <> [] -> exists m, (1 <= m)%nat /\ drops m s (snd (scanComment s)).
Proof.
  intro Hne. unfold scanComment. destruct (span_until _ (rest (advance s)) 0) as [n cols]. cbn [snd].
  destruct (drops_advance s Hne) as (m & Hm & Hd). exists (m + n)%nat. split; [lia|].
  eapply drops_trans; [exact Hd|apply drops_consume].
Qed.

Lemma p_scanNewline s : rest s <> [] -> exists m, (1 <= m)%nat /\ drops m s (snd (scanNewline s)).
Proof. intro Hne. unfold scanNewline. cbn [snd]. destruct (drops_advance s Hne) as (m & Hm & Hd). exists m. split; [exact Hm|exact Hd]. Qed.

Lemma p_scanAt s : rest s <> [] -> exists m, (1 <= m)%nat /\ drops m s (snd (scanAt s)).
Proof.
  intro Hne. unfold scanAt. destruct (drops_advance s Hne) as (m & Hm & Hd).
  destruct (rest (advance s)) as [|c r] eqn:E; cbn [snd]; [exists m; auto|].
  destruct (c =? 64) eqn:E64.
  - assert (c = 64) by lia. subst c. cbn [snd]. destruct (drops_advance0 (advance s)) as (k & Hk).
    exists (m + k)%nat. split; [lia|]. eapply drops_trans; eassumption.
  - replace (match c with 64 => _ | _ => _ end) with (tok TAt [64] (position s) (position (advance s)), advance s).
    + cbn [snd]. exists m. auto.
    + destruct c as [|p]; [reflexivity|]. do 7 (destruct p as [p|p|]; try reflexivity). lia.
Qed.

Lemma p_scanEquals s : rest s <> [] -> exists m, (1 <= m)%nat /\ drops m s (snd (scanEquals s)).
Proof.
  intro Hne. unfold scanEquals. destruct (drops_advance s Hne) as (m & Hm & Hd).
  destruct (rest (advance s)) as [|c r] eqn:E; cbn [snd]; [exists m; auto|].
  destruct (c =? 61) eqn:E61.
  - assert (c = 61) by lia. subst c. cbn [snd]. destruct (drops_advance0 (advance s)) as (k & Hk).
    exists (m + k)%nat. split; [lia|]. eapply drops_trans; eassumption.
  - replace (match c with 61 => _ | _ => _ end) with (tok TEquals [61] (position s) (position (advance s)), advance s).
    + cbn [snd]. exists m. auto.
    + destruct c as [|p]; [reflexivity|]. do 6 (destruct p as [p|p|]; try reflexivity). lia.
Qed.

Lemma p_scanCurrency s : rest s <> [] -> exists m, (1 <= m)%nat /\ drops m s (snd (scanCurrencySymbol s)).
Proof. intro Hne. unfold scanCurrencySymbol. cbn [snd]. exm. apply decode_size_pos. Qed.

(* the first rune of an account is not a blank and not a terminator *)
Lemma account_span_pos l c r :
  l = c :: r -> fst (decode l) <> 32 -> isAccountTerminator (fst (decode l)) = false ->
  (1 <= fst (fst (account_span l 0)))%nat.
Proof.
  intros -> H1 H2. cbn [account_span]. destruct (decode (c :: r)) as [rn size] eqn:Ed. cbn [fst] in *.
  destruct (rn =? 32) eqn:E; [lia|]. rewrite H2.
  destruct (account_span r (size - 1)) as [[n cols] last]. cbn. lia.
Qed.

Lemma p_scanAccount s c r :
  rest s = c :: r -> fst (decode (rest s)) <> 32 -> isAccountTerminator (fst (decode (rest s))) = false ->
  exists m, (1 <= m)%nat /\ drops m s (snd (scanAccount s)).
Proof.
  intros E H1 H2. unfold scanAccount.
  pose proof (account_span_pos (rest s) c r E H1 H2) as P.
  destruct (account_span (rest s) 0) as [[n cols] last]. cbn [snd fst] in *. exm. exact P.
Qed.

Lemma decode_ascii c r : c <? 128 = true -> decode (c :: r) = (c, 1%nat).
Proof. intro H. unfold decode. rewrite H. reflexivity. Qed.

Lemma letter_not_term c : isLetterB c = true -> c <> 32 /\ isAccountTerminator c = false /\ c <? 128 = true /\
  ((c =? 10) || (c =? 59) || (c =? 124)) = false.
Proof. unfold isLetterB, isAccountTerminator. intro H. repeat split; lia. Qed.

Lemma uletter_not_term r : is_letter_rune r = true -> r <> 32 /\ isAccountTerminator r = false.
Proof.
  intro H. split.
  - intro E. subst. vm_compute in H. discriminate.
  - unfold isAccountTerminator.
    destruct (r =? 9) eqn:E1; [assert (r = 9) by lia; subst; vm_compute in H; discriminate|].
    destruct (r =? 10) eqn:E2; [assert (r = 10) by lia; subst; vm_compute in H; discriminate|].
    destruct (r =? 13) eqn:E3; [assert (r = 13) by lia; subst; vm_compute in H; discriminate|].
    destruct (r =? 59) eqn:E4; [assert (r = 59) by lia; subst; vm_compute in H; discriminate|].
    destruct (r =? 64) eqn:E5; [assert (r = 64) by lia; subst; vm_compute in H; discriminate|].
    destruct (r =? 61) eqn:E6; [assert (r = 61) by lia; subst; vm_compute in H; discriminate|].
    destruct (r =? 40) eqn:E7; [assert (r = 40) by lia; subst; vm_compute in H; discriminate|].
    destruct (r =? 41) eqn:E8; [assert (r = 41) by lia; subst; vm_compute in H; discriminate|].
    destruct (r =? 91) eqn:E9; [assert (r = 91) by lia; subst; vm_compute in H; discriminate|].
    destruct (r =? 93) eqn:E10; [assert (r = 93) by lia; subst; vm_compute in H; discriminate|].
    reflexivity.
Qed.

(* the first byte of a rune that decodes to a Unicode letter is not a stop byte of scanText *)
Lemma first_byte_of_letter c r :
  (isLetterB c || is_letter_rune (fst (decode (c :: r)))) = true -> ((c =? 10) || (c =? 59) || (c =? 124)) = false.
Proof.
  intro H. destruct (c <? 128) eqn:E.
  - rewrite (decode_ascii c r E) in H. cbn [fst] in H.
    destruct (isLetterB c) eqn:L; [apply letter_not_term in L; tauto|]. cbn [orb] in H.
    destruct (c =? 10) eqn:E1; [assert (c = 10) by lia; subst; vm_compute in H; discriminate|].
    destruct (c =? 59) eqn:E2; [assert (c = 59) by lia; subst; vm_compute in H; discriminate|].
    destruct (c =? 124) eqn:E3; [assert (c = 124) by lia; subst; vm_compute in H; discriminate|].
    reflexivity.
  - lia.
Qed.

Lemma p_scanCommodityOrText s c r :
  rest s = c :: r -> ((c =? 10) || (c =? 59) || (c =? 124)) = false ->
  exists m, (1 <= m)%nat /\ drops m s (snd (scanCommodityOrText s)).
Proof.
  intros E Hc. unfold scanCommodityOrText.
  set (n1 := span_while isLetterB (rest s)).
  set (after1 := skipn n1 (rest s)).
  set (early := match n1, after1 with S _, ch :: r0 => _ | _, _ => false end).
  destruct early eqn:Ee.
  - cbn [snd]. exm. subst early. destruct n1; [discriminate Ee|lia].
  - set (n2 := span_while (fun c0 => isLetterB c0 || isDigitB c0) after1).
    destruct (looksLikeCommodity (firstn (n1 + n2) (rest s))) eqn:El.
    + cbn [snd]. exm. unfold looksLikeCommodity in El.
      destruct (firstn (n1 + n2) (rest s)) eqn:Ef; [discriminate El|].
      destruct (n1 + n2)%nat; [cbn in Ef; discriminate Ef|lia].
    + apply (p_scanText s c r E Hc).
Qed.

Lemma isDirective_nonempty w : isDirective w = true -> w <> [].
Proof. intros H E. subst. vm_compute in H. discriminate. Qed.

Lemma p_scanDirectiveOrAccount s c r :
  rest s = c :: r -> isLetterB c = true -> exists m, (1 <= m)%nat /\ drops m s (snd (scanDirectiveOrAccount s)).
Proof.
  intros E H. unfold scanDirectiveOrAccount. destruct (letter_not_term c H) as (H1 & H2 & H3 & H4).
  destruct (isDirective (firstn (span_while isLetterB (rest s)) (rest s))) eqn:Ed.
  - cbn [snd]. exm. apply isDirective_nonempty in Ed.
    destruct (span_while isLetterB (rest s)); [cbn in Ed; contradiction|lia].
  - destruct (looksLikeAccount s).
    + apply (p_scanAccount s c r E); rewrite E, (decode_ascii c r H3); cbn [fst]; assumption.
    + apply (p_scanText s c r E H4).
Qed.

(* scanInLine on a state whose first byte is not a blank *)
Lemma p_dispatch s c r : rest s = c :: r ->
  exists m, (1 <= m)%nat /\
    drops m s (snd (
      let rr := peek_rune s in
      if c =? 10 then scanNewline s
      else if c =? 59 then scanComment s
      else if c =? 40 then
        (if looksLikeVirtualAccount s then scanSingle TLParen [40] s else scanCode s)
      else if c =? 41 then scanSingle TRParen [41] s
      else if c =? 91 then scanSingle TLBracket [91] s
      else if c =? 93 then scanSingle TRBracket [93] s
      else if c =? 124 then scanSingle TPipe [124] s
      else if c =? 64 then scanAt s
      else if c =? 61 then scanEquals s
      else if (c =? 42) || (c =? 33) then scanStatus s
      else if isCurrencySymbol rr then scanCurrencySymbol s
      else if c =? 34 then scanQuotedCommodity s
      else if (c =? 45) || (c =? 43) then
        (if nextIsCurrencySymbol s || nextIsLetterCommodity s || nextIsDigit s then scanSign s else scanText s)
      else if isDigitB c then (if looksLikeDate s then scanDate s else scanNumber s)
      else if isLetterB c || is_letter_rune rr then
        (if looksLikeAccount s then scanAccount s else scanCommodityOrText s)
      else scanText s)).
Proof.
  intro E. assert (Hne : rest s <> []) by (rewrite E; discriminate). cbv zeta.
  destruct (c =? 10) eqn:E1; [apply p_scanNewline; exact Hne|].
  destruct (c =? 59) eqn:E2; [apply p_scanComment; exact Hne|].
  destruct (c =? 40) eqn:E3.
  { destruct (looksLikeVirtualAccount s); [unfold scanSingle; cbn [snd]; apply p_one; exact Hne|apply p_scanCode; exact Hne]. }
  destruct (c =? 41) eqn:E4; [unfold scanSingle; cbn [snd]; apply p_one; exact Hne|].
  destruct (c =? 91) eqn:E5; [unfold scanSingle; cbn [snd]; apply p_one; exact Hne|].
  destruct (c =? 93) eqn:E6; [unfold scanSingle; cbn [snd]; apply p_one; exact Hne|].
  destruct (c =? 124) eqn:E7; [unfold scanSingle; cbn [snd]; apply p_one; exact Hne|].
  destruct (c =? 64) eqn:E8; [apply p_scanAt; exact Hne|].
  destruct (c =? 61) eqn:E9; [apply p_scanEquals; exact Hne|].
  assert (Hstop : ((c =? 10) || (c =? 59) || (c =? 124)) = false) by lia.
  destruct ((c =? 42) || (c =? 33)) eqn:E10; [unfold scanStatus; cbn [snd]; apply p_one; exact Hne|].
  destruct (isCurrencySymbol (peek_rune s)) eqn:E11; [apply p_scanCurrency; exact Hne|].
  destruct (c =? 34) eqn:E12; [apply p_scanQuoted; exact Hne|].
  destruct ((c =? 45) || (c =? 43)) eqn:E13.
  { destruct (nextIsCurrencySymbol s || nextIsLetterCommodity s || nextIsDigit s);
      [unfold scanSign; cbn [snd]; apply p_one; exact Hne|apply (p_scanText s c r E Hstop)]. }
  destruct (isDigitB c) eqn:E14.
  { destruct (looksLikeDate s); [apply (p_scanDate s c r E E14)|apply (p_scanNumber s c r E E14)]. }
  destruct (isLetterB c || is_letter_rune (peek_rune s)) eqn:E15.
  { destruct (looksLikeAccount s).
    - unfold peek_rune in E15. rewrite E in E15.
      apply (p_scanAccount s c r E); rewrite E.
      + destruct (isLetterB c) eqn:L.
        * destruct (letter_not_term c L) as (H1 & H2 & H3 & _). rewrite (decode_ascii c r H3). exact H1.
        * cbn [orb] in E15. apply uletter_not_term in E15. tauto.
      + destruct (isLetterB c) eqn:L.
        * destruct (letter_not_term c L) as (H1 & H2 & H3 & _). rewrite (decode_ascii c r H3). exact H2.
        * cbn [orb] in E15. apply uletter_not_term in E15. tauto.
    - apply (p_scanCommodityOrText s c r E Hstop). }
  apply (p_scanText s c r E Hstop).
Qed.

Lemma skip_spaces_rest l : match skipn (skip_spaces_n l) l with 32 :: _ => False | _ => True end.
Proof.
  induction l as [|c r IH]; [exact I|]. cbn [skip_spaces_n].
  destruct (c =? 32) eqn:E.
  - assert (c = 32) by lia. subst c. cbn [skipn]. exact IH.
  - replace (match c with 32 => _ | _ => _ end) with O.
    + cbn [skipn]. destruct c as [|p]; [exact I|]. do 6 (destruct p as [p|p|]; try exact I). lia.
    + destruct c as [|p]; [reflexivity|]. do 6 (destruct p as [p|p|]; try reflexivity). lia.
Qed.

Lemma p_scanInLine s : rest s <> [] -> exists m, (1 <= m)%nat /\ drops m s (snd (scanInLine s)).
Proof.
  intro Hne. unfold scanInLine.
  set (k := skip_spaces_n (rest s)). set (s1 := consume k (N.of_nat k) s).
  assert (Hd : drops k s s1) by apply drops_consume.
  destruct (rest s1) as [|c r] eqn:E.
  - cbn [snd]. exists k. split; [|exact Hd].
    unfold drops in Hd. rewrite E in Hd. destruct k; [cbn in Hd; symmetry in Hd; contradiction|lia].
  - destruct (p_dispatch s1 c r E) as (m & Hm & Hdm). exists (k + m)%nat. split; [lia|].
    eapply drops_trans; [exact Hd|exact Hdm].
Qed.

Lemma p_scanLineStart s : rest s <> [] -> exists m, (1 <= m)%nat /\ drops m s (snd (scanLineStart s)).
Proof.
  intro Hne. unfold scanLineStart. set (s1 := set_at_start false s).
  assert (Er : rest s1 = rest s) by reflexivity.
  assert (Hd : forall m x, drops m s1 x -> drops m s x) by (intros m x H; unfold drops in *; rewrite <- Er; exact H).
  clear Er.
  destruct (rest s1) as [|c r] eqn:E; [exfalso; apply Hne; exact E|].
  assert (Hne1 : rest s1 <> []) by (rewrite E; discriminate).
  assert (Ep : peek s1 = c) by (unfold peek; rewrite E; reflexivity). rewrite Ep.
  destruct (c =? 59); [destruct (p_scanComment s1 Hne1) as (m & Hm & H); exists m; auto|].
  destruct (isWhitespaceB c && negb (c =? 10)) eqn:Ew; [destruct (p_scanIndent s1 c r E Ew) as (m & Hm & H); exists m; auto|].
  destruct (isDigitB c) eqn:Ed; [destruct (p_scanDate s1 c r E Ed) as (m & Hm & H); exists m; auto|].
  destruct (isLetterB c) eqn:El; [destruct (p_scanDirectiveOrAccount s1 c r E El) as (m & Hm & H); exists m; auto|].
  destruct (p_scanInLine s1 Hne1) as (m & Hm & H); exists m; auto.
Qed.

(* C06 progress: on a non-empty remaining input every call of Next consumes at least one byte *)
Theorem next_progress s : rest s <> [] -> (length (rest (snd (next s))) < length (rest s))%nat.
Proof.
  intro Hne. unfold next. destruct (rest s) as [|c r] eqn:E; [contradiction|].
  assert (Hne' : rest s <> []) by (rewrite E; discriminate).
  destruct (at_start s && (lcol s =? 1)).
  - destruct (p_scanLineStart s Hne') as (m & Hm & H). rewrite <- E. apply (drops_shorter m); assumption.
  - destruct (p_scanInLine s Hne') as (m & Hm & H). rewrite <- E. apply (drops_shorter m); assumption.
Qed.

(* on an exhausted input Next returns EOF *)
Lemma next_eof s : rest s = [] -> tk_type (fst (next s)) = TEOF.
Proof. intro E. unfold next. rewrite E. reflexivity. Qed.

(* the driver never runs out of fuel: |remaining input| + 2 calls always reach EOF *)
Theorem lex_all_total : forall fuel s, (length (rest s) + 2 <= fuel)%nat -> lex_all fuel s <> None.
Proof.
  induction fuel as [|f IH]; intros s Hf; [lia|]. cbn [lex_all].
  destruct (next s) as [t s'] eqn:En. destruct (tk_type t) eqn:Et; try discriminate;
  (destruct (rest s) as [|c r] eqn:Er;
   [pose proof (next_eof s Er) as H; rewrite En in H; cbn [fst] in H; congruence|];
   assert (Hne : rest s <> []) by (rewrite Er; discriminate);
   pose proof (next_progress s Hne) as Hp; rewrite En in Hp; cbn [snd] in Hp; rewrite ?Er in Hp;
   specialize (IH s'); destruct (lex_all f s'); [discriminate|]; exfalso; apply IH; [lia|reflexivity]).
Qed.

Theorem lex_total input : lex input <> None.
Proof. unfold lex. apply lex_all_total. cbn [lx_init rest]. lia. Qed.
