(* Positions of the token stream, for every byte string: the (line, column, offset) triple of the
   start and of the end of every token the lexer produces is the position a reference walk over
   the text assigns to that byte offset -- lines counted by line feeds, columns in UTF-16 code
   units since the last line feed, starting at 1 -- and the offset lies on a rune boundary of
   that walk.  (Columns are what every position-carrying answer of the server is built from.) *)
From HL Require Import Lib.Bytes Lib.Utf8 Lib.UnicodeTables Model.Lexer Proofs.LexerProofs.
From Coq Require Import ZifyN ZifyNat ZifyBool.
Open Scope N_scope.

(* the reference: consume exactly n bytes of l, rune by rune (skip = bytes left of the current
   rune); a line feed starts a new line at column 1, any other rune adds its UTF-16 width *)
Fixpoint walk (l : list N) (n skip : nat) (line col : N) {struct n} : option (N * N) :=
  match n with
  | O => match skip with O => Some (line, col) | S _ => None end
  | S n' =>
      match l with
      | [] => None
      | c :: r =>
          match skip with
          | S k => walk r n' k line col
          | O => if c =? 10 then walk r n' 0 (line + 1) 1
                 else walk r n' (snd (decode l) - 1) line (col + u16len (fst (decode l)))
          end
      end
  end.

Lemma walk_app b l1 c1 : forall a l skip ln c,
  walk l a skip ln c = Some (l1, c1) -> walk l (a + b) skip ln c = walk (skipn a l) b 0 l1 c1.
Proof.
  induction a as [|a IH]; intros l skip ln c H.
  - cbn [walk] in H. destruct skip; [|discriminate H]. inversion H; subst. reflexivity.
  - cbn [walk Nat.add] in *. destruct l as [|c0 r]; [discriminate|]. cbn [skipn].
    destruct skip as [|k]; [destruct (c0 =? 10)|]; apply IH; exact H.
Qed.

(* skipping the rest of a rune *)
Lemma walk_skip : forall k l ln c, (k <= length l)%nat -> walk l k k ln c = Some (ln, c).
Proof.
  induction k as [|k IH]; intros l ln c H; [reflexivity|]. destruct l as [|c0 r]; [cbn in H; lia|].
  cbn [walk]. apply IH. cbn [length] in H. lia.
Qed.

Lemma decode_size_le l : l <> [] -> (snd (decode l) <= length l)%nat.
Proof.
  intro H. unfold decode. destruct l as [|b0 r]; [contradiction|]. cbn [length].
  destruct (b0 <? 128); [cbn; lia|].
  destruct ((194 <=? b0) && (b0 <=? 223)).
  { destruct r as [|b1 r]; [cbn; lia|]. destruct (cont b1); cbn; lia. }
  destruct ((224 <=? b0) && (b0 <=? 239)).
  { destruct r as [|b1 [|b2 r]]; try (cbn; lia). destruct ((lo3 b0 <=? b1) && (b1 <=? hi3 b0) && cont b2); cbn; lia. }
  destruct ((240 <=? b0) && (b0 <=? 244)).
  { destruct r as [|b1 [|b2 [|b3 r]]]; try (cbn; lia).
    destruct ((lo4 b0 <=? b1) && (b1 <=? hi4 b0) && cont b2 && cont b3); cbn; lia. }
  cbn; lia.
Qed.

(* one whole rune that is not a line feed *)
Lemma walk_rune c0 r ln c : c0 <> 10 ->
  walk (c0 :: r) (snd (decode (c0 :: r))) 0 ln c = Some (ln, c + u16len (fst (decode (c0 :: r)))).
Proof.
  intro H. pose proof (decode_size_pos (c0 :: r)) as P. pose proof (decode_size_le (c0 :: r) ltac:(discriminate)) as Q.
  destruct (snd (decode (c0 :: r))) as [|k] eqn:E; [lia|]. cbn [walk].
  destruct (c0 =? 10) eqn:E10; [lia|]. rewrite E. replace (S k - 1)%nat with k by lia.
  apply walk_skip. cbn [length] in Q. lia.
Qed.

(* ---- a state reached from another by consuming bytes, line and column following the walk ---- *)
Definition tracks (s s' : lx) : Prop :=
  exists k, rest s' = skipn k (rest s) /\ lpos s' = lpos s + N.of_nat k /\
            walk (rest s) k 0 (lline s) (lcol s) = Some (lline s', lcol s').

Lemma tracks_refl s : tracks s s.
Proof. exists 0%nat. cbn [skipn walk]. repeat split; lia. Qed.

Lemma tracks_trans s1 s2 s3 : tracks s1 s2 -> tracks s2 s3 -> tracks s1 s3.
Proof.
  intros (a & R1 & P1 & W1) (b & R2 & P2 & W2). exists (a + b)%nat. split; [|split].
  - rewrite R2, R1. apply skipn_skipn_add.
  - lia.
  - rewrite (walk_app b _ _ a _ _ _ _ W1), <- R1. exact W2.
Qed.

(* states that differ in the flag only *)
Lemma tracks_same s s' : rest s' = rest s -> lpos s' = lpos s -> lline s' = lline s -> lcol s' = lcol s -> tracks s s'.
Proof. intros A B C D. exists 0%nat. cbn [skipn walk]. rewrite A, B, C, D. repeat split; lia. Qed.

(* n ASCII bytes, none a line feed: n columns *)
Definition plain_byte (c : N) : bool := (c <? 128) && negb (c =? 10).

Lemma walk_plain : forall n l ln c, (n <= length l)%nat -> forallb plain_byte (firstn n l) = true ->
  walk l n 0 ln c = Some (ln, c + N.of_nat n).
Proof.
  induction n as [|n IH]; intros l ln c H F; [cbn [walk]; f_equal; f_equal; lia|].
  destruct l as [|c0 r]; [cbn in H; lia|]. cbn [firstn forallb] in F. apply andb_true_iff in F as [F0 F].
  unfold plain_byte in F0. apply andb_true_iff in F0 as [A B]. cbn [walk].
  destruct (c0 =? 10) eqn:E; [discriminate|]. rewrite (decode_ascii c0 r A). cbn [fst snd]. unfold u16len.
  destruct (65536 <=? c0) eqn:E2; [lia|]. cbn [Nat.sub]. rewrite IH; [f_equal; f_equal; lia|cbn [length] in H; lia|exact F].
Qed.

Lemma tracks_consume_plain n s : (n <= length (rest s))%nat -> forallb plain_byte (firstn n (rest s)) = true ->
  tracks s (consume n (N.of_nat n) s).
Proof.
  intros H F. exists n. unfold consume. cbn [rest lpos lline lcol]. split; [reflexivity|]. split; [reflexivity|].
  apply walk_plain; assumption.
Qed.

Lemma span_while_le p l : (span_while p l <= length l)%nat.
Proof. induction l as [|c r IH]; cbn [span_while length]; [lia|]. destruct (p c); lia. Qed.

Lemma span_while_forall p q l : (forall c, p c = true -> q c = true) -> forallb q (firstn (span_while p l) l) = true.
Proof.
  intro H. induction l as [|c r IH]; [reflexivity|]. cbn [span_while]. destruct (p c) eqn:E; [|reflexivity].
  cbn [firstn forallb]. rewrite (H c E), IH. reflexivity.
Qed.

Lemma tracks_span_while p s : (forall c, p c = true -> plain_byte c = true) ->
  tracks s (consume (span_while p (rest s)) (N.of_nat (span_while p (rest s))) s).
Proof. intro H. apply tracks_consume_plain; [apply span_while_le|apply span_while_forall; exact H]. Qed.

(* advance over anything but a line feed *)
Lemma tracks_advance s : peek s <> 10 -> tracks s (advance s).
Proof.
  intro H. unfold advance. destruct (rest s) as [|c0 r] eqn:E; [apply tracks_refl|].
  unfold peek in H. rewrite E in H.
  exists (snd (decode (c0 :: r))). unfold consume. cbn [rest lpos lline lcol]. rewrite E.
  split; [reflexivity|]. split; [reflexivity|]. apply walk_rune. exact H.
Qed.

(* rune-wise spans that stop at a line feed *)
Lemma span_until_walk stop : stop 10 = true -> forall l skip n cols ln c,
  span_until stop l skip = (n, cols) -> (skip <= length l)%nat ->
  walk l n skip ln c = Some (ln, c + cols) /\ (n <= length l)%nat.
Proof.
  intro H10. induction l as [|c0 r IH]; intros skip n cols ln c E Hs.
  - cbn [span_until] in E. inversion E; subst. cbn [length] in Hs. assert (skip = 0)%nat by lia. subst. cbn [walk]. split; [f_equal; f_equal; lia|cbn; lia].
  - cbn [span_until] in E. destruct skip as [|k].
    + destruct (stop c0) eqn:Es.
      * inversion E; subst. cbn [walk]. split; [f_equal; f_equal; lia|lia].
      * destruct (span_until stop r (snd (decode (c0 :: r)) - 1)) as [n' cols'] eqn:E'.
        assert (En : n = S n' /\ cols = cols' + u16len (fst (decode (c0 :: r)))) by (inversion E; split; reflexivity).
        destruct En as [-> ->]. clear E.
        assert (Hne : c0 <> 10) by (intros ->; congruence).
        pose proof (decode_size_le (c0 :: r) ltac:(discriminate)) as Q. cbn [length] in Q.
        destruct (IH _ _ _ ln (c + u16len (fst (decode (c0 :: r)))) E' ltac:(lia)) as [W L].
        cbn [walk]. destruct (c0 =? 10) eqn:E10; [lia|]. split; [rewrite W; f_equal; f_equal; lia|cbn [length]; lia].
    + destruct (span_until stop r k) as [n' cols'] eqn:E'. inversion E; subst. cbn [length] in Hs.
      destruct (IH _ _ _ ln c E' ltac:(lia)) as [W L]. cbn [walk]. split; [exact W|cbn [length]; lia].
Qed.

Lemma tracks_span_until stop s n cols : stop 10 = true -> span_until stop (rest s) 0 = (n, cols) ->
  tracks s (consume n cols s).
Proof.
  intros H E. destruct (span_until_walk stop H _ _ _ _ (lline s) (lcol s) E ltac:(lia)) as [W L].
  exists n. unfold consume. cbn [rest lpos lline lcol]. split; [reflexivity|]. split; [reflexivity|exact W].
Qed.

Lemma match32 {A} (r : list N) (a b : A) :
  match r with 32 :: _ => a | _ => b end = match r with c1 :: _ => if c1 =? 32 then a else b | [] => b end.
Proof.
  destruct r as [|c1 r']; [reflexivity|]. destruct (c1 =? 32) eqn:E; [apply N.eqb_eq in E; subst; reflexivity|].
  destruct c1 as [|p]; [reflexivity|].
  do 6 (try (destruct p as [p|p|]; try reflexivity)). discriminate E.
Qed.

(* a rune that decodes to a space is the single byte 32 *)
Lemma decode_space l rn size : decode l = (rn, size) -> l <> [] -> rn = 32 -> exists r, l = 32 :: r /\ size = 1%nat.
Proof.
  intros Ed Hne ->. destruct l as [|c0 r]; [contradiction|]. exists r.
  unfold decode in Ed. destruct (c0 <? 128) eqn:El; [inversion Ed; subst; split; reflexivity|].
  exfalso. revert Ed.
  destruct ((194 <=? c0) && (c0 <=? 223)) eqn:E2.
  { destruct r as [|b1 r']; [intro X; inversion X|]. destruct (cont b1) eqn:Ec; intro X; inversion X. unfold cont in Ec. lia. }
  destruct ((224 <=? c0) && (c0 <=? 239)) eqn:E3.
  { destruct r as [|b1 [|b2 r']]; try (intro X; inversion X; fail).
    destruct ((lo3 c0 <=? b1) && (b1 <=? hi3 c0) && cont b2) eqn:Ec; intro X; inversion X.
    unfold cont, lo3, hi3 in Ec. destruct (c0 =? 224) eqn:?; destruct (c0 =? 237) eqn:?; lia. }
  destruct ((240 <=? c0) && (c0 <=? 244)) eqn:E4.
  { destruct r as [|b1 [|b2 [|b3 r']]]; try (intro X; inversion X; fail).
    destruct ((lo4 c0 <=? b1) && (b1 <=? hi4 c0) && cont b2 && cont b3) eqn:Ec; intro X; inversion X.
    unfold cont, lo4, hi4 in Ec. destruct (c0 =? 240) eqn:?; destruct (c0 =? 244) eqn:?; lia. }
  intro X; inversion X.
Qed.

Lemma account_span_walk : forall l skip n cols last ln c,
  account_span l skip = (n, cols, last) -> (skip <= length l)%nat ->
  walk l n skip ln c = Some (ln, c + cols) /\ (n <= length l)%nat.
Proof.
  induction l as [|c0 r IH]; intros skip n cols last ln c E Hs.
  - cbn [account_span] in E. inversion E; subst. cbn [length] in Hs. assert (skip = 0)%nat by lia. subst. cbn [walk]. split; [f_equal; f_equal; lia|cbn; lia].
  - cbn [account_span] in E. destruct skip as [|k].
    + destruct (decode (c0 :: r)) as [rn size] eqn:Ed.
      pose proof (decode_size_le (c0 :: r) ltac:(discriminate)) as Q. rewrite Ed in Q. cbn [snd length] in Q.
      pose proof (decode_size_pos (c0 :: r)) as P. rewrite Ed in P. cbn [snd] in P.
      assert (D10 : c0 = 10 -> rn = 10).
      { intros ->. rewrite decode_ascii in Ed by reflexivity. inversion Ed. reflexivity. }
      destruct (rn =? 32) eqn:E32.
      * destruct (decode_space _ _ _ Ed ltac:(discriminate) ltac:(lia)) as (r0 & Hl & ->). inversion Hl; subst c0 r0.
        rewrite match32 in E.
        assert (W1 : forall n' cols', walk r n' 0 ln (c + 1) = Some (ln, c + 1 + cols') ->
                  walk (32 :: r) (S n') 0 ln c = Some (ln, c + (cols' + 1))).
        { intros n' cols' W. cbn [walk]. change (32 =? 10) with false. cbv iota. rewrite Ed. cbn [fst snd Nat.sub].
          unfold u16len. destruct (65536 <=? rn) eqn:X; [lia|]. rewrite W. f_equal. f_equal. lia. }
        destruct r as [|c1 r'].
        -- cbn [account_span] in E. inversion E; subst. split; [|cbn; lia].
           refine (W1 0%nat 0 _). cbn [walk]. f_equal. f_equal. lia.
        -- destruct (c1 =? 32) eqn:E1.
           ++ inversion E; subst. cbn [walk]. split; [f_equal; f_equal; lia|lia].
           ++ destruct (account_span (c1 :: r') 0) as [[n' cols'] last'] eqn:E'. inversion E; subst.
              destruct (IH 0%nat n' cols' last' ln (c + 1) E' ltac:(lia)) as [W L].
              split; [apply W1; exact W|cbn [length] in *; lia].
      * destruct (isAccountTerminator rn) eqn:Et.
        -- inversion E; subst. cbn [walk]. split; [f_equal; f_equal; lia|lia].
        -- destruct (account_span r (size - 1)) as [[n' cols'] last'] eqn:E'. inversion E; subst.
           assert (Hne : c0 <> 10).
           { intro X. specialize (D10 X). subst rn. unfold isAccountTerminator in Et. cbn in Et. discriminate. }
           destruct (IH _ _ _ _ ln (c + u16len rn) E' ltac:(lia)) as [W L].
           cbn [walk]. destruct (c0 =? 10) eqn:E10; [lia|]. rewrite Ed. cbn [fst snd].
           split; [rewrite W; f_equal; f_equal; lia|cbn [length]; lia].
    + destruct (account_span r k) as [[n' cols'] last'] eqn:E'. inversion E; subst. cbn [length] in Hs.
      destruct (IH _ _ _ _ ln c E' ltac:(lia)) as [W L]. cbn [walk]. split; [exact W|cbn [length]; lia].
Qed.

(* ------------------------------------------------------------------------------------------ *)
(* every scanner *)

(* the scanner's final state, and the states its token's start and end were read from, are tracked *)
Definition tok_tracked (s : lx) (r : token * lx) : Prop :=
  tracks s (snd r) /\
  exists sa sb, tracks s sa /\ tracks sa sb /\ tracks sb (snd r) /\ tk_pos (fst r) = position sa /\ tk_end (fst r) = position sb.

Lemma tt_intro s t s' sa sb : tracks s s' -> tracks s sa -> tracks sa sb ->
  tk_pos t = position sa -> tk_end t = position sb -> tracks sb s' -> tok_tracked s (t, s').
Proof. intros A B C D E F. split; [exact A|]. exists sa, sb. auto. Qed.

Lemma tt_shift s0 s r : tracks s0 s -> tok_tracked s r -> tok_tracked s0 r.
Proof.
  intros T (A & sa & sb & B & C & F & Pa & Pb). split; [eapply tracks_trans; eassumption|].
  exists sa, sb. split; [eapply tracks_trans; eassumption|auto].
Qed.

Lemma digits_plain c : (isDigitB c || (c =? 45) || (c =? 47) || (c =? 46)) = true -> plain_byte c = true.
Proof. unfold isDigitB, plain_byte. lia. Qed.
Lemma ws_plain c : (isWhitespaceB c && negb (c =? 10)) = true -> plain_byte c = true.
Proof. unfold isWhitespaceB, plain_byte. lia. Qed.
Lemma letter_plain c : isLetterB c = true -> plain_byte c = true.
Proof. unfold isLetterB, plain_byte. lia. Qed.
Lemma alnum_plain c : (isLetterB c || isDigitB c) = true -> plain_byte c = true.
Proof. unfold isLetterB, isDigitB, plain_byte. lia. Qed.

Lemma tt_scanDate s : tok_tracked s (scanDate s).
Proof.
  unfold scanDate. eapply tt_intro; try reflexivity; try apply tracks_refl; apply tracks_span_while; exact digits_plain.
Qed.

Lemma tt_scanIndent s : tok_tracked s (scanIndent s).
Proof.
  unfold scanIndent. eapply tt_intro; try reflexivity; try apply tracks_refl; apply tracks_span_while; exact ws_plain.
Qed.

Lemma tt_scanStatus s : peek s <> 10 -> tok_tracked s (scanStatus s).
Proof. intro H. unfold scanStatus. eapply tt_intro; try reflexivity; try apply tracks_refl; apply tracks_advance; exact H. Qed.

Lemma tt_scanSingle ty v s : peek s <> 10 -> tok_tracked s (scanSingle ty v s).
Proof. intro H. unfold scanSingle. eapply tt_intro; try reflexivity; try apply tracks_refl; apply tracks_advance; exact H. Qed.

Lemma tt_scanSign s : peek s <> 10 -> tok_tracked s (scanSign s).
Proof. intro H. unfold scanSign. eapply tt_intro; try reflexivity; try apply tracks_refl; apply tracks_advance; exact H. Qed.

(* advance over a closing character that was just peeked *)
Lemma tracks_cond_advance s2 (c : N) : c <> 10 ->
  tracks s2 (if (peek s2 =? c) && negb (match rest s2 with [] => true | _ => false end) then advance s2 else s2).
Proof.
  intro H. destruct ((peek s2 =? c) && negb (match rest s2 with [] => true | _ => false end)) eqn:E; [|apply tracks_refl].
  apply tracks_advance. apply andb_true_iff in E as [E _]. apply N.eqb_eq in E. rewrite E. exact H.
Qed.

Lemma tt_scanCode s : peek s <> 10 -> tok_tracked s (scanCode s).
Proof.
  intro H. unfold scanCode.
  destruct (span_until (fun c => (c =? 41) || (c =? 10)) (rest (advance s)) 0) as [n cols] eqn:E.
  assert (T1 : tracks s (advance s)) by (apply tracks_advance; exact H).
  assert (T2 : tracks (advance s) (consume n cols (advance s))) by (eapply tracks_span_until; [|exact E]; reflexivity).
  assert (T3 := tracks_cond_advance (consume n cols (advance s)) 41 ltac:(lia)).
  assert (T : tracks s (if (peek (consume n cols (advance s)) =? 41) && negb (match rest (consume n cols (advance s)) with [] => true | _ => false end)
                        then advance (consume n cols (advance s)) else consume n cols (advance s)))
    by (eapply tracks_trans; [exact T1|]; eapply tracks_trans; [exact T2|exact T3]).
  eapply tt_intro; try reflexivity; [exact T|apply tracks_refl|exact T|apply tracks_refl].
Qed.

Lemma tt_scanQuotedCommodity s : peek s <> 10 -> tok_tracked s (scanQuotedCommodity s).
Proof.
  intro H. unfold scanQuotedCommodity.
  destruct (span_until (fun c => (c =? 34) || (c =? 10)) (rest (advance s)) 0) as [n cols] eqn:E.
  assert (T1 : tracks s (advance s)) by (apply tracks_advance; exact H).
  assert (T2 : tracks (advance s) (consume n cols (advance s))) by (eapply tracks_span_until; [|exact E]; reflexivity).
  assert (T3 := tracks_cond_advance (consume n cols (advance s)) 34 ltac:(lia)).
  assert (T : tracks s (if (peek (consume n cols (advance s)) =? 34) && negb (match rest (consume n cols (advance s)) with [] => true | _ => false end)
                        then advance (consume n cols (advance s)) else consume n cols (advance s)))
    by (eapply tracks_trans; [exact T1|]; eapply tracks_trans; [exact T2|exact T3]).
  eapply tt_intro; try reflexivity; [exact T|apply tracks_refl|exact T|apply tracks_refl].
Qed.

Lemma tt_scanComment s : peek s <> 10 -> tok_tracked s (scanComment s).
Proof.
  intro H. unfold scanComment.
  destruct (span_until (fun c => c =? 10) (rest (advance s)) 0) as [n cols] eqn:E.
  assert (T1 : tracks s (advance s)) by (apply tracks_advance; exact H).
  assert (T2 : tracks (advance s) (consume n cols (advance s))) by (eapply tracks_span_until; [|exact E]; reflexivity).
  assert (T : tracks s (consume n cols (advance s))) by (eapply tracks_trans; eassumption).
  eapply tt_intro; try reflexivity; [exact T|apply tracks_refl|exact T|apply tracks_refl].
Qed.

Lemma tt_scanText s : tok_tracked s (scanText s).
Proof.
  unfold scanText. destruct (span_until (fun c => (c =? 10) || (c =? 59) || (c =? 124)) (rest s) 0) as [n cols] eqn:E.
  assert (T : tracks s (consume n cols s)) by (eapply tracks_span_until; [|exact E]; reflexivity).
  eapply tt_intro; try reflexivity; [exact T|apply tracks_refl|exact T|apply tracks_refl].
Qed.

Lemma tt_scanAccount s : tok_tracked s (scanAccount s).
Proof.
  unfold scanAccount. destruct (account_span (rest s) 0) as [[n cols] last] eqn:E.
  assert (T : tracks s (consume n cols s)).
  { destruct (account_span_walk _ _ _ _ _ (lline s) (lcol s) E ltac:(lia)) as [W L].
    exists n. unfold consume. cbn [rest lpos lline lcol]. split; [reflexivity|]. split; [reflexivity|exact W]. }
  eapply tt_intro; try reflexivity; [exact T|apply tracks_refl|exact T|apply tracks_refl].
Qed.

Lemma number_span_plain_n : forall n l h, (length l <= n)%nat ->
  (number_span l h <= length l)%nat /\ forallb plain_byte (firstn (number_span l h) l) = true.
Proof.
  induction n as [|n IH]; intros l h Hl.
  { destruct l; [split; [cbn; lia|reflexivity]|cbn [length] in Hl; lia]. }
  destruct l as [|c r]; [split; [cbn; lia|reflexivity]|]. cbn [length] in Hl. cbn [number_span].
  assert (P1 : forall hh, plain_byte c = true ->
             (S (number_span r hh) <= length (c :: r))%nat /\ forallb plain_byte (firstn (S (number_span r hh)) (c :: r)) = true).
  { intros hh Pc. destruct (IH r hh ltac:(lia)) as [A B]. split; [cbn [length]; lia|]. cbn [firstn forallb]. rewrite Pc, B. reflexivity. }
  destruct (isDigitB c) eqn:Ed; [apply P1; unfold isDigitB, plain_byte in *; lia|].
  destruct ((c =? 46) || (c =? 44)) eqn:Em; [apply P1; unfold plain_byte; lia|].
  destruct ((c =? 32) && match r with d :: _ => isDigitB d | [] => false end) eqn:Es; [apply P1; unfold plain_byte; lia|].
  destruct (((c =? 69) || (c =? 101)) && h) eqn:Ee; [|split; [cbn [length]; lia|reflexivity]].
  assert (Pc : plain_byte c = true) by (unfold plain_byte; lia).
  destruct r as [|sg r']; [split; [cbn [length]; lia|reflexivity]|].
  destruct ((sg =? 43) || (sg =? 45)) eqn:Eg.
  - destruct r' as [|d r'']; [split; [cbn [length]; lia|reflexivity]|]. destruct (isDigitB d) eqn:Edd; [|split; [cbn [length]; lia|reflexivity]].
    cbn [length] in Hl. destruct (IH (d :: r'') h ltac:(cbn [length]; lia)) as [A B].
    assert (Pg : plain_byte sg = true) by (unfold plain_byte; lia).
    split; [cbn [length] in *; lia|]. cbn [firstn forallb]. rewrite Pc, Pg. exact B.
  - destruct (isDigitB sg) eqn:Edg; [|split; [cbn [length]; lia|reflexivity]]. apply P1. exact Pc.
Qed.

Lemma tt_scanNumber s : tok_tracked s (scanNumber s).
Proof.
  unfold scanNumber. destruct (number_span_plain_n _ (rest s) false (Nat.le_refl _)) as [A B].
  assert (T : tracks s (consume (number_span (rest s) false) (N.of_nat (number_span (rest s) false)) s))
    by (apply tracks_consume_plain; assumption).
  eapply tt_intro; try reflexivity; [exact T|apply tracks_refl|exact T|apply tracks_refl].
Qed.

Lemma tt_scanCurrencySymbol s : rest s <> [] -> peek s <> 10 -> tok_tracked s (scanCurrencySymbol s).
Proof.
  intros Hne H. unfold scanCurrencySymbol.
  assert (T : tracks s (consume (snd (decode (rest s))) (u16len (fst (decode (rest s)))) s)).
  { destruct (rest s) as [|c0 r] eqn:E; [contradiction|]. unfold peek in H. rewrite E in H.
    exists (snd (decode (c0 :: r))). unfold consume. cbn [rest lpos lline lcol]. rewrite E.
    split; [reflexivity|]. split; [reflexivity|]. apply walk_rune. exact H. }
  eapply tt_intro; try reflexivity; [exact T|apply tracks_refl|exact T|apply tracks_refl].
Qed.

Lemma peek_after s c r : rest s = c :: r -> peek s = c.
Proof. intro E. unfold peek. rewrite E. reflexivity. Qed.

Lemma tt_scanAt s : peek s <> 10 -> tok_tracked s (scanAt s).
Proof.
  intro H. unfold scanAt. assert (T1 : tracks s (advance s)) by (apply tracks_advance; exact H).
  destruct (rest (advance s)) as [|c r] eqn:E; [eapply tt_intro; try reflexivity; [exact T1|apply tracks_refl|exact T1|apply tracks_refl]|].
  destruct (c =? 64) eqn:E64.
  - apply N.eqb_eq in E64. subst c.
    assert (T2 : tracks s (advance (advance s))).
    { eapply tracks_trans; [exact T1|]. apply tracks_advance. rewrite (peek_after _ _ _ E). lia. }
    eapply tt_intro; try reflexivity; [exact T2|apply tracks_refl|exact T2|apply tracks_refl].
  - assert (X : match c with 64 => True | _ => False end -> False).
    { destruct c as [|p]; [auto|]. do 7 (try (destruct p as [p|p|]; auto)). cbn in E64. discriminate. }
    revert X. clear E64. destruct c as [|p]; intro X; [eapply tt_intro; try reflexivity; [exact T1|apply tracks_refl|exact T1|apply tracks_refl]|].
    do 7 (try (destruct p as [p|p|])); try (eapply tt_intro; try reflexivity; [exact T1|apply tracks_refl|exact T1|apply tracks_refl]).
    exfalso. apply X. exact I.
Qed.

Lemma tt_scanEquals s : peek s <> 10 -> tok_tracked s (scanEquals s).
Proof.
  intro H. unfold scanEquals. assert (T1 : tracks s (advance s)) by (apply tracks_advance; exact H).
  destruct (rest (advance s)) as [|c r] eqn:E; [eapply tt_intro; try reflexivity; [exact T1|apply tracks_refl|exact T1|apply tracks_refl]|].
  destruct (c =? 61) eqn:E61.
  - apply N.eqb_eq in E61. subst c.
    assert (T2 : tracks s (advance (advance s))).
    { eapply tracks_trans; [exact T1|]. apply tracks_advance. rewrite (peek_after _ _ _ E). lia. }
    eapply tt_intro; try reflexivity; [exact T2|apply tracks_refl|exact T2|apply tracks_refl].
  - assert (X : match c with 61 => True | _ => False end -> False).
    { destruct c as [|p]; [auto|]. do 6 (try (destruct p as [p|p|]; auto)). cbn in E61. discriminate. }
    revert X. clear E61. destruct c as [|p]; intro X; [eapply tt_intro; try reflexivity; [exact T1|apply tracks_refl|exact T1|apply tracks_refl]|].
    do 6 (try (destruct p as [p|p|])); try (eapply tt_intro; try reflexivity; [exact T1|apply tracks_refl|exact T1|apply tracks_refl]).
    exfalso. apply X. exact I.
Qed.

Lemma tracks_scanNewline s r : rest s = 10 :: r ->
  tracks s (snd (scanNewline s)) /\ tk_pos (fst (scanNewline s)) = position s /\ tk_end (fst (scanNewline s)) = position (snd (scanNewline s)).
Proof.
  intro E. unfold scanNewline. cbn [fst snd tk_pos tk_end tok]. split; [|split; reflexivity].
  exists 1%nat. cbn [rest lpos lline lcol]. unfold advance. rewrite E. unfold consume. cbn [rest lpos lline lcol]. rewrite E.
  rewrite decode_ascii by reflexivity. cbn [snd fst]. split; [reflexivity|]. split; [lia|].
  cbn [walk]. change (10 =? 10) with true. cbv iota. reflexivity.
Qed.

Lemma tt_scanNewline s r : rest s = 10 :: r -> tok_tracked s (scanNewline s).
Proof.
  intro E. destruct (tracks_scanNewline s r E) as (T & P1 & P2). split; [exact T|].
  exists s, (snd (scanNewline s)). split; [apply tracks_refl|]. split; [exact T|]. split; [apply tracks_refl|]. split; assumption.
Qed.

Lemma tt_scanDirectiveOrAccount s : tok_tracked s (scanDirectiveOrAccount s).
Proof.
  unfold scanDirectiveOrAccount. destruct (isDirective _).
  - eapply tt_intro; try reflexivity; try apply tracks_refl; apply tracks_span_while; exact letter_plain.
  - destruct (looksLikeAccount s); [apply tt_scanAccount|apply tt_scanText].
Qed.

Lemma firstn_add {A} a b (l : list A) : firstn (a + b) l = firstn a l ++ firstn b (skipn a l).
Proof.
  revert l. induction a as [|a IH]; intro l; [reflexivity|]. destruct l as [|x l]; [cbn; rewrite firstn_nil; reflexivity|].
  cbn [Nat.add firstn skipn app]. rewrite IH. reflexivity.
Qed.

Lemma tt_scanCommodityOrText s : tok_tracked s (scanCommodityOrText s).
Proof.
  unfold scanCommodityOrText.
  match goal with |- context [if ?c then _ else _] => destruct c end.
  - eapply tt_intro; try reflexivity; try apply tracks_refl; apply tracks_span_while; exact letter_plain.
  - match goal with |- context [if ?c then _ else _] => destruct c end; [|apply tt_scanText].
    set (n1 := span_while isLetterB (rest s)).
    set (n2 := span_while (fun c => isLetterB c || isDigitB c) (skipn n1 (rest s))).
    assert (T : tracks s (consume (n1 + n2) (N.of_nat (n1 + n2)) s)).
    { apply tracks_consume_plain.
      - pose proof (span_while_le isLetterB (rest s)). pose proof (span_while_le (fun c => isLetterB c || isDigitB c) (skipn n1 (rest s))) as H2.
        rewrite skipn_length in H2. fold n1 in H. fold n2 in H2. lia.
      - rewrite firstn_add, forallb_app. unfold n1 at 1, n2.
        rewrite (span_while_forall isLetterB plain_byte _ letter_plain), (span_while_forall _ plain_byte _ alnum_plain). reflexivity. }
    eapply tt_intro; try reflexivity; [exact T|apply tracks_refl|exact T|apply tracks_refl].
Qed.

Lemma skip_spaces_plain l : (skip_spaces_n l <= length l)%nat /\ forallb plain_byte (firstn (skip_spaces_n l) l) = true.
Proof.
  induction l as [|c r [A B]]; [split; reflexivity|]. cbn [skip_spaces_n].
  destruct (c =? 32) eqn:E.
  - apply N.eqb_eq in E. subst c. split; [cbn [length]; lia|]. cbn [firstn forallb]. rewrite B. reflexivity.
  - assert (X : skip_spaces_n (c :: r) = 0%nat).
    { cbn [skip_spaces_n]. destruct c as [|p]; [reflexivity|]. do 6 (try (destruct p as [p|p|]; try reflexivity)). cbn in E. discriminate. }
    cbn [skip_spaces_n] in X. rewrite X. split; [lia|reflexivity].
Qed.

Lemma tt_makeToken_after s s' ty v : tracks s s' -> tok_tracked s (makeToken ty v s', s').
Proof. intro T. unfold makeToken. eapply (tt_intro s _ s' s' s'); try reflexivity; [exact T|exact T|apply tracks_refl|apply tracks_refl]. Qed.

Lemma tt_scanInLine s0 : tok_tracked s0 (scanInLine s0).
Proof.
  unfold scanInLine. destruct (skip_spaces_plain (rest s0)) as [A B].
  set (s := consume (skip_spaces_n (rest s0)) (N.of_nat (skip_spaces_n (rest s0))) s0).
  assert (T0 : tracks s0 s) by (apply tracks_consume_plain; assumption).
  apply (tt_shift s0 s _ T0).
  destruct (rest s) as [|ch r] eqn:E; [apply tt_makeToken_after; apply tracks_refl|].
  destruct (ch =? 10) eqn:E10.
  { apply N.eqb_eq in E10. subst ch. apply (tt_scanNewline s r E). }
  assert (Pk : peek s = ch) by (apply (peek_after _ _ _ E)).
  assert (Hp : peek s <> 10) by (rewrite Pk; lia).
  assert (Hne : rest s <> []) by (rewrite E; discriminate).
  assert (TA : tracks s (advance s)) by (apply tracks_advance; exact Hp).
  destruct (ch =? 59); [apply tt_scanComment; exact Hp|].
  destruct (ch =? 40). { destruct (looksLikeVirtualAccount s); [apply tt_scanSingle; exact Hp|apply tt_scanCode; exact Hp]. }
  destruct (ch =? 41); [apply tt_scanSingle; exact Hp|].
  destruct (ch =? 91); [apply tt_scanSingle; exact Hp|].
  destruct (ch =? 93); [apply tt_scanSingle; exact Hp|].
  destruct (ch =? 124); [apply tt_scanSingle; exact Hp|].
  destruct (ch =? 64); [apply tt_scanAt; exact Hp|].
  destruct (ch =? 61); [apply tt_scanEquals; exact Hp|].
  destruct ((ch =? 42) || (ch =? 33)); [apply tt_scanStatus; exact Hp|].
  destruct (isCurrencySymbol (peek_rune s)); [apply tt_scanCurrencySymbol; assumption|].
  destruct (ch =? 34); [apply tt_scanQuotedCommodity; exact Hp|].
  destruct ((ch =? 45) || (ch =? 43)).
  { destruct (nextIsCurrencySymbol s || nextIsLetterCommodity s || nextIsDigit s); [apply tt_scanSign; exact Hp|apply tt_scanText]. }
  destruct (isDigitB ch). { destruct (looksLikeDate s); [apply tt_scanDate|apply tt_scanNumber]. }
  destruct (isLetterB ch || is_letter_rune (peek_rune s)).
  { destruct (looksLikeAccount s); [apply tt_scanAccount|apply tt_scanCommodityOrText]. }
  apply tt_scanText.
Qed.

Lemma tt_scanLineStart s0 : tok_tracked s0 (scanLineStart s0).
Proof.
  unfold scanLineStart. set (s := set_at_start false s0).
  assert (T0 : tracks s0 s) by (apply tracks_same; reflexivity).
  apply (tt_shift s0 s _ T0).
  destruct (peek s =? 59) eqn:E59; [apply tt_scanComment; lia|].
  destruct (isWhitespaceB (peek s) && negb (peek s =? 10)); [apply tt_scanIndent|].
  destruct (isDigitB (peek s)); [apply tt_scanDate|].
  destruct (isLetterB (peek s)); [apply tt_scanDirectiveOrAccount|].
  apply tt_scanInLine.
Qed.

Theorem tt_next s : tok_tracked s (next s).
Proof.
  unfold next. destruct (rest s); [apply tt_makeToken_after; apply tracks_refl|].
  destruct (at_start s && (lcol s =? 1)); [apply tt_scanLineStart|apply tt_scanInLine].
Qed.

(* ------------------------------------------------------------------------------------------ *)
(* the whole token stream, against the text *)

Definition tpos_ok (text : list N) (p : tpos) : Prop :=
  walk text (N.to_nat (tp_off p)) 0 1 1 = Some (tp_line p, tp_col p) /\ (N.to_nat (tp_off p) <= length text)%nat.

Definition st_ok (text : list N) (s : lx) : Prop :=
  tpos_ok text (position s) /\ rest s = skipn (N.to_nat (lpos s)) text.

Lemma walk_len : forall n l skip ln c r, walk l n skip ln c = Some r -> (n <= length l)%nat.
Proof.
  induction n as [|n IH]; intros l skip ln c r H; [lia|]. cbn [walk] in H. destruct l as [|c0 l']; [discriminate|].
  cbn [length]. destruct skip; [destruct (c0 =? 10)|]; apply IH in H; lia.
Qed.

Lemma st_ok_tracks text s s' : st_ok text s -> tracks s s' -> st_ok text s'.
Proof.
  intros [[W L] R] (k & R' & P' & W'). unfold st_ok, tpos_ok, position in *. cbn [tp_off tp_line tp_col] in *.
  assert (E : N.to_nat (lpos s') = (N.to_nat (lpos s) + k)%nat) by lia. rewrite E.
  split; [split|].
  - rewrite (walk_app k _ _ _ _ _ _ _ W), <- R. exact W'.
  - apply walk_len in W'. rewrite R, skipn_length in W'. lia.
  - rewrite R', R. apply skipn_skipn_add.
Qed.

Lemma st_ok_init text : st_ok text (lx_init text).
Proof. unfold st_ok, tpos_ok, lx_init, position. cbn [tp_off tp_line tp_col lpos lline lcol rest N.to_nat skipn walk]. split; [split; [reflexivity|lia]|reflexivity]. Qed.

(* offsets grow along a walk; lines never decrease; on one line columns never decrease *)
Lemma walk_mono : forall n l skip ln c ln' c', walk l n skip ln c = Some (ln', c') ->
  ln <= ln' /\ (ln' = ln -> c <= c').
Proof.
  induction n as [|n IH]; intros l skip ln c ln' c' H; cbn [walk] in H.
  - destruct skip; [|discriminate]. inversion H; subst. split; [lia|intros _; lia].
  - destruct l as [|c0 r]; [discriminate|]. destruct skip as [|k].
    + destruct (c0 =? 10).
      * apply IH in H as [A B]. split; [lia|intro E; lia].
      * apply IH in H as [A B]. split; [exact A|intro E; specialize (B E); unfold u16len in B; destruct (65536 <=? fst (decode (c0 :: r))); lia].
    + apply IH in H. exact H.
Qed.

Lemma tracks_mono s s' : tracks s s' -> lpos s <= lpos s' /\ lline s <= lline s' /\ (lline s' = lline s -> lcol s <= lcol s').
Proof. intros (k & _ & P & W). apply walk_mono in W as [A B]. split; [lia|]. split; assumption. Qed.

(* what is known of every token: both ends are places of the text, the start is not behind the end *)
Definition tok_ok (text : list N) (t : token) : Prop :=
  tpos_ok text (tk_pos t) /\ tpos_ok text (tk_end t) /\
  tp_off (tk_pos t) <= tp_off (tk_end t) /\ tp_line (tk_pos t) <= tp_line (tk_end t) /\
  (tp_line (tk_end t) = tp_line (tk_pos t) -> tp_col (tk_pos t) <= tp_col (tk_end t)).

Theorem lex_all_positions text : forall fuel s toks, st_ok text s -> lex_all fuel s = Some toks ->
  Forall (tok_ok text) toks.
Proof.
  induction fuel as [|fuel IH]; intros s toks Hs H; [discriminate|]. cbn [lex_all] in H.
  pose proof (tt_next s) as TT. destruct (next s) as [t s'] eqn:En.
  destruct TT as (T & sa & sb & Ta & Tab & _ & Pa & Pb). cbn [fst snd] in *.
  assert (Ht : tok_ok text t).
  { unfold tok_ok. rewrite Pa, Pb. pose proof (st_ok_tracks text s sa Hs Ta) as Oa.
    split; [apply Oa|]. split; [apply (st_ok_tracks text sa sb Oa Tab)|].
    unfold position. cbn [tp_off tp_line tp_col]. exact (tracks_mono sa sb Tab). }
  destruct (tk_type t); try (destruct (lex_all fuel s') as [l|] eqn:El; [|discriminate]; inversion H; subst;
                             constructor; [exact Ht|apply (IH s' l (st_ok_tracks text s s' Hs T) El)]).
  inversion H; subst. constructor; [exact Ht|constructor].
Qed.

(* for every byte string: the start and the end of every token carry the line, the UTF-16 column
   and the byte offset of one and the same place of the text, on a rune boundary, start before end *)
Theorem lex_positions text toks : lex text = Some toks -> Forall (tok_ok text) toks.
Proof. unfold lex. apply lex_all_positions. apply st_ok_init. Qed.
