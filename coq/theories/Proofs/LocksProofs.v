(* Proofs about the interleaving machine of Model/Locks.v: mutual exclusion of reader-writer locks
   is an invariant, and the lockset discipline on an access table rules out data races in every
   reachable state of every set of threads whose accesses the table covers. *)
From HL Require Import Lib.Bytes Model.Locks.
Open Scope N_scope.

(* ---- list update ---- *)
Lemma nth_update_same {A} (l : list A) i x y : nth_error l i = Some y -> nth_error (update l i x) i = Some x.
Proof.
  revert i; induction l as [|a l IH]; intros [|i] H; cbn in *; try discriminate; [reflexivity|auto].
Qed.
Lemma nth_update_other {A} (l : list A) i j x : i <> j -> nth_error (update l i x) j = nth_error l j.
Proof.
  revert i j; induction l as [|a l IH]; intros [|i] [|j] H; cbn; try reflexivity; try congruence.
  apply IH. congruence.
Qed.
Lemma update_length {A} (l : list A) i x : length (update l i x) = length l.
Proof. revert i; induction l as [|a l IH]; intros [|i]; cbn; auto. Qed.

(* ---- held sets ---- *)
Definition In_held (l : N) (m : mode) (h : held) : Prop := In (l, m) h.

Lemma holds_spec l h : holds l h = true <-> exists m, In (l, m) h.
Proof.
  unfold holds. rewrite existsb_exists. split.
  - intros ([l' m] & I & E). cbn in E. apply N.eqb_eq in E. subst. exists m. exact I.
  - intros (m & I). exists (l, m). split; [exact I|cbn; apply N.eqb_refl].
Qed.
Lemma holds_w_spec l h : holds_w l h = true <-> In (l, MW) h.
Proof.
  unfold holds_w. rewrite existsb_exists. split.
  - intros ([l' m] & I & E). cbn in E. apply andb_true_iff in E as [E1 E2]. apply N.eqb_eq in E1. subst.
    destruct m; [discriminate|exact I].
  - intro I. exists (l, MW). split; [exact I|cbn; rewrite N.eqb_refl; reflexivity].
Qed.

Lemma release_sub l h x : In x (release l h) -> In x h.
Proof.
  induction h as [|[l' m] r IH]; cbn [release]; [auto|].
  destruct (l' =? l); intro I; [right; exact I|]. destruct I as [E|I]; [left; exact E|right; auto].
Qed.

(* mutual exclusion: a lock held for writing by one thread is held by no other thread *)
Definition exclusion (ts : list thread) : Prop :=
  forall i j ti tj l m, i <> j -> nth_error ts i = Some ti -> nth_error ts j = Some tj ->
    In (l, MW) (t_held ti) -> ~ In (l, m) (t_held tj).

Lemma others_ok_from_spec ok i : forall ts k, others_ok_from ts k i ok = true ->
  forall j tj, (k + j)%nat <> i -> nth_error ts j = Some tj -> ok (t_held tj) = true.
Proof.
  induction ts as [|a ts IH]; intros k H j tj Hj Hn; [destruct j; discriminate|].
  cbn [others_ok_from] in H. apply andb_true_iff in H as [H1 H2].
  destruct j as [|j]; cbn in Hn.
  - inversion Hn; subst. apply orb_true_iff in H1 as [H1|H1]; [apply Nat.eqb_eq in H1; lia|exact H1].
  - eapply (IH (S k) H2 j); [lia|exact Hn].
Qed.

Lemma others_ok_spec ts i ok : others_ok ts i ok = true ->
  forall j tj, j <> i -> nth_error ts j = Some tj -> ok (t_held tj) = true.
Proof. intros H j tj Hj Hn. eapply (others_ok_from_spec ok i ts 0%nat H j); [lia|exact Hn]. Qed.

Lemma exclusion_step ts ts' : exclusion ts -> step ts ts' -> exclusion ts'.
Proof.
  intros Ex St. destruct St as [ts i t Hn En].
  unfold exclusion. intros a b ta tb l m Hab Ha Hb Hw.
  unfold enabled in En. rewrite Hn in En.
  destruct (Nat.eq_dec a i) as [Ea|Ea]; destruct (Nat.eq_dec b i) as [Eb|Eb].
  - congruence.
  - (* a is the thread that moved *)
    subst a. rewrite (nth_update_same ts i _ t Hn) in Ha. inversion Ha; subst ta. clear Ha.
    rewrite nth_update_other in Hb by congruence.
    unfold advance in Hw. destruct (t_todo t) as [|ins r] eqn:Et; [discriminate En|].
    cbn [t_held] in Hw. destruct ins as [l0 m0|l0|x w]; cbn [hstep] in Hw.
    + destruct Hw as [E|Hw]; [|exact (Ex i b t tb l m Hab Hn Hb Hw)].
      inversion E; subst l0 m0. pose proof (others_ok_spec _ _ _ En b tb ltac:(congruence) Hb) as O.
      apply negb_true_iff in O. intro I. assert (holds l (t_held tb) = true) by (apply holds_spec; eauto). congruence.
    + apply release_sub in Hw. exact (Ex i b t tb l m Hab Hn Hb Hw).
    + exact (Ex i b t tb l m Hab Hn Hb Hw).
  - (* b is the thread that moved *)
    subst b. rewrite (nth_update_same ts i _ t Hn) in Hb. inversion Hb; subst tb. clear Hb.
    rewrite nth_update_other in Ha by congruence.
    unfold advance. destruct (t_todo t) as [|ins r] eqn:Et; [discriminate En|].
    cbn [t_held]. destruct ins as [l0 m0|l0|x w]; cbn [hstep].
    + intros [E|I]; [|exact (Ex a i ta t l m Hab Ha Hn Hw I)].
      inversion E; subst l0 m0. destruct m.
      * pose proof (others_ok_spec _ _ _ En a ta ltac:(congruence) Ha) as O.
        apply negb_true_iff in O. assert (holds_w l (t_held ta) = true) by (apply holds_w_spec; exact Hw). congruence.
      * pose proof (others_ok_spec _ _ _ En a ta ltac:(congruence) Ha) as O.
        apply negb_true_iff in O. assert (holds l (t_held ta) = true) by (apply holds_spec; eauto). congruence.
    + intro I. apply release_sub in I. exact (Ex a i ta t l m Hab Ha Hn Hw I).
    + exact (Ex a i ta t l m Hab Ha Hn Hw).
  - rewrite nth_update_other in Ha by congruence. rewrite nth_update_other in Hb by congruence.
    exact (Ex a b ta tb l m Hab Ha Hb Hw).
Qed.


Definition kinds_ok (conc : N -> N -> bool) (ts : list thread) : Prop :=
  forall i j ti tj, i <> j -> nth_error ts i = Some ti -> nth_error ts j = Some tj -> conc (t_kind ti) (t_kind tj) = true.
Definition all_covered (table : list row) (ts : list thread) : Prop :=
  forall i t, nth_error ts i = Some t -> covered table (t_kind t) (t_held t) (t_todo t).
Definition initial (ts : list thread) : Prop := forall i t, nth_error ts i = Some t -> t_held t = [].

Lemma mode_eqb_eq a b : mode_eqb a b = true -> a = b.
Proof. destruct a, b; cbn; congruence. Qed.

Lemma sub_held_spec a b : sub_held a b = true -> forall l m, In (l, m) a -> In (l, m) b.
Proof.
  unfold sub_held. intros H l m I. rewrite forallb_forall in H. specialize (H _ I).
  apply existsb_exists in H as ([l' m'] & I' & E). cbn in E. apply andb_true_iff in E as [E1 E2].
  apply N.eqb_eq in E1. apply mode_eqb_eq in E2. subst. exact I'.
Qed.

Lemma kinds_step conc ts ts' : kinds_ok conc ts -> step ts ts' -> kinds_ok conc ts'.
Proof.
  intros K St. destruct St as [ts i t Hn En]. intros a b ta tb Hab Ha Hb.
  assert (KA : forall x tx, nth_error (update ts i (advance t)) x = Some tx -> exists tx0, nth_error ts x = Some tx0 /\ t_kind tx0 = t_kind tx).
  { intros x tx Hx. destruct (Nat.eq_dec x i) as [E|E].
    - subst x. rewrite (nth_update_same ts i _ t Hn) in Hx. inversion Hx; subst. exists t. split; [exact Hn|].
      unfold advance. destruct (t_todo t); reflexivity.
    - rewrite nth_update_other in Hx by congruence. exists tx. split; [exact Hx|reflexivity]. }
  destruct (KA a ta Ha) as (ta0 & Ha0 & Ea). destruct (KA b tb Hb) as (tb0 & Hb0 & Eb).
  rewrite <- Ea, <- Eb. exact (K a b ta0 tb0 Hab Ha0 Hb0).
Qed.

Lemma covered_step table ts ts' : all_covered table ts -> step ts ts' -> all_covered table ts'.
Proof.
  intros C St. destruct St as [ts i t Hn En]. intros x tx Hx.
  destruct (Nat.eq_dec x i) as [E|E].
  - subst x. rewrite (nth_update_same ts i _ t Hn) in Hx. inversion Hx; subst tx. clear Hx.
    specialize (C i t Hn). unfold advance. destruct (t_todo t) as [|ins r] eqn:Et; [rewrite Et; exact C|].
    cbn [t_kind t_held t_todo]. cbn [covered] in C. exact (proj2 C).
  - rewrite nth_update_other in Hx by congruence. exact (C x tx Hx).
Qed.

Lemma exclusion_init ts : initial ts -> exclusion ts.
Proof. intros I i j ti tj l m _ Hi _ Hw. rewrite (I i ti Hi) in Hw. destruct Hw. Qed.

(* Eraser's lockset discipline is sound for this machine: if every two rows of the table that
   can belong to coexisting threads and conflict share a lock held for writing on one side, and
   every thread's accesses are rows of the table, no reachable state has a data race *)
Theorem lockset_race_free conc table init :
  disciplined conc table = true -> initial init -> kinds_ok conc init -> all_covered table init ->
  forall ts, reachable init ts -> ~ race ts.
Proof.
  intros D I K C ts R.
  assert (Inv : exclusion ts /\ kinds_ok conc ts /\ all_covered table ts).
  { induction R as [|ts ts' R IH St].
    - split; [apply exclusion_init; exact I|split; assumption].
    - destruct IH as (E1 & K1 & C1). split; [eapply exclusion_step; eauto|].
      split; [eapply kinds_step; eauto|eapply covered_step; eauto]. }
  destruct Inv as (Ex & Kd & Cv).
  intros (i & j & ti & tj & x & w1 & w2 & r1 & r2 & Hij & Hi & Hj & Ti & Tj & W).
  pose proof (Cv i ti Hi) as Ci. rewrite Ti in Ci. cbn [covered] in Ci.
  destruct Ci as ((ra & Ia & Ka & La & Wa & Sa) & _).
  pose proof (Cv j tj Hj) as Cj. rewrite Tj in Cj. cbn [covered] in Cj.
  destruct Cj as ((rb & Ib & Kb & Lb & Wb & Sb) & _).
  unfold disciplined in D. rewrite forallb_forall in D. specialize (D ra Ia).
  rewrite forallb_forall in D. specialize (D rb Ib). unfold compatible in D.
  rewrite Ka, Kb, (Kd i j ti tj Hij Hi Hj), La, Lb, N.eqb_refl, Wa, Wb, W in D. cbn [negb orb] in D.
  unfold protects in D. apply orb_true_iff in D as [P|P]; apply existsb_exists in P as ([l m] & Il & E);
    cbn [fst snd] in E; apply andb_true_iff in E as [Em Eh]; apply mode_eqb_eq in Em; subst m;
    apply holds_spec in Eh as (m' & Ih).
  - apply (Ex i j ti tj l m' Hij Hi Hj); [exact (sub_held_spec _ _ Sa _ _ Il)|exact (sub_held_spec _ _ Sb _ _ Ih)].
  - apply (Ex j i tj ti l m' (not_eq_sym Hij) Hj Hi); [exact (sub_held_spec _ _ Sb _ _ Il)|exact (sub_held_spec _ _ Sa _ _ Ih)].
Qed.

Lemma exclusion_reachable init ts : initial init -> reachable init ts -> exclusion ts.
Proof.
  intros I R. induction R as [|ts ts' R IH St]; [apply exclusion_init; exact I|eapply exclusion_step; eauto].
Qed.
