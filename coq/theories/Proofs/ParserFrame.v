(* The parser's understanding of the rest of the file does not depend on what went wrong before:
   every parsing function commutes with appending OLDER diagnostics to the error list (which is kept
   newest first), and the journal loop only ever appends to the journal it was given.  So from any
   point of the token stream on, the trees built and the diagnostics added are a function of the
   remaining tokens and the default year alone. *)
From HL Require Import Lib.Bytes Lib.Utf8 Model.Ast Model.Settings Model.Lexer Model.Parser Proofs.ParserProofs.
Open Scope nat_scope.

(* the same parser state with the older diagnostics e0 behind its own *)
Definition rebase (e0 : list (N * N)) (ps : pstate) : pstate := mkPS (toks ps) (perrs ps ++ e0) (dyear ps).

Lemma cur_rebase e ps : cur (rebase e ps) = cur ps. Proof. reflexivity. Qed.
Lemma ctype_rebase e ps : ctype (rebase e ps) = ctype ps. Proof. reflexivity. Qed.
Lemma dyear_rebase e ps : dyear (rebase e ps) = dyear ps. Proof. reflexivity. Qed.
Lemma toks_rebase e ps : toks (rebase e ps) = toks ps. Proof. reflexivity. Qed.
Lemma adv_rebase e ps : adv (rebase e ps) = rebase e (adv ps).
Proof.
  unfold adv, rebase. cbn [toks perrs dyear]. destruct ps as [tk er d]. cbn [toks perrs dyear].
  destruct tk as [|t [|t' r]]; reflexivity.
Qed.
Lemma perr_at_rebase e p ps : perr_at p (rebase e ps) = rebase e (perr_at p ps). Proof. reflexivity. Qed.
Lemma perr_rebase e ps : perr (rebase e ps) = rebase e (perr ps). Proof. reflexivity. Qed.
Lemma skip_to_next_line_rebase e ps : skip_to_next_line (rebase e ps) = rebase e (skip_to_next_line ps). Proof. reflexivity. Qed.
Lemma skip_until_rebase e s ps : skip_until s (rebase e ps) = rebase e (skip_until s ps). Proof. reflexivity. Qed.
Lemma mk_rebase e x d : mkPS (toks (rebase e x)) (perrs (rebase e x)) d = rebase e (mkPS (toks x) (perrs x) d). Proof. reflexivity. Qed.

(* what "commutes" means for a function returning a value and the next state *)
Definition commutes {A} (f : pstate -> A * pstate) : Prop :=
  forall e ps, f (rebase e ps) = (fst (f ps), rebase e (snd (f ps))).
Definition commutes_opt {A} (f : pstate -> option (A * pstate)) : Prop :=
  forall e ps, f (rebase e ps) = match f ps with Some (r, p) => Some (r, rebase e p) | None => None end.

Ltac push :=
  repeat (rewrite ?adv_rebase, ?perr_rebase, ?perr_at_rebase, ?skip_to_next_line_rebase, ?skip_until_rebase,
                  ?ctype_rebase, ?cur_rebase, ?dyear_rebase, ?toks_rebase; cbn [fst snd]).

Ltac break_push :=
  repeat (push; match goal with
                | |- context [if ?c then _ else _] => destruct c eqn:?
                | |- context [match ?x with _ => _ end] => destruct x eqn:?
                end; cbv beta iota).

Lemma parse_comment_c : commutes parse_comment.
Proof. intros e ps. unfold parse_comment. push. reflexivity. Qed.

Lemma parse_date_c : commutes parse_date.
Proof. intros e ps. unfold parse_date. push. break_match; reflexivity. Qed.

Lemma parse_status_c : commutes parse_status.
Proof. intros e ps. unfold parse_status. push. break_match; reflexivity. Qed.

Lemma parse_amount_c : commutes parse_amount.
Proof. intros e ps. unfold parse_amount. break_push; push; reflexivity. Qed.

(* ---- combinators: the parsing functions are built from these shapes ---- *)
Definition frame_bool (c : pstate -> bool) : Prop := forall e ps, c (rebase e ps) = c ps.
Definition frame_val {A} (v : pstate -> A) : Prop := forall e ps, v (rebase e ps) = v ps.

Lemma commutes_bind {A B} (f : pstate -> A * pstate) (g : A -> pstate -> B * pstate) :
  commutes f -> (forall a, commutes (g a)) -> commutes (fun ps => let '(a, p) := f ps in g a p).
Proof. intros Hf Hg e ps. rewrite Hf. destruct (f ps) as [a p]. cbn [fst snd]. apply Hg. Qed.

Lemma commutes_ite {A} (c : pstate -> bool) (f g : pstate -> A * pstate) :
  frame_bool c -> commutes f -> commutes g -> commutes (fun ps => if c ps then f ps else g ps).
Proof. intros Hc Hf Hg e ps. rewrite Hc. destruct (c ps); [apply Hf|apply Hg]. Qed.

Lemma commutes_ret {A} (v : pstate -> A) : frame_val v -> commutes (fun ps => (v ps, ps)).
Proof. intros Hv e ps. rewrite Hv. reflexivity. Qed.

Lemma commutes_pre {A} (h : pstate -> pstate) (f : pstate -> A * pstate) :
  (forall e ps, h (rebase e ps) = rebase e (h ps)) -> commutes f -> commutes (fun ps => f (h ps)).
Proof. intros Hh Hf e ps. rewrite Hh. apply Hf. Qed.

Lemma commutes_post {A} (v : pstate -> A) (h : pstate -> pstate) :
  frame_val v -> (forall e ps, h (rebase e ps) = rebase e (h ps)) -> commutes (fun ps => (v ps, h ps)).
Proof. intros Hv Hh e ps. rewrite Hv, Hh. reflexivity. Qed.

Lemma commutes_ext {A} (f g : pstate -> A * pstate) : (forall ps, f ps = g ps) -> commutes g -> commutes f.
Proof. intros E Hg e ps. rewrite !E. apply Hg. Qed.

Ltac push2 :=
  repeat (rewrite ?adv_rebase, ?perr_rebase, ?perr_at_rebase, ?skip_to_next_line_rebase, ?skip_until_rebase,
                  ?ctype_rebase, ?cur_rebase, ?dyear_rebase, ?toks_rebase,
                  ?parse_comment_c, ?parse_date_c, ?parse_status_c, ?parse_amount_c; cbn [fst snd]).
Ltac break_push2 :=
  repeat (push2; match goal with
                 | |- context [if ?c then _ else _] => destruct c eqn:?
                 | |- context [match ?x with _ => _ end] => destruct x eqn:?
                 end; cbv beta iota).

Lemma parse_cost_c : commutes parse_cost.
Proof. intros e ps. unfold parse_cost. break_push2; push2; cbn [fst snd] in *; first [reflexivity | congruence]. Qed.

Lemma parse_assertion_c : commutes parse_assertion.
Proof. intros e ps. unfold parse_assertion. break_push2; push2; cbn [fst snd] in *; first [reflexivity | congruence]. Qed.

(* ---- a posting, in stages ---- *)
Definition st_amount (ps : pstate) : option amount * pstate :=
  if is_ty (ctype ps) TCommodity || is_ty (ctype ps) TNumber || is_ty (ctype ps) TSign then parse_amount ps else (None, ps).
Definition st_cost (ps : pstate) : option cost * pstate :=
  if is_ty (ctype ps) TAt || is_ty (ctype ps) TAtAt then parse_cost ps else (None, ps).
Definition st_assert (ps : pstate) : option assertion * pstate :=
  if is_ty (ctype ps) TEquals || is_ty (ctype ps) TDoubleEquals then parse_assertion ps else (None, ps).
Definition st_comment (ps : pstate) : (list N * list tag) * pstate :=
  if is_ty (ctype ps) TComment then ((tk_val (cur ps), parse_tags (tk_val (cur ps)) (tk_pos (cur ps))), adv ps) else (([], []), ps).
Definition st_closing (closing : option ttype) (ps : pstate) : pstate :=
  match closing with Some c => if is_ty (ctype ps) c then adv ps else ps | None => ps end.

Lemma st_amount_c : commutes st_amount.
Proof. intros e ps. unfold st_amount. rewrite ctype_rebase. destruct (_ || _); [apply parse_amount_c|reflexivity]. Qed.
Lemma st_cost_c : commutes st_cost.
Proof. intros e ps. unfold st_cost. rewrite ctype_rebase. destruct (_ || _); [apply parse_cost_c|reflexivity]. Qed.
Lemma st_assert_c : commutes st_assert.
Proof. intros e ps. unfold st_assert. rewrite ctype_rebase. destruct (_ || _); [apply parse_assertion_c|reflexivity]. Qed.
Lemma st_comment_c : commutes st_comment.
Proof. intros e ps. unfold st_comment. rewrite ctype_rebase, cur_rebase, adv_rebase. destruct (is_ty _ _); reflexivity. Qed.
Lemma st_closing_c closing e ps : st_closing closing (rebase e ps) = rebase e (st_closing closing ps).
Proof. unfold st_closing. destruct closing as [c|]; [|reflexivity]. rewrite ctype_rebase, adv_rebase. destruct (is_ty _ _); reflexivity. Qed.

Definition pp_tail (st : status) (acct : list N) (arng : rng) (virt : vkind) (start : pos) (ps : pstate) : option posting * pstate :=
  let '(amt, ps) := st_amount ps in
  let '(cst, ps) := st_cost ps in
  let '(asr, ps) := st_assert ps in
  let '(ct, ps) := st_comment ps in
  (Some (mkPosting st acct arng amt asr cst (fst ct) (snd ct) virt (mkRng start (zpos (tk_pos (cur ps))))), ps).

Lemma pp_tail_c st acct arng virt start : commutes (pp_tail st acct arng virt start).
Proof.
  intros e ps. unfold pp_tail.
  rewrite st_amount_c. destruct (st_amount ps) as [amt p1]. cbn [fst snd].
  rewrite st_cost_c. destruct (st_cost p1) as [cst p2]. cbn [fst snd].
  rewrite st_assert_c. destruct (st_assert p2) as [asr p3]. cbn [fst snd].
  rewrite st_comment_c. destruct (st_comment p3) as [ct p4]. cbn [fst snd].
  rewrite cur_rebase. reflexivity.
Qed.

Definition pp_acct (st : status) (virt : vkind) (closing : option ttype) (start : pos) (ps : pstate) : option posting * pstate :=
  if negb (is_ty (ctype ps) TAccount) then (None, skip_to_next_line (perr ps))
  else pp_tail st (tk_val (cur ps)) (mkRng (zpos (tk_pos (cur ps))) (zpos (tk_end (cur ps)))) virt start (st_closing closing (adv ps)).

Lemma pp_acct_c st virt closing start : commutes (pp_acct st virt closing start).
Proof.
  intros e ps. unfold pp_acct. rewrite ctype_rebase, cur_rebase. destruct (negb _).
  - rewrite perr_rebase, skip_to_next_line_rebase. reflexivity.
  - rewrite adv_rebase, st_closing_c. apply pp_tail_c.
Qed.

Definition pp_virt (st : status) (start : pos) (ps : pstate) : option posting * pstate :=
  if is_ty (ctype ps) TLBracket then pp_acct st VBalanced (Some TRBracket) start (adv ps)
  else if is_ty (ctype ps) TLParen then pp_acct st VUnbalanced (Some TRParen) start (adv ps)
  else pp_acct st VNone None start ps.

Lemma pp_virt_c st start : commutes (pp_virt st start).
Proof.
  intros e ps. unfold pp_virt. rewrite !ctype_rebase, !adv_rebase.
  destruct (is_ty _ TLBracket); [apply pp_acct_c|]. destruct (is_ty _ TLParen); apply pp_acct_c.
Qed.

Definition pp_body (ps : pstate) : option posting * pstate :=
  let start := zpos (tk_pos (cur ps)) in
  let '(st, ps) := if is_ty (ctype ps) TStatus then parse_status ps else (StNone, ps) in
  pp_virt st start ps.

Lemma pp_body_c : commutes pp_body.
Proof.
  intros e ps. unfold pp_body. rewrite ctype_rebase, cur_rebase. destruct (is_ty _ TStatus).
  - rewrite parse_status_c. destruct (parse_status ps) as [st p1]. cbn [fst snd]. apply pp_virt_c.
  - apply pp_virt_c.
Qed.

Lemma parse_posting_staged ps : parse_posting ps =
  if negb (is_ty (ctype ps) TIndent) then (None, ps)
  else let ps := adv ps in
       if is_ty (ctype ps) TComment then (None, snd (parse_comment ps))
       else if is_ty (ctype ps) TNewline || is_ty (ctype ps) TEOF then (None, ps)
       else pp_body ps.
Proof.
  unfold parse_posting, pp_body, pp_virt, pp_acct, pp_tail, st_amount, st_cost, st_assert, st_comment, st_closing.
  destruct (negb _); [reflexivity|]. cbv zeta.
  destruct (is_ty (ctype (adv ps)) TComment); [reflexivity|].
  destruct (_ || _); [reflexivity|].
  destruct (is_ty (ctype (adv ps)) TStatus).
  - destruct (parse_status (adv ps)) as [st p1].
    destruct (is_ty (ctype p1) TLBracket); [|destruct (is_ty (ctype p1) TLParen)];
      (destruct (negb (is_ty _ TAccount)); [reflexivity|]);
      repeat match goal with |- context [let '(_, _) := (if ?c then _ else _) in _] => destruct c end;
      repeat match goal with |- context [let '(_, _) := ?x in _] => destruct x end; reflexivity.
  - destruct (is_ty (ctype (adv ps)) TLBracket); [|destruct (is_ty (ctype (adv ps)) TLParen)];
      (destruct (negb (is_ty _ TAccount)); [reflexivity|]);
      repeat match goal with |- context [let '(_, _) := (if ?c then _ else _) in _] => destruct c end;
      repeat match goal with |- context [let '(_, _) := ?x in _] => destruct x end; reflexivity.
Qed.

Lemma parse_posting_c : commutes parse_posting.
Proof.
  intros e ps. rewrite !parse_posting_staged. rewrite ctype_rebase. destruct (negb _); [reflexivity|].
  cbv zeta. rewrite adv_rebase, !ctype_rebase. destruct (is_ty (ctype (adv ps)) TComment).
  - rewrite parse_comment_c. reflexivity.
  - destruct (_ || _); [reflexivity|apply pp_body_c].
Qed.

(* ---- the postings loop ---- *)
Lemma parse_postings_c : forall fuel acc, commutes_opt (fun ps => parse_postings fuel ps acc).
Proof.
  induction fuel as [|fuel IH]; intros acc e ps; [reflexivity|].
  cbn [parse_postings]. rewrite ctype_rebase. destruct (is_ty (ctype ps) TIndent); [|reflexivity].
  rewrite parse_posting_c. destruct (parse_posting ps) as [p p1]. cbn [fst snd].
  rewrite ctype_rebase, adv_rebase.
  destruct (is_ty (ctype p1) TNewline); apply IH.
Qed.

(* ---- a transaction, in stages ---- *)
Definition tx_date2 (ps : pstate) : option date * pstate :=
  if is_ty (ctype ps) TEquals then parse_date (adv ps) else (None, ps).
Definition tx_status (ps : pstate) : status * pstate :=
  if is_ty (ctype ps) TStatus then parse_status ps else (StNone, ps).
Definition tx_code (ps : pstate) : list N * pstate :=
  if is_ty (ctype ps) TCode then (tk_val (cur ps), adv ps) else ([], ps).
Definition tx_desc (ps : pstate) : (list N * list N * list N * rng) * pstate :=
  if is_ty (ctype ps) TText then
    let d0 := tk_val (cur ps) in
    let prng := text_range (tk_pos (cur ps)) d0 in
    let ps := adv ps in
    if is_ty (ctype ps) TPipe then
      let payee := trim_space_u d0 in
      let ps := adv ps in
      let '(note, ps) := if is_ty (ctype ps) TText then (trim_space_u (tk_val (cur ps)), adv ps) else ([], ps) in
      (((match note with [] => payee | _ => payee ++ sep_note ++ note end), payee, note, prng), ps)
    else ((d0, [], [], prng), ps)
  else (([], [], [], rng0), ps).
Definition tx_cmts (ps : pstate) : list comment * pstate :=
  if is_ty (ctype ps) TComment then let '(c, ps) := parse_comment ps in ([c], ps) else ([], ps).
Definition tx_nl (ps : pstate) : pstate := if is_ty (ctype ps) TNewline then adv ps else ps.

Lemma tx_date2_c : commutes tx_date2.
Proof. intros e ps. unfold tx_date2. rewrite ctype_rebase, adv_rebase. destruct (is_ty _ _); [apply parse_date_c|reflexivity]. Qed.
Lemma tx_status_c : commutes tx_status.
Proof. intros e ps. unfold tx_status. rewrite ctype_rebase. destruct (is_ty _ _); [apply parse_status_c|reflexivity]. Qed.
Lemma tx_code_c : commutes tx_code.
Proof. intros e ps. unfold tx_code. rewrite ctype_rebase, cur_rebase, adv_rebase. destruct (is_ty _ _); reflexivity. Qed.
Lemma tx_desc_c : commutes tx_desc.
Proof.
  intros e ps. unfold tx_desc. rewrite ctype_rebase, cur_rebase. destruct (is_ty (ctype ps) TText); [|reflexivity].
  cbv zeta. repeat rewrite ?adv_rebase, ?ctype_rebase, ?cur_rebase. destruct (is_ty (ctype (adv ps)) TPipe); [|reflexivity].
  destruct (is_ty (ctype (adv (adv ps))) TText); reflexivity.
Qed.
Lemma tx_cmts_c : commutes tx_cmts.
Proof.
  intros e ps. unfold tx_cmts. rewrite ctype_rebase. destruct (is_ty _ _); [|reflexivity].
  rewrite parse_comment_c. destruct (parse_comment ps). reflexivity.
Qed.
Lemma tx_nl_c e ps : tx_nl (rebase e ps) = rebase e (tx_nl ps).
Proof. unfold tx_nl. rewrite ctype_rebase, adv_rebase. destruct (is_ty _ _); reflexivity. Qed.

Definition tx_rest (fuel : nat) (start : pos) (d : date) (ps : pstate) : option (option transaction * pstate) :=
  let '(d2, ps) := tx_date2 ps in
  let '(st, ps) := tx_status ps in
  let '(code, ps) := tx_code ps in
  let '(dpn, ps) := tx_desc ps in
  let '(cmts, ps) := tx_cmts ps in
  match parse_postings fuel (tx_nl ps) [] with
  | None => None
  | Some (posts, ps) =>
      Some (Some (mkTx d d2 st code (fst (fst (fst dpn))) (snd (fst (fst dpn))) (snd (fst dpn)) (snd dpn) posts [] cmts (mkRng start (zpos (tk_pos (cur ps))))), ps)
  end.

Lemma tx_rest_c fuel start d : commutes_opt (tx_rest fuel start d).
Proof.
  intros e ps. unfold tx_rest.
  rewrite tx_date2_c. destruct (tx_date2 ps) as [d2 p1]. cbn [fst snd].
  rewrite tx_status_c. destruct (tx_status p1) as [st p2]. cbn [fst snd].
  rewrite tx_code_c. destruct (tx_code p2) as [code p3]. cbn [fst snd].
  rewrite tx_desc_c. destruct (tx_desc p3) as [dpn p4]. cbn [fst snd].
  rewrite tx_cmts_c. destruct (tx_cmts p4) as [cmts p5]. cbn [fst snd].
  rewrite tx_nl_c. rewrite (parse_postings_c fuel [] e (tx_nl p5)).
  destruct (parse_postings fuel (tx_nl p5) []) as [[posts p6]|]; [|reflexivity].
  rewrite cur_rebase. reflexivity.
Qed.

Lemma parse_transaction_staged fuel ps : parse_transaction fuel ps =
  match parse_date ps with
  | (None, p) => Some (None, skip_to_next_line p)
  | (Some d, p) => tx_rest fuel (zpos (tk_pos (cur ps))) d p
  end.
Proof.
  unfold parse_transaction, tx_rest, tx_date2, tx_status, tx_code, tx_desc, tx_cmts, tx_nl.
  destruct (parse_date ps) as [[d|] p]; [|reflexivity]. cbv zeta.
  repeat match goal with
         | |- context [let '(_, _) := (if ?c then _ else _) in _] => destruct c
         | |- context [let '(_, _) := ?x in _] => destruct x
         | |- context [if ?c then _ else _] => destruct c
         end; reflexivity.
Qed.

Lemma parse_transaction_c fuel : commutes_opt (parse_transaction fuel).
Proof.
  intros e ps. rewrite !parse_transaction_staged. rewrite parse_date_c, cur_rebase.
  destruct (parse_date ps) as [[d|] p]; cbn [fst snd].
  - apply tx_rest_c.
  - rewrite skip_to_next_line_rebase. reflexivity.
Qed.

(* ---- directives ---- *)
Lemma parse_subdirs_c : forall fuel m, commutes_opt (fun ps => parse_subdirs fuel ps m).
Proof.
  induction fuel as [|fuel IH]; intros m e ps; [reflexivity|].
  unfold commutes_opt in IH. cbn [parse_subdirs]. break_push; push;
    first [reflexivity | apply IH
          | rewrite IH; match goal with H : parse_subdirs _ _ _ = _ |- _ => rewrite H end; reflexivity].
Qed.

Lemma year_rebase e x y : mkPS (toks (rebase e x)) (perrs (rebase e x)) y = rebase e (mkPS (toks x) (perrs x) y).
Proof. reflexivity. Qed.

Ltac pushd :=
  repeat (rewrite ?adv_rebase, ?perr_rebase, ?perr_at_rebase, ?skip_to_next_line_rebase, ?skip_until_rebase,
                  ?ctype_rebase, ?cur_rebase, ?dyear_rebase, ?toks_rebase, ?year_rebase,
                  ?parse_comment_c, ?parse_date_c, ?parse_status_c, ?parse_amount_c; cbn [fst snd]).
Ltac break_pushd :=
  repeat (pushd; match goal with
                 | |- context [if ?c then _ else _] => destruct c eqn:?
                 | |- context [match ?x with _ => _ end] => destruct x eqn:?
                 end; cbv beta iota).

Ltac fin :=
  repeat match goal with H : ?t = (_, _) |- _ => rewrite H in * end;
  cbn [fst snd] in *; first [reflexivity | congruence].

Lemma parse_include_directive_c sp : commutes (parse_include_directive sp).
Proof. intros e ps. unfold parse_include_directive. break_pushd; pushd; fin. Qed.
Lemma parse_price_directive_c sp : commutes (parse_price_directive sp).
Proof.
  intros e ps. unfold parse_price_directive. rewrite parse_date_c. destruct (parse_date ps) as [[d|] p]; cbn [fst snd].
  - rewrite ctype_rebase. destruct (_ || _).
    + rewrite cur_rebase, adv_rebase, parse_amount_c. destruct (parse_amount (adv p)) as [[a|] p2]; cbn [fst snd];
        rewrite ?cur_rebase, ?skip_to_next_line_rebase; reflexivity.
    + rewrite perr_rebase, skip_to_next_line_rebase. reflexivity.
  - rewrite skip_to_next_line_rebase. reflexivity.
Qed.
Lemma year_rebase2 e x y : mkPS (toks x) (perrs (rebase e x)) y = rebase e (mkPS (toks x) (perrs x) y).
Proof. reflexivity. Qed.
Ltac rw := repeat rewrite ?year_rebase, ?year_rebase2, ?adv_rebase, ?ctype_rebase, ?cur_rebase, ?skip_to_next_line_rebase, ?skip_until_rebase, ?perr_rebase, ?toks_rebase.

Lemma parse_default_directive_c sp : commutes (parse_default_directive sp).
Proof.
  intros e ps. unfold parse_default_directive. rw.
  destruct (is_ty (ctype ps) TCommodity).
  - cbv zeta. rw. destruct (is_ty (ctype (adv ps)) TNumber); rw; reflexivity.
  - destruct (is_ty (ctype ps) TNumber).
    + cbv zeta. rw. destruct (_ || _); rw; reflexivity.
    + rw. reflexivity.
Qed.

Lemma parse_year_directive_c sp : commutes (parse_year_directive sp).
Proof.
  intros e ps. unfold parse_year_directive. rw. destruct (negb _); [rw; reflexivity|].
  destruct (atoi (tk_val (cur ps))) as [y|]; [|rw; reflexivity].
  destruct ((1 <=? y)%Z && (y <=? 9999)%Z); [|rw; reflexivity].
  cbv zeta. rw. reflexivity.
Qed.

Lemma parse_account_directive_c fuel sp : commutes_opt (parse_account_directive fuel sp).
Proof.
  intros e ps. unfold parse_account_directive. rw. destruct (negb _); [rw; reflexivity|].
  cbv zeta. rw.
  destruct (is_ty (ctype (adv ps)) TText); rw;
    (match goal with |- context [is_ty (ctype ?x) TComment] => destruct (is_ty (ctype x) TComment) end; rw;
     rewrite (parse_subdirs_c fuel [] e);
     match goal with |- context [parse_subdirs fuel ?x []] => destruct (parse_subdirs fuel x []) as [[sub p]|] end; rw; reflexivity).
Qed.

Lemma parse_commodity_directive_c fuel sp : commutes_opt (parse_commodity_directive fuel sp).
Proof.
  intros e ps. unfold parse_commodity_directive. rw.
  destruct (is_ty (ctype ps) TCommodity); [|destruct (is_ty (ctype ps) TNumber); [|destruct (is_ty (ctype ps) TText)]];
    cbv zeta; rw;
    try match goal with |- context [if is_ty (ctype ?x) TNumber then _ else _] => destruct (is_ty (ctype x) TNumber) end;
    try match goal with |- context [if ?a || ?b then _ else _] => destruct (a || b) end;
    rw;
    (match goal with |- context [is_ty (ctype ?x) TComment] => destruct (is_ty (ctype x) TComment) end; rw;
     rewrite (parse_subdirs_c fuel [] e);
     match goal with |- context [parse_subdirs fuel ?x []] => destruct (parse_subdirs fuel x []) as [[sub p]|] end; rw; reflexivity).
Qed.

Lemma parse_directive_c fuel : commutes_opt (parse_directive fuel).
Proof.
  intros e ps. unfold parse_directive. rw.
  destruct (beq _ (bs "account")); [apply parse_account_directive_c|].
  destruct (beq _ (bs "commodity")); [apply parse_commodity_directive_c|].
  destruct (beq _ (bs "include")); [rewrite parse_include_directive_c; destruct (parse_include_directive _ _); reflexivity|].
  destruct (beq _ (bs "P")); [rewrite parse_price_directive_c; destruct (parse_price_directive _ _); reflexivity|].
  destruct (_ || _); [rewrite parse_year_directive_c; destruct (parse_year_directive _ _); reflexivity|].
  destruct (beq _ (bs "D")); [rewrite parse_default_directive_c; destruct (parse_default_directive _ _); reflexivity|].
  rw. reflexivity.
Qed.

(* ---- the journal loop ---- *)
Theorem parse_journal_c : forall fuel j, commutes_opt (fun ps => parse_journal fuel ps j).
Proof.
  induction fuel as [|fuel IH]; intros j e ps; [reflexivity|]. unfold commutes_opt in IH.
  cbn [parse_journal]. rw.
  destruct (is_ty (ctype ps) TEOF); [reflexivity|].
  destruct (is_ty (ctype ps) TNewline); [apply IH|].
  destruct (is_ty (ctype ps) TComment).
  { rewrite parse_comment_c. destruct (parse_comment ps) as [c p]. cbn [fst snd]. apply IH. }
  destruct (is_ty (ctype ps) TDate).
  { rewrite parse_transaction_c. destruct (parse_transaction fuel ps) as [[[tx|] p]|]; [apply IH|apply IH|reflexivity]. }
  destruct (is_ty (ctype ps) TDirective).
  { rewrite parse_directive_c. destruct (parse_directive fuel ps) as [[[d|] p]|]; [|apply IH|reflexivity].
    destruct d; apply IH. }
  apply IH.
Qed.

(* the journal loop only appends to the journal it is given *)
Definition japp (a b : journal) : journal :=
  mkJournal (j_txs a ++ j_txs b) (j_dirs a ++ j_dirs b) (j_comments a ++ j_comments b) (j_includes a ++ j_includes b).
Definition jempty : journal := mkJournal [] [] [] [].

Lemma japp_empty j : japp j jempty = j.
Proof. destruct j. unfold japp, jempty. cbn. rewrite !app_nil_r. reflexivity. Qed.

Theorem parse_journal_appends : forall fuel ps j0 j,
  parse_journal fuel ps (japp j0 j) =
  match parse_journal fuel ps j with Some (j', p) => Some (japp j0 j', p) | None => None end.
Proof.
  induction fuel as [|fuel IH]; intros ps j0 j; [reflexivity|].
  cbn [parse_journal].
  destruct (is_ty (ctype ps) TEOF); [reflexivity|].
  destruct (is_ty (ctype ps) TNewline); [apply IH|].
  destruct (is_ty (ctype ps) TComment).
  { destruct (parse_comment ps) as [c p]. rewrite <- IH. f_equal. unfold japp. cbn [j_txs j_dirs j_comments j_includes]. rewrite app_assoc. reflexivity. }
  destruct (is_ty (ctype ps) TDate).
  { destruct (parse_transaction fuel ps) as [[[tx|] p]|]; [|apply IH|reflexivity].
    rewrite <- IH. f_equal. unfold japp. cbn [j_txs j_dirs j_comments j_includes]. rewrite app_assoc. reflexivity. }
  destruct (is_ty (ctype ps) TDirective).
  { destruct (parse_directive fuel ps) as [[[d|] p]|]; [|apply IH|reflexivity].
    destruct d; rewrite <- IH; f_equal; unfold japp; cbn [j_txs j_dirs j_comments j_includes]; rewrite app_assoc; reflexivity. }
  apply IH.
Qed.

(* C07, the parser's part: from any point of the token stream on, what the parser builds (trees AND
   the diagnostics it adds) does not depend on the diagnostics recorded before, nor on the entries
   recognised before: it is what a fresh run on the remaining tokens (same default year) builds. *)
Theorem rest_of_file_is_independent fuel toks0 errs0 year j0 :
  parse_journal fuel (mkPS toks0 errs0 year) j0 =
  match parse_journal fuel (mkPS toks0 [] year) jempty with
  | Some (j', p) => Some (japp j0 j', mkPS (toks p) (perrs p ++ errs0) (dyear p))
  | None => None
  end.
Proof.
  change (mkPS toks0 errs0 year) with (rebase errs0 (mkPS toks0 [] year)).
  rewrite (parse_journal_c fuel j0 errs0 (mkPS toks0 [] year)).
  rewrite <- (japp_empty j0) at 1. rewrite parse_journal_appends.
  destruct (parse_journal fuel (mkPS toks0 [] year) jempty) as [[j' p]|]; reflexivity.
Qed.
