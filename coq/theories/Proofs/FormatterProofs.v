(* Proofs about the formatter model (Model/Formatter.v) and the reference applier
   (Spec/FormatSpec.v): shape of every edit, well-formedness, the frame of non-posting lines
   under the applier, the common amount column, and exactness of the widened display format. *)
From HL Require Import Lib.Bytes Lib.Utf8 Model.Ast Lib.Dec Model.Lexer Model.Parser Model.NumberFormat Model.Formatter Spec.FormatSpec Spec.FormatRun Proofs.Utf8Facts.
Open Scope Z_scope.

(* ---- trim_right ---- *)
Definition blank (c : N) : Prop := c = 32%N \/ c = 9%N.
Lemma blank_ascii bl : Forall blank bl -> all_ascii bl.
Proof. intro H. eapply Forall_impl; [|exact H]. intros c [E|E]; subst; lia. Qed.

Lemma drop_blank_split l : exists bl, l = bl ++ drop_blank l /\ Forall blank bl.
Proof.
  induction l as [|c r IH]; [exists []; split; [reflexivity|constructor]|].
  cbn [drop_blank]. destruct ((c =? 32) || (c =? 9))%N eqn:E.
  - destruct IH as (bl & E1 & F). exists (c :: bl). split; [cbn [app]; congruence|].
    constructor; [|exact F]. apply orb_true_iff in E as [E|E]; apply N.eqb_eq in E; [left|right]; exact E.
  - exists []. split; [reflexivity|constructor].
Qed.

Lemma trim_right_split s : exists bl, s = trim_right s ++ bl /\ Forall blank bl.
Proof.
  unfold trim_right. destruct (drop_blank_split (rev s)) as (bl & E & F).
  exists (rev bl). split.
  - pose proof (f_equal (@rev N) E) as E'. rewrite rev_involutive, rev_app_distr in E'. exact E'.
  - apply Forall_rev. exact F.
Qed.

Lemma u16_trim_le s : u16 (trim_right s) <= u16 s.
Proof.
  destruct (trim_right_split s) as (bl & E & F). unfold u16. rewrite E at 2.
  rewrite u16_app_ascii by (auto using blank_ascii || lia). lia.
Qed.

(* ---- boolean NoDup on Z ---- *)
Lemma mem_z_In x l : mem_z x l = true <-> In x l.
Proof.
  unfold mem_z. rewrite existsb_exists. split.
  - intros (y & I & E). apply Z.eqb_eq in E. subst. exact I.
  - intro I. exists x. split; [exact I|apply Z.eqb_refl].
Qed.
Lemma nodupb_NoDup l : nodupb l = true -> NoDup l.
Proof.
  induction l as [|x r IH]; intro H; [constructor|].
  cbn [nodupb] in H. apply andb_true_iff in H as [H1 H2]. constructor; [|auto].
  intro I. apply mem_z_In in I. rewrite I in H1. discriminate.
Qed.


(* ---- the shape of every edit ---- *)
Definition shape (lines : list (list N)) (pl : list Z) (e : fedit) : Prop :=
  fe_el e = fe_sl e /\ 0 <= fe_sl e < Z.of_nat (length lines) /\
  ((In (fe_sl e) pl /\ fe_sc e = 0 /\ fe_ec e = line_u16 lines (fe_sl e)) \/
   (~ In (fe_sl e) pl /\ fe_new e = [] /\
    exists s, nth_error lines (Z.to_nat (fe_sl e)) = Some s /\ fe_sc e = u16 (trim_right s) /\ fe_ec e = u16 s /\
              length (trim_right s) <> length s)).

Lemma posting_edits_lines txs lines fm g o :
  map fe_sl (flat_map (fun t => format_tx t lines fm g o) txs) = map posting_line (all_postings txs).
Proof.
  unfold all_postings. induction txs as [|t r IH]; [reflexivity|].
  cbn [flat_map]. rewrite !map_app, IH. f_equal.
  unfold format_tx. rewrite map_map. apply map_ext. reflexivity.
Qed.

Lemma posting_edits_shape txs lines fm g o pl e :
  (forall l, In l (map posting_line (all_postings txs)) -> In l pl /\ 0 <= l < Z.of_nat (length lines)) ->
  In e (flat_map (fun t => format_tx t lines fm g o) txs) -> shape lines pl e.
Proof.
  intros Hpl I. apply in_flat_map in I as (t & It & I). unfold format_tx in I.
  apply in_map_iff in I as (p & E & Ip). subst e. cbn [fe_sl fe_el fe_sc fe_ec fe_new].
  assert (Il : In (posting_line p) (map posting_line (all_postings txs))).
  { apply in_map. unfold all_postings. apply in_flat_map. exists t. split; assumption. }
  destruct (Hpl _ Il) as [I1 I2]. unfold shape. cbn [fe_sl fe_el fe_sc fe_ec fe_new].
  split; [reflexivity|]. split; [exact I2|]. left. auto.
Qed.

(* trim edits: lines from i on, in increasing order *)
Lemma trim_edits_shape : forall rest pre pl e,
  In e (trim_edits rest (Z.of_nat (length pre)) pl) ->
  shape (pre ++ rest) pl e /\ Z.of_nat (length pre) <= fe_sl e /\ ~ In (fe_sl e) pl.
Proof.
  induction rest as [|s r IH]; intros pre pl e I; [destruct I|].
  cbn [trim_edits] in I.
  assert (Hrec : In e (trim_edits r (Z.of_nat (length pre) + 1) pl) ->
                 shape (pre ++ s :: r) pl e /\ Z.of_nat (length pre) <= fe_sl e /\ ~ In (fe_sl e) pl).
  { intro I'. replace (Z.of_nat (length pre) + 1) with (Z.of_nat (length (pre ++ [s]))) in I' by (rewrite app_length; cbn [length]; lia).
    apply IH in I' as (S & L & NI). rewrite <- app_assoc in S. cbn [app] in S. split; [exact S|].
    rewrite app_length in L. cbn [length] in L. split; [lia|exact NI]. }
  destruct (mem_z (Z.of_nat (length pre)) pl) eqn:M; [auto|].
  destruct (length (trim_right s) =? length s)%nat eqn:EL; [auto|].
  destruct I as [E|I]; [|auto]. subst e. unfold shape. cbn [fe_sl fe_el fe_sc fe_ec fe_new].
  assert (NI : ~ In (Z.of_nat (length pre)) pl) by (intro I; apply mem_z_In in I; congruence).
  split; [|split; [lia|exact NI]]. split; [reflexivity|]. split; [rewrite app_length; cbn [length]; lia|].
  right. split; [exact NI|].
  split; [reflexivity|]. exists s. rewrite Nat2Z.id. split.
  { rewrite nth_error_app2 by lia. rewrite Nat.sub_diag. reflexivity. }
  split; [reflexivity|]. split; [reflexivity|]. apply Nat.eqb_neq. exact EL.
Qed.

Lemma trim_edits_sorted : forall rest i pl, 
  Forall (fun l => i <= l) (map fe_sl (trim_edits rest i pl)) /\ NoDup (map fe_sl (trim_edits rest i pl)).
Proof.
  induction rest as [|s r IH]; intros i pl; [split; constructor|].
  cbn [trim_edits]. destruct (IH (i + 1) pl) as [F N].
  assert (F' : Forall (fun l => i <= l) (map fe_sl (trim_edits r (i + 1) pl))).
  { eapply Forall_impl; [|exact F]. cbn. intros; lia. }
  destruct (mem_z i pl); [split; assumption|].
  destruct (length (trim_right s) =? length s)%nat; [split; assumption|].
  cbn [map fe_sl]. split; [constructor; [lia|exact F']|].
  constructor; [|exact N]. intro I. rewrite Forall_forall in F. apply F in I. lia.
Qed.


Lemma NoDup_app_intro {A} (a b : list A) : NoDup a -> NoDup b -> (forall x, In x a -> ~ In x b) -> NoDup (a ++ b).
Proof.
  induction a as [|x a IH]; intros Ha Hb D; [exact Hb|].
  cbn [app]. inversion Ha; subst. constructor.
  - intro I. apply in_app_or in I as [I|I]; [contradiction|]. exact (D x (or_introl eq_refl) I).
  - apply IH; auto. intros y Iy. apply D. right. exact Iy.
Qed.

Lemma post_lines_ok_spec j lines : post_lines_ok j lines = true ->
  NoDup (plines j) /\ forall l, In l (plines j) -> 0 <= l < Z.of_nat (length lines).
Proof.
  unfold post_lines_ok. intro H. apply andb_true_iff in H as [H1 H2]. split; [apply nodupb_NoDup; exact H1|].
  intros l I. rewrite forallb_forall in H2. apply H2 in I. apply andb_true_iff in I as [A B].
  apply Z.leb_le in A. apply Z.ltb_lt in B. lia.
Qed.

Lemma format_document_structure j content fm o :
  post_lines_ok j (split_lf content) = true ->
  Forall (shape (split_lf content) (plines j)) (format_document j content (Some fm) o) /\
  NoDup (map fe_sl (format_document j content (Some fm) o)).
Proof.
  intro H. apply post_lines_ok_spec in H as [ND RG].
  unfold format_document. set (lines := split_lf content). set (o' := norm_opts o).
  set (pe := flat_map _ (j_txs j)). fold (plines j).
  split.
  - apply Forall_forall. intros e I. apply in_app_or in I as [I|I].
    + eapply posting_edits_shape; [|exact I]. intros l Il. split; [exact Il|apply RG; exact Il].
    + apply (trim_edits_shape lines [] (plines j) e) in I as (S & _ & _). exact S.
  - rewrite map_app. unfold pe. rewrite posting_edits_lines. fold (plines j).
    destruct (trim_edits_sorted lines 0 (plines j)) as [F N].
    apply NoDup_app_intro; [exact ND|exact N|].
    intros l Il It. apply in_map_iff in It as (e & E & Ie).
    apply (trim_edits_shape lines [] (plines j) e) in Ie as (_ & _ & NI). subst l. contradiction.
Qed.


Lemma line_u16_nonneg lines l : 0 <= line_u16 lines l.
Proof.
  unfold line_u16. destruct (l <? 0); [lia|]. destruct (nth_error lines (Z.to_nat l)); [apply u16_nonneg|lia].
Qed.

Lemma shape_in_doc lines pl e : shape lines pl e -> edit_in_doc lines e = true.
Proof.
  intros (E1 & R & S). unfold edit_in_doc, pos_le. rewrite E1.
  assert (B1 : (0 <=? fe_sl e) = true) by (apply Z.leb_le; lia).
  assert (B2 : (fe_sl e <? Z.of_nat (length lines)) = true) by (apply Z.ltb_lt; lia).
  rewrite B1, B2, Z.eqb_refl, Z.ltb_irrefl. cbn [orb andb].
  destruct S as [(_ & S1 & S2)|(_ & _ & s & Hn & S1 & S2 & _)].
  - rewrite S1, S2. pose proof (line_u16_nonneg lines (fe_sl e)) as P.
    repeat (apply andb_true_iff; split); try reflexivity; try (apply Z.leb_le; lia).
  - assert (L : line_u16 lines (fe_sl e) = u16 s).
    { unfold line_u16. destruct (fe_sl e <? 0) eqn:E0; [apply Z.ltb_lt in E0; lia|]. rewrite Hn. reflexivity. }
    rewrite L, S1, S2. pose proof (u16_trim_le s) as T. pose proof (u16_nonneg (trim_right s) 0) as P. unfold u16 in *.
    repeat (apply andb_true_iff; split); try reflexivity; try (apply Z.leb_le; lia).
Qed.

Lemma single_lines_disjoint es :
  Forall (fun e => fe_el e = fe_sl e) es -> NoDup (map fe_sl es) -> pairwise disjoint es = true.
Proof.
  induction es as [|a r IH]; intros F N; [reflexivity|].
  cbn [pairwise]. inversion F; subst. cbn [map] in N. inversion N; subst.
  apply andb_true_iff. split; [|auto].
  apply forallb_forall. intros b Ib.
  assert (Hb : fe_el b = fe_sl b) by (rewrite Forall_forall in H2; auto).
  assert (D : fe_sl a <> fe_sl b) by (intro E; apply H3; rewrite E; apply in_map; exact Ib).
  unfold disjoint, pos_le. rewrite H1, Hb.
  destruct (Z.lt_total (fe_sl a) (fe_sl b)) as [L|[L|L]]; [|contradiction|].
  - apply Z.ltb_lt in L. rewrite L. reflexivity.
  - apply Z.ltb_lt in L. rewrite L. rewrite orb_true_r. reflexivity.
Qed.

Theorem format_document_wf j content fm o :
  post_lines_ok j (split_lf content) = true ->
  edits_wf (split_lf content) (format_document j content (Some fm) o) = true.
Proof.
  intro H. destruct (format_document_structure j content fm o H) as [F N].
  unfold edits_wf. apply andb_true_iff. split.
  - apply forallb_forall. intros e I. rewrite Forall_forall in F. eapply shape_in_doc. apply F. exact I.
  - apply single_lines_disjoint; [|exact N]. eapply Forall_impl; [|exact F]. intros e (E & _). exact E.
Qed.

Lemma pairwise_filter {A} (r : A -> A -> bool) (f : A -> bool) l : pairwise r l = true -> pairwise r (filter f l) = true.
Proof.
  induction l as [|x l IH]; intro H; [reflexivity|].
  cbn [pairwise] in H. apply andb_true_iff in H as [H1 H2]. cbn [filter].
  destruct (f x); [|auto]. cbn [pairwise]. apply andb_true_iff. split; [|auto].
  apply forallb_forall. intros y Iy. apply filter_In in Iy as [Iy _]. rewrite forallb_forall in H1. auto.
Qed.

Lemma edits_wf_filter f lines es : edits_wf lines es = true -> edits_wf lines (filter f es) = true.
Proof.
  unfold edits_wf. intro H. apply andb_true_iff in H as [H1 H2]. apply andb_true_iff. split.
  - apply forallb_forall. intros e I. apply filter_In in I as [I _]. rewrite forallb_forall in H1. auto.
  - apply pairwise_filter. exact H2.
Qed.

Theorem server_format_wf j errs content fm o :
  post_lines_ok j (split_lf content) = true ->
  edits_wf (split_lf content) (server_format j errs content (Some fm) o) = true.
Proof.
  intro H. unfold server_format. destruct errs; [apply format_document_wf; exact H|].
  apply edits_wf_filter. apply format_document_wf. exact H.
Qed.


Lemma filter_line es i : NoDup (map fe_sl es) ->
  filter (fun e => fe_sl e =? i) es = [] \/ exists e, In e es /\ fe_sl e = i /\ filter (fun e => fe_sl e =? i) es = [e].
Proof.
  induction es as [|a r IH]; intro N; [left; reflexivity|].
  cbn [map] in N. inversion N; subst. cbn [filter]. destruct (fe_sl a =? i) eqn:E.
  - apply Z.eqb_eq in E. right. exists a. split; [left; reflexivity|]. split; [exact E|].
    f_equal. destruct (IH H2) as [F|(e & Ie & Ee & _)]; [exact F|].
    exfalso. apply H1. rewrite E, <- Ee. apply in_map. exact Ie.
  - destruct (IH H2) as [F|(e & Ie & Ee & F)]; [left; exact F|].
    right. exists e. split; [right; exact Ie|]. split; assumption.
Qed.

Lemma line_body_spec s : let '(body, eol) := line_body s in s = body ++ eol /\ (eol = [] \/ eol = [13%N]).
Proof.
  unfold line_body. destruct (rev s) as [|c r] eqn:E.
  - split; [rewrite app_nil_r; reflexivity|left; reflexivity].
  - destruct (c =? 13)%N eqn:C.
    + apply N.eqb_eq in C. subst c. split; [|right; reflexivity].
      pose proof (f_equal (@rev N) E) as E'. rewrite rev_involutive in E'. cbn [rev] in E'. exact E'.
    + split; [rewrite app_nil_r; reflexivity|left; reflexivity].
Qed.

Lemma line_body_blank_end t bl : bl <> [] -> Forall blank bl -> line_body (t ++ bl) = (t ++ bl, []).
Proof.
  intros NE F. unfold line_body. rewrite rev_app_distr.
  destruct (rev bl) as [|c r] eqn:E.
  - exfalso. apply NE. pose proof (f_equal (@rev N) E) as E'. rewrite rev_involutive in E'. exact E'.
  - cbn [app]. assert (B : blank c).
    { rewrite Forall_forall in F. apply F. apply in_rev. rewrite E. left. reflexivity. }
    destruct B as [B|B]; subst c; reflexivity.
Qed.

Lemma firstn_app_exact {A} (a b : list A) : firstn (length a) (a ++ b) = a.
Proof. rewrite firstn_app, Nat.sub_diag, firstn_all. cbn [firstn]. apply app_nil_r. Qed.

(* a trim edit removes exactly the trailing blanks *)
Lemma apply_trim_edit s e :
  fe_new e = [] -> fe_sc e = u16 (trim_right s) -> fe_ec e = u16 s -> length (trim_right s) <> length s ->
  apply_line s [e] = Some (trim_right s).
Proof.
  intros Hn Hs He Hl. destruct (trim_right_split s) as (bl & E & F).
  assert (NE : bl <> []). { intro Z. subst bl. rewrite app_nil_r in E. rewrite <- E in Hl. contradiction. }
  set (t := trim_right s) in *.
  unfold apply_line. rewrite E at 1. rewrite line_body_blank_end by assumption. rewrite <- E.
  cbn [map]. unfold resolve. rewrite Hs, He.
  assert (C1 : col_off s 0 (u16 t) = Some (length t)).
  { rewrite E at 1. unfold u16. apply col_off_prefix; [apply blank_ascii; exact F|lia]. }
  assert (C2 : col_off s 0 (u16 s) = Some (length s)).
  { apply col_off_end; [lia|unfold u16; lia]. }
  rewrite C1, C2.
  assert (LE : (length t <=? length s)%nat = true).
  { apply Nat.leb_le. rewrite E at 1. rewrite app_length. lia. }
  rewrite LE. cbn [all_some]. rewrite Hn. cbn [sort_by_start fold_right insert_by_start splice Nat.leb].
  rewrite !Nat.sub_0_r. rewrite skipn_all. cbn [app]. rewrite !app_nil_r.
  f_equal. rewrite E at 1. apply firstn_app_exact.
Qed.

(* a whole-line edit always applies *)
Lemma apply_posting_edit lines s e :
  nth_error lines (Z.to_nat (fe_sl e)) = Some s -> 0 <= fe_sl e ->
  fe_sc e = 0 -> fe_ec e = line_u16 lines (fe_sl e) -> exists s', apply_line s [e] = Some s'.
Proof.
  intros Hn H0 Hs He.
  assert (L : line_u16 lines (fe_sl e) = u16 s).
  { unfold line_u16. destruct (fe_sl e <? 0) eqn:E0; [apply Z.ltb_lt in E0; lia|]. rewrite Hn. reflexivity. }
  unfold apply_line. pose proof (line_body_spec s) as B. destruct (line_body s) as [body eol]. destruct B as [E Q].
  cbn [map]. unfold resolve. rewrite Hs, He, L, col_off_zero.
  assert (C : col_off body 0 (u16 s) = Some (length body)).
  { apply col_off_end; [lia|]. rewrite E. unfold u16. destruct Q as [Q|Q]; subst eol.
    - rewrite app_nil_r. lia.
    - rewrite u16_app_ascii; [cbn [length]; lia| |lia]. constructor; [lia|constructor]. }
  rewrite C. cbn [Nat.leb all_some sort_by_start fold_right insert_by_start splice].
  eexists. reflexivity.
Qed.


Lemma is_prefix_app a b : is_prefix a (a ++ b) = true.
Proof. induction a as [|x a IH]; [reflexivity|]. cbn [app is_prefix]. rewrite N.eqb_refl. exact IH. Qed.

Lemma skipn_app_exact {A} (a b : list A) : skipn (length a) (a ++ b) = b.
Proof. induction a; [reflexivity|]. cbn [length app skipn]. assumption. Qed.

Lemma only_blanks_spec bl : Forall blank bl -> only_blanks bl = true.
Proof.
  intro F. unfold only_blanks. apply forallb_forall. intros c I. rewrite Forall_forall in F.
  destruct (F c I) as [E|E]; subst c; reflexivity.
Qed.

Lemma lost_blanks_refl s : lost_blanks_only s s = true.
Proof.
  unfold lost_blanks_only. rewrite <- (app_nil_r s) at 2. rewrite is_prefix_app. rewrite skipn_all. reflexivity.
Qed.

Lemma lost_blanks_trim s : lost_blanks_only s (trim_right s) = true.
Proof.
  destruct (trim_right_split s) as (bl & E & F). unfold lost_blanks_only.
  set (t := trim_right s) in *. rewrite E. rewrite is_prefix_app, skipn_app_exact. apply only_blanks_spec. exact F.
Qed.

Lemma apply_lines_frame : forall rest pre es pl,
  Forall (shape (pre ++ rest) pl) es -> NoDup (map fe_sl es) ->
  exists out, apply_lines rest (Z.of_nat (length pre)) es = Some out /\
              frame_ok rest out (Z.of_nat (length pre)) pl = true.
Proof.
  induction rest as [|s r IH]; intros pre es pl F N; [exists []; split; reflexivity|].
  assert (IH' : exists out, apply_lines r (Z.of_nat (length pre) + 1) es = Some out /\
                            frame_ok r out (Z.of_nat (length pre) + 1) pl = true).
  { replace (Z.of_nat (length pre) + 1) with (Z.of_nat (length (pre ++ [s]))) by (rewrite app_length; cbn [length]; lia).
    apply IH; [|exact N]. rewrite <- app_assoc. exact F. }
  destruct IH' as (out & A & Fr).
  assert (Hs : nth_error (pre ++ s :: r) (length pre) = Some s).
  { rewrite nth_error_app2 by lia. rewrite Nat.sub_diag. reflexivity. }
  cbn [apply_lines frame_ok]. rewrite A.
  destruct (filter_line es (Z.of_nat (length pre)) N) as [Fl|(e & Ie & Ee & Fl)]; rewrite Fl.
  - exists (s :: out). cbn [apply_line]. split; [reflexivity|].
    rewrite lost_blanks_refl, orb_true_r, Fr. reflexivity.
  - rewrite Forall_forall in F. destruct (F e Ie) as (E1 & R & S).
    rewrite Ee in *. rewrite Nat2Z.id in *.
    destruct S as [(Ip & S1 & S2)|(_ & Sn & s0 & Hn & S1 & S2 & Sl)].
    + assert (Hn : nth_error (pre ++ s :: r) (Z.to_nat (fe_sl e)) = Some s) by (rewrite Ee, Nat2Z.id; exact Hs).
      destruct (apply_posting_edit (pre ++ s :: r) s e Hn) as (s' & As); [lia|exact S1|rewrite Ee; exact S2|].
      rewrite As. exists (s' :: out). split; [reflexivity|].
      apply mem_z_In in Ip. rewrite Ip. cbn [orb andb]. exact Fr.
    + rewrite Hs in Hn. inversion Hn; subst s0.
      rewrite (apply_trim_edit s e Sn S1 S2 Sl). exists (trim_right s :: out). split; [reflexivity|].
      rewrite lost_blanks_trim, orb_true_r, Fr. reflexivity.
Qed.

Lemma NoDup_map_filter {A B} (f : A -> B) (g : A -> bool) l : NoDup (map f l) -> NoDup (map f (filter g l)).
Proof.
  induction l as [|x l IH]; intro N; [constructor|].
  cbn [map] in N. inversion N; subst. cbn [filter]. destruct (g x); [|auto].
  cbn [map]. constructor; [|auto]. intro I. apply H1. apply in_map_iff in I as (y & E & Iy).
  apply filter_In in Iy as [Iy _]. rewrite <- E. apply in_map. exact Iy.
Qed.

Lemma server_format_structure j errs content fm o :
  post_lines_ok j (split_lf content) = true ->
  Forall (shape (split_lf content) (plines j)) (server_format j errs content (Some fm) o) /\
  NoDup (map fe_sl (server_format j errs content (Some fm) o)).
Proof.
  intro H. destruct (format_document_structure j content fm o H) as [F N].
  unfold server_format. destruct errs; [split; assumption|]. split.
  - apply Forall_forall. intros e I. apply filter_In in I as [I _]. rewrite Forall_forall in F. auto.
  - apply NoDup_map_filter. exact N.
Qed.

(* C04, second clause, for the model: the edits apply, and every line that is not a posting line
   of the syntax tree loses trailing blanks at most *)
Theorem server_format_frame j errs content fm o :
  post_lines_ok j (split_lf content) = true ->
  exists out, apply_edits content (server_format j errs content (Some fm) o) = Some (join_lf out) /\
              frame_ok (split_lf content) out 0 (plines j) = true.
Proof.
  intro H. destruct (server_format_structure j errs content fm o H) as [F N].
  destruct (apply_lines_frame (split_lf content) [] _ (plines j) F N) as (out & A & Fr).
  exists out. split; [|exact Fr]. unfold apply_edits.
  assert (S : forallb (single_line_in (Z.of_nat (length (split_lf content)))) (server_format j errs content (Some fm) o) = true).
  { apply forallb_forall. intros e I. rewrite Forall_forall in F. destruct (F e I) as (E1 & R & _).
    unfold single_line_in. rewrite E1, Z.eqb_refl. cbn [andb].
    apply andb_true_iff. split; [apply Z.leb_le|apply Z.ltb_lt]; lia. }
  rewrite S. cbn [length Z.of_nat] in A. rewrite A. reflexivity.
Qed.


Lemma skipn_app_exact_N (a b : list N) : skipn (length a) (a ++ b) = b.
Proof. induction a; [reflexivity|]. cbn [length app skipn]. assumption. Qed.

Lemma strip_prefix_app p s : strip_prefix p (p ++ s) = Some s.
Proof. induction p as [|x p IH]; [destruct s; reflexivity|]. cbn [app strip_prefix]. rewrite N.eqb_refl. exact IH. Qed.

Lemma count_sp_repeat n c r : c <> 32%N -> count_sp (repeat 32%N n ++ c :: r) = Z.of_nat n.
Proof.
  intro H. induction n as [|n IH].
  - cbn [repeat app count_sp]. destruct (c =? 32)%N eqn:E; [apply N.eqb_eq in E; contradiction|reflexivity].
  - cbn [repeat app count_sp]. change (32 =? 32)%N with true. cbv iota. rewrite IH. lia.
Qed.

Lemma repeat_ascii n : all_ascii (repeat 32%N n).
Proof. induction n; constructor; [lia|assumption]. Qed.

Lemma spaces_len n : 0 <= n -> Z.of_nat (length (spaces n)) = n.
Proof. intro H. unfold spaces. rewrite repeat_length. lia. Qed.

Lemma norm_indent_pos o : 0 < fo_indent (norm_opts o).
Proof. unfold norm_opts. destruct (fo_indent o <=? 0) eqn:E; cbn [fo_indent]; [lia|apply Z.leb_gt in E; lia]. Qed.

Lemma v_open_ascii v : all_ascii (v_open v).
Proof. destruct v; repeat constructor; lia. Qed.
Lemma v_close_ascii v : all_ascii (v_close v).
Proof. destruct v; repeat constructor; lia. Qed.

Definition plain_head (indent : Z) (p : posting) : list N :=
  spaces indent ++ v_open (po_virtual p) ++ po_acct p ++ v_close (po_virtual p).

Lemma plain_head_width indent p : 0 <= indent -> rcount (plain_head indent p) = indent + acct_display_len p.
Proof.
  intro H. unfold plain_head, rcount.
  rewrite rune_count_ascii_app by apply repeat_ascii. rewrite spaces_len by assumption.
  rewrite rune_count_ascii_app by apply v_open_ascii.
  rewrite rune_count_app_ascii by (apply v_close_ascii || lia).
  unfold acct_display_len, rcount. destruct (po_virtual p); cbn [v_open v_close length]; lia.
Qed.

Lemma fold_max_ge (f : posting -> Z) ps : forall m, m <= fold_left (fun m p => Z.max m (f p)) ps m /\
  forall p, In p ps -> f p <= fold_left (fun m p => Z.max m (f p)) ps m.
Proof.
  induction ps as [|q ps IH]; intro m; cbn [fold_left]; [split; [lia|intros p []]|].
  destruct (IH (Z.max m (f q))) as [A B]. split; [lia|].
  intros p [E|I]; [subst; lia|auto].
Qed.

Lemma global_col_bound txs o p : fo_align o = true -> In p (all_postings txs) ->
  fo_indent o + acct_display_len p + 2 <= global_col txs o.
Proof.
  intros Ha I. unfold global_col. rewrite Ha. unfold max_acct_len.
  destruct (fold_max_ge acct_display_len (all_postings txs) 0) as [_ B]. specialize (B p I).
  destruct ((0 <? fo_mincol o) && (fo_indent o + fold_left (fun m p => Z.max m (acct_display_len p)) (all_postings txs) 0 + 2 <? fo_mincol o)) eqn:E; [|lia].
  apply andb_true_iff in E as [_ E]. apply Z.ltb_lt in E. lia.
Qed.

Definition amount_text_ok (a : amount) (fm : fmap) : bool :=
  match write_amount a fm with c :: _ => negb (c =? 32)%N | [] => false end.

Lemma format_posting_split p al fm o a :
  po_amount p = Some a -> po_status p = StNone ->
  exists tail, format_posting p al fm o =
    plain_head (fo_indent o) p ++
    spaces (if fo_align o && (0 <? fst al) then Z.max (fst al - rcount (plain_head (fo_indent o) p)) 2 else 2) ++
    write_amount a fm ++ tail.
Proof.
  intros Ha Hs. unfold format_posting, posting_head. rewrite Ha, Hs. cbn [status_text app]. fold (plain_head (fo_indent o) p).
  destruct (po_cost p), (po_assert p), (nonempty (po_comment p)); rewrite <- ?app_assoc;
    try (eexists; reflexivity); exists []; rewrite ?app_nil_r; reflexivity.
Qed.

(* C05, third sentence, for the model: with alignment on, the amount of every posting without
   status mark starts in the one column global_col, and that column is at least two blanks to the
   right of every account *)
Theorem amount_column txs fm o p a t :
  fo_align o = true -> 0 < fo_indent o ->
  In t txs -> In p (tx_postings t) -> po_amount p = Some a -> po_status p = StNone -> amount_text_ok a fm = true ->
  amount_col (fo_indent o) p (format_posting p (alignment (tx_postings t) fm o (global_col txs o)) fm o)
  = Some (global_col txs o).
Proof.
  intros Hal Hi It Ip Ha Hs Hok.
  assert (Iall : In p (all_postings txs)) by (unfold all_postings; apply in_flat_map; exists t; split; assumption).
  pose proof (global_col_bound txs o p Hal Iall) as G.
  set (g := global_col txs o) in *.
  destruct (format_posting_split p (alignment (tx_postings t) fm o g) fm o a Ha Hs) as (tail & E). rewrite E.
  assert (F : fst (alignment (tx_postings t) fm o g) = g).
  { unfold alignment. rewrite Hal. destruct (has_assert (tx_postings t)); reflexivity. }
  rewrite F, Hal. assert (P : (0 <? g) = true) by (apply Z.ltb_lt; unfold acct_display_len in G; pose proof (rune_count_nonneg (po_acct p) 0); unfold rcount in G; destruct (po_virtual p); lia).
  rewrite P. cbn [andb].
  pose proof (plain_head_width (fo_indent o) p ltac:(lia)) as W.
  unfold amount_col. fold (plain_head (fo_indent o) p). rewrite strip_prefix_app.
  unfold amount_text_ok in Hok. destruct (write_amount a fm) as [|c w] eqn:Ew; [discriminate|].
  assert (C : c <> 32%N). { intro Z. subst c. discriminate Hok. }
  unfold spaces. cbn [app]. rewrite count_sp_repeat by exact C.
  rewrite W. rewrite Z2Nat.id by lia.
  replace (Z.max (g - (fo_indent o + acct_display_len p)) 2) with (g - (fo_indent o + acct_display_len p)) by lia.
  destruct (2 <=? g - (fo_indent o + acct_display_len p)) eqn:E2; [f_equal; lia|apply Z.leb_gt in E2; lia].
Qed.

Definition starts_visible (p : posting) : bool :=
  match status_text (po_status p) ++ v_open (po_virtual p) ++ po_acct p with
  | c :: _ => negb ((c =? 32) || (c =? 9))%N
  | [] => false
  end.

Lemma format_posting_head p al fm o : exists tail, format_posting p al fm o = posting_head p o ++ tail.
Proof.
  unfold format_posting.
  destruct (po_amount p), (po_cost p), (po_assert p), (nonempty (po_comment p)); rewrite <- ?app_assoc;
    try (eexists; reflexivity); exists []; rewrite app_nil_r; reflexivity.
Qed.

Theorem posting_indent p al fm o : 0 <= fo_indent o -> starts_visible p = true ->
  indent_ok (fo_indent o) (format_posting p al fm o) = true.
Proof.
  intros Hi Hv. destruct (format_posting_head p al fm o) as (tail & E). rewrite E.
  unfold starts_visible in Hv.
  set (rest := status_text (po_status p) ++ v_open (po_virtual p) ++ po_acct p) in *.
  assert (Eq : posting_head p o ++ tail = spaces (fo_indent o) ++ rest ++ (v_close (po_virtual p) ++ tail))
    by (unfold posting_head, rest; rewrite <- !app_assoc; reflexivity).
  rewrite Eq. clear Eq.
  destruct rest as [|c r]; [discriminate|]. cbn [app].
  apply negb_true_iff, orb_false_iff in Hv as [H32 H9]. apply N.eqb_neq in H32.
  unfold indent_ok, spaces. rewrite count_sp_repeat by exact H32. rewrite Z2Nat.id by lia. rewrite Z.eqb_refl. cbn [andb].
  rewrite <- (repeat_length 32%N (Z.to_nat (fo_indent o))) at 1. rewrite (skipn_app_exact_N).
  rewrite H9. reflexivity.
Qed.


Lemma quot_round_pos A : 0 <= A -> Z.quot (A * 10 + 5) 10 = A.
Proof.
  intro H. rewrite Z.quot_div_nonneg by lia. rewrite Z.div_add_l by lia. change (5 / 10) with 0. lia.
Qed.

Lemma quot_round_neg A : A < 0 -> Z.quot (A * 10 - 5) 10 = A.
Proof.
  intro H. replace (A * 10 - 5) with (- ((- A) * 10 + 5)) by lia.
  rewrite Z.quot_opp_l by lia. rewrite quot_round_pos by lia. lia.
Qed.

(* rounding to at least as many places as the decimal has changes nothing *)
Lemma dround_exact q places : - dexp q <= places -> deqv (dround q places) q = true.
Proof.
  intro H. unfold dround. destruct (dexp q =? - places) eqn:E.
  - unfold deqv. apply Z.eqb_refl.
  - apply Z.eqb_neq in E. unfold rescale.
    destruct (dexp q =? - places - 1) eqn:E1; [apply Z.eqb_eq in E1; lia|].
    destruct (dexp q <? - places - 1) eqn:E2; [apply Z.ltb_lt in E2; lia|].
    cbn [mant dexp].
    set (k := dexp q - (- places - 1)). assert (K : 2 <= k) by (unfold k; lia).
    assert (PK : 10 ^ k = 10 ^ (k - 1) * 10).
    { replace k with (Z.succ (k - 1)) at 1 by lia. rewrite Z.pow_succ_r by lia. ring. }
    rewrite PK.
    assert (P : 0 < 10 ^ (k - 1)) by (apply Z.pow_pos_nonneg; lia).
    set (A := mant q * 10 ^ (k - 1)).
    replace (mant q * (10 ^ (k - 1) * 10)) with (A * 10) by (unfold A; ring).
    assert (R : Z.quot (if A * 10 <? 0 then A * 10 - 5 else A * 10 + 5) 10 = A).
    { destruct (A * 10 <? 0) eqn:S; [apply Z.ltb_lt in S; apply quot_round_neg; lia|apply Z.ltb_ge in S; apply quot_round_pos; lia]. }
    rewrite R. unfold deqv. cbn [mant dexp]. rewrite Z.min_l by lia.
    rewrite Z.sub_diag. cbn [Z.pow]. apply Z.eqb_eq. unfold A, k.
    replace (dexp q - (- places - 1) - 1) with (dexp q - - places) by lia. ring.
Qed.

(* the decimal FormatNumber prints for an amount under any display format widened by keepPrecision *)
Definition printed (a : amount) (f : nf) : dec :=
  let f' := keep_precision f a in
  if nf_hasdec f' then dround (a_qty a) (nf_places f') else dround (a_qty a) 0.

Theorem format_never_rounds a f : 0 <= nf_places f -> deqv (printed a f) (a_qty a) = true.
Proof.
  intro Hp. unfold printed, keep_precision.
  destruct ((0 <? - dexp (a_qty a)) && (negb (nf_hasdec f) || (nf_places f <? - dexp (a_qty a)))) eqn:E.
  - cbn [nf_hasdec nf_places]. apply dround_exact. lia.
  - destruct (nf_hasdec f) eqn:Hd.
    + apply dround_exact. cbn [negb orb] in E.
      destruct (0 <? - dexp (a_qty a)) eqn:E0; [|apply Z.ltb_ge in E0; lia].
      cbn [andb] in E. apply Z.ltb_ge in E. lia.
    + apply dround_exact. cbn [negb orb] in E. rewrite andb_true_r in E. apply Z.ltb_ge in E. lia.
Qed.


(* ---- error lines ---- *)
Lemma error_lines_untouched j errs content fm o e l c :
  In (l, c) errs -> In e (server_format j errs content fm o) -> fe_sl e <> Z.of_N l - 1.
Proof.
  intros Ie I. unfold server_format in I. destruct errs as [|e0 r]; [destruct Ie|].
  apply filter_In in I as [_ I]. apply negb_true_iff in I. intro E.
  assert (X : existsb (fun er : N * N => fe_sl e =? Z.of_N (fst er) - 1) (e0 :: r) = true).
  { apply existsb_exists. exists (l, c). split; [exact Ie|]. cbn [fst]. apply Z.eqb_eq. exact E. }
  congruence.
Qed.

(* ---- witnesses through the composed model ---- *)
Lemma meaning_refuted : ~ (forall t o t1, fmt_text t o = Some t1 -> same_meaning (jof t) (jof t1) = true).
Proof.
  intro H. destruct (fmt_text w_three_decimals o4) as [t1|] eqn:E; [|vm_compute in E; discriminate].
  specialize (H _ _ _ E). revert H. vm_compute in E. injection E as <-. vm_compute. discriminate.
Qed.

Lemma idempotence_refuted : ~ (forall t o t1, fmt_text t o = Some t1 -> fmt_text t1 o = Some t1).
Proof.
  intro H. destruct (fmt_text w_three_decimals o4) as [t1|] eqn:E; [|vm_compute in E; discriminate].
  specialize (H _ _ _ E). revert H. vm_compute in E. injection E as <-. vm_compute. discriminate.
Qed.

Lemma sample_meaning :
  post_lines_ok (jof w_sample) (split_lf w_sample) = true /\
  match fmt_text w_sample o4 with
  | Some t1 => same_meaning (jof w_sample) (jof t1) = true /\ t1 <> w_sample
  | None => False
  end.
Proof. split; [vm_compute; reflexivity|]. vm_compute. split; [reflexivity|discriminate]. Qed.

Lemma sample_idempotent :
  match fmt_text w_sample o4 with
  | Some t1 => fmt_text t1 o4 = Some t1 /\ t1 <> w_sample /\
               edits_wf (split_lf w_sample) (match parse w_sample with Some (j, errs) => server_format j errs w_sample None o4 | None => [] end) = true
  | None => False
  end.
Proof. vm_compute. split; [reflexivity|]. split; [discriminate|reflexivity]. Qed.
