(* Document order of the token stream: for every byte string the tokens start at non-decreasing
   (line, column) places, each token starts where the previous one ended or later, and byte offsets
   never decrease.  From the per-token tracking lemma (tt_next) of LexerColumns. *)
From HL Require Import Lib.Bytes Lib.Utf8 Model.Lexer Proofs.LexerColumns.
From Coq Require Import ZifyN ZifyNat ZifyBool.
Open Scope N_scope.

(* p is not behind q in the text *)
Definition pos_le (p q : tpos) : Prop :=
  tp_off p <= tp_off q /\ tp_line p <= tp_line q /\ (tp_line q = tp_line p -> tp_col p <= tp_col q).

Lemma pos_le_refl p : pos_le p p.
Proof. unfold pos_le. lia. Qed.

Lemma pos_le_trans p q r : pos_le p q -> pos_le q r -> pos_le p r.
Proof.
  unfold pos_le. intros (A1 & A2 & A3) (B1 & B2 & B3). split; [lia|]. split; [lia|].
  intro E. assert (tp_line q = tp_line p) by lia. assert (tp_line r = tp_line q) by lia.
  specialize (A3 H). specialize (B3 H0). lia.
Qed.

Lemma tracks_pos_le s s' : tracks s s' -> pos_le (position s) (position s').
Proof. intro T. apply tracks_mono in T. unfold pos_le, position. cbn [tp_off tp_line tp_col]. exact T. Qed.

(* every token of the stream starts at or behind `from`, and the tokens follow one another *)
Fixpoint chain (from : tpos) (l : list token) : Prop :=
  match l with
  | [] => True
  | t :: r => pos_le from (tk_pos t) /\ pos_le (tk_pos t) (tk_end t) /\ chain (tk_end t) r
  end.

Lemma lex_all_chain : forall fuel s toks, lex_all fuel s = Some toks -> chain (position s) toks.
Proof.
  induction fuel as [|fuel IH]; intros s toks H; [discriminate|]. cbn [lex_all] in H.
  pose proof (tt_next s) as TT. destruct (next s) as [t s'] eqn:En.
  destruct TT as (T & sa & sb & Ta & Tab & Tb & Pa & Pb). cbn [fst snd] in *.
  assert (C1 : pos_le (position s) (tk_pos t)) by (rewrite Pa; apply tracks_pos_le; exact Ta).
  assert (C2 : pos_le (tk_pos t) (tk_end t)) by (rewrite Pa, Pb; apply tracks_pos_le; exact Tab).
  assert (C3 : pos_le (tk_end t) (position s')) by (rewrite Pb; apply tracks_pos_le; exact Tb).
  assert (REC : forall l, lex_all fuel s' = Some l -> chain (tk_end t) l).
  { intros l El. apply IH in El. destruct l as [|t2 r2]; [exact I|]. cbn [chain] in *.
    destruct El as (D1 & D2 & D3). split; [eapply pos_le_trans; eassumption|]. split; assumption. }
  destruct (tk_type t);
    try (destruct (lex_all fuel s') as [l|] eqn:El; [|discriminate]; inversion H; subst;
         cbn [chain]; split; [exact C1|]; split; [exact C2|apply REC; reflexivity]).
  inversion H; subst. cbn [chain]. split; [exact C1|]. split; [exact C2|exact I].
Qed.

(* for every byte string: the token stream is in document order, token after token *)
Theorem lex_document_order text toks : lex text = Some toks -> chain (mkTP 1 1 0) toks.
Proof. unfold lex. intro H. apply lex_all_chain in H. exact H. Qed.
