(* The formatter theorems on the whole pipeline text -> lexer -> parser -> Server.Format: the parser
   returns a journal for every byte string (ParserProofs) whose postings lie on distinct lines inside
   the text (ParserLines), so edit well-formedness and the frame of non-posting lines hold for EVERY
   document, format table and configuration, with no premise left. *)
From HL Require Import Lib.Bytes Lib.Utf8 Model.Ast Model.Lexer Model.Parser Model.NumberFormat Model.Formatter
  Spec.FormatSpec Spec.FormatRun Proofs.ParserProofs Proofs.ParserLines Proofs.FormatterProofs.
Open Scope Z_scope.

Lemma server_format_none j errs content o :
  server_format j errs content None o = server_format j errs content (Some (extract_formats j)) o.
Proof. reflexivity. Qed.

Definition fm_of_opt (j : journal) (fmts : option fmap) : fmap := match fmts with Some m => m | None => extract_formats j end.

Lemma server_format_opt j errs content fmts o :
  server_format j errs content fmts o = server_format j errs content (Some (fm_of_opt j fmts)) o.
Proof. destruct fmts; reflexivity. Qed.

Theorem pipeline_edits_wf input fmts o :
  exists j errs, parse input = Some (j, errs) /\
                 edits_wf (split_lf input) (server_format j errs input fmts o) = true.
Proof.
  destruct (parse input) as [[j errs]|] eqn:E; [|exfalso; exact (parse_total input E)].
  exists j, errs. split; [reflexivity|]. rewrite server_format_opt.
  apply server_format_wf. exact (parse_post_lines_ok input j errs E).
Qed.

Theorem pipeline_frame input fmts o :
  exists j errs out, parse input = Some (j, errs) /\
    apply_edits input (server_format j errs input fmts o) = Some (join_lf out) /\
    frame_ok (split_lf input) out 0 (plines j) = true.
Proof.
  destruct (parse input) as [[j errs]|] eqn:E; [|exfalso; exact (parse_total input E)].
  destruct (server_format_frame j errs input (fm_of_opt j fmts) o (parse_post_lines_ok input j errs E)) as (out & A & F).
  exists j, errs, out. split; [reflexivity|]. rewrite server_format_opt. split; assumption.
Qed.

(* formatting any text with the file's own formats always yields a text *)
Theorem fmt_text_total input o : fmt_text input o <> None.
Proof.
  unfold fmt_text. destruct (pipeline_frame input None o) as (j & errs & out & E & A & _). rewrite E, A. discriminate.
Qed.
