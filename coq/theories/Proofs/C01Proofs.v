(* Proofs for C01: the server's document store equals the reference client buffer. *)
From HL Require Import Lib.Bytes Lib.Utf8 Model.Mapper Model.DocStore Spec.RefClient Tie.C01.
From Coq Require Import ZifyN ZifyNat ZifyBool.
Open Scope N_scope.
Arguments N.add : simpl never.
Arguments N.sub : simpl never.

(* ---------- decode only looks at the bytes of the code point ---------- *)
Lemma decode_ext b0 pre x y :
  length pre = (cp_len b0 - 1)%nat -> decode (b0 :: pre ++ x) = decode (b0 :: pre ++ y).
Proof.
  unfold cp_len, decode. intro Hlen.
  destruct (b0 <? 128) eqn:E1; [reflexivity|].
  destruct (b0 <? 224) eqn:E2.
  - assert (E3 : (224 <=? b0) && (b0 <=? 239) = false) by lia.
    assert (E4 : (240 <=? b0) && (b0 <=? 244) = false) by lia.
    rewrite E3, E4. destruct pre as [|b1 [|]]; cbn in Hlen; try discriminate. reflexivity.
  - assert (E0 : (194 <=? b0) && (b0 <=? 223) = false) by lia. rewrite E0.
    destruct (b0 <? 240) eqn:E3.
    + assert (E4 : (240 <=? b0) && (b0 <=? 244) = false) by lia. rewrite E4.
      destruct pre as [|b1 [|b2 [|]]]; cbn in Hlen; try discriminate. reflexivity.
    + assert (E4 : (224 <=? b0) && (b0 <=? 239) = false) by lia. rewrite E4.
      destruct pre as [|b1 [|b2 [|b3 [|]]]]; cbn in Hlen; try discriminate. reflexivity.
Qed.

Lemma cps_ok_split r k :
  cps_ok r k = true ->
  exists pre post, r = pre ++ post /\ length pre = k /\ Forall (fun x => 128 <= x) pre /\ cps_ok post 0 = true.
Proof.
  revert r. induction k as [|k IH]; intros r H.
  - exists [], r. repeat split; auto.
  - destruct r as [|b r]; cbn [cps_ok] in H; [discriminate|].
    apply andb_true_iff in H as [Hb Hr]. destruct (IH r Hr) as (pre & post & -> & Hl & Hf & Hp).
    exists (b :: pre), post. repeat split; cbn; auto. constructor; [lia|assumption].
Qed.

Lemma line_text_app_hi pre post :
  Forall (fun x => 128 <= x) pre -> line_text (pre ++ post) = pre ++ line_text post.
Proof.
  induction 1 as [|x pre Hx _ IH]; [reflexivity|]. cbn [app line_text].
  unfold LF, CR. destruct (x =? 10) eqn:E; [lia|]. destruct (x =? 13) eqn:E2; [lia|]. cbn [andb]. rewrite IH. reflexivity.
Qed.

Lemma decode_line_text b0 r :
  cps_ok r (cp_len b0 - 1) = true -> decode (b0 :: line_text r) = decode (b0 :: r).
Proof.
  intro H. destruct (cps_ok_split _ _ H) as (pre & post & -> & Hl & Hf & _).
  rewrite (line_text_app_hi _ _ Hf). apply decode_ext. exact Hl.
Qed.

Lemma cp_len_pos b0 : (1 <= cp_len b0)%nat.
Proof. unfold cp_len. destruct (b0 <? 128), (b0 <? 224), (b0 <? 240); lia. Qed.

(* ---------- column walk ---------- *)
Lemma col_agree : forall t skip c count k,
  cps_ok t skip = true ->
  ref_col t skip c = Some k ->
  u16_to_byte (line_text t) skip count (count + c) + N.of_nat skip = k.
Proof.
  induction t as [|b0 r IH]; intros skip c count k Hok Href.
  - cbn [cps_ok] in Hok. cbn [ref_col] in Href. inversion Href; subst.
    destruct skip; [reflexivity|discriminate].
  - destruct skip as [|k'].
    + cbn [cps_ok] in Hok. apply andb_true_iff in Hok as [Hhead Hrest].
      cbn [ref_col] in Href.
      destruct (c =? 0) eqn:Ec.
      * inversion Href; subst. assert (c = 0) by lia. subst c.
        cbn [line_text]. destruct (b0 =? LF); cbn [u16_to_byte]; [reflexivity|].
        destruct ((b0 =? CR) && match r with c' :: _ => c' =? LF | [] => false end); cbn [u16_to_byte]; [reflexivity|].
        assert (E : (count + 0 <=? count) = true) by lia. rewrite E. reflexivity.
      * destruct (b0 =? LF) eqn:Elf.
        { (* at end of an LF line: clamp *)
          assert (Hat : at_eol (b0 :: r) = true) by (cbn [at_eol]; rewrite Elf; reflexivity).
          rewrite Hat in Href. inversion Href; subst. cbn [line_text]. rewrite Elf. reflexivity. }
        destruct ((b0 =? CR) && match r with c' :: _ => c' =? LF | [] => false end) eqn:Ecr.
        { (* at the CR of a CRLF line end: clamp before it, as the line's text ends there *)
          assert (Hat : at_eol (b0 :: r) = true) by (cbn [at_eol]; rewrite Elf, Ecr; reflexivity).
          rewrite Hat in Href. inversion Href; subst. cbn [line_text]. rewrite Elf, Ecr. reflexivity. }
        assert (Hat : at_eol (b0 :: r) = false) by (cbn [at_eol]; rewrite Elf, Ecr; reflexivity).
        rewrite Hat in Href.
        destruct (c <? cp_units (cp_len b0)) eqn:Ew; [discriminate Href|].
        destruct (ref_col r (cp_len b0 - 1) (c - cp_units (cp_len b0))) as [k0|] eqn:Hr0;
          [|discriminate Href].
        unfold option_map in Href. inversion Href; subst k.
        cbn [line_text]. rewrite Elf, Ecr. cbn [u16_to_byte].
        assert (E : (count + c <=? count) = false) by lia. rewrite E.
        rewrite (decode_line_text b0 r Hrest).
        unfold cp_head_ok in Hhead.
        destruct (decode (b0 :: r)) as [rn n] eqn:Hd.
        apply andb_true_iff in Hhead as [Hh Hu]. apply andb_true_iff in Hh as [Hn Hl].
        apply Nat.eqb_eq in Hn. subst n.
        pose proof (cp_len_pos b0) as Hpos.
        specialize (IH (cp_len b0 - 1)%nat (c - cp_units (cp_len b0)) (count + u16len rn) k0 Hrest Hr0).
        replace (count + u16len rn + (c - cp_units (cp_len b0))) with (count + c) in IH by lia.
        lia.
    + cbn [cps_ok] in Hok. apply andb_true_iff in Hok as [Hb Hrest].
      cbn [ref_col] in Href.
      destruct (ref_col r k' c) as [k0|] eqn:Hr0; [|discriminate Href].
      unfold option_map in Href. inversion Href; subst k.
      cbn [line_text]. unfold LF, CR. destruct (b0 =? 10) eqn:E; [lia|]. destruct (b0 =? 13) eqn:E13; [lia|]. cbn [andb].
      cbn [u16_to_byte]. specialize (IH k' c count k0 Hrest Hr0). lia.
Qed.

Lemma ref_col_bound : forall t skip c k, ref_col t skip c = Some k -> k <= blen t.
Proof.
  unfold blen. induction t as [|b0 r IH]; intros skip c k H; cbn [ref_col] in H.
  - inversion H; subst. cbn. lia.
  - cbn [length]. destruct skip as [|k'].
    + destruct (c =? 0); [inversion H; lia|].
      destruct (at_eol (b0 :: r)); [inversion H; lia|].
      destruct (c <? cp_units (cp_len b0)); [discriminate|].
      destruct (ref_col r (cp_len b0 - 1) (c - cp_units (cp_len b0))) as [k0|] eqn:E; [|discriminate].
      unfold option_map in H. inversion H; subst. apply IH in E. lia.
    + destruct (ref_col r k' c) as [k0|] eqn:E; [|discriminate].
      unfold option_map in H. inversion H; subst. apply IH in E. lia.
Qed.

(* ---------- line walk ---------- *)
Lemma skip_lines_len : forall t l rest, skip_lines t l = Some rest -> (length rest <= length t)%nat.
Proof.
  induction t as [|b r IH]; intros l rest H; cbn [skip_lines] in H.
  - destruct (l =? 0); inversion H; subst; lia.
  - destruct (l =? 0); [inversion H; subst; lia|]. apply IH in H. cbn [length]. lia.
Qed.

Lemma skip_lines_zero t : skip_lines t 0 = Some t.
Proof. destruct t; reflexivity. Qed.

Lemma off_agree : forall t skip l c k,
  cps_ok t skip = true -> (l = 0 -> skip = 0%nat) ->
  ref_off t l c = Some k -> lsp_to_byte t l c = k.
Proof.
  induction t as [|b r IH]; intros skip l c k Hok Hsk Href.
  - cbn [ref_off] in Href. unfold lsp_to_byte. cbn [skip_lines].
    destruct (l =? 0) eqn:El.
    + cbn [ref_col] in Href. inversion Href; subst. reflexivity.
    + inversion Href; subst. reflexivity.
  - destruct (l =? 0) eqn:El.
    + assert (l = 0) by lia. subst l. rewrite (Hsk eq_refl) in Hok.
      cbn [ref_off] in Href. cbn [N.eqb] in Href.
      unfold lsp_to_byte. rewrite skip_lines_zero.
      pose proof (col_agree (b :: r) 0 c 0 k Hok Href) as H.
      cbn [N.add] in H. rewrite N.add_0_l in H. lia.
    + cbn [ref_off] in Href. rewrite El in Href.
      set (l' := if b =? LF then l - 1 else l) in *.
      destruct (ref_off r l' c) as [k0|] eqn:Hr; [|discriminate Href].
      unfold option_map in Href. inversion Href; subst k.
      assert (Hsl : skip_lines (b :: r) l = skip_lines r l') by (cbn [skip_lines]; rewrite El; reflexivity).
      assert (Hok' : exists skip', cps_ok r skip' = true /\ (l' = 0 -> skip' = 0%nat)).
      { destruct skip as [|k'].
        - cbn [cps_ok] in Hok. apply andb_true_iff in Hok as [_ Hr'].
          exists (cp_len b - 1)%nat. split; [exact Hr'|]. intro Hl0. subst l'.
          destruct (b =? LF) eqn:Eb; [|lia]. unfold LF in Eb. assert (b = 10) by lia. subst b. reflexivity.
        - cbn [cps_ok] in Hok. apply andb_true_iff in Hok as [Hb Hr'].
          exists k'. split; [exact Hr'|]. intro Hl0. subst l'.
          destruct (b =? LF) eqn:Eb; [|lia]. unfold LF in Eb. lia. }
      destruct Hok' as (skip' & Hok' & Hsk').
      specialize (IH skip' l' c k0 Hok' Hsk' Hr).
      unfold lsp_to_byte in *. rewrite Hsl.
      destruct (skip_lines r l') as [rest|] eqn:Es.
      * apply skip_lines_len in Es. unfold blen in *. cbn [length]. lia.
      * unfold blen in *. cbn [length]. lia.
Qed.

Lemma ref_off_bound : forall t l c k, ref_off t l c = Some k -> k <= blen t.
Proof.
  induction t as [|b r IH]; intros l c k H; cbn [ref_off] in H.
  - destruct (l =? 0); [apply ref_col_bound in H; exact H|inversion H; unfold blen; cbn; lia].
  - destruct (l =? 0); [apply ref_col_bound in H; exact H|].
    destruct (ref_off r (if b =? LF then l - 1 else l) c) as [k0|] eqn:E; [|discriminate].
    unfold option_map in H. inversion H; subst. apply IH in E. unfold blen in *. cbn [length]. lia.
Qed.

(* ---------- one change ---------- *)
Lemma apply_agree t r x a z :
  cps_ok t 0 = true ->
  ref_off t (sl r) (sc r) = Some a -> ref_off t (el r) (ec r) = Some z -> a <= z ->
  apply_change t r x = firstn (N.to_nat a) t ++ x ++ skipn (N.to_nat z) t.
Proof.
  intros Hok Ha Hz Hle. unfold apply_change.
  rewrite (off_agree t 0 _ _ a Hok (fun _ => eq_refl) Ha).
  rewrite (off_agree t 0 _ _ z Hok (fun _ => eq_refl) Hz).
  apply ref_off_bound in Ha. apply ref_off_bound in Hz.
  assert (E1 : (z <? a) = false) by lia. rewrite E1.
  assert (E2 : (blen t <? a) = false) by lia. assert (E3 : (blen t <? z) = false) by lia.
  rewrite E2, E3. reflexivity.
Qed.

Lemma change_agree t c :
  wf_text t = true -> wf_change t c = true ->
  is_zero_insert t c = false ->
  srv_apply t c = ref_apply t c.
Proof.
  intros Hwt Hwc Hz. unfold wf_text in Hwt. apply andb_true_iff in Hwt as [Hok _].
  unfold srv_apply, ref_apply, wire_range, wf_change, is_zero_insert in *.
  destruct (ch_range c) as [r|].
  - apply andb_true_iff in Hwc as [_ Hwc]. apply andb_true_iff in Hwc as [_ Hwc].
    destruct (ref_off t (sl r) (sc r)) as [a|] eqn:Ha; [|discriminate].
    destruct (ref_off t (el r) (ec r)) as [z|] eqn:Hz'; [|discriminate].
    destruct (is_full_change r) eqn:Ef.
    + cbn [andb] in Hz. apply negb_false_iff in Hz. apply beq_eq in Hz. subst t.
      unfold is_full_change in Ef.
      assert (sl r = 0 /\ sc r = 0 /\ el r = 0 /\ ec r = 0) as (E1 & E2 & E3 & E4) by lia.
      rewrite E1, E2 in Ha. rewrite E3, E4 in Hz'. cbn in Ha, Hz'. inversion Ha; inversion Hz'; subst.
      cbn. rewrite app_nil_r. reflexivity.
    + apply (apply_agree t r (ch_text c) a z Hok Ha Hz'). lia.
  - reflexivity.
Qed.

Lemma changes_agree : forall chs t,
  wf_text t = true -> wf_changes t chs = true ->
  any_change is_zero_insert t chs = false ->
  fold_left srv_apply chs t = fold_left ref_apply chs t /\ wf_text (fold_left ref_apply chs t) = true.
Proof.
  induction chs as [|c chs IH]; intros t Hwt Hw Hz; cbn [fold_left].
  - split; [reflexivity|exact Hwt].
  - cbn [wf_changes] in Hw. apply andb_true_iff in Hw as [Hw Hw3]. apply andb_true_iff in Hw as [Hw1 Hw2].
    cbn [any_change] in Hz. apply orb_false_iff in Hz as [Hz1 Hz2].
    rewrite (change_agree t c Hwt Hw1 Hz1). apply IH; assumption.
Qed.

(* ---------- the store ---------- *)
Definition all_wf (d : docs) : Prop := forall u t, dlookup u d = Some t -> wf_text t = true.

Lemma dlookup_dremove u v d : dlookup u (dremove v d) = if u =? v then None else dlookup u d.
Proof.
  induction d as [|[w t] d IH]; cbn [dremove dlookup].
  - destruct (u =? v); reflexivity.
  - destruct (v =? w) eqn:E1.
    + rewrite IH. destruct (u =? v) eqn:E2; [reflexivity|].
      destruct (u =? w) eqn:E3; [lia|reflexivity].
    + cbn [dlookup]. rewrite IH. destruct (u =? w) eqn:E3; [|reflexivity].
      destruct (u =? v) eqn:E2; [lia|reflexivity].
Qed.

Lemma all_wf_remove u d : all_wf d -> all_wf (dremove u d).
Proof.
  intros H v t Hl. rewrite dlookup_dremove in Hl. destruct (v =? u); [discriminate|]. exact (H v t Hl).
Qed.

Lemma all_wf_store u t d : wf_text t = true -> all_wf d -> all_wf (dstore u t d).
Proof.
  intros Ht H v t' Hl. unfold dstore in Hl. cbn [dlookup] in Hl.
  destruct (v =? u); [inversion Hl; subst; exact Ht|]. exact (all_wf_remove u d H v t' Hl).
Qed.

Lemma step_agree d e :
  all_wf d -> wf_event d e = true ->
  any_event is_zero_insert d [e] = false ->
  srv_step d e = ref_step d e /\ all_wf (ref_step d e).
Proof.
  intros Hd Hw Hz. destruct e as [u t|u chs|u]; cbn [srv_step ref_step wf_event any_event] in *.
  - split; [reflexivity|]. apply all_wf_store; assumption.
  - destruct (dlookup u d) as [t|] eqn:El; [|split; [reflexivity|exact Hd]].
    rewrite orb_false_r in Hz.
    destruct (changes_agree chs t (Hd u t El) Hw Hz) as [E Hwf].
    rewrite E. split; [reflexivity|]. apply all_wf_store; assumption.
  - split; [reflexivity|]. apply all_wf_remove; exact Hd.
Qed.

Lemma run_agree : forall h d,
  all_wf d -> wf_from d h = true ->
  any_event is_zero_insert d h = false ->
  fold_left srv_step h d = fold_left ref_step h d.
Proof.
  induction h as [|e h IH]; intros d Hd Hw Hz; cbn [fold_left]; [reflexivity|].
  cbn [wf_from] in Hw. apply andb_true_iff in Hw as [Hw1 Hw2].
  cbn [any_event] in Hz. apply orb_false_iff in Hz as [Hz1 Hz2].
  destruct (step_agree d e Hd Hw1) as [E Hd'].
  - cbn [any_event]. rewrite Hz1. reflexivity.
  - rewrite E. apply IH; assumption.
Qed.

Lemma partial h :
  wf_history h = true -> has_zero_insert h = false ->
  srv_run h = ref_run h.
Proof.
  intros Hw Hz. apply run_agree; try assumption. intros u t H. discriminate H.
Qed.

(* ---------- refutations of the full statement ---------- *)
Definition C01_statement : Prop := forall h, wf_history h = true -> srv_run h = ref_run h.

Definition witness_zero_insert : list event :=
  [ Open 0 (bs "abc" ++ [LF] ++ bs "def");
    Change 0 [mkChange (Some zero_range) (bs "X")] ].

Definition witness_crlf : list event :=
  [ Open 0 (bs "ab" ++ [CR; LF] ++ bs "cd");
    Change 0 [mkChange (Some (mkRange 0 9 0 9)) (bs "X")] ].

Lemma refuted_zero_insert :
  wf_history witness_zero_insert = true /\ srv_run witness_zero_insert <> ref_run witness_zero_insert.
Proof. split; [vm_compute; reflexivity|vm_compute; discriminate]. Qed.

(* the CRLF history that used to fail (the insertion landed between CR and LF) *)
Lemma crlf_past_eol_sample :
  wf_history witness_crlf = true /\ has_zero_insert witness_crlf = false /\
  dlookup 0 (srv_run witness_crlf) = Some (bs "abX" ++ [CR; LF] ++ bs "cd") /\
  srv_run witness_crlf = ref_run witness_crlf.
Proof. repeat split; vm_compute; reflexivity. Qed.

Lemma statement_refuted : ~ C01_statement.
Proof. intro H. destruct refuted_zero_insert as [Hw Hne]. apply Hne. apply H. exact Hw. Qed.

(* the answers of a handler that reads nothing but the stored text are a function of that text:
   in the model every such answer is  f (dlookup u (srv_run h))  by construction; stated for the record *)
Lemma fresh_doc_only (f : option (list N) -> list N) h u :
  wf_history h = true -> has_zero_insert h = false ->
  f (dlookup u (srv_run h)) = f (dlookup u (ref_run h)).
Proof. intros. rewrite partial; auto. Qed.

(* non-vacuity: a history with non-ASCII text, CRLF, a multi-change notification, past-end
   positions, close and re-open that satisfies the hypotheses of [partial] *)
Definition sample_history : list event :=
  [ Open 0 (hx "61f09f9880c3a90d0a62630a");                 (* a😀é CRLF bc LF *)
    Change 0 [ mkChange (Some (mkRange 0 1 0 3)) (bs "Z");   (* replace the emoji *)
               mkChange (Some (mkRange 1 1 5 0)) (hx "d0af0a") ]; (* to past the end, insert Я LF *)
    Open 1 [];
    Change 1 [ mkChange None (bs "x") ];
    Close 0;
    Open 0 (bs "k") ].

Example sample_meets_hypotheses :
  wf_history sample_history = true /\ has_zero_insert sample_history = false /\
  dlookup 0 (srv_run sample_history) = Some (bs "k") /\
  dlookup 1 (srv_run sample_history) = Some (bs "x").
Proof. vm_compute. repeat split; reflexivity. Qed.
