From Coq Require Import QArith Lia.
From HL Require Import Lib.Bytes Model.Ast Lib.Dec Model.Balance Model.Hover Proofs.BalanceProofs.

(* exact sum of the amounts explicitly posted to (account, commodity) *)
Fixpoint qposted (name sym : list N) (ps : list posting) : Q :=
  match ps with
  | [] => 0%Q
  | p :: r =>
      (match po_amount p with
       | Some a => if beq (po_acct p) name && beq sym (c_sym (a_com a)) then dval (a_qty a) else 0%Q
       | None => 0%Q
       end + qposted name sym r)%Q
  end.

Lemma acct_fold name sym ps : forall m,
  lookup_val sym (fold_left (acct_step name) ps m) == (lookup_val sym m + qposted name sym ps)%Q.
Proof.
  induction ps as [|p ps IH]; intro m; cbn [fold_left qposted]; [ring|].
  rewrite IH. unfold acct_step. destruct (po_amount p) as [a|]; [|ring].
  destruct (beq (po_acct p) name); cbn [andb]; [|ring].
  rewrite lookup_bal_add. ring.
Qed.

(* C20_sum: the figure shown for (account, commodity) is the exact rational sum of all amounts
   explicitly posted to that account in the transactions given, whatever their number *)
Theorem hover_sum_exact name sym txs :
  lookup_val sym (acct_balances name txs) == qposted name sym (all_postings txs).
Proof. unfold acct_balances. rewrite acct_fold. unfold lookup_val. cbn. ring. Qed.

(* aggregation over the include tree is additive: a file's transactions contribute exactly
   their own sum, once per occurrence in the transaction list *)
Lemma qposted_app name sym a b : qposted name sym (a ++ b) == (qposted name sym a + qposted name sym b)%Q.
Proof. induction a as [|p a IH]; cbn [app qposted]; [ring|]. rewrite IH. ring. Qed.

Lemma all_postings_app a b : all_postings (a ++ b) = all_postings a ++ all_postings b.
Proof. unfold all_postings. apply flat_map_app. Qed.

Theorem hover_sum_tree name sym primary files :
  lookup_val sym (acct_balances name (all_transactions primary files)) ==
  (qposted name sym (all_postings primary) + qposted name sym (all_postings (List.concat files)))%Q.
Proof.
  rewrite hover_sum_exact. unfold all_transactions. rewrite all_postings_app, qposted_app. reflexivity.
Qed.

Theorem count_postings_app name a b :
  count_postings name (a ++ b) = (count_postings name a + count_postings name b)%nat.
Proof. unfold count_postings. rewrite all_postings_app, filter_app, app_length. reflexivity. Qed.

Theorem count_payee_app payee a b : count_payee payee (a ++ b) = (count_payee payee a + count_payee payee b)%nat.
Proof. unfold count_payee. rewrite filter_app, app_length. reflexivity. Qed.

Theorem count_tag_app name a b : count_tag name (a ++ b) = (count_tag name a + count_tag name b)%nat.
Proof. unfold count_tag, all_tags. rewrite flat_map_app, filter_app, app_length. reflexivity. Qed.
