From HL Require Import Lib.Bytes Model.Publish.
From Coq Require Import ZifyN ZifyNat ZifyBool.
Open Scope N_scope.

Section Proofs.
Variable diag : N -> N.

Lemma plookup_premove u v d : plookup u (premove v d) = if u =? v then None else plookup u d.
Proof.
  induction d as [|[w c] d IH]; cbn [premove plookup].
  - destruct (u =? v); reflexivity.
  - destruct (v =? w) eqn:E1.
    + rewrite IH. destruct (u =? v) eqn:E2; [reflexivity|]. destruct (u =? w) eqn:E3; [lia|reflexivity].
    + cbn [plookup]. rewrite IH. destruct (u =? w) eqn:E3; [|reflexivity].
      destruct (u =? v) eqn:E2; [lia|reflexivity].
Qed.

Lemma last_pub_app u l x d :
  last_pub u (l ++ [(x, d)]) = if u =? x then Some d else last_pub u l.
Proof.
  induction l as [|[w e] l IH]; cbn [app last_pub].
  - destruct (u =? x); reflexivity.
  - rewrite IH. destruct (u =? x); [reflexivity|]. reflexivity.
Qed.

Lemma in_remove_nth {A} (x : A) i l y :
  nth_error l i = Some y -> In x l -> x <> y -> In x (remove_nth i l).
Proof.
  revert i. induction l as [|a l IH]; intros i Hn Hin Hne; [destruct Hin|].
  destruct i as [|j]; cbn [nth_error remove_nth] in *.
  - inversion Hn; subst. destruct Hin as [->|Hin]; [contradiction|exact Hin].
  - destruct Hin as [->|Hin]; [left; reflexivity|right; apply (IH j); assumption].
Qed.

(* the invariant: the current content of every open document is either still waiting to be
   published or is what was published last for it *)
Definition inv (st : pstate) : Prop :=
  forall u c, plookup u (pdocs st) = Some c ->
    In (u, c) (pending st) \/ last_pub u (published st) = Some (diag c).

Lemma inv_init : inv (pinit).
Proof. intros u c H. discriminate H. Qed.

Lemma inv_step st e : inv st -> inv (pstep diag true st e).
Proof.
  intros I u c H. destruct e as [v c'|i|v]; cbn [pstep] in *.
  - cbn [pdocs pending published plookup] in *.
    destruct (u =? v) eqn:E.
    + inversion H; subst. left. apply in_or_app. right. left. f_equal. lia.
    + rewrite plookup_premove, E in H. destruct (I u c H) as [Hp|Hl]; [left; apply in_or_app; left; exact Hp|right; exact Hl].
  - destruct (nth_error (pending st) i) as [[v s]|] eqn:En; [|exact (I u c H)].
    assert (Hwas : plookup u (pdocs st) = Some c).
    { destruct (negb true || is_current st v s); exact H. }
    cbn [negb orb]. unfold is_current.
    destruct (plookup v (pdocs st)) as [cur|] eqn:Ev.
    + destruct (s =? cur) eqn:Es; cbn [pdocs pending published] in *.
      * assert (s = cur) by lia. subst cur. rewrite last_pub_app.
        destruct (u =? v) eqn:E.
        { assert (u = v) by lia. subst v. rewrite Ev in Hwas. inversion Hwas; subst. right. reflexivity. }
        destruct (I u c Hwas) as [Hp|Hl]; [|right; exact Hl].
        left. apply (in_remove_nth _ _ _ _ En Hp). intro X. inversion X; subst. lia.
      * destruct (I u c Hwas) as [Hp|Hl]; [|right; exact Hl].
        left. apply (in_remove_nth _ _ _ _ En Hp). intro X. inversion X; subst.
        rewrite Ev in Hwas. inversion Hwas; subst. lia.
    + cbn [pdocs pending published] in *.
      destruct (I u c Hwas) as [Hp|Hl]; [|right; exact Hl].
      left. apply (in_remove_nth _ _ _ _ En Hp). intro X. inversion X; subst. rewrite Ev in Hwas. discriminate.
  - cbn [pdocs pending published] in *. rewrite plookup_premove in H.
    destruct (u =? v); [discriminate|]. exact (I u c H).
Qed.

Lemma inv_run tr : inv (prun diag true tr).
Proof.
  unfold prun. assert (H : inv pinit) by exact inv_init. revert H. generalize pinit.
  induction tr as [|e tr IH]; intros st H; cbn [fold_left]; [exact H|]. apply IH. apply inv_step. exact H.
Qed.

Lemma guarded_converges tr : quiescent (prun diag true tr) -> converged diag (prun diag true tr).
Proof.
  intros Q u c H. destruct (inv_run tr u c H) as [Hp|Hl]; [|exact Hl].
  unfold quiescent in Q. rewrite Q in Hp. destruct Hp.
Qed.

End Proofs.

(* ---- the unguarded machine (the code before the fix) violates the statement ---- *)
Definition id_diag (c : N) : N := c.
Definition stale_trace : list pevent := [PChange 0 1; PChange 0 2; PComplete 1; PComplete 0].

Lemma unguarded_refuted :
  quiescent (prun id_diag false stale_trace) /\ ~ converged id_diag (prun id_diag false stale_trace).
Proof.
  split; [reflexivity|]. intro H. specialize (H 0 2 eq_refl). vm_compute in H. discriminate H.
Qed.

Lemma guarded_on_stale_trace :
  last_pub 0 (published (prun id_diag true stale_trace)) = Some 2.
Proof. reflexivity. Qed.
