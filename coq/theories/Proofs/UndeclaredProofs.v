From HL Require Import Lib.Bytes Model.Ast Model.Settings Model.Undeclared.
From Coq Require Import ZifyN ZifyBool.
Open Scope N_scope.

Lemma has_prefix_spec p s : has_prefix p s = true <-> exists rest, s = p ++ rest.
Proof.
  revert s. induction p as [|x p IH]; intros s; cbn [has_prefix].
  - split; [intros _; exists s; reflexivity|reflexivity].
  - destruct s as [|y s].
    + split; [discriminate|intros [rest H]; discriminate H].
    + rewrite andb_true_iff, IH. split.
      * intros [E [rest ->]]. exists rest. cbn. f_equal. lia.
      * intros [rest H]. cbn in H. inversion H; subst. split; [lia|exists rest; reflexivity].
Qed.

Lemma mem_bytes_spec x l : mem_bytes x l = true <-> In x l.
Proof.
  unfold mem_bytes. rewrite existsb_exists. split.
  - intros (y & Hin & E). apply beq_eq in E. subst. exact Hin.
  - intro H. exists x. split; [exact H|apply beq_refl].
Qed.

(* the rule, declaratively *)
Definition standard_category (name : list N) : Prop := In (take_until_colon (to_lower name)) predefined.
Definition below_declared (name : list N) (declared : list (list N)) : Prop :=
  exists d rest, In d declared /\ name = d ++ [COLON] ++ rest.

Lemma account_rule name declared :
  is_account_declared name declared = true <->
  standard_category name \/ In name declared \/ below_declared name declared.
Proof.
  unfold is_account_declared, standard_category, below_declared.
  rewrite !orb_true_iff, !mem_bytes_spec, existsb_exists. split.
  - intros [[H|H]|(d & Hin & Hp)]; [left; exact H|right; left; exact H|].
    right; right. apply has_prefix_spec in Hp as [rest ->]. exists d, rest. split; [exact Hin|].
    rewrite <- app_assoc. reflexivity.
  - intros [H|[H|(d & rest & Hin & ->)]]; [left; left; exact H|left; right; exact H|].
    right. exists d. split; [exact Hin|]. apply has_prefix_spec. exists rest. rewrite <- app_assoc. reflexivity.
Qed.

Lemma undeclared_postings_exact tx declared p :
  In p (undeclared_postings tx declared) <->
  In p (tx_postings tx) /\
  ~ (standard_category (po_acct p) \/ In (po_acct p) declared \/ below_declared (po_acct p) declared).
Proof.
  unfold undeclared_postings. rewrite filter_In, negb_true_iff. split; intros [H1 H2]; split; try exact H1.
  - intro H. apply account_rule in H. congruence.
  - destruct (is_account_declared (po_acct p) declared) eqn:E; [|reflexivity].
    exfalso. apply H2. apply account_rule. exact E.
Qed.

(* commodities: each undeclared, non-empty symbol used in the transaction exactly once *)
Lemma warn_symbols_spec syms declared : forall seen s,
  In s (warn_symbols syms declared seen) <->
  In s syms /\ s <> [] /\ ~ In s declared /\ ~ In s seen.
Proof.
  induction syms as [|x r IH]; intros seen s; cbn [warn_symbols].
  - split; [intros []|intros [[] _]].
  - destruct (negb (beq x []) && negb (mem_bytes x declared) && negb (mem_bytes x seen)) eqn:E.
    + apply andb_true_iff in E as [E E3]. apply andb_true_iff in E as [E1 E2].
      apply negb_true_iff in E1, E2, E3.
      assert (Hx1 : x <> []) by (apply beq_neq; exact E1).
      assert (Hx2 : ~ In x declared) by (intro H; apply mem_bytes_spec in H; congruence).
      assert (Hx3 : ~ In x seen) by (intro H; apply mem_bytes_spec in H; congruence).
      cbn [In]. rewrite IH. cbn [In]. split.
      * intros [<-|(H1 & H2 & H3 & H4)]; [auto|]. split; [right; exact H1|]. split; [exact H2|]. split; [exact H3|]. tauto.
      * intros ([<-|H1] & H2 & H3 & H4); [left; reflexivity|].
        destruct (list_eq_dec N.eq_dec x s) as [->|Hne]; [left; reflexivity|].
        right. split; [exact H1|]. split; [exact H2|]. split; [exact H3|]. intros [H|H]; [congruence|tauto].
    + rewrite IH. cbn [In]. split.
      * intros (H1 & H2 & H3 & H4). auto.
      * intros ([<-|H1] & H2 & H3 & H4); [|auto].
        exfalso. apply andb_false_iff in E as [E|E]; [apply andb_false_iff in E as [E|E]|]; apply negb_false_iff in E.
        -- apply beq_eq in E. congruence.
        -- apply mem_bytes_spec in E. tauto.
        -- apply mem_bytes_spec in E. tauto.
Qed.

Lemma warn_symbols_nodup syms declared : forall seen,
  NoDup (warn_symbols syms declared seen) /\ forall s, In s (warn_symbols syms declared seen) -> ~ In s seen.
Proof.
  induction syms as [|x r IH]; intros seen; cbn [warn_symbols]; [split; [constructor|intros s []]|].
  destruct (negb (beq x []) && negb (mem_bytes x declared) && negb (mem_bytes x seen)) eqn:E.
  - destruct (IH (x :: seen)) as [N1 N2]. split.
    + constructor; [|exact N1]. intro H. apply N2 in H. apply H. left. reflexivity.
    + intros s [<-|H].
      * apply andb_true_iff in E as [_ E3]. apply negb_true_iff in E3. intro H. apply mem_bytes_spec in H. congruence.
      * apply N2 in H. intro H'. apply H. right. exact H'.
  - exact (IH seen).
Qed.

Lemma commodities_exact tx declared s :
  In s (undeclared_commodities tx declared) <-> In s (tx_symbols tx) /\ s <> [] /\ ~ In s declared.
Proof.
  unfold undeclared_commodities. rewrite warn_symbols_spec. cbn [In]. tauto.
Qed.

Lemma commodities_once tx declared : NoDup (undeclared_commodities tx declared).
Proof. apply warn_symbols_nodup. Qed.

(* settings: a switch removes exactly its own kind and nothing else *)
Definition is_acc (w : wdiag) : bool := match w with WAccount _ _ => true | _ => false end.

Lemma settings_filter j ea ec s :
  let all := warnings_from 0 (j_txs j) (declared_accounts j ++ ea) (declared_commodities j ++ ec) in
  filter is_acc (analyze_warnings j ea ec s) = (if d_accounts s then filter is_acc all else []) /\
  filter (fun w => negb (is_acc w)) (analyze_warnings j ea ec s) =
    (if d_commodities s then filter (fun w => negb (is_acc w)) all else []).
Proof.
  cbv zeta. unfold analyze_warnings.
  generalize (warnings_from 0 (j_txs j) (declared_accounts j ++ ea) (declared_commodities j ++ ec)).
  intro l. split; induction l as [|[i a|i c] l IH]; cbn [filter is_acc negb];
    destruct (d_accounts s) eqn:Ea, (d_commodities s) eqn:Ec; cbn [filter is_acc negb]; rewrite ?IH; try reflexivity.
Qed.
