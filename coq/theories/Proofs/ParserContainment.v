(* Containment of consumption (C07): what each parsing function consumes stays inside the current
   line (inl), or spans continuation lines only (K: every line break it passes, except possibly the
   last token it takes, is followed by an indent or another line break).  Hence one turn of the
   journal loop never goes past an entry boundary, and the loop gets to stand exactly on the first
   token after every boundary, whatever precedes it. *)
From HL Require Import Lib.Bytes Lib.Utf8 Model.Ast Model.Lexer Model.Parser Proofs.ParserProofs.
Open Scope nat_scope.

Definition isNL (t : token) : bool := is_ty (tk_type t) TNewline.
Definition noNL (c : list token) : bool := forallb (fun t => negb (isNL t)) c.
Definition took (c : list token) (ps' ps : pstate) : Prop := toks ps = c ++ toks ps'.

(* ps' is reached from ps by consuming tokens of the current line only (no line break) *)
Definition inl (ps' ps : pstate) : Prop := exists c, took c ps' ps /\ noNL c = true.

Lemma inl_refl ps : inl ps ps. Proof. exists []. split; reflexivity. Qed.
Lemma inl_trans a b c : inl a b -> inl b c -> inl a c.
Proof.
  intros (c1 & T1 & N1) (c2 & T2 & N2). exists (c2 ++ c1). unfold took in *. split.
  - rewrite T2, T1, app_assoc. reflexivity.
  - unfold noNL in *. rewrite forallb_app, N1, N2. reflexivity.
Qed.
Lemma inl_same ps ps' : toks ps' = toks ps -> inl ps' ps.
Proof. intro E. exists []. split; [unfold took; rewrite E; reflexivity|reflexivity]. Qed.
Lemma perr_at_inl p ps : inl (perr_at p ps) ps. Proof. apply inl_same. reflexivity. Qed.
Lemma perr_inl ps : inl (perr ps) ps. Proof. apply perr_at_inl. Qed.

Lemma is_ty_cong a b c : is_ty a b = true -> is_ty a c = is_ty b c.
Proof. unfold is_ty. intro H. apply N.eqb_eq in H. rewrite H. reflexivity. Qed.

Lemma adv_inl ps T : is_ty (ctype ps) T = true -> is_ty T TNewline = false -> inl (adv ps) ps.
Proof.
  intros H NT. unfold adv. destruct (toks ps) as [|t [|t' r]] eqn:E; try apply inl_refl.
  exists [t]. split; [unfold took; cbn [toks]; rewrite E; reflexivity|].
  unfold noNL, isNL. cbn [forallb]. unfold ctype, cur in H. rewrite E in H.
  rewrite (is_ty_cong _ _ TNewline H). rewrite NT. reflexivity.
Qed.

Lemma skip_until_toks_inl stop : stop TNewline = true -> forall l, exists c, l = c ++ skip_until_toks stop l /\ noNL c = true.
Proof.
  intro SN. induction l as [|t r IH]; [exists []; split; reflexivity|].
  destruct r as [|t' r']; [exists []; split; reflexivity|].
  cbn [skip_until_toks]. destruct (stop (tk_type t)) eqn:St; [exists []; split; reflexivity|].
  destruct IH as (c & E & N). exists (t :: c). split; [cbn [app]; f_equal; exact E|].
  unfold noNL in *. cbn [forallb]. rewrite N, andb_true_r. unfold isNL.
  destruct (is_ty (tk_type t) TNewline) eqn:Tn; [|reflexivity].
  (* a Newline token would have stopped the skipping *)
  assert (tk_type t = TNewline) by (destruct (tk_type t); cbn in Tn; try discriminate; reflexivity). congruence.
Qed.

Lemma skip_until_inl stop ps : stop TNewline = true -> inl (skip_until stop ps) ps.
Proof.
  intro SN. destruct (skip_until_toks_inl stop SN (toks ps)) as (c & E & N). exists c. split; [exact E|exact N].
Qed.

Lemma parse_comment_inl ps : is_ty (ctype ps) TComment = true -> inl (snd (parse_comment ps)) ps.
Proof. intro H. unfold parse_comment. cbn [snd]. apply (adv_inl ps TComment H). reflexivity. Qed.

(* guards: put every hypothesis about the current token into the form  is_ty (ctype x) T = true *)
Ltac norm_guards :=
  repeat match goal with
         | H : negb _ = false |- _ => apply negb_false_iff in H
         | H : negb _ = true |- _ => apply negb_true_iff in H
         | H : (_ || _) = true |- _ => apply orb_true_iff in H; destruct H
         | H : (_ && _) = true |- _ => apply andb_true_iff in H; destruct H
         end.

Ltac ipeel :=
  match goal with
  | H : is_ty (ctype ?x) ?T = true |- inl (adv ?x) _ => eapply inl_trans; [apply (adv_inl x T H); reflexivity|]
  | H : is_ty (ctype ?x) ?T = true |- inl (adv (mkPS (toks ?x) ?e ?d)) _ => eapply inl_trans; [apply (adv_inl (mkPS (toks x) e d) T H); reflexivity|]
  | |- inl (perr ?x) _ => eapply inl_trans; [apply (perr_inl x)|]
  | |- inl (perr_at ?p ?x) _ => eapply inl_trans; [apply (perr_at_inl p x)|]
  | |- inl (skip_until ?s ?x) _ => eapply inl_trans; [apply (skip_until_inl s x); reflexivity|]
  | |- inl (mkPS (toks ?x) ?e ?d) _ => eapply inl_trans; [apply (inl_same x (mkPS (toks x) e d) eq_refl)|]
  | H : inl ?a ?b |- inl ?a _ => eapply inl_trans; [exact H|]
  end.
Ltac inl_tac := lazymatch goal with |- inl ?a ?a => apply inl_refl | _ => ipeel; inl_tac end.

Lemma parse_status_inl ps : inl (snd (parse_status ps)) ps.
Proof. unfold parse_status. break_match; cbn [snd]; norm_guards; inl_tac. Qed.

Lemma parse_date_inl ps : inl (snd (parse_date ps)) ps.
Proof. unfold parse_date. destruct (is_ty (ctype ps) TDate) eqn:Td; cbn [negb]; [|cbn [snd]; inl_tac]. break_match; cbn [snd]; inl_tac. Qed.

Lemma parse_amount_inl ps : inl (snd (parse_amount ps)) ps.
Proof. unfold parse_amount. break_all; cbn [snd]; norm_guards; inl_tac. Qed.

(* a token that may follow a line break inside one entry: an indent (continuation line) or another
   line break (blank line) *)
Definition cont_tok (t : token) : bool := is_ty (tk_type t) TIndent || isNL t.

(* K c: every line break in c, unless it is the last token of c, is followed by a continuation *)
Fixpoint K (c : list token) : bool :=
  match c with
  | [] => true
  | t :: r => (if isNL t then match r with [] => true | t2 :: _ => cont_tok t2 end else true) && K r
  end.
Definition starts_cont (c : list token) : bool := match c with t :: _ => cont_tok t | [] => true end.

Lemma K_noNL c : noNL c = true -> K c = true.
Proof.
  induction c as [|t r IH]; [reflexivity|]. unfold noNL. cbn [forallb K]. intro H. apply andb_true_iff in H as [H1 H2].
  apply negb_true_iff in H1. rewrite H1. cbn. apply IH. exact H2.
Qed.

Lemma K_app c1 c2 : K c1 = true -> K c2 = true -> starts_cont c2 = true -> K (c1 ++ c2) = true.
Proof.
  induction c1 as [|t r IH]; intros K1 K2 S; [exact K2|].
  cbn [app K] in *. apply andb_true_iff in K1 as [A B]. rewrite (IH B K2 S), andb_true_r.
  destruct (isNL t); [|reflexivity]. destruct r as [|t2 r2]; cbn [app].
  - destruct c2 as [|u c2]; [reflexivity|exact S].
  - exact A.
Qed.

Lemma K_noNL_app c1 c2 : noNL c1 = true -> K c2 = true -> K (c1 ++ c2) = true.
Proof.
  induction c1 as [|t r IH]; intros N K2; [exact K2|].
  unfold noNL in N. cbn [forallb] in N. apply andb_true_iff in N as [N1 N2]. apply negb_true_iff in N1.
  cbn [app K]. rewrite N1. cbn. apply IH; assumption.
Qed.

Definition kk (ps' ps : pstate) : Prop := exists c, took c ps' ps /\ K c = true.
Lemma kk_refl ps : kk ps ps. Proof. exists []. split; reflexivity. Qed.
Lemma inl_kk a b : inl a b -> kk a b.
Proof. intros (c & T & N). exists c. split; [exact T|apply K_noNL; exact N]. Qed.
(* first the line-local part, then the multi-line part *)
Lemma kk_after_inl a b c : kk a b -> inl b c -> kk a c.
Proof.
  intros (c1 & T1 & K1) (c2 & T2 & N2). exists (c2 ++ c1). unfold took in *. split; [rewrite T2, T1, app_assoc; reflexivity|].
  apply K_noNL_app; assumption.
Qed.

(* what was consumed starts with the token that was current *)
Lemma took_head c ps' ps : took c ps' ps -> match c with t :: _ => t = cur ps | [] => True end.
Proof. unfold took, cur. intro T. destruct c as [|t r]; [exact I|]. rewrite T. reflexivity. Qed.

Lemma took_starts_cont c ps' ps : took c ps' ps -> (is_ty (ctype ps) TIndent || is_ty (ctype ps) TNewline) = true -> starts_cont c = true.
Proof.
  intros T H. pose proof (took_head c ps' ps T) as Hd. destruct c as [|t r]; [reflexivity|]. subst t.
  unfold starts_cont, cont_tok, isNL. exact H.
Qed.

(* sequencing two multi-line parts when the second starts at a continuation token *)
Lemma kk_seq a b c : kk a b -> kk b c -> (is_ty (ctype b) TIndent || is_ty (ctype b) TNewline) = true \/ a = b -> kk a c.
Proof.
  intros (c1 & T1 & K1) (c2 & T2 & K2) H. destruct H as [H|E].
  - exists (c2 ++ c1). unfold took in *. split; [rewrite T2, T1, app_assoc; reflexivity|].
    apply K_app; [exact K2|exact K1|]. eapply took_starts_cont; [exact T1|exact H].
  - subst b. exists c2. split; assumption.
Qed.

(* skipToNextLine: the rest of the line and its line break *)
Lemma skip_line_toks_K : forall l, exists c, l = c ++ skip_line_toks l /\ K c = true.
Proof.
  induction l as [|t r IH]; [exists []; split; reflexivity|].
  destruct r as [|t' r']; [exists []; split; reflexivity|].
  cbn [skip_line_toks]. destruct (is_ty (tk_type t) TNewline) eqn:Tn.
  - exists [t]. split; [reflexivity|]. cbn [K]. unfold isNL. rewrite Tn. reflexivity.
  - destruct (is_ty (tk_type t) TEOF); [exists []; split; reflexivity|].
    destruct IH as (c & E & Kc). exists (t :: c). split; [cbn [app]; f_equal; exact E|].
    cbn [K]. unfold isNL. rewrite Tn. cbn. exact Kc.
Qed.
Lemma skip_to_next_line_kk ps : kk (skip_to_next_line ps) ps.
Proof. destruct (skip_line_toks_K (toks ps)) as (c & E & Kc). exists c. split; [exact E|exact Kc]. Qed.

Lemma adv_kk ps : kk (adv ps) ps.
Proof.
  unfold adv. destruct (toks ps) as [|t [|t' r]] eqn:E; try apply kk_refl.
  exists [t]. split; [unfold took; cbn [toks]; rewrite E; reflexivity|]. cbn [K]. destruct (isNL t); reflexivity.
Qed.

Lemma parse_cost_inl ps T : is_ty (ctype ps) T = true -> is_ty T TNewline = false -> inl (snd (parse_cost ps)) ps.
Proof.
  intros G NT. unfold parse_cost. pose proof (parse_amount_inl (adv ps)) as A.
  destruct (parse_amount (adv ps)) as [[a|] ps'] eqn:E; cbn [snd] in *; (eapply inl_trans; [exact A|apply (adv_inl ps T G NT)]).
Qed.
Lemma parse_assertion_inl ps T : is_ty (ctype ps) T = true -> is_ty T TNewline = false -> inl (snd (parse_assertion ps)) ps.
Proof.
  intros G NT. unfold parse_assertion. pose proof (parse_amount_inl (adv ps)) as A.
  destruct (parse_amount (adv ps)) as [[a|] ps'] eqn:E; cbn [snd] in *; (eapply inl_trans; [exact A|apply (adv_inl ps T G NT)]).
Qed.

(* facts about named results of the sub-parsers, in the "same line" form *)
Ltac ifacts :=
  repeat match goal with
         | H : parse_amount ?x = (_, ?p) |- _ =>
             lazymatch goal with L : inl p x |- _ => fail | _ => let L := fresh "I" in pose proof (parse_amount_inl x) as L; rewrite H in L; cbn [snd] in L end
         | H : parse_status ?x = (_, ?p) |- _ =>
             lazymatch goal with L : inl p x |- _ => fail | _ => let L := fresh "I" in pose proof (parse_status_inl x) as L; rewrite H in L; cbn [snd] in L end
         | H : parse_date ?x = (_, ?p) |- _ =>
             lazymatch goal with L : inl p x |- _ => fail | _ => let L := fresh "I" in pose proof (parse_date_inl x) as L; rewrite H in L; cbn [snd] in L end
         | H : parse_cost ?x = (_, ?p), G : is_ty (ctype ?x) ?T = true |- _ =>
             lazymatch goal with L : inl p x |- _ => fail | _ => let L := fresh "I" in pose proof (parse_cost_inl x T G eq_refl) as L; rewrite H in L; cbn [snd] in L end
         | H : parse_assertion ?x = (_, ?p), G : is_ty (ctype ?x) ?T = true |- _ =>
             lazymatch goal with L : inl p x |- _ => fail | _ => let L := fresh "I" in pose proof (parse_assertion_inl x T G eq_refl) as L; rewrite H in L; cbn [snd] in L end
         | H : parse_comment ?x = (_, ?p), G : is_ty (ctype ?x) TComment = true |- _ =>
             lazymatch goal with L : inl p x |- _ => fail | _ => let L := fresh "I" in pose proof (parse_comment_inl x G) as L; rewrite H in L; cbn [snd] in L end
         end.

Ltac ipeel2 :=
  match goal with
  | G : is_ty (ctype ?x) TComment = true |- inl (snd (parse_comment ?x)) _ => eapply inl_trans; [apply (parse_comment_inl x G)|]
  | _ => ipeel
  end.
Ltac inl_solve := lazymatch goal with |- inl ?a ?a => apply inl_refl | _ => ipeel2; inl_solve end.

Ltac kk_solve :=
  lazymatch goal with
  | |- kk ?a ?a => apply kk_refl
  | |- kk (skip_to_next_line ?y) ?p => apply (kk_after_inl _ y p); [apply skip_to_next_line_kk|inl_solve]
  | |- kk _ _ => apply inl_kk; inl_solve
  end.

Lemma parse_posting_kk ps : kk (snd (parse_posting ps)) ps.
Proof. unfold parse_posting. break_all; cbn [snd]; norm_guards; ifacts; kk_solve. Qed.

Definition at_cont (ps : pstate) : bool := is_ty (ctype ps) TIndent || is_ty (ctype ps) TNewline.

Lemma parse_postings_kk : forall fuel ps acc r ps', parse_postings fuel ps acc = Some (r, ps') ->
  kk ps' ps /\ (ps' = ps \/ is_ty (ctype ps) TIndent = true).
Proof.
  induction fuel as [|fuel IH]; intros ps acc r ps' H; [discriminate|].
  cbn [parse_postings] in H. destruct (is_ty (ctype ps) TIndent) eqn:Ti.
  - pose proof (parse_posting_kk ps) as K1. destruct (parse_posting ps) as [p ps1]. cbn [snd] in K1.
    set (ps2 := if is_ty (ctype ps1) TNewline then adv ps1 else ps1) in *.
    assert (K2 : kk ps2 ps).
    { unfold ps2. destruct (is_ty (ctype ps1) TNewline) eqn:Tn; [|exact K1].
      apply (kk_seq (adv ps1) ps1 ps (adv_kk ps1) K1). left. rewrite Tn. apply orb_true_r. }
    destruct (IH _ _ _ _ H) as [K3 C3]. split; [|right; reflexivity].
    apply (kk_seq ps' ps2 ps K3 K2). destruct C3 as [E|Ti2]; [right; exact E|left; rewrite Ti2; reflexivity].
  - inversion H; subst. split; [apply kk_refl|left; reflexivity].
Qed.

Lemma parse_transaction_kk fuel ps otx ps' : parse_transaction fuel ps = Some (otx, ps') -> kk ps' ps.
Proof.
  intro H. unfold parse_transaction in H.
  pose proof (parse_date_inl ps) as D. destruct (parse_date ps) as [od ps1] eqn:Ed. cbn [snd] in D.
  destruct od as [d|].
  - revert H. break_hdr; intro H; norm_guards;
      match type of H with
      | context [parse_postings fuel ?PS []] =>
          destruct (parse_postings fuel PS []) as [[posts psz]|] eqn:Epp; [|discriminate];
          inversion H; subst; clear H;
          destruct (parse_postings_kk _ _ _ _ _ Epp) as [KL CL];
          ifacts;
          assert (KH : kk PS ps) by
            (first [ match PS with
                     | adv ?X => match goal with G : is_ty (ctype X) TNewline = true |- _ =>
                                   apply (kk_seq (adv X) X ps (adv_kk X)); [apply inl_kk; inl_solve|left; rewrite G; apply orb_true_r]
                                 end
                     end
                   | apply inl_kk; inl_solve ]);
          apply (kk_seq ps' PS ps KL KH); destruct CL as [E|Ti]; [right; exact E|left; rewrite Ti; reflexivity]
      end.
  - inversion H; subst. apply (kk_after_inl _ ps1 ps); [apply skip_to_next_line_kk|exact D].
Qed.

Definition ends_ok (c : list token) : bool := match rev c with t :: _ => negb (isNL t) | [] => true end.

Lemma K_app2 c1 c2 : K c1 = true -> ends_ok c1 = true -> K c2 = true -> K (c1 ++ c2) = true.
Proof.
  induction c1 as [|t r IH]; intros K1 E K2; [exact K2|].
  cbn [app K] in *. apply andb_true_iff in K1 as [A B].
  destruct r as [|t2 r2].
  - cbn [app]. unfold ends_ok in E. cbn in E. apply negb_true_iff in E. rewrite E. cbn. exact K2.
  - assert (E' : ends_ok (t2 :: r2) = true).
    { unfold ends_ok in *. cbn [rev] in *. destruct (rev r2 ++ [t2]) as [|x y] eqn:R; [destruct (rev r2); discriminate|].
      cbn [app] in E. exact E. }
    rewrite (IH B E' K2), andb_true_r. cbn [app]. exact A.
Qed.

(* multi-line consumption that does not end on a line break *)
Definition kke (ps' ps : pstate) : Prop := exists c, took c ps' ps /\ K c = true /\ ends_ok c = true.

Lemma noNL_ends_ok c : noNL c = true -> ends_ok c = true.
Proof.
  intro N. unfold ends_ok. destruct (rev c) as [|t r] eqn:R; [reflexivity|].
  assert (I : In t c) by (apply in_rev; rewrite R; left; reflexivity).
  unfold noNL in N. rewrite forallb_forall in N. exact (N t I).
Qed.
Lemma inl_kke a b : inl a b -> kke a b.
Proof. intros (c & T & N). exists c. split; [exact T|]. split; [apply K_noNL; exact N|apply noNL_ends_ok; exact N]. Qed.
Lemma kke_kk a b : kke a b -> kk a b.
Proof. intros (c & T & Kc & _). exists c. split; assumption. Qed.
Lemma kk_after_kke a b c : kk a b -> kke b c -> kk a c.
Proof.
  intros (c1 & T1 & K1) (c2 & T2 & K2 & E2). exists (c2 ++ c1). unfold took in *. split; [rewrite T2, T1, app_assoc; reflexivity|].
  apply K_app2; assumption.
Qed.
Lemma ends_ok_app_nonl c1 c2 : ends_ok c1 = true -> noNL c2 = true -> ends_ok (c1 ++ c2) = true.
Proof.
  intros E N. destruct c2 as [|t r]; [rewrite app_nil_r; exact E|].
  unfold ends_ok. rewrite rev_app_distr. pose proof (noNL_ends_ok (t :: r) N) as E2. unfold ends_ok in E2.
  destruct (rev (t :: r)) as [|x y] eqn:R; [cbn [rev] in R; destruct (rev r); discriminate|]. cbn [app]. exact E2.
Qed.
Lemma kke_after_kke_inl a b c : inl a b -> kke b c -> kke a c.
Proof.
  intros (c1 & T1 & N1) (c2 & T2 & K2 & E2). exists (c2 ++ c1). unfold took in *. split; [rewrite T2, T1, app_assoc; reflexivity|].
  split; [apply K_app2; [exact K2|exact E2|apply K_noNL; exact N1]|apply ends_ok_app_nonl; assumption].
Qed.

(* line break then indent: the start of a continuation line *)
Lemma nl_indent_kke ps : wf ps -> is_ty (ctype ps) TNewline = true -> is_ty (ctype (adv ps)) TIndent = true -> kke (adv (adv ps)) ps.
Proof.
  intros W Tn Ti.
  assert (N1 : is_ty (ctype ps) TEOF = false) by (eapply not_eof_of; [exact Tn|reflexivity]).
  destruct (wf_two ps W N1) as (t & t' & r & E).
  destruct (adv_le ps W) as [W1 _].
  assert (N2 : is_ty (ctype (adv ps)) TEOF = false) by (eapply not_eof_of; [exact Ti|reflexivity]).
  destruct (wf_two (adv ps) W1 N2) as (u & u' & r' & E1).
  assert (A1 : toks (adv ps) = t' :: r) by (unfold adv; rewrite E; reflexivity).
  rewrite A1 in E1. inversion E1; subst u r.
  assert (A2 : toks (adv (adv ps)) = u' :: r') by (unfold adv at 1; rewrite A1; reflexivity).
  exists [t; t']. split; [unfold took; rewrite E, A2; reflexivity|].
  assert (Tt' : is_ty (tk_type t') TIndent = true) by (unfold ctype, cur in Ti; rewrite A1 in Ti; exact Ti).
  split.
  - cbn [K]. unfold cont_tok. rewrite Tt'. cbn. destruct (isNL t); destruct (isNL t'); reflexivity.
  - unfold ends_ok. cbn. unfold isNL. rewrite (is_ty_cong _ _ TNewline Tt'). reflexivity.
Qed.

Lemma parse_subdirs_kk : forall fuel ps m m' ps', wf ps -> parse_subdirs fuel ps m = Some (m', ps') ->
  kk ps' ps /\ (ps' = ps \/ is_ty (ctype ps) TNewline = true).
Proof.
  induction fuel as [|fuel IH]; intros ps m m' ps' W H; [discriminate|].
  cbn [parse_subdirs] in H.
  destruct (is_ty (ctype ps) TNewline) eqn:Tn; cbn [negb] in H.
  2:{ inversion H; subst. split; [apply kk_refl|left; reflexivity]. }
  split; [|right; reflexivity].
  destruct (adv_le ps W) as [W1 _].
  destruct (is_ty (ctype (adv ps)) TIndent) eqn:Ti; cbn [negb] in H.
  2:{ inversion H; subst. apply adv_kk. }
  pose proof (nl_indent_kke ps W Tn Ti) as K2. set (ps2 := adv (adv ps)) in *.
  destruct (adv_le (adv ps) W1) as [W2 _]. fold ps2 in W2.
  (* every branch continues the loop from a state X reached from ps2 *)
  assert (REC : forall X m0, le X ps2 -> kk X ps -> parse_subdirs fuel X m0 = Some (m', ps') -> kk ps' ps).
  { intros X m0 LE KX HX. destruct (LE W2) as [WX _]. destruct (IH X m0 m' ps' WX HX) as [K3 C3].
    apply (kk_seq ps' X ps K3 KX). destruct C3 as [E|N]; [right; exact E|left; rewrite N; apply orb_true_r]. }
  assert (FROM_INL : forall X, inl X ps2 -> kk X ps) by (intros X I; apply kke_kk; apply (kke_after_kke_inl X ps2 ps I K2)).
  revert H. break_all; intro H; norm_guards;
    (eapply REC; [| |exact H]; [le_tac|]);
    first [ apply FROM_INL; inl_solve
          | match goal with |- kk (skip_to_next_line ?Y) ps => apply (kk_after_kke _ Y ps (skip_to_next_line_kk Y)); apply (kke_after_kke_inl Y ps2 ps); [inl_solve|exact K2] end ].
Qed.

Ltac with_subdirs_kk W :=
  match goal with
  | H : context [parse_subdirs ?fuel ?PS []] |- kk ?ps' ?ps =>
      let LE := fresh "LE" in assert (LE : le PS ps) by (sub_facts; le_solve);
      let Wn := fresh "Wn" in destruct (LE W) as [Wn _];
      let I := fresh "IN" in assert (I : inl PS ps) by (ifacts; inl_solve);
      let E := fresh "Esd" in
      destruct (parse_subdirs fuel PS []) as [[?sub ?psz]|] eqn:E; [|discriminate];
      inversion H; subst; clear H;
      let K3 := fresh "K3" in
      destruct (parse_subdirs_kk _ _ _ _ _ Wn E) as [K3 _];
      apply (kk_after_kke _ PS ps K3 (inl_kke _ _ I))
  end.

Lemma parse_account_directive_kk fuel sp ps r ps' : wf ps ->
  parse_account_directive fuel sp ps = Some (r, ps') -> kk ps' ps.
Proof.
  intros W H. unfold parse_account_directive in H.
  destruct (negb (is_ty (ctype ps) TAccount || is_ty (ctype ps) TText)) eqn:G.
  - inversion H; subst. kk_solve.
  - revert H. break_hdr; intro H; norm_guards; with_subdirs_kk W.
Qed.

Lemma parse_commodity_directive_kk fuel sp ps r ps' : wf ps ->
  parse_commodity_directive fuel sp ps = Some (r, ps') -> kk ps' ps.
Proof.
  intros W H. unfold parse_commodity_directive in H. revert H. break_hdr; intro H; norm_guards; with_subdirs_kk W.
Qed.

Lemma parse_include_directive_kk sp ps : kk (snd (parse_include_directive sp ps)) ps.
Proof. unfold parse_include_directive. break_all; cbn [snd]; norm_guards; ifacts; kk_solve. Qed.
Lemma parse_price_directive_kk sp ps : kk (snd (parse_price_directive sp ps)) ps.
Proof. unfold parse_price_directive. break_all; cbn [snd]; norm_guards; ifacts; kk_solve. Qed.
Lemma parse_default_directive_kk sp ps : kk (snd (parse_default_directive sp ps)) ps.
Proof. unfold parse_default_directive. break_all; cbn [snd]; norm_guards; ifacts; kk_solve. Qed.
Lemma parse_year_directive_kk sp ps : kk (snd (parse_year_directive sp ps)) ps.
Proof. unfold parse_year_directive. break_all; cbn [snd]; norm_guards; ifacts; kk_solve. Qed.

Lemma parse_directive_kk fuel ps r ps' : wf ps -> is_ty (ctype ps) TDirective = true ->
  parse_directive fuel ps = Some (r, ps') -> kk ps' ps.
Proof.
  intros W Td H. unfold parse_directive in H.
  destruct (adv_le ps W) as [W1 _]. set (ps1 := adv ps) in *.
  assert (I1 : kke ps1 ps) by (apply inl_kke; apply (adv_inl ps TDirective Td); reflexivity).
  assert (PAIR : forall (x : option directive * pstate), kk (snd x) ps1 -> Some x = Some (r, ps') -> kk ps' ps).
  { intros [r0 p0] KX E. inversion E; subst. cbn [snd] in KX. apply (kk_after_kke _ ps1 ps KX I1). }
  destruct (beq (tk_val (cur ps)) (bs "account")).
  { apply (kk_after_kke _ ps1 ps (parse_account_directive_kk _ _ _ _ _ W1 H) I1). }
  destruct (beq (tk_val (cur ps)) (bs "commodity")).
  { apply (kk_after_kke _ ps1 ps (parse_commodity_directive_kk _ _ _ _ _ W1 H) I1). }
  destruct (beq (tk_val (cur ps)) (bs "include")); [eapply PAIR; [|exact H]; apply parse_include_directive_kk|].
  destruct (beq (tk_val (cur ps)) (bs "P")); [eapply PAIR; [|exact H]; apply parse_price_directive_kk|].
  destruct (beq (tk_val (cur ps)) (bs "Y") || beq (tk_val (cur ps)) (bs "year")); [eapply PAIR; [|exact H]; apply parse_year_directive_kk|].
  destruct (beq (tk_val (cur ps)) (bs "D")); [eapply PAIR; [|exact H]; apply parse_default_directive_kk|].
  eapply (PAIR (None, skip_to_next_line ps1)); [|exact H]. cbn [snd]. apply skip_to_next_line_kk.
Qed.

(* one turn of the journal loop: whatever is at the current position (blank line, comment,
   transaction with its postings, directive with its sub-directives, unreadable text), the tokens
   it consumes satisfy K: it never goes past a line break that is followed by something else than
   a continuation line or a blank line; and it consumes at least one token *)
Theorem journal_step_kk fuel ps j : wf ps -> len ps <= fuel -> is_ty (ctype ps) TEOF = false ->
  exists ps1 j1, parse_journal (S fuel) ps j = parse_journal fuel ps1 j1 /\ kk ps1 ps /\ wf ps1 /\ len ps1 < len ps.
Proof.
  intros W LF Te. cbn [parse_journal]. rewrite Te.
  destruct (is_ty (ctype ps) TNewline) eqn:Tn.
  { exists (adv ps), j. split; [reflexivity|]. split; [apply adv_kk|]. apply (adv_lt ps Te W). }
  destruct (is_ty (ctype ps) TComment) eqn:Tc.
  { pose proof (parse_comment_inl ps Tc) as I. pose proof (parse_comment_lt ps Te W) as L.
    destruct (parse_comment ps) as [c ps1]. cbn [snd] in *. eexists ps1, _. split; [reflexivity|]. split; [apply inl_kk; exact I|exact L]. }
  destruct (is_ty (ctype ps) TDate) eqn:Td.
  { destruct (parse_transaction_total fuel ps W LF Td) as (r & ps1 & E & W1 & L1). rewrite E.
    pose proof (parse_transaction_kk _ _ _ _ E) as KT.
    destruct r as [tx|]; eexists ps1, _; (split; [reflexivity|]); (split; [exact KT|split; assumption]). }
  destruct (is_ty (ctype ps) TDirective) eqn:Tdir.
  { destruct (parse_directive_total fuel ps W LF Tdir) as (r & ps1 & E & W1 & L1). rewrite E.
    pose proof (parse_directive_kk _ _ _ _ W Tdir E) as KD.
    destruct r as [d|]; [destruct d|]; eexists ps1, _; (split; [reflexivity|]); (split; [exact KD|split; assumption]). }
  exists (skip_to_next_line (perr ps)), j. split; [reflexivity|]. split.
  - apply (kk_after_inl _ (perr ps) ps); [apply skip_to_next_line_kk|apply perr_inl].
  - assert (LT : lt (skip_to_next_line (perr ps)) ps) by (eapply lt_le_trans; [apply skip_to_next_line_lt; exact Te|apply perr_le]).
    exact (LT W).
Qed.

Lemma K_app_r a b : K (a ++ b) = true -> K b = true.
Proof. induction a as [|t r IH]; [auto|]. cbn [app K]. intro H. apply andb_true_iff in H as [_ H]. auto. Qed.

Lemma app_prefix_cases {A} (c pre rest : list A) tl : c ++ tl = pre ++ rest ->
  (exists d, pre = c ++ d) \/ (exists d, c = pre ++ d /\ d <> [] /\ rest = d ++ tl).
Proof.
  revert pre. induction c as [|x c IH]; intros pre E.
  - left. exists pre. reflexivity.
  - destruct pre as [|y pre].
    + right. exists (x :: c). cbn [app] in *. split; [reflexivity|]. split; [discriminate|]. symmetry. exact E.
    + cbn [app] in E. inversion E; subst. destruct (IH pre H1) as [(d & Ed)|(d & Ed & Nd & Er)].
      * left. exists d. cbn [app]. f_equal. exact Ed.
      * right. exists d. split; [cbn [app]; f_equal; exact Ed|]. split; assumption.
Qed.

(* the consequence for entry boundaries: if, ahead of the parser, a line break is followed by a
   token t that starts something new (neither an indent nor another line break), then a K-consumption
   stops at that t at the latest: t and everything after it are still ahead *)
Theorem kk_stops_at_boundary ps' ps pre nl t rest :
  kk ps' ps -> toks ps = pre ++ nl :: t :: rest -> isNL nl = true -> cont_tok t = false ->
  exists pre', toks ps' = pre' ++ t :: rest.
Proof.
  intros (c & T & Kc) E Nl Ct. unfold took in T. rewrite E in T.
  (* c is a prefix of pre ++ [nl], or it reaches t *)
  assert (T' : c ++ toks ps' = (pre ++ [nl]) ++ t :: rest) by (rewrite <- app_assoc; cbn [app]; symmetry; exact T).
  destruct (app_prefix_cases c (pre ++ [nl]) (t :: rest) (toks ps') T') as [(d & Ed)|(d & Ed & Nd & Er)].
  - exists d. rewrite Ed in T'. rewrite <- app_assoc in T'. apply app_inv_head in T'. exact T'.
  - exfalso. destruct d as [|d0 d']; [contradiction|]. cbn [app] in Er. inversion Er; subst d0.
    rewrite Ed in Kc. rewrite <- app_assoc in Kc. apply K_app_r in Kc. cbn [app K] in Kc.
    rewrite Nl, Ct in Kc. discriminate Kc.
Qed.

Definition noEOF (l : list token) : bool := forallb (fun x => negb (is_ty (tk_type x) TEOF)) l.

(* whatever lies before an entry boundary -- intact entries, damaged ones, unreadable text -- the
   journal loop gets to stand exactly on the first token after the boundary: the parse of the rest
   is the loop started there (with the entries and errors collected so far) *)
Theorem journal_reaches_boundary : forall n fuel ps j pre nl t rest,
  len ps <= n -> wf ps -> len ps <= fuel ->
  toks ps = pre ++ nl :: t :: rest -> isNL nl = true -> cont_tok t = false -> noEOF (pre ++ [nl]) = true ->
  exists fuel' ps' j', parse_journal (S fuel) ps j = parse_journal (S fuel') ps' j' /\
                       toks ps' = t :: rest /\ wf ps' /\ len ps' <= fuel'.
Proof.
  induction n as [|n IH]; intros fuel ps j pre nl t rest Ln W LF E Nl Ct NE.
  - unfold len in Ln. rewrite E, app_length in Ln. cbn [length] in Ln. lia.
  - assert (Te : is_ty (ctype ps) TEOF = false).
    { unfold ctype, cur. rewrite E. unfold noEOF in NE. rewrite forallb_app in NE. apply andb_true_iff in NE as [N1 N2].
      destruct pre as [|p0 pre']; cbn [app].
      - cbn [forallb] in N2. apply andb_true_iff in N2 as [N2 _]. apply negb_true_iff in N2. exact N2.
      - cbn [forallb] in N1. apply andb_true_iff in N1 as [N1 _]. apply negb_true_iff in N1. exact N1. }
    destruct fuel as [|fuel]; [unfold len in LF; rewrite E, app_length in LF; cbn [length] in LF; lia|].
    destruct (journal_step_kk (S fuel) ps j W LF Te) as (ps1 & j1 & Ej & K1 & W1 & L1).
    destruct (kk_stops_at_boundary ps1 ps pre nl t rest K1 E Nl Ct) as (pre' & E1).
    destruct pre' as [|x pre''].
    + (* the loop stands on t *)
      exists fuel, ps1, j1. split; [exact Ej|]. split; [exact E1|]. split; [exact W1|]. lia.
    + (* still before the boundary: what is left of the prefix ends with the same line break *)
      destruct K1 as (c & T & _). unfold took in T. rewrite E, E1 in T.
      assert (SUF : exists q, x :: pre'' = q ++ [nl] /\ noEOF (q ++ [nl]) = true).
      { assert (T' : (pre ++ [nl]) ++ t :: rest = (c ++ (x :: pre'')) ++ t :: rest) by (rewrite <- !app_assoc; cbn [app]; exact T).
        apply app_inv_tail in T'.
        destruct (exists_last (l := x :: pre'') ltac:(discriminate)) as (q & z & Eq).
        rewrite Eq in T'. rewrite app_assoc in T'. apply app_inj_tail in T' as [T1 T2]. subst z.
        exists q. split; [exact Eq|]. unfold noEOF in *. rewrite T1 in NE. rewrite !forallb_app in *.
        apply andb_true_iff in NE as [NE1 NE2]. apply andb_true_iff in NE1 as [_ NE1]. rewrite NE1, NE2. reflexivity. }
      destruct SUF as (q & Eq & NEq).
      assert (E1' : toks ps1 = q ++ nl :: t :: rest) by (rewrite E1, Eq, <- app_assoc; reflexivity).
      destruct (IH fuel ps1 j1 q nl t rest ltac:(lia) W1 ltac:(lia) E1' Nl Ct NEq) as (fuel' & ps' & j' & Ej' & R).
      exists fuel', ps', j'. split; [rewrite Ej; exact Ej'|exact R].
Qed.

