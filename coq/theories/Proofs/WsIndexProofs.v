From HL Require Import Lib.Bytes Model.WsIndex.
From Coq Require Import ZifyN ZifyBool.
Open Scope N_scope.
Arguments N.add : simpl never.
Arguments N.sub : simpl never.

Definition keys (m : cmap) : list (list N) := map fst m.

Lemma cget_absent k m : ~ In k (keys m) -> cget k m = 0.
Proof.
  induction m as [|[k2 v] m IH]; cbn [cget keys map fst]; intro H; [reflexivity|].
  destruct (beq k k2) eqn:E; [apply beq_eq in E; subst; exfalso; apply H; left; reflexivity|].
  apply IH. intro H'. apply H. right. exact H'.
Qed.

Lemma cget_cadd k k' c m : cget k (cadd k' c m) = cget k m + (if beq k k' then c else 0).
Proof.
  induction m as [|[k2 v] m IH]; cbn [cadd cget].
  - destruct (beq k k'); lia.
  - destruct (beq k' k2) eqn:E; cbn [cget].
    + apply beq_eq in E. subst k2. destruct (beq k k'); lia.
    + destruct (beq k k2) eqn:E2.
      * destruct (beq k k') eqn:E3; [|lia]. apply beq_eq in E2, E3. subst. rewrite beq_refl in E. discriminate.
      * exact IH.
Qed.

Lemma keys_cadd k c m x : In x (keys (cadd k c m)) <-> x = k \/ In x (keys m).
Proof.
  induction m as [|[k2 v] m IH]; cbn [cadd keys map fst In]; [intuition|].
  destruct (beq k k2) eqn:E; cbn [keys map fst In].
  - apply beq_eq in E. subst. intuition.
  - fold (keys (cadd k c m)). fold (keys m). rewrite IH. intuition.
Qed.

Lemma nodup_cadd k c m : NoDup (keys m) -> NoDup (keys (cadd k c m)).
Proof.
  induction m as [|[k2 v] m IH]; cbn [cadd keys map fst]; intro H; [constructor; [intros []|constructor]|].
  inversion H as [|? ? Hn Hd]; subst. destruct (beq k k2) eqn:E; cbn [keys map fst].
  - constructor; assumption.
  - constructor; [|apply IH; exact Hd]. fold (keys (cadd k c m)). rewrite keys_cadd.
    intros [->|Hin]; [rewrite beq_refl in E; discriminate|contradiction].
Qed.

Lemma keys_cdec_sub k c m x : In x (keys (cdec k c m)) -> In x (keys m).
Proof.
  induction m as [|[k2 v] m IH]; cbn [cdec keys map fst]; [auto|].
  destruct (beq k k2); [destruct (v <=? c); cbn [keys map fst In]; intuition|].
  cbn [map fst In]. intros [->|H]; [left; reflexivity|right; apply IH; exact H].
Qed.

Lemma nodup_cdec k c m : NoDup (keys m) -> NoDup (keys (cdec k c m)).
Proof.
  induction m as [|[k2 v] m IH]; cbn [cdec keys map fst]; intro H; [constructor|].
  inversion H as [|? ? Hn Hd]; subst. destruct (beq k k2).
  - destruct (v <=? c); [exact Hd|constructor; assumption].
  - cbn [map fst]. constructor; [|apply IH; exact Hd]. intro Hin. apply Hn. eapply keys_cdec_sub. exact Hin.
Qed.

Lemma cget_cdec k k' c m :
  NoDup (keys m) ->
  cget k (cdec k' c m) = if beq k k' then (if cget k' m <=? c then 0 else cget k' m - c) else cget k m.
Proof.
  induction m as [|[k2 v] m IH]; intro Hn; cbn [cdec cget].
  - destruct (beq k k'); [|reflexivity]. destruct (0 <=? c) eqn:E0; [reflexivity|lia].
  - cbn [keys map fst] in Hn. inversion Hn as [|? ? Hni Hnd]; subst.
    destruct (beq k' k2) eqn:E.
    + apply beq_eq in E. subst k2. destruct (beq k k') eqn:E2.
      * apply beq_eq in E2. subst k'. rewrite ?beq_refl. destruct (v <=? c) eqn:E3.
        -- apply cget_absent. exact Hni.
        -- cbn [cget]. rewrite ?beq_refl. reflexivity.
      * destruct (v <=? c); [reflexivity|]. cbn [cget]. rewrite E2. reflexivity.
    + cbn [cget]. destruct (beq k k2) eqn:E3.
      * destruct (beq k k') eqn:E4; [|reflexivity]. apply beq_eq in E3, E4. subst. rewrite beq_refl in E. discriminate.
      * rewrite (IH Hnd). destruct (beq k k') eqn:E4; [|reflexivity].
        apply beq_eq in E4. subst k'. rewrite ?E3. reflexivity.
Qed.

(* adding a file's contribution *)
Lemma fold_cadd k l : forall m,
  cget k (fold_left (fun m kc => cadd (fst kc) (snd kc) m) l m) = cget k m + csum k l.
Proof.
  induction l as [|[k2 c] l IH]; intro m; cbn [fold_left csum fst snd]; [lia|].
  rewrite IH, cget_cadd. lia.
Qed.

Lemma fold_cadd_nodup l : forall m, NoDup (keys m) ->
  NoDup (keys (fold_left (fun m kc => cadd (fst kc) (snd kc) m) l m)).
Proof. induction l as [|[k2 c] l IH]; intros m H; cbn [fold_left]; [exact H|]. apply IH. apply nodup_cadd. exact H. Qed.

(* removing it again is exact as long as the aggregate dominates the contribution *)
Lemma fold_cdec k l : forall m, NoDup (keys m) ->
  (forall x, csum x l <= cget x m) ->
  cget k (fold_left (fun m kc => cdec (fst kc) (snd kc) m) l m) = cget k m - csum k l.
Proof.
  induction l as [|[k2 c] l IH]; intros m Hn Hd; cbn [fold_left csum fst snd]; [lia|].
  rewrite IH.
  - rewrite (cget_cdec k k2 c m Hn). pose proof (Hd k) as H1. pose proof (Hd k2) as H2.
    cbn [csum] in H1, H2. rewrite beq_refl in H2.
    destruct (beq k k2) eqn:E.
    + apply beq_eq in E. subst k2. rewrite ?beq_refl in H1. destruct (cget k m <=? c) eqn:E2; lia.
    + lia.
  - apply nodup_cdec. exact Hn.
  - intro x. rewrite (cget_cdec x k2 c m Hn). pose proof (Hd x) as H1. cbn [csum] in H1.
    destruct (beq x k2) eqn:E; [|lia].
    destruct (cget k2 m <=? c) eqn:E2; apply beq_eq in E; subst; lia.
Qed.

Lemma fold_cdec_nodup l : forall m, NoDup (keys m) ->
  NoDup (keys (fold_left (fun m kc => cdec (fst kc) (snd kc) m) l m)).
Proof. induction l as [|[k2 c] l IH]; intros m H; cbn [fold_left]; [exact H|]. apply IH. apply nodup_cdec. exact H. Qed.

(* ---- the invariant: aggregate = pointwise sum over the current files ---- *)
Definition winv (w : wsindex) : Prop :=
  NoDup (keys (wi_counts w)) /\ NoDup (map fst (wi_files w)) /\
  forall k, cget k (wi_counts w) = total k (wi_files w).

Lemma total_del k p fs f :
  NoDup (map fst fs) -> file_get p fs = Some f ->
  total k fs = csum k (fi_counts f) + total k (file_del p fs).
Proof.
  induction fs as [|[p2 f2] fs IH]; intros Hn Hg; cbn [file_get] in Hg; [discriminate|].
  cbn [map fst] in Hn. inversion Hn as [|? ? Hni Hnd]; subst.
  unfold file_del. cbn [filter fst total]. destruct (beq p p2) eqn:E.
  - inversion Hg; subst. apply beq_eq in E. subst p2. cbn [negb].
    assert (Hsame : filter (fun pf => negb (beq p (fst pf))) fs = fs).
    { clear -Hni. induction fs as [|[q g] fs IH]; [reflexivity|]. cbn [filter fst].
      destruct (beq p q) eqn:E; [apply beq_eq in E; subst; exfalso; apply Hni; left; reflexivity|].
      cbn [negb]. f_equal. apply IH. intro H. apply Hni. right. exact H. }
    rewrite Hsame. reflexivity.
  - cbn [negb total]. fold (file_del p fs). rewrite (IH Hnd Hg). lia.
Qed.

Lemma file_del_nodup p fs : NoDup (map fst fs) -> NoDup (map fst (file_del p fs)) /\ ~ In p (map fst (file_del p fs)).
Proof.
  induction fs as [|[p2 f2] fs IH]; intro Hn; cbn [file_del filter map fst]; [split; [constructor|intros []]|].
  cbn [map fst] in Hn. inversion Hn as [|? ? Hni Hnd]; subst. destruct (IH Hnd) as [I1 I2].
  destruct (beq p p2) eqn:E; cbn [negb]; [split; assumption|].
  cbn [map fst]. split.
  - constructor; [|exact I1]. intro H. apply Hni. unfold file_del in H. apply in_map_iff in H as ([q g] & Hq & Hin).
    apply filter_In in Hin as [Hin _]. cbn in Hq. subst. apply (in_map fst) in Hin. exact Hin.
  - intros [->|H]; [rewrite beq_refl in E; discriminate|apply I2; exact H].
Qed.

Lemma file_get_none p fs : file_get p fs = None -> ~ In p (map fst fs).
Proof.
  induction fs as [|[p2 f2] fs IH]; cbn [file_get map fst]; intro H; [intros []|].
  destruct (beq p p2) eqn:E; [discriminate|]. intros [->|Hin]; [rewrite beq_refl in E; discriminate|].
  exact (IH H Hin).
Qed.

Lemma remove_inv p f w : winv w -> file_get p (wi_files w) = Some f ->
  winv (remove_file p f w) /\ ~ In p (map fst (wi_files (remove_file p f w))).
Proof.
  intros (I1 & I2 & I3) Hg. unfold remove_file, winv. cbn [wi_counts wi_files].
  destruct (file_del_nodup p (wi_files w) I2) as [D1 D2]. split; [|exact D2].
  split; [apply fold_cdec_nodup; exact I1|]. split; [exact D1|].
  intro k. rewrite fold_cdec; [|exact I1|].
  - rewrite I3, (total_del k p _ f I2 Hg). lia.
  - intro x. rewrite I3, (total_del x p _ f I2 Hg). lia.
Qed.

Lemma add_inv p f w : winv w -> ~ In p (map fst (wi_files w)) -> winv (add_file p f w).
Proof.
  intros (I1 & I2 & I3) Hn. unfold add_file, winv. cbn [wi_counts wi_files]. split; [apply fold_cadd_nodup; exact I1|].
  split; [cbn [map fst]; constructor; assumption|].
  intro k. rewrite fold_cadd, I3. cbn [total]. lia.
Qed.

Lemma step_inv w o : winv w -> winv (wstep w o).
Proof.
  intro I. destruct o as [p f|p]; cbn [wstep].
  - destruct (file_get p (wi_files w)) as [old|] eqn:E.
    + destruct (remove_inv p old w I E) as [I' Hn]. apply add_inv; assumption.
    + apply add_inv; [exact I|apply file_get_none; exact E].
  - destruct (file_get p (wi_files w)) as [old|] eqn:E; [apply (remove_inv p old w I E)|exact I].
Qed.

(* C12_counters: after ANY sequence of set / remove operations every aggregated counter
   equals the pointwise sum of the contributions of the files currently indexed *)
Theorem counters_equal_rebuild ops : forall k, cget k (wi_counts (wrun ops)) = total k (wi_files (wrun ops)).
Proof.
  assert (H : winv (wrun ops)).
  { unfold wrun. assert (H0 : winv winit) by (repeat split; try constructor; reflexivity).
    revert H0. generalize winit. induction ops as [|o ops IH]; intros w H0; cbn [fold_left]; [exact H0|].
    apply IH. apply step_inv. exact H0. }
  destruct H as (_ & _ & H). exact H.
Qed.
