(* Positions in the AST: the ranges that position-carrying answers are built from -- a
   transaction's date, a posting's account, the commodity of an amount, a cost or a balance
   assertion -- are, for EVERY byte string, the (start, end) pair of ONE token of the lexer's
   stream.  With Proofs/LexerColumns.v: both ends are places of the text (line, UTF-16 column and
   byte offset agree, on a rune boundary) and the start is not behind the end. *)
From HL Require Import Lib.Bytes Lib.Utf8 Model.Ast Model.Lexer Model.Parser Model.Formatter Spec.FormatSpec
  Proofs.LexerProofs Proofs.ParserProofs Proofs.LexerLines Proofs.ParserLines Proofs.ParserErrors Proofs.LexerColumns.
Open Scope nat_scope.

(* r is the range of one token of the stream *)
Definition tokrng (orig : list token) (r : rng) : Prop :=
  exists t, In t orig /\ r = mkRng (zpos (tk_pos t)) (zpos (tk_end t)).

(* a commodity node: absent (no symbol), or read off one token *)
Definition com_q (orig : list token) (c : commodity) : Prop := c_sym c = [] \/ tokrng orig (c_rng c).
Definition amt_q (orig : list token) (a : amount) : Prop := com_q orig (a_com a).

Definition posting_q (orig : list token) (p : posting) : Prop :=
  tokrng orig (po_acct_rng p) /\
  (forall a, po_amount p = Some a -> amt_q orig a) /\
  (forall c, po_cost p = Some c -> amt_q orig (co_amt c)) /\
  (forall b, po_assert p = Some b -> amt_q orig (as_amt b)).

Definition tx_q (orig : list token) (t : transaction) : Prop :=
  tokrng orig (d_rng (tx_date t)) /\ Forall (posting_q orig) (tx_postings t).

Lemma cur_in_orig orig ps X : wf ps -> suffix (toks ps) orig -> le X ps -> sfx X ps -> In (cur X) orig.
Proof.
  intros W So L S. destruct (L W) as [WX _]. eapply suffix_in; [exact So|]. eapply suffix_in; [exact S|].
  apply cur_in_toks. exact WX.
Qed.

Ltac in_orig W So :=
  match goal with
  | |- In (cur ?X) ?orig => eapply (cur_in_orig orig _ X W So); [sub_facts; le_solve|sfacts; sfx_solve]
  end.

Lemma com_at_q orig t left : In t orig -> com_q orig (com_at t left).
Proof. intro H. right. exists t. split; [exact H|reflexivity]. Qed.

Lemma com0_q orig : com_q orig com0. Proof. left. reflexivity. Qed.

Lemma parse_amount_q orig ps a ps' : wf ps -> suffix (toks ps) orig -> parse_amount ps = (Some a, ps') -> amt_q orig a.
Proof.
  intros W So. unfold parse_amount. break_all; intro H; try discriminate; inversion H; subst; clear H; unfold amt_q; cbn [a_com];
    first [apply com0_q | apply com_at_q; in_orig W So].
Qed.

Lemma parse_cost_q orig ps c ps' : wf ps -> suffix (toks ps) orig -> parse_cost ps = (Some c, ps') -> amt_q orig (co_amt c).
Proof.
  intros W So. unfold parse_cost. destruct (parse_amount (adv ps)) as [[a|] ps1] eqn:E; intro H; inversion H; subst. cbn [co_amt].
  destruct (adv_le ps W) as [W1 _]. eapply (parse_amount_q orig (adv ps)); [exact W1| |exact E].
  eapply suffix_trans; [apply adv_sfx|exact So].
Qed.

Lemma parse_assertion_q orig ps b ps' : wf ps -> suffix (toks ps) orig -> parse_assertion ps = (Some b, ps') -> amt_q orig (as_amt b).
Proof.
  intros W So. unfold parse_assertion. destruct (parse_amount (adv ps)) as [[a|] ps1] eqn:E; intro H; inversion H; subst. cbn [as_amt].
  destruct (adv_le ps W) as [W1 _]. eapply (parse_amount_q orig (adv ps)); [exact W1| |exact E].
  eapply suffix_trans; [apply adv_sfx|exact So].
Qed.

Lemma parse_date_q orig ps d ps' : wf ps -> suffix (toks ps) orig -> parse_date ps = (Some d, ps') -> tokrng orig (d_rng d).
Proof.
  intros W So. unfold parse_date. break_match; intro H; try discriminate; inversion H; subst; clear H; cbn [d_rng];
    (exists (cur ps); split; [|reflexivity]; eapply (cur_in_orig orig ps ps W So); [apply le_refl|apply sfx_refl]).
Qed.

Lemma parse_posting_q orig ps p ps' : wf ps -> suffix (toks ps) orig -> parse_posting ps = (Some p, ps') -> posting_q orig p.
Proof.
  intros W So. unfold parse_posting. destruct (negb (is_ty (ctype ps) TIndent)); [discriminate|].
  destruct (adv_le ps W) as [W1 _]. assert (So1 : suffix (toks (adv ps)) orig) by (eapply suffix_trans; [apply adv_sfx|exact So]).
  set (ps1 := adv ps) in *. clearbody ps1. clear W So ps. rename W1 into W. rename So1 into So.
  break_all; intro H; try discriminate; inversion H; subst; clear H; unfold posting_q; cbn [po_acct_rng po_amount po_cost po_assert];
    (split; [eexists; split; [|reflexivity]; in_orig W So|]);
    repeat split; intros x Hx; try discriminate; inversion Hx; subst;
    match goal with
    | E : parse_amount ?X = (Some ?a, _) |- amt_q _ ?a => eapply (parse_amount_q orig X); [| |exact E]
    | E : parse_cost ?X = (Some ?c, _) |- amt_q _ (co_amt ?c) => eapply (parse_cost_q orig X); [| |exact E]
    | E : parse_assertion ?X = (Some ?b, _) |- amt_q _ (as_amt ?b) => eapply (parse_assertion_q orig X); [| |exact E]
    end;
    match goal with
    | |- wf ?X => assert (LX : le X ps1) by (sub_facts; le_solve); apply (LX W)
    | |- suffix (toks ?X) _ => assert (SX : sfx X ps1) by (sfacts; sfx_solve); eapply suffix_trans; [exact SX|exact So]
    end.
Qed.

Lemma parse_postings_q orig : forall fuel ps acc r ps', wf ps -> suffix (toks ps) orig ->
  parse_postings fuel ps acc = Some (r, ps') -> Forall (posting_q orig) acc -> Forall (posting_q orig) r.
Proof.
  induction fuel as [|fuel IH]; intros ps acc r ps' W So H Fa; [discriminate|].
  cbn [parse_postings] in H. destruct (is_ty (ctype ps) TIndent).
  - pose proof (parse_posting_body_le ps W) as [W1 _]. pose proof (parse_posting_sfx ps) as S1.
    destruct (parse_posting ps) as [op ps1] eqn:Ep. cbn [snd] in *.
    set (ps2 := if is_ty (ctype ps1) TNewline then adv ps1 else ps1) in *.
    assert (S2 : sfx ps2 ps1) by (unfold ps2; destruct (is_ty (ctype ps1) TNewline); [apply adv_sfx|apply sfx_refl]).
    assert (W2 : wf ps2) by (unfold ps2; destruct (is_ty (ctype ps1) TNewline); [apply (adv_le ps1 W1)|exact W1]).
    assert (So2 : suffix (toks ps2) orig) by (eapply suffix_trans; [exact S2|]; eapply suffix_trans; [exact S1|exact So]).
    apply (IH ps2 _ r ps' W2 So2 H). destruct op as [p|]; [|exact Fa].
    apply Forall_app. split; [exact Fa|]. constructor; [|constructor]. exact (parse_posting_q orig ps p ps1 W So Ep).
  - inversion H; subst. exact Fa.
Qed.

Lemma parse_transaction_q orig fuel ps tx ps' : wf ps -> suffix (toks ps) orig ->
  parse_transaction fuel ps = Some (Some tx, ps') -> tx_q orig tx.
Proof.
  intros W So H. unfold parse_transaction in H.
  pose proof (parse_date_le ps W) as [W1 _]. pose proof (parse_date_sfx ps) as S1.
  destruct (parse_date ps) as [od ps1] eqn:Ed. cbn [snd] in *.
  destruct od as [d|]; [|discriminate].
  pose proof (parse_date_q orig ps d ps1 W So Ed) as Dq.
  revert H. break_hdr; intro H;
    match type of H with
    | context [parse_postings fuel ?PS []] =>
        assert (SF : sfx PS ps1) by (sfacts; sfx_solve);
        assert (LE : le PS ps1) by (sub_facts; le_solve);
        destruct (LE W1) as [Wn _];
        destruct (parse_postings fuel PS []) as [[posts psz]|] eqn:Epp; [|discriminate];
        inversion H; subst; clear H;
        assert (SoN : suffix (toks PS) orig) by (eapply suffix_trans; [exact SF|]; eapply suffix_trans; [exact S1|exact So]);
        split; [cbn [tx_date]; exact Dq|cbn [tx_postings]; exact (parse_postings_q orig fuel PS [] posts _ Wn SoN Epp (Forall_nil _))]
    end.
Qed.

Lemma parse_journal_q orig : forall fuel ps j j' ps', wf ps -> suffix (toks ps) orig ->
  parse_journal fuel ps j = Some (j', ps') -> Forall (tx_q orig) (j_txs j) -> Forall (tx_q orig) (j_txs j').
Proof.
  induction fuel as [|fuel IH]; intros ps j j' ps' W So H Fj; [discriminate|].
  cbn [parse_journal] in H.
  destruct (is_ty (ctype ps) TEOF). { inversion H; subst. exact Fj. }
  assert (STEP : forall X jx, le X ps -> sfx X ps -> j_txs jx = j_txs j -> parse_journal fuel X jx = Some (j', ps') -> Forall (tx_q orig) (j_txs j')).
  { intros X jx LE SX EJ HX. destruct (LE W) as [WX _].
    apply (IH X jx j' ps' WX); [eapply suffix_trans; [exact SX|exact So]|exact HX|rewrite EJ; exact Fj]. }
  destruct (is_ty (ctype ps) TNewline). { eapply (STEP (adv ps) j); [apply adv_le|apply adv_sfx|reflexivity|exact H]. }
  destruct (is_ty (ctype ps) TComment).
  { pose proof (parse_comment_le ps) as LC. pose proof (parse_comment_sfx ps) as SC.
    destruct (parse_comment ps) as [c ps1]. cbn [snd] in *. eapply (STEP ps1); [exact LC|exact SC| |exact H]. reflexivity. }
  destruct (is_ty (ctype ps) TDate).
  { destruct (parse_transaction fuel ps) as [[otx ps1]|] eqn:Et; [|discriminate].
    destruct (parse_transaction_R fuel ps otx ps1 Et W) as (W1 & S1 & _).
    assert (So1 : suffix (toks ps1) orig) by (eapply suffix_trans; [exact S1|exact So]).
    destruct otx as [tx|].
    - apply (IH ps1 _ j' ps' W1 So1 H). cbn [j_txs]. apply Forall_app. split; [exact Fj|].
      constructor; [|constructor]. exact (parse_transaction_q orig fuel ps tx ps1 W So Et).
    - exact (IH ps1 j j' ps' W1 So1 H Fj). }
  destruct (is_ty (ctype ps) TDirective).
  { destruct (parse_directive fuel ps) as [[od ps1]|] eqn:Ed; [|discriminate].
    destruct (parse_directive_inv fuel ps od ps1 W Ed) as [W1 S1].
    assert (So1 : suffix (toks ps1) orig) by (eapply suffix_trans; [exact S1|exact So]).
    destruct od as [d|]; [destruct d|]; (eapply (IH ps1); [exact W1|exact So1|exact H|exact Fj]). }
  eapply (STEP (skip_to_next_line (perr ps)) j); [le_tac|sfx_tac|reflexivity|exact H].
Qed.

(* ---- against the text ---- *)

(* a range whose two ends are places of the text (see tpos_ok), the start not behind the end *)
Definition rng_in_text (text : list N) (r : rng) : Prop :=
  exists t, tok_ok text t /\ r = mkRng (zpos (tk_pos t)) (zpos (tk_end t)).

Lemma tokrng_in_text text toks r : Forall (tok_ok text) toks -> tokrng toks r -> rng_in_text text r.
Proof. intros F (t & It & E). rewrite Forall_forall in F. exists t. split; [exact (F t It)|exact E]. Qed.

Definition com_in_text (text : list N) (c : commodity) : Prop := c_sym c = [] \/ rng_in_text text (c_rng c).

(* for EVERY byte string the parser returns a journal for: the date range of every transaction, the
   account range of every posting, and the range of every commodity that has a symbol (amount, cost,
   balance assertion) are the two ends of one token, both places of the text *)
Theorem parse_ranges_in_text text j errs : parse text = Some (j, errs) ->
  forall tx, In tx (j_txs j) ->
    rng_in_text text (d_rng (tx_date tx)) /\
    forall p, In p (tx_postings tx) ->
      rng_in_text text (po_acct_rng p) /\
      (forall a, po_amount p = Some a -> com_in_text text (a_com a)) /\
      (forall c, po_cost p = Some c -> com_in_text text (a_com (co_amt c))) /\
      (forall b, po_assert p = Some b -> com_in_text text (a_com (as_amt b))).
Proof.
  unfold parse. destruct (lex text) as [ts|] eqn:El; [|discriminate].
  destruct (parse_journal (length ts + 2) (mkPS ts [] 0%Z) (mkJournal [] [] [] [])) as [[j0 ps]|] eqn:Ej; [|discriminate].
  intro H. inversion H; subst j0 errs. clear H.
  pose proof (lex_positions text ts El) as TK.
  assert (W : wf (mkPS ts [] 0%Z)) by (apply wf_ends; cbn [toks]; exact (lex_all_ends_eof _ _ _ El)).
  pose proof (parse_journal_q ts _ _ _ _ _ W (suffix_refl ts) Ej (Forall_nil _)) as Q.
  rewrite Forall_forall in Q. intros tx Itx. destruct (Q tx Itx) as [Dq Pq]. split; [apply (tokrng_in_text text ts _ TK Dq)|].
  rewrite Forall_forall in Pq. intros p Ip. destruct (Pq p Ip) as (A & B & C & D).
  assert (CQ : forall c, com_q ts c -> com_in_text text c).
  { intros c [E|E]; [left; exact E|right; apply (tokrng_in_text text ts _ TK E)]. }
  split; [apply (tokrng_in_text text ts _ TK A)|]. split; [|split].
  - intros a Ha. apply CQ. exact (B a Ha).
  - intros c Hc. apply CQ. exact (C c Hc).
  - intros b Hb. apply CQ. exact (D b Hb).
Qed.

(* every syntax error is reported at a place of the text: some byte offset inside the text, on a rune
   boundary, whose line and UTF-16 column are the reported ones *)
Theorem parse_errors_in_text text j errs : parse text = Some (j, errs) ->
  forall l c, In (l, c) errs ->
    exists off, (off <= length text)%nat /\ walk text off 0 1%N 1%N = Some (l, c).
Proof.
  intros H l c I. destruct (parse_errors_at_tokens text j errs H) as (ts & El & E).
  destruct (E (l, c) I) as (t & It & Et). pose proof (lex_positions text ts El) as TK.
  rewrite Forall_forall in TK. destruct (TK t It) as ((Wk & Ln) & _).
  unfold tpos_of in Et. inversion Et; subst. exists (N.to_nat (tp_off (tk_pos t))). split; [exact Ln|exact Wk].
Qed.

(* ------------------------------------------------------------------------------------------ *)
(* entries: the range of a transaction or directive starts at a token and ends where a token starts;
   the name of an account directive starts at a token and ends where a token ends *)
Definition posrng (orig : list token) (r : rng) : Prop :=
  exists t1 t2, In t1 orig /\ In t2 orig /\ r = mkRng (zpos (tk_pos t1)) (zpos (tk_pos t2)).
Definition tok2rng (orig : list token) (r : rng) : Prop :=
  exists t1 t2, In t1 orig /\ In t2 orig /\ r = mkRng (zpos (tk_pos t1)) (zpos (tk_end t2)).

Definition dir_q (orig : list token) (d : directive) : Prop :=
  match d with
  | DAccount _ nr _ _ _ r => tok2rng orig nr /\ posrng orig r
  | DCommodity c _ _ _ r => com_q orig c /\ posrng orig r
  | DInclude _ r | DPrice _ _ _ r | DYear _ r | DDefault _ _ r => posrng orig r
  end.

Definition at_token (orig : list token) (sp : tpos) : Prop := exists t, In t orig /\ sp = tk_pos t.

Lemma posrng_intro orig sp t2 : at_token orig sp -> In t2 orig -> posrng orig (mkRng (zpos sp) (zpos (tk_pos t2))).
Proof. intros (t1 & I1 & ->) I2. exists t1, t2. auto. Qed.

Lemma cur_in_orig' orig ps X : wf X -> sfx X ps -> suffix (toks ps) orig -> In (cur X) orig.
Proof. intros WX S So. eapply suffix_in; [exact So|]. eapply suffix_in; [exact S|]. apply cur_in_toks. exact WX. Qed.

Lemma parse_account_directive_q orig fuel sp ps d ps' : wf ps -> suffix (toks ps) orig -> at_token orig sp ->
  parse_account_directive fuel sp ps = Some (Some d, ps') -> dir_q orig d.
Proof.
  intros W So Sp H. unfold parse_account_directive in H.
  destruct (negb (is_ty (ctype ps) TAccount || is_ty (ctype ps) TText)); [discriminate|].
  revert H. break_hdr; intro H;
    match type of H with
    | context [parse_subdirs fuel ?PS []] =>
        assert (SF : sfx PS ps) by (sfacts; sfx_solve);
        assert (LE : le PS ps) by (sub_facts; le_solve);
        destruct (LE W) as [Wn _];
        destruct (parse_subdirs fuel PS []) as [[sub psz]|] eqn:Esd; [|discriminate];
        destruct (parse_subdirs_inv _ _ _ _ _ Wn Esd) as [Wz Sz];
        inversion H; subst; clear H; cbn [dir_q]; split;
        [ eexists; eexists; split; [|split; [|reflexivity]];
          first [ eapply (cur_in_orig orig ps _ W So); [sub_facts; le_solve|sfacts; sfx_solve] ]
        | apply posrng_intro; [exact Sp|]; eapply (cur_in_orig' orig ps); [exact Wz| |exact So]; eapply sfx_trans; [exact Sz|exact SF] ]
    end.
Qed.

Lemma parse_commodity_directive_q orig fuel sp ps d ps' : wf ps -> suffix (toks ps) orig -> at_token orig sp ->
  parse_commodity_directive fuel sp ps = Some (Some d, ps') -> dir_q orig d.
Proof.
  intros W So Sp H. unfold parse_commodity_directive in H.
  revert H. break_hdr; intro H;
    match type of H with
    | context [parse_subdirs fuel ?PS []] =>
        assert (SF : sfx PS ps) by (sfacts; sfx_solve);
        assert (LE : le PS ps) by (sub_facts; le_solve);
        destruct (LE W) as [Wn _];
        destruct (parse_subdirs fuel PS []) as [[sub psz]|] eqn:Esd; [|discriminate];
        destruct (parse_subdirs_inv _ _ _ _ _ Wn Esd) as [Wz Sz];
        inversion H; subst; clear H; cbn [dir_q]; split;
        [ first [ apply com0_q
                | right; eexists; split; [|reflexivity]; eapply (cur_in_orig orig ps _ W So); [sub_facts; le_solve|sfacts; sfx_solve] ]
        | apply posrng_intro; [exact Sp|]; eapply (cur_in_orig' orig ps); [exact Wz| |exact So]; eapply sfx_trans; [exact Sz|exact SF] ]
    end.
Qed.

Ltac end_at W So Sp :=
  apply posrng_intro; [exact Sp|]; eapply (cur_in_orig _ _ _ W So); [sub_facts; le_solve|sfacts; sfx_solve].

Lemma parse_include_directive_q orig sp ps d ps' : wf ps -> suffix (toks ps) orig -> at_token orig sp ->
  parse_include_directive sp ps = (Some d, ps') -> dir_q orig d.
Proof.
  intros W So Sp. unfold parse_include_directive. break_all; intro H; try discriminate; inversion H; subst; clear H; cbn [dir_q]; end_at W So Sp.
Qed.
Lemma parse_price_directive_q orig sp ps d ps' : wf ps -> suffix (toks ps) orig -> at_token orig sp ->
  parse_price_directive sp ps = (Some d, ps') -> dir_q orig d.
Proof.
  intros W So Sp. unfold parse_price_directive. break_all; intro H; try discriminate; inversion H; subst; clear H; cbn [dir_q]; end_at W So Sp.
Qed.
Lemma parse_default_directive_q orig sp ps d ps' : wf ps -> suffix (toks ps) orig -> at_token orig sp ->
  parse_default_directive sp ps = (Some d, ps') -> dir_q orig d.
Proof.
  intros W So Sp. unfold parse_default_directive. break_all; intro H; try discriminate; inversion H; subst; clear H; cbn [dir_q]; end_at W So Sp.
Qed.
Lemma parse_year_directive_q orig sp ps d ps' : wf ps -> suffix (toks ps) orig -> at_token orig sp ->
  parse_year_directive sp ps = (Some d, ps') -> dir_q orig d.
Proof.
  intros W So Sp. unfold parse_year_directive. break_all; intro H; try discriminate; inversion H; subst; clear H; cbn [dir_q]; end_at W So Sp.
Qed.

Lemma parse_directive_q orig fuel ps d ps' : wf ps -> suffix (toks ps) orig ->
  parse_directive fuel ps = Some (Some d, ps') -> dir_q orig d.
Proof.
  intros W So H. unfold parse_directive in H.
  assert (Sp : at_token orig (tk_pos (cur ps))).
  { exists (cur ps). split; [|reflexivity]. eapply (cur_in_orig orig ps ps W So); [apply le_refl|apply sfx_refl]. }
  destruct (adv_le ps W) as [W1 _]. assert (So1 : suffix (toks (adv ps)) orig) by (eapply suffix_trans; [apply adv_sfx|exact So]).
  destruct (beq (tk_val (cur ps)) (bs "account")); [exact (parse_account_directive_q orig fuel _ _ d ps' W1 So1 Sp H)|].
  destruct (beq (tk_val (cur ps)) (bs "commodity")); [exact (parse_commodity_directive_q orig fuel _ _ d ps' W1 So1 Sp H)|].
  destruct (beq (tk_val (cur ps)) (bs "include")); [inversion H as [H1]; exact (parse_include_directive_q orig _ _ d ps' W1 So1 Sp H1)|].
  destruct (beq (tk_val (cur ps)) (bs "P")); [inversion H as [H1]; exact (parse_price_directive_q orig _ _ d ps' W1 So1 Sp H1)|].
  destruct (beq (tk_val (cur ps)) (bs "Y") || beq (tk_val (cur ps)) (bs "year")); [inversion H as [H1]; exact (parse_year_directive_q orig _ _ d ps' W1 So1 Sp H1)|].
  destruct (beq (tk_val (cur ps)) (bs "D")); [inversion H as [H1]; exact (parse_default_directive_q orig _ _ d ps' W1 So1 Sp H1)|].
  discriminate.
Qed.

(* the range of a transaction starts at its date token and ends where a token starts *)
Lemma parse_transaction_rng orig fuel ps tx ps' : wf ps -> suffix (toks ps) orig ->
  parse_transaction fuel ps = Some (Some tx, ps') -> posrng orig (tx_rng tx).
Proof.
  intros W So H. destruct (parse_transaction_R fuel ps (Some tx) ps' H W) as (W' & S' & _).
  assert (Sp : at_token orig (tk_pos (cur ps))).
  { exists (cur ps). split; [|reflexivity]. eapply (cur_in_orig orig ps ps W So); [apply le_refl|apply sfx_refl]. }
  assert (E : tx_rng tx = mkRng (zpos (tk_pos (cur ps))) (zpos (tk_pos (cur ps')))).
  { unfold parse_transaction in H. destruct (parse_date ps) as [[d|] p1]; [|discriminate].
    revert H. break_hdr; intro H;
      match type of H with
      | context [parse_postings fuel ?PS []] => destruct (parse_postings fuel PS []) as [[posts psz]|]; [|discriminate]; inversion H; subst; reflexivity
      end. }
  rewrite E. apply posrng_intro; [exact Sp|]. eapply (cur_in_orig' orig ps ps' W' S' So).
Qed.

Definition jrn_q (orig : list token) (j : journal) : Prop :=
  Forall (fun t => tx_q orig t /\ posrng orig (tx_rng t)) (j_txs j) /\
  Forall (dir_q orig) (j_dirs j) /\
  Forall (fun i => posrng orig (inc_rng i)) (j_includes j).

Lemma parse_journal_q2 orig : forall fuel ps j j' ps', wf ps -> suffix (toks ps) orig ->
  parse_journal fuel ps j = Some (j', ps') -> jrn_q orig j -> jrn_q orig j'.
Proof.
  induction fuel as [|fuel IH]; intros ps j j' ps' W So H Fj; [discriminate|].
  cbn [parse_journal] in H.
  destruct (is_ty (ctype ps) TEOF). { inversion H; subst. exact Fj. }
  assert (STEP : forall X jx, le X ps -> sfx X ps -> jrn_q orig jx -> parse_journal fuel X jx = Some (j', ps') -> jrn_q orig j').
  { intros X jx LE SX EJ HX. destruct (LE W) as [WX _].
    apply (IH X jx j' ps' WX); [eapply suffix_trans; [exact SX|exact So]|exact HX|exact EJ]. }
  destruct (is_ty (ctype ps) TNewline). { eapply (STEP (adv ps) j); [apply adv_le|apply adv_sfx|exact Fj|exact H]. }
  destruct (is_ty (ctype ps) TComment).
  { pose proof (parse_comment_le ps) as LC. pose proof (parse_comment_sfx ps) as SC.
    destruct (parse_comment ps) as [c ps1]. cbn [snd] in *. eapply (STEP ps1); [exact LC|exact SC| |exact H]. exact Fj. }
  destruct Fj as (F1 & F2 & F3).
  destruct (is_ty (ctype ps) TDate).
  { destruct (parse_transaction fuel ps) as [[otx ps1]|] eqn:Et; [|discriminate].
    destruct (parse_transaction_R fuel ps otx ps1 Et W) as (W1 & S1 & _).
    assert (So1 : suffix (toks ps1) orig) by (eapply suffix_trans; [exact S1|exact So]).
    destruct otx as [tx|].
    - apply (IH ps1 _ j' ps' W1 So1 H). split; [|split; assumption]. cbn [j_txs]. apply Forall_app. split; [exact F1|].
      constructor; [|constructor]. split; [exact (parse_transaction_q orig fuel ps tx ps1 W So Et)|exact (parse_transaction_rng orig fuel ps tx ps1 W So Et)].
    - apply (IH ps1 j j' ps' W1 So1 H). split; [|split]; assumption. }
  destruct (is_ty (ctype ps) TDirective).
  { destruct (parse_directive fuel ps) as [[od ps1]|] eqn:Ed; [|discriminate].
    destruct (parse_directive_inv fuel ps od ps1 W Ed) as [W1 S1].
    assert (So1 : suffix (toks ps1) orig) by (eapply suffix_trans; [exact S1|exact So]).
    destruct od as [d|].
    - pose proof (parse_directive_q orig fuel ps d ps1 W So Ed) as Dq.
      destruct d; apply (IH ps1 _ j' ps' W1 So1 H); cbn [jrn_q j_txs j_dirs j_includes];
        first [ split; [exact F1|split; [apply Forall_app; split; [exact F2|constructor; [exact Dq|constructor]]|exact F3]]
              | split; [exact F1|split; [exact F2|apply Forall_app; split; [exact F3|constructor; [exact Dq|constructor]]]] ].
    - apply (IH ps1 j j' ps' W1 So1 H). split; [|split]; assumption. }
  eapply (STEP (skip_to_next_line (perr ps)) j); [le_tac|sfx_tac|split; [|split]; assumption|exact H].
Qed.

(* ends against the text *)
Definition pos_in_text (text : list N) (p : pos) : Prop :=
  exists tp, zpos tp = p /\ tpos_ok text tp.

Lemma posrng_in_text text toks r : Forall (tok_ok text) toks -> posrng toks r ->
  pos_in_text text (r_start r) /\ pos_in_text text (r_end r).
Proof.
  intros F (t1 & t2 & I1 & I2 & ->). rewrite Forall_forall in F. destruct (F t1 I1) as (A & _). destruct (F t2 I2) as (B & _).
  cbn [r_start r_end]. split; [exists (tk_pos t1)|exists (tk_pos t2)]; auto.
Qed.

Lemma tok2rng_in_text text toks r : Forall (tok_ok text) toks -> tok2rng toks r ->
  pos_in_text text (r_start r) /\ pos_in_text text (r_end r).
Proof.
  intros F (t1 & t2 & I1 & I2 & ->). rewrite Forall_forall in F. destruct (F t1 I1) as (A & _). destruct (F t2 I2) as (_ & B & _).
  cbn [r_start r_end]. split; [exists (tk_pos t1)|exists (tk_end t2)]; auto.
Qed.

(* for EVERY byte string: both ends of the range of every transaction, every directive and every include,
   and of the declared name of every account / commodity directive, are places of the text *)
Theorem parse_entry_ranges_in_text text j errs : parse text = Some (j, errs) ->
  (forall tx, In tx (j_txs j) -> pos_in_text text (r_start (tx_rng tx)) /\ pos_in_text text (r_end (tx_rng tx))) /\
  (forall i, In i (j_includes j) -> pos_in_text text (r_start (inc_rng i)) /\ pos_in_text text (r_end (inc_rng i))) /\
  (forall d, In d (j_dirs j) ->
     match d with
     | DAccount _ nr _ _ _ r =>
         (pos_in_text text (r_start nr) /\ pos_in_text text (r_end nr)) /\ (pos_in_text text (r_start r) /\ pos_in_text text (r_end r))
     | DCommodity c _ _ _ r => com_in_text text c /\ (pos_in_text text (r_start r) /\ pos_in_text text (r_end r))
     | DInclude _ r | DPrice _ _ _ r | DYear _ r | DDefault _ _ r => pos_in_text text (r_start r) /\ pos_in_text text (r_end r)
     end).
Proof.
  unfold parse. destruct (lex text) as [ts|] eqn:El; [|discriminate].
  destruct (parse_journal (length ts + 2) (mkPS ts [] 0%Z) (mkJournal [] [] [] [])) as [[j0 ps]|] eqn:Ej; [|discriminate].
  intro H. inversion H; subst j0 errs. clear H.
  pose proof (lex_positions text ts El) as TK.
  assert (W : wf (mkPS ts [] 0%Z)) by (apply wf_ends; cbn [toks]; exact (lex_all_ends_eof _ _ _ El)).
  assert (J0 : jrn_q ts (mkJournal [] [] [] [])) by (split; [|split]; constructor).
  destruct (parse_journal_q2 ts _ _ _ _ _ W (suffix_refl ts) Ej J0) as (Q1 & Q2 & Q3).
  rewrite Forall_forall in Q1, Q2, Q3. split; [|split].
  - intros tx I. destruct (Q1 tx I) as [_ R]. exact (posrng_in_text text ts _ TK R).
  - intros i I. exact (posrng_in_text text ts _ TK (Q3 i I)).
  - intros d I. specialize (Q2 d I). destruct d; cbn [dir_q] in Q2.
    + destruct Q2 as [A B]. split; [exact (tok2rng_in_text text ts _ TK A)|exact (posrng_in_text text ts _ TK B)].
    + destruct Q2 as [A B]. split; [|exact (posrng_in_text text ts _ TK B)].
      destruct A as [E|E]; [left; exact E|right; exact (tokrng_in_text text ts _ TK E)].
    + exact (posrng_in_text text ts _ TK Q2).
    + exact (posrng_in_text text ts _ TK Q2).
    + exact (posrng_in_text text ts _ TK Q2).
    + exact (posrng_in_text text ts _ TK Q2).
Qed.

(* ------------------------------------------------------------------------------------------ *)
(* the payee range: it starts where a text token of the stream starts and extends over that token's
   (trimmed) value on the same line *)
Definition payee_rng_q (orig : list token) (r : rng) : Prop :=
  r = rng0 \/ exists t, In t orig /\ r = text_range (tk_pos t) (tk_val t).

Lemma parse_transaction_prng orig fuel ps tx ps' : wf ps -> suffix (toks ps) orig ->
  parse_transaction fuel ps = Some (Some tx, ps') -> payee_rng_q orig (tx_prng tx).
Proof.
  intros W So H. unfold parse_transaction in H.
  pose proof (parse_date_le ps W) as [W1 _]. pose proof (parse_date_sfx ps) as S1.
  destruct (parse_date ps) as [od ps1] eqn:Ed. cbn [snd] in *. destruct od as [d|]; [|discriminate].
  assert (So1 : suffix (toks ps1) orig) by (eapply suffix_trans; [exact S1|exact So]).
  revert H. break_hdr; intro H;
    match type of H with
    | context [parse_postings fuel ?PS []] =>
        destruct (parse_postings fuel PS []) as [[posts psz]|] eqn:Epp; [|discriminate];
        inversion H; subst; clear H; cbn [tx_prng];
        first [ left; reflexivity
              | right; eexists; split; [|reflexivity]; eapply (cur_in_orig orig ps1 _ W1 So1); [sub_facts; le_solve|sfacts; sfx_solve] ]
    end.
Qed.

Theorem parse_payee_ranges text j errs : parse text = Some (j, errs) ->
  forall tx, In tx (j_txs j) ->
    tx_prng tx = rng0 \/
    exists t, tok_ok text t /\ tx_prng tx = text_range (tk_pos t) (tk_val t).
Proof.
  unfold parse. destruct (lex text) as [ts|] eqn:El; [|discriminate].
  destruct (parse_journal (length ts + 2) (mkPS ts [] 0%Z) (mkJournal [] [] [] [])) as [[j0 ps]|] eqn:Ej; [|discriminate].
  intro H. inversion H; subst j0 errs. clear H.
  pose proof (lex_positions text ts El) as TK. rewrite Forall_forall in TK.
  assert (W : wf (mkPS ts [] 0%Z)) by (apply wf_ends; cbn [toks]; exact (lex_all_ends_eof _ _ _ El)).
  assert (G : forall fuel ps j j' ps', wf ps -> suffix (toks ps) ts -> parse_journal fuel ps j = Some (j', ps') ->
              Forall (fun t => payee_rng_q ts (tx_prng t)) (j_txs j) -> Forall (fun t => payee_rng_q ts (tx_prng t)) (j_txs j')).
  { induction fuel as [|fuel IH]; intros ps1 j1 j' ps' W1 So H Fj; [discriminate|].
    cbn [parse_journal] in H.
    destruct (is_ty (ctype ps1) TEOF). { inversion H; subst. exact Fj. }
    assert (STEP : forall X jx, le X ps1 -> sfx X ps1 -> j_txs jx = j_txs j1 -> parse_journal fuel X jx = Some (j', ps') ->
                   Forall (fun t => payee_rng_q ts (tx_prng t)) (j_txs j')).
    { intros X jx LE SX EJ HX. destruct (LE W1) as [WX _].
      apply (IH X jx j' ps' WX); [eapply suffix_trans; [exact SX|exact So]|exact HX|rewrite EJ; exact Fj]. }
    destruct (is_ty (ctype ps1) TNewline). { eapply (STEP (adv ps1) j1); [apply adv_le|apply adv_sfx|reflexivity|exact H]. }
    destruct (is_ty (ctype ps1) TComment).
    { pose proof (parse_comment_le ps1) as LC. pose proof (parse_comment_sfx ps1) as SC.
      destruct (parse_comment ps1) as [c ps2]. cbn [snd] in *. eapply (STEP ps2); [exact LC|exact SC| |exact H]. reflexivity. }
    destruct (is_ty (ctype ps1) TDate).
    { destruct (parse_transaction fuel ps1) as [[otx ps2]|] eqn:Et; [|discriminate].
      destruct (parse_transaction_R fuel ps1 otx ps2 Et W1) as (W2 & S2 & _).
      assert (So2 : suffix (toks ps2) ts) by (eapply suffix_trans; [exact S2|exact So]).
      destruct otx as [tx|].
      - apply (IH ps2 _ j' ps' W2 So2 H). cbn [j_txs]. apply Forall_app. split; [exact Fj|].
        constructor; [|constructor]. exact (parse_transaction_prng ts fuel ps1 tx ps2 W1 So Et).
      - exact (IH ps2 j1 j' ps' W2 So2 H Fj). }
    destruct (is_ty (ctype ps1) TDirective).
    { destruct (parse_directive fuel ps1) as [[od ps2]|] eqn:Ed; [|discriminate].
      destruct (parse_directive_inv fuel ps1 od ps2 W1 Ed) as [W2 S2].
      assert (So2 : suffix (toks ps2) ts) by (eapply suffix_trans; [exact S2|exact So]).
      destruct od as [d|]; [destruct d|]; (eapply (IH ps2); [exact W2|exact So2|exact H|exact Fj]). }
    eapply (STEP (skip_to_next_line (perr ps1)) j1); [le_tac|sfx_tac|reflexivity|exact H]. }
  pose proof (G _ _ _ _ _ W (suffix_refl ts) Ej (Forall_nil _)) as Q. rewrite Forall_forall in Q.
  intros tx I. destruct (Q tx I) as [E|(t & It & E)]; [left; exact E|right; exists t; split; [exact (TK t It)|exact E]].
Qed.
