(* The include traversal of Model/Loader.v for ALL file systems and all coherent caches: the result
   does not depend on the cache, the traversal never runs out of fuel (every recursive call marks a
   file of the file system that was not marked before), and everything it puts into the resolved
   order is reachable through include directives. *)
From HL Require Import Lib.Bytes Model.Loader.
Open Scope N_scope.

(* every cache entry is the file as the file system holds it now, and passed the size limit *)
Definition coherent (fs : fsys) (L : limits) (c : list (N * file)) : Prop :=
  forall q cf, flookup q c = Some cf -> flookup q fs = Some cf /\ (max_size L <? f_size cf) = false.

Lemma coherent_nil fs L : coherent fs L []. Proof. intros q cf H. discriminate H. Qed.

Lemma coherent_cons fs L c q f : coherent fs L c -> flookup q fs = Some f -> (max_size L <? f_size f) = false ->
  coherent fs L ((q, f) :: c).
Proof.
  intros C F S k cf H. cbn [flookup] in H. destruct (k =? q) eqn:E.
  - apply N.eqb_eq in E. subst k. inversion H; subst. auto.
  - apply C. exact H.
Qed.

Ltac use_ih IHi :=
  match goal with
  | HG : ?GO ?items ?res ?errs (mkLS ?v ?k1) ?h1 ?seen = Some ?o |- exists o2, ?GO ?items ?res ?errs (mkLS ?v ?k2) ?h2 ?seen = Some o2 /\ _ =>
      apply (IHi res errs v k1 k2 h1 h2 seen o); [| |exact HG]; first [assumption | apply coherent_cons; assumption]
  end.

Definition agree (o1 o2 : lout) : Prop :=
  o_res o1 = o_res o2 /\ o_errs o1 = o_errs o2 /\ o_seen o1 = o_seen o2 /\ visited (o_st o1) = visited (o_st o2).

(* the result of a load does not depend on which coherent cache it starts with *)
Lemma load_wc_cache_indep fs L : forall fuel p dirs v c1 c2 o1,
  coherent fs L c1 -> coherent fs L c2 ->
  load_wc fuel fs L p dirs (mkLS v c1) = Some o1 ->
  exists o2, load_wc fuel fs L p dirs (mkLS v c2) = Some o2 /\ agree o1 o2 /\
             coherent fs L (cache (o_st o1)) /\ coherent fs L (cache (o_st o2)).
Proof.
  induction fuel as [|fuel IH]; intros p dirs v c1 c2 o1 C1 C2 H; [discriminate|].
  cbn [load_wc] in *. cbn [visited cache] in *.
  destruct (max_depth L <=? N.of_nat (length v)).
  { inversion H; subst. eexists. split; [reflexivity|]. unfold agree. cbn [o_res o_errs o_seen o_st visited cache]. split; [repeat split; reflexivity|split; assumption]. }
  match type of H with context [?g (dir_items fs dirs) (mkRes [] []) [] ?s [] []] => set (GO := g) in * end.
  assert (G : forall items res errs v c1 c2 h1 h2 seen o1, coherent fs L c1 -> coherent fs L c2 ->
              GO items res errs (mkLS v c1) h1 seen = Some o1 ->
              exists o2, GO items res errs (mkLS v c2) h2 seen = Some o2 /\ agree o1 o2 /\
                         coherent fs L (cache (o_st o1)) /\ coherent fs L (cache (o_st o2))).
  { clear H o1 C1 C2 c1 c2 v. induction items as [|[line oq] rest IHi]; intros res errs v c1 c2 h1 h2 seen o1 C1 C2 HG.
    - inversion HG; subst. eexists. split; [reflexivity|]. unfold agree. cbn [o_res o_errs o_seen o_st visited cache]. split; [repeat split; reflexivity|split; assumption].
    - unfold GO in HG |- *. cbn beta iota in HG |- *. fold GO in HG |- *. cbn [visited cache] in *.
      destruct oq as [q|]; [|use_ih IHi].
      destruct (memN q v); [use_ih IHi|].
      (* the file both runs use for q, and the sub-load on it *)
      assert (SUB : forall f sub1, load_wc fuel fs L q (f_dirs f) (mkLS v c1) = Some sub1 ->
                exists sub2, load_wc fuel fs L q (f_dirs f) (mkLS v c2) = Some sub2 /\ agree sub1 sub2 /\
                             coherent fs L (cache (o_st sub1)) /\ coherent fs L (cache (o_st sub2)))
        by (intros f sub1 Hs; exact (IH q (f_dirs f) v c1 c2 sub1 C1 C2 Hs)).
      destruct (flookup q c1) as [cf1|] eqn:F1; destruct (flookup q c2) as [cf2|] eqn:F2.
      + (* both hit *)
        destruct (C1 _ _ F1) as [A1 _]. destruct (C2 _ _ F2) as [A2 _]. assert (cf2 = cf1) by congruence. subst cf2.
        destruct (load_wc fuel fs L q (f_dirs cf1) (mkLS v c1)) as [sub1|] eqn:E1; [|discriminate].
        destruct (SUB cf1 sub1 E1) as (sub2 & E2 & (R1 & R2 & R3 & R4) & K1 & K2). rewrite E2. rewrite <- R1, <- R2, <- R3.
        destruct (o_st sub1) as [v1 k1] eqn:S1; destruct (o_st sub2) as [v2 k2] eqn:S2; cbn [visited cache] in *. subst v2.
        destruct (o_res sub1); use_ih IHi.
      + (* run 1 hits, run 2 reads the file *)
        destruct (C1 _ _ F1) as [A1 Z1]. rewrite A1, Z1.
        destruct (load_wc fuel fs L q (f_dirs cf1) (mkLS v c1)) as [sub1|] eqn:E1; [|discriminate].
        destruct (SUB cf1 sub1 E1) as (sub2 & E2 & (R1 & R2 & R3 & R4) & K1 & K2). rewrite E2. rewrite <- R1, <- R2, <- R3.
        destruct (o_st sub1) as [v1 k1] eqn:S1; destruct (o_st sub2) as [v2 k2] eqn:S2; cbn [visited cache] in *. subst v2.
        destruct (o_res sub1); use_ih IHi.
      + (* run 1 reads the file, run 2 hits *)
        destruct (C2 _ _ F2) as [A2 Z2]. rewrite A2, Z2 in HG.
        destruct (load_wc fuel fs L q (f_dirs cf2) (mkLS v c1)) as [sub1|] eqn:E1; [|discriminate].
        destruct (SUB cf2 sub1 E1) as (sub2 & E2 & (R1 & R2 & R3 & R4) & K1 & K2). rewrite E2. rewrite <- R1, <- R2, <- R3.
        destruct (o_st sub1) as [v1 k1] eqn:S1; destruct (o_st sub2) as [v2 k2] eqn:S2; cbn [visited cache] in *. subst v2.
        destruct (o_res sub1); use_ih IHi.
      + (* both read the file *)
        destruct (flookup q fs) as [f|] eqn:Ff; [|use_ih IHi].
        destruct (max_size L <? f_size f) eqn:Zf; [use_ih IHi|].
        destruct (load_wc fuel fs L q (f_dirs f) (mkLS v c1)) as [sub1|] eqn:E1; [|discriminate].
        destruct (SUB f sub1 E1) as (sub2 & E2 & (R1 & R2 & R3 & R4) & K1 & K2). rewrite E2. rewrite <- R1, <- R2, <- R3.
        destruct (o_st sub1) as [v1 k1] eqn:S1; destruct (o_st sub2) as [v2 k2] eqn:S2; cbn [visited cache] in *. subst v2.
        destruct (o_res sub1); use_ih IHi. }
  exact (G _ _ _ _ c1 c2 _ [] _ o1 C1 C2 H).
Qed.

(* files of the file system not yet visited *)
Definition unv (fs : fsys) (vis : list N) : nat := length (filter (fun kv => negb (memN (fst kv) vis)) fs).

Lemma memN_In x l : memN x l = true <-> In x l.
Proof.
  induction l as [|y r IH]; cbn [memN In]; [split; [discriminate|intros []]|].
  rewrite orb_true_iff, IH, N.eqb_eq. split; intros [H|H]; auto.
Qed.

Lemma unv_mono fs v1 v2 : incl v1 v2 -> (unv fs v2 <= unv fs v1)%nat.
Proof.
  intro I. unfold unv. induction fs as [|[k f] r IH]; [cbn; lia|]. cbn [filter fst].
  destruct (memN k v2) eqn:M2; destruct (memN k v1) eqn:M1; cbn [negb length]; try lia.
  exfalso. apply memN_In in M1. apply I in M1. apply memN_In in M1. congruence.
Qed.

Lemma flookup_In {A} k (m : list (N * A)) v : flookup k m = Some v -> In (k, v) m.
Proof.
  induction m as [|[k' v'] r IH]; cbn [flookup]; [discriminate|].
  destruct (k =? k') eqn:E; [apply N.eqb_eq in E; subst; intro H; inversion H; left; reflexivity|intro H; right; auto].
Qed.

Lemma filter_visit_le (r : fsys) q vis :
  (length (filter (fun kv => negb (memN (fst kv) (q :: vis))) r) <= length (filter (fun kv => negb (memN (fst kv) vis)) r))%nat.
Proof.
  induction r as [|[k g] r IH]; [cbn; lia|]. cbn [filter fst].
  change (memN k (q :: vis)) with ((k =? q) || memN k vis).
  destruct (k =? q); destruct (memN k vis); cbn [orb negb length]; lia.
Qed.

Lemma unv_visit fs vis q f : flookup q fs = Some f -> memN q vis = false -> (unv fs (q :: vis) < unv fs vis)%nat.
Proof.
  intros L M. apply flookup_In in L. unfold unv. induction fs as [|[k g] r IH]; [destruct L|].
  destruct L as [E|L].
  - inversion E; subst. cbn [filter fst]. change (memN q (q :: vis)) with ((q =? q) || memN q vis).
    rewrite N.eqb_refl, M. cbn [orb negb length].
    pose proof (filter_visit_le r q vis) as H. lia.
  - specialize (IH L). cbn [filter fst]. change (memN k (q :: vis)) with ((k =? q) || memN k vis).
    destruct (k =? q); destruct (memN k vis); cbn [orb negb length]; lia.
Qed.

Lemma unv_le_length fs vis : (unv fs vis <= length fs)%nat.
Proof. unfold unv. induction fs as [|x r IH]; [cbn; lia|]. cbn [filter]. destruct (negb _); cbn [length]; lia. Qed.

(* the traversal never runs out of fuel, and only adds to the visited set (coherent cache: every
   cached file is a file of the file system, so following its includes marks a new file too) *)
Lemma load_wc_total fs L : forall fuel p dirs st, coherent fs L (cache st) -> (unv fs (p :: visited st) < fuel)%nat ->
  exists out, load_wc fuel fs L p dirs st = Some out /\ incl (visited st) (visited (o_st out)) /\ coherent fs L (cache (o_st out)).
Proof.
  induction fuel as [|fuel IH]; intros p dirs st C H; [lia|].
  cbn [load_wc]. destruct (max_depth L <=? N.of_nat (length (visited st))).
  { eexists. split; [reflexivity|]. cbn [o_st]. split; [apply incl_refl|exact C]. }
  set (st0 := mkLS (p :: visited st) (cache st)).
  assert (B0 : (unv fs (visited st0) <= fuel)%nat) by (cbn [st0 visited]; lia).
  assert (I0 : incl (visited st) (visited st0)) by (cbn [st0 visited]; apply incl_tl, incl_refl).
  assert (C0 : coherent fs L (cache st0)) by exact C.
  match goal with |- context [?g (dir_items fs dirs) (mkRes [] []) [] st0 [] []] => set (GO := g) end.
  assert (G : forall items res errs st1 hits seen, coherent fs L (cache st1) -> (unv fs (visited st1) <= fuel)%nat -> incl (visited st) (visited st1) ->
              exists out, GO items res errs st1 hits seen = Some out /\ incl (visited st) (visited (o_st out)) /\ coherent fs L (cache (o_st out))).
  { induction items as [|[line oq] rest IHi]; intros res errs st1 hits seen C1 B I.
    - eexists. split; [reflexivity|]. split; assumption.
    - unfold GO. cbn beta iota. fold GO.
      destruct oq as [q|]; [|apply IHi; assumption].
      destruct (memN q (visited st1)) eqn:Mq; [apply IHi; assumption|].
      assert (SUB : forall f, flookup q fs = Some f ->
                exists sub, load_wc fuel fs L q (f_dirs f) st1 = Some sub /\ incl (visited st1) (visited (o_st sub)) /\ coherent fs L (cache (o_st sub))).
      { intros f Fq. pose proof (unv_visit fs (visited st1) q f Fq Mq) as Dec. apply IH; [exact C1|lia]. }
      destruct (flookup q (cache st1)) as [cf|] eqn:Fc.
      + destruct (C1 _ _ Fc) as [Fq _]. destruct (SUB cf Fq) as (sub & Es & Is & Cs). rewrite Es.
        destruct (o_res sub); apply IHi; try exact Cs; try (pose proof (unv_mono fs _ _ Is); lia); eapply incl_tran; eauto.
      + destruct (flookup q fs) as [f|] eqn:Fq; [|apply IHi; assumption].
        destruct (max_size L <? f_size f) eqn:Zf; [apply IHi; assumption|].
        destruct (SUB f eq_refl) as (sub & Es & Is & Cs). rewrite Es.
        destruct (o_res sub) as [sr|].
        * apply IHi; cbn [visited cache]; [apply coherent_cons; assumption|pose proof (unv_mono fs _ _ Is); lia|eapply incl_tran; eauto].
        * apply IHi; [exact Cs|pose proof (unv_mono fs _ _ Is); lia|eapply incl_tran; eauto]. }
  apply G; assumption.
Qed.

Theorem load_root_total fs L c root ov : coherent fs L c -> load_root fs L c root ov <> None.
Proof.
  intro C. unfold load_root. destruct (match ov with Some f => Some f | None => flookup root fs end) as [f|]; [|discriminate].
  destruct (max_size L <? f_size f); [discriminate|].
  destruct (load_wc_total fs L (fuel_for fs) root (f_dirs f) (mkLS [] c) C) as (out & E & _).
  { unfold fuel_for. pose proof (unv_le_length fs [root]). cbn [visited]. lia. }
  rewrite E. discriminate.
Qed.

(* x is named by a directive of `dirs`, or by a directive of a file so reachable (as read from fs) *)
Inductive reach (fs : fsys) : list directive -> N -> Prop :=
| reach_direct dirs q line : In (line, Some q) (dir_items fs dirs) -> reach fs dirs q
| reach_via dirs q f x line : In (line, Some q) (dir_items fs dirs) -> flookup q fs = Some f ->
    reach fs (f_dirs f) x -> reach fs dirs x.

(* soundness: whatever (coherent) cache and limits, every file in the resolved order is reachable
   through include directives from the journal being loaded *)
Lemma load_wc_sound fs L : forall fuel p dirs st out r, coherent fs L (cache st) ->
  load_wc fuel fs L p dirs st = Some out -> o_res out = Some r -> forall x, In x (r_order r) -> reach fs dirs x.
Proof.
  induction fuel as [|fuel IH]; intros p dirs st out r C H; [discriminate|].
  cbn [load_wc] in H. destruct (max_depth L <=? N.of_nat (length (visited st))).
  { inversion H; subst. cbn [o_res]. discriminate. }
  set (st0 := mkLS (p :: visited st) (cache st)) in H.
  match type of H with context [?g (dir_items fs dirs) (mkRes [] []) [] st0 [] []] => set (GO := g) in H end.
  assert (G : forall items res errs st1 hits seen out r, coherent fs L (cache st1) ->
              incl items (dir_items fs dirs) -> (forall x, In x (r_order res) -> reach fs dirs x) ->
              GO items res errs st1 hits seen = Some out -> o_res out = Some r ->
              forall x, In x (r_order r) -> reach fs dirs x).
  { clear H. induction items as [|[line oq] rest IHi]; intros res errs st1 hits seen o r0 C1 Inc Hres HG Hr.
    - inversion HG; subst. cbn [o_res] in Hr. inversion Hr; subst. exact Hres.
    - assert (Inc' : incl rest (dir_items fs dirs)) by (intros y Iy; apply Inc; right; exact Iy).
      assert (Here : forall q, oq = Some q -> In (line, Some q) (dir_items fs dirs)) by (intros q E; subst; apply Inc; left; reflexivity).
      unfold GO in HG. cbn beta iota in HG. fold GO in HG.
      destruct oq as [q|]; [|eapply IHi; eauto].
      destruct (memN q (visited st1)); [eapply IHi; eauto|].
      assert (STEP : forall f sub, flookup q fs = Some f -> load_wc fuel fs L q (f_dirs f) st1 = Some sub ->
                (forall sr, o_res sub = Some sr -> forall x, In x (r_order res ++ q :: r_order sr) -> reach fs dirs x) /\
                coherent fs L (cache (o_st sub))).
      { intros f sub Fq Es. split.
        - intros sr Er x Ix. apply in_app_or in Ix as [Ix|[E|Ix]]; [auto| |].
          + subst x. eapply reach_direct. apply Here. reflexivity.
          + eapply reach_via; [apply Here; reflexivity|exact Fq|]. eapply (IH q (f_dirs f) st1 sub sr C1 Es Er). exact Ix.
        - destruct st1 as [v1 k1]. cbn [cache] in C1.
          destruct (load_wc_cache_indep fs L _ _ _ _ k1 k1 sub C1 C1 Es) as (_ & _ & _ & K & _). exact K. }
      destruct (flookup q (cache st1)) as [cf|] eqn:Fc.
      + destruct (C1 _ _ Fc) as [Fq _].
        destruct (load_wc fuel fs L q (f_dirs cf) st1) as [sub|] eqn:Es; [|discriminate].
        destruct (STEP cf sub Fq Es) as [R K].
        destruct (o_res sub) as [sr|] eqn:Er.
        * eapply (IHi _ _ _ _ _ o r0 K Inc'); [|exact HG|exact Hr]. cbn [r_order]. apply (R sr eq_refl).
        * eapply (IHi _ _ _ _ _ o r0 K Inc' Hres); [exact HG|exact Hr].
      + destruct (flookup q fs) as [f|] eqn:Fq; [|eapply IHi; eauto].
        destruct (max_size L <? f_size f) eqn:Zf; [eapply IHi; eauto|].
        destruct (load_wc fuel fs L q (f_dirs f) st1) as [sub|] eqn:Es; [|discriminate].
        destruct (STEP f sub eq_refl Es) as [R K].
        destruct (o_res sub) as [sr|] eqn:Er.
        * eapply (IHi _ _ _ _ _ o r0); [| exact Inc'| |exact HG|exact Hr].
          -- cbn [cache]. apply coherent_cons; assumption.
          -- cbn [r_order]. apply (R sr eq_refl).
        * eapply (IHi _ _ _ _ _ o r0 K Inc' Hres); [exact HG|exact Hr]. }
  intros Hr x Ix. assert (C0 : coherent fs L (cache st0)) by exact C.
  eapply (G _ _ _ st0 _ _ out r C0 (incl_refl _)); [|exact H|exact Hr|exact Ix]. intros y [].
Qed.

Theorem load_root_sound fs L c root ov out r f : coherent fs L c ->
  match ov with Some g => Some g | None => flookup root fs end = Some f ->
  load_root fs L c root ov = Some out -> o_res out = Some r ->
  forall x, In x (r_order r) -> reach fs (f_dirs f) x.
Proof.
  intros C Ef H Hr x Ix. unfold load_root in H. rewrite Ef in H.
  destruct (max_size L <? f_size f); [inversion H; subst; discriminate|].
  eapply (load_wc_sound fs L _ root (f_dirs f) (mkLS [] c) out r); [exact C|exact H|exact Hr|exact Ix].
Qed.

