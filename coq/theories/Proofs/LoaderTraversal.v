(* The include traversal of Model/Loader.v for ALL file systems and all coherent caches:
   (1) the result does not depend on the cache;
   (2) the traversal is the stack-based reference traversal of Spec/LoaderSpec.v (same order,
       same diagnostics, same loaded set), which knows nothing of caches;
   the graph-level facts (termination, each file once, reachability both ways, cycle verdicts)
   are proved of the reference traversal in Proofs/LoaderGraph.v and carried over by (2). *)
From HL Require Import Lib.Bytes Model.Loader Spec.LoaderSpec Proofs.LoaderGraph.
Open Scope N_scope.

(* every cache entry is the file as the file system holds it now, and passed the size limit *)
Definition coherent (fs : fsys) (L : limits) (c : list (N * file)) : Prop :=
  forall q cf, flookup q c = Some cf -> flookup q fs = Some cf /\ (max_size L <? f_size cf) = false.

Lemma coherent_nil fs L : coherent fs L []. Proof. intros q cf H. discriminate H. Qed.

Lemma coherent_cons fs L c q f : coherent fs L c -> flookup q fs = Some f -> (max_size L <? f_size f) = false ->
  coherent fs L ((q, f) :: c).
Proof.
  intros C F S k cf H. cbn [flookup] in H. destruct (k =? q) eqn:E.
  - apply N.eqb_eq in E. subst k. inversion H; subst. auto.
  - apply C. exact H.
Qed.

(* ------------------------------------------------------------------------------------------ *)
(* (1) cache independence *)

Definition agree (o1 o2 : wout) : Prop :=
  w_res o1 = w_res o2 /\ w_errs o1 = w_errs o2 /\ w_seen o1 = w_seen o2 /\
  stack (w_st o1) = stack (w_st o2) /\ visited (w_st o1) = visited (w_st o2).

Definition rel2 (fs : fsys) (L : limits) (a b : option wout) : Prop :=
  match a, b with
  | Some o1, Some o2 => agree o1 o2 /\ coherent fs L (cache (w_st o1)) /\ coherent fs L (cache (w_st o2))
  | None, None => True
  | _, _ => False
  end.

Definition rec_indep (fs : fsys) (L : limits) (rec : recT) : Prop :=
  forall q dirs S V c1 c2, coherent fs L c1 -> coherent fs L c2 ->
    rel2 fs L (rec q dirs (mkLS S V c1)) (rec q dirs (mkLS S V c2)).

Ltac sub_step Hrec IH q dirs :=
  match goal with
  | C1 : coherent ?fs ?L ?c1, C2 : coherent ?fs ?L ?c2 |- context [?rec q dirs (mkLS ?S ?V ?c1)] =>
      let R := fresh "R" in
      pose proof (Hrec q dirs S V c1 c2 C1 C2) as R; unfold rel2 in R;
      destruct (rec q dirs (mkLS S V c1)) as [sub1|]; destruct (rec q dirs (mkLS S V c2)) as [sub2|];
      try contradiction; [|exact I];
      let R1 := fresh "R1" in let R2 := fresh "R2" in let R3 := fresh "R3" in let R4 := fresh "R4" in
      let R5 := fresh "R5" in let K1 := fresh "K1" in let K2 := fresh "K2" in
      destruct R as ((R1 & R2 & R3 & R4 & R5) & K1 & K2);
      rewrite <- R1, <- R2, <- R3;
      destruct (w_st sub1) as [S1 V1 k1]; destruct (w_st sub2) as [S2 V2 k2];
      cbn [stack visited cache] in *; subst S2 V2
  end.

Lemma go_items_indep fs L rec : rec_indep fs L rec ->
  forall items res errs S V c1 c2 h1 h2 seen, coherent fs L c1 -> coherent fs L c2 ->
    rel2 fs L (go_items rec fs L items res errs (mkLS S V c1) h1 seen)
              (go_items rec fs L items res errs (mkLS S V c2) h2 seen).
Proof.
  intro Hrec. induction items as [|[line oq] rest IH]; intros res errs S V c1 c2 h1 h2 seen C1 C2.
  - cbn [go_items rel2]. unfold agree. cbn [w_res w_errs w_seen w_st stack visited cache]. split; [repeat split|split; assumption].
  - cbn [go_items]. cbn [stack visited cache]. destruct oq as [q|]; [|apply IH; assumption].
    destruct (memN q S); [apply IH; assumption|].
    destruct (memN q V); [apply IH; assumption|].
    destruct (max_depth L <=? N.of_nat (length S)); [apply IH; assumption|].
    destruct (flookup q c1) as [cf1|] eqn:F1; destruct (flookup q c2) as [cf2|] eqn:F2.
    + destruct (C1 _ _ F1) as [A1 _]. destruct (C2 _ _ F2) as [A2 _]. assert (cf2 = cf1) by congruence. subst cf2.
      sub_step Hrec IH q (f_dirs cf1). apply IH; assumption.
    + destruct (C1 _ _ F1) as [A1 Z1]. rewrite A1, Z1.
      sub_step Hrec IH q (f_dirs cf1). apply IH; [assumption|apply coherent_cons; assumption].
    + destruct (C2 _ _ F2) as [A2 Z2]. rewrite A2, Z2.
      sub_step Hrec IH q (f_dirs cf2). apply IH; [apply coherent_cons; assumption|assumption].
    + destruct (flookup q fs) as [f|] eqn:Ff; [|apply IH; assumption].
      destruct (max_size L <? f_size f) eqn:Zf; [apply IH; assumption|].
      sub_step Hrec IH q (f_dirs f). apply IH; apply coherent_cons; assumption.
Qed.

Lemma load_wc_indep fs L : forall fuel, rec_indep fs L (load_wc fuel fs L).
Proof.
  induction fuel as [|fuel IH]; intros p dirs S V c1 c2 C1 C2; [exact I|].
  cbn [load_wc stack visited cache].
  pose proof (go_items_indep fs L _ IH (dir_items fs dirs) (mkRes [] []) [] (p :: S) (p :: V) c1 c2 [] [] [] C1 C2) as R.
  unfold rel2 in R |- *.
  destruct (go_items (load_wc fuel fs L) fs L (dir_items fs dirs) (mkRes [] []) [] (mkLS (p :: S) (p :: V) c1) [] []) as [o1|];
  destruct (go_items (load_wc fuel fs L) fs L (dir_items fs dirs) (mkRes [] []) [] (mkLS (p :: S) (p :: V) c2) [] []) as [o2|];
  try contradiction; [|exact I].
  destruct R as ((R1 & R2 & R3 & R4 & R5) & K1 & K2). unfold agree.
  cbn [w_res w_errs w_seen w_st stack visited cache]. split; [repeat split; assumption|split; assumption].
Qed.

(* the result of a load does not depend on which coherent cache it starts with *)
Lemma load_wc_cache_indep fs L : forall fuel p dirs S V c1 c2 o1,
  coherent fs L c1 -> coherent fs L c2 ->
  load_wc fuel fs L p dirs (mkLS S V c1) = Some o1 ->
  exists o2, load_wc fuel fs L p dirs (mkLS S V c2) = Some o2 /\ agree o1 o2 /\
             coherent fs L (cache (w_st o1)) /\ coherent fs L (cache (w_st o2)).
Proof.
  intros fuel p dirs S V c1 c2 o1 C1 C2 H. pose proof (load_wc_indep fs L fuel p dirs S V c1 c2 C1 C2) as R.
  rewrite H in R. unfold rel2 in R. destruct (load_wc fuel fs L p dirs (mkLS S V c2)) as [o2|]; [|contradiction].
  exists o2. split; [reflexivity|exact R].
Qed.

(* ------------------------------------------------------------------------------------------ *)
(* (2) the loader is the reference traversal *)

Ltac split5 := refine (conj _ (conj _ (conj _ (conj _ _)))).
Ltac split4 := refine (conj _ (conj _ (conj _ _))).

Definition refines (fs : fsys) (L : limits) (a : option wout) (stk : list N) (b : option rout) : Prop :=
  match a, b with
  | Some o, Some r =>
      r_order (w_res o) = ro_order r /\ w_errs o = ro_errs r /\ visited (w_st o) = ro_loaded r /\
      stack (w_st o) = stk /\ coherent fs L (cache (w_st o))
  | None, None => True
  | _, _ => False
  end.

Definition rec_refines (fs : fsys) (L : limits) (rec : recT) (rrec : rrecT) : Prop :=
  forall q dirs st, coherent fs L (cache st) ->
    refines fs L (rec q dirs st) (stack st) (rrec q dirs (stack st) (visited st)).

Lemma with_err_spec e o :
  with_err e o = match o with Some r => Some (mkRout (ro_order r) (e :: ro_errs r) (ro_loaded r)) | None => None end.
Proof. reflexivity. Qed.

Lemma go_items_refines fs L rec rrec : rec_refines fs L rec rrec ->
  forall items res errs st hits seen, coherent fs L (cache st) ->
    match go_items rec fs L items res errs st hits seen, ref_items rrec fs L (stack st) items (visited st) with
    | Some o, Some r =>
        r_order (w_res o) = r_order res ++ ro_order r /\ w_errs o = errs ++ ro_errs r /\
        visited (w_st o) = ro_loaded r /\ stack (w_st o) = stack st /\ coherent fs L (cache (w_st o))
    | None, None => True
    | _, _ => False
    end.
Proof.
  intro Hrec.
  (* the shape shared by all refused includes: one more diagnostic, state unchanged *)
  assert (ERR : forall rest res errs e st hits seen,
    (forall res errs st hits seen, coherent fs L (cache st) ->
       match go_items rec fs L rest res errs st hits seen, ref_items rrec fs L (stack st) rest (visited st) with
       | Some o, Some r => r_order (w_res o) = r_order res ++ ro_order r /\ w_errs o = errs ++ ro_errs r /\
                           visited (w_st o) = ro_loaded r /\ stack (w_st o) = stack st /\ coherent fs L (cache (w_st o))
       | None, None => True | _, _ => False end) ->
    coherent fs L (cache st) ->
    match go_items rec fs L rest res (errs ++ [e]) st hits seen, with_err e (ref_items rrec fs L (stack st) rest (visited st)) with
    | Some o, Some r => r_order (w_res o) = r_order res ++ ro_order r /\ w_errs o = errs ++ ro_errs r /\
                        visited (w_st o) = ro_loaded r /\ stack (w_st o) = stack st /\ coherent fs L (cache (w_st o))
    | None, None => True | _, _ => False end).
  { intros rest res errs e st hits seen IH C. specialize (IH res (errs ++ [e]) st hits seen C).
    unfold with_err. destruct (go_items rec fs L rest res (errs ++ [e]) st hits seen) as [o|];
    destruct (ref_items rrec fs L (stack st) rest (visited st)) as [r|]; try contradiction; [|exact I].
    destruct IH as (A & B & D & E & F). cbn [ro_order ro_errs ro_loaded]. rewrite <- app_assoc in B. split5; assumption. }
  induction items as [|[line oq] rest IH]; intros res errs st hits seen C.
  - cbn [go_items ref_items w_res w_errs w_st ro_order ro_errs ro_loaded]. rewrite !app_nil_r. split5; try reflexivity. exact C.
  - cbn [go_items ref_items]. destruct oq as [q|]; [|apply ERR; assumption].
    destruct (memN q (stack st)); [apply ERR; assumption|].
    destruct (memN q (visited st)); [apply IH; assumption|].
    destruct (max_depth L <=? N.of_nat (length (stack st))); [apply ERR; assumption|].
    destruct (flookup q (cache st)) as [cf|] eqn:Fc.
    + destruct (C _ _ Fc) as [Fq Zq]. rewrite Fq, Zq.
      pose proof (Hrec q (f_dirs cf) st C) as R. unfold refines in R.
      destruct (rec q (f_dirs cf) st) as [sub|]; destruct (rrec q (f_dirs cf) (stack st) (visited st)) as [rsub|];
        try contradiction; [|exact I].
      destruct R as (R1 & R2 & R3 & R4 & R5).
      destruct (w_st sub) as [S1 V1 k1]. cbn [stack visited cache] in R3, R4, R5. subst S1 V1.
      specialize (IH (merge_res res q (f_version cf) (w_res sub)) (errs ++ w_errs sub) (mkLS (stack st) (ro_loaded rsub) k1)
                     (hits ++ (q, negb (nodirs cf)) :: w_hits sub) (seen ++ q :: w_seen sub) R5).
      cbn [stack visited] in IH.
      destruct (go_items rec fs L rest _ _ (mkLS (stack st) (ro_loaded rsub) k1) _ _) as [o|];
      destruct (ref_items rrec fs L (stack st) rest (ro_loaded rsub)) as [r|]; try contradiction; [|exact I].
      destruct IH as (A & B & D & E & F). cbn [ro_order ro_errs ro_loaded merge_res r_order] in *.
      rewrite A, B, R1, R2, <- !app_assoc. cbn [app]. split5; try reflexivity; assumption.
    + destruct (flookup q fs) as [f|] eqn:Fq; [|apply ERR; assumption].
      destruct (max_size L <? f_size f) eqn:Zq; [apply ERR; assumption|].
      pose proof (Hrec q (f_dirs f) st C) as R. unfold refines in R.
      destruct (rec q (f_dirs f) st) as [sub|]; destruct (rrec q (f_dirs f) (stack st) (visited st)) as [rsub|];
        try contradiction; [|exact I].
      destruct R as (R1 & R2 & R3 & R4 & R5).
      destruct (w_st sub) as [S1 V1 k1]. cbn [stack visited cache] in R3, R4, R5 |- *. subst S1 V1.
      assert (C' : coherent fs L (cache (mkLS (stack st) (ro_loaded rsub) ((q, f) :: k1))))
        by (cbn [cache]; apply coherent_cons; assumption).
      specialize (IH (merge_res res q (f_version f) (w_res sub)) (errs ++ w_errs sub) _
                     (hits ++ w_hits sub) (seen ++ q :: w_seen sub) C').
      cbn [stack visited] in IH.
      destruct (go_items rec fs L rest _ _ (mkLS (stack st) (ro_loaded rsub) ((q, f) :: k1)) _ _) as [o|];
      destruct (ref_items rrec fs L (stack st) rest (ro_loaded rsub)) as [r|]; try contradiction; [|exact I].
      destruct IH as (A & B & D & E & F). cbn [ro_order ro_errs ro_loaded merge_res r_order] in *.
      rewrite A, B, R1, R2, <- !app_assoc. cbn [app]. split5; try reflexivity; assumption.
Qed.

Lemma load_wc_refines fs L : forall fuel, rec_refines fs L (load_wc fuel fs L) (ref_load fuel fs L).
Proof.
  induction fuel as [|fuel IH]; intros p dirs st C; [exact I|].
  cbn [load_wc ref_load].
  pose proof (go_items_refines fs L _ _ IH (dir_items fs dirs) (mkRes [] []) []
                (mkLS (p :: stack st) (p :: visited st) (cache st)) [] [] C) as R.
  cbn [stack visited] in R. unfold refines.
  destruct (go_items (load_wc fuel fs L) fs L (dir_items fs dirs) (mkRes [] []) [] _ [] []) as [o|];
  destruct (ref_items (ref_load fuel fs L) fs L (p :: stack st) (dir_items fs dirs) (p :: visited st)) as [r|];
    try contradiction; [|exact I].
  destruct R as (A & B & D & E & F). cbn [w_res w_errs w_st stack visited cache r_order app] in *.
  split5; try reflexivity; assumption.
Qed.

(* Loader.Load / LoadFromContent against the reference, for every coherent cache *)
Definition root_refines (fs : fsys) (L : limits) (a : option lout) (b : option rout) : Prop :=
  match a, b with
  | Some o, Some r =>
      match o_res o with Some res => r_order res = ro_order r | None => ro_order r = [] end /\
      o_errs o = ro_errs r /\ visited (o_st o) = ro_loaded r /\ coherent fs L (cache (o_st o))
  | None, None => True
  | _, _ => False
  end.

Theorem load_root_refines fs L c root ov : coherent fs L c ->
  root_refines fs L (load_root fs L c root ov) (ref_root fs L root ov).
Proof.
  intro C. unfold load_root, ref_root.
  destruct (match ov with Some f => Some f | None => flookup root fs end) as [f|];
    [|cbn; split4; try reflexivity; exact C].
  destruct (max_size L <? f_size f); [cbn; split4; try reflexivity; exact C|].
  destruct (max_depth L <=? 0); [cbn; split4; try reflexivity; exact C|].
  pose proof (load_wc_refines fs L (fuel_for fs) root (f_dirs f) (mkLS [] [] c) C) as R.
  unfold refines in R. cbn [stack visited] in R.
  destruct (load_wc (fuel_for fs) fs L root (f_dirs f) (mkLS [] [] c)) as [o|];
  destruct (ref_load (fuel_for fs) fs L root (f_dirs f) [] []) as [r|]; try contradiction; [|exact I].
  destruct R as (A & B & D & E & F). cbn [root_refines o_res o_errs o_st]. split4; assumption.
Qed.

(* ------------------------------------------------------------------------------------------ *)
(* (3) the graph-level facts of Proofs/LoaderGraph.v, for the loader itself, whatever coherent
   cache it starts with *)

Theorem load_root_total fs L c root ov : coherent fs L c -> load_root fs L c root ov <> None.
Proof.
  intros C H. pose proof (load_root_refines fs L c root ov C) as R. rewrite H in R. unfold root_refines in R.
  destruct (ref_root fs L root ov) eqn:E; [exact R|]. exact (ref_root_total fs L root ov E).
Qed.

(* when the root is readable and within the limits the loader returns a result, and that result
   and its diagnostics are the reference traversal's *)
Lemma load_root_runs fs L c root ov f out : coherent fs L c -> root_file fs L root ov f ->
  load_root fs L c root ov = Some out ->
  exists res r, o_res out = Some res /\ ref_root fs L root ov = Some r /\
                r_order res = ro_order r /\ o_errs out = ro_errs r /\ visited (o_st out) = ro_loaded r.
Proof.
  intros C RF H. pose proof (load_root_refines fs L c root ov C) as R. rewrite H in R. unfold root_refines in R.
  destruct (ref_root fs L root ov) as [r|] eqn:E; [|contradiction]. destruct R as (A & B & D & _).
  unfold load_root in H. destruct RF as (Ef & Z & Dp). rewrite Ef, Z, Dp in H.
  destruct (load_wc (fuel_for fs) fs L root (f_dirs f) (mkLS [] [] c)) as [o|]; [|discriminate].
  inversion H; subst out. cbn [o_res o_errs o_st] in *. exists (w_res o), r. repeat split; assumption.
Qed.

Theorem load_root_each_once fs L c root ov f out res : coherent fs L c -> root_file fs L root ov f ->
  load_root fs L c root ov = Some out -> o_res out = Some res ->
  NoDup (r_order res) /\ ~ In root (r_order res).
Proof.
  intros C RF H Hr. destruct (load_root_runs _ _ _ _ _ _ _ C RF H) as (res' & r & E1 & E2 & E3 & _).
  assert (res' = res) by congruence. subst res'. rewrite E3.
  destruct (ref_root_each_once _ _ _ _ _ _ RF E2) as (A & B & _). split; assumption.
Qed.

Theorem load_root_sound fs L c root ov f out : coherent fs L c -> root_file fs L root ov f ->
  load_root fs L c root ov = Some out ->
  (forall res x, o_res out = Some res -> In x (r_order res) -> reach fs (f_dirs f) x /\ exists g, flookup x fs = Some g) /\
  (forall e, In e (o_errs out) ->
     (e_kind e = ENotFound /\ e_target e = 999999) \/
     (attached fs (f_dirs f) (e_target e) (e_line e) /\
      (e_kind e = ECycle -> e_target e = root \/ exists g, flookup (e_target e) fs = Some g /\ reach fs (f_dirs g) (e_target e)))).
Proof.
  intros C RF H. destruct (load_root_runs _ _ _ _ _ _ _ C RF H) as (res' & r & E1 & E2 & E3 & E4 & _).
  destruct (ref_root_sound _ _ _ _ _ _ RF E2) as [A B]. split.
  - intros res x Hr Hx. assert (res' = res) by congruence. subst res'. rewrite E3 in Hx. exact (A x Hx).
  - rewrite E4. exact B.
Qed.

(* every include of the root and of every loaded file is loaded or carries its own diagnostic *)
Theorem load_root_closed fs L c root ov f out res : coherent fs L c -> root_file fs L root ov f ->
  load_root fs L c root ov = Some out -> o_res out = Some res ->
  items_closed (dir_items fs (f_dirs f)) (visited (o_st out)) (o_errs out) /\
  (forall x, In x (r_order res) -> exists g, flookup x fs = Some g /\
     items_closed (dir_items fs (f_dirs g)) (visited (o_st out)) (o_errs out)).
Proof.
  intros C RF H Hr. destruct (load_root_runs _ _ _ _ _ _ _ C RF H) as (res' & r & E1 & E2 & E3 & E4 & E5).
  assert (res' = res) by congruence. subst res'. rewrite E3, E4, E5.
  destruct (ref_root_closed _ _ _ _ _ _ RF E2) as [A B]. split; [exact A|exact B].
Qed.

Theorem load_root_complete fs L c root ov f out res : coherent fs L c -> root_file fs L root ov f ->
  load_root fs L c root ov = Some out -> o_res out = Some res ->
  (forall g, flookup root fs = Some g -> dir_items fs (f_dirs g) = dir_items fs (f_dirs f)) ->
  (forall e, In e (o_errs out) -> e_kind e = ECycle) ->
  forall x, reach fs (f_dirs f) x -> x = root \/ In x (r_order res).
Proof.
  intros C RF H Hr Hroot Hc. destruct (load_root_runs _ _ _ _ _ _ _ C RF H) as (res' & r & E1 & E2 & E3 & E4 & _).
  assert (res' = res) by congruence. subst res'. rewrite E3. rewrite E4 in Hc.
  exact (ref_root_complete _ _ _ _ _ _ RF E2 Hroot Hc).
Qed.

Theorem load_root_no_spurious_cycle fs L c root ov f out : coherent fs L c -> root_file fs L root ov f ->
  load_root fs L c root ov = Some out ->
  ~ reach fs (f_dirs f) root ->
  (forall x g, reach fs (f_dirs f) x -> flookup x fs = Some g -> ~ reach fs (f_dirs g) x) ->
  forall e, In e (o_errs out) -> e_kind e <> ECycle.
Proof.
  intros C RF H Nr Nc. destruct (load_root_runs _ _ _ _ _ _ _ C RF H) as (res' & r & E1 & E2 & E3 & E4 & _).
  rewrite E4. exact (ref_root_no_spurious_cycle _ _ _ _ _ _ RF E2 Nr Nc).
Qed.
