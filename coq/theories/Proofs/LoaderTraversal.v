(* The include traversal of Model/Loader.v for ALL file systems: it never runs out of fuel (every
   recursive call marks a file of the file system that was not marked before), and everything it
   puts into the resolved order is reachable through include directives. *)
From HL Require Import Lib.Bytes Model.Loader.
Open Scope N_scope.

(* files of the file system not yet visited *)
Definition unv (fs : fsys) (vis : list N) : nat := length (filter (fun kv => negb (memN (fst kv) vis)) fs).

Lemma memN_In x l : memN x l = true <-> In x l.
Proof.
  induction l as [|y r IH]; cbn [memN In]; [split; [discriminate|intros []]|].
  rewrite orb_true_iff, IH, N.eqb_eq. split; intros [H|H]; auto.
Qed.

Lemma unv_mono fs v1 v2 : incl v1 v2 -> (unv fs v2 <= unv fs v1)%nat.
Proof.
  intro I. unfold unv. induction fs as [|[k f] r IH]; [cbn; lia|]. cbn [filter fst].
  destruct (memN k v2) eqn:M2; destruct (memN k v1) eqn:M1; cbn [negb length]; try lia.
  exfalso. apply memN_In in M1. apply I in M1. apply memN_In in M1. congruence.
Qed.

Lemma flookup_In {A} k (m : list (N * A)) v : flookup k m = Some v -> In (k, v) m.
Proof.
  induction m as [|[k' v'] r IH]; cbn [flookup]; [discriminate|].
  destruct (k =? k') eqn:E; [apply N.eqb_eq in E; subst; intro H; inversion H; left; reflexivity|intro H; right; auto].
Qed.

Lemma filter_visit_le (r : fsys) q vis :
  (length (filter (fun kv => negb (memN (fst kv) (q :: vis))) r) <= length (filter (fun kv => negb (memN (fst kv) vis)) r))%nat.
Proof.
  induction r as [|[k g] r IH]; [cbn; lia|]. cbn [filter fst].
  change (memN k (q :: vis)) with ((k =? q) || memN k vis).
  destruct (k =? q); destruct (memN k vis); cbn [orb negb length]; lia.
Qed.

Lemma unv_visit fs vis q f : flookup q fs = Some f -> memN q vis = false -> (unv fs (q :: vis) < unv fs vis)%nat.
Proof.
  intros L M. apply flookup_In in L. unfold unv. induction fs as [|[k g] r IH]; [destruct L|].
  destruct L as [E|L].
  - inversion E; subst. cbn [filter fst]. change (memN q (q :: vis)) with ((q =? q) || memN q vis).
    rewrite N.eqb_refl, M. cbn [orb negb length].
    pose proof (filter_visit_le r q vis) as H. lia.
  - specialize (IH L). cbn [filter fst]. change (memN k (q :: vis)) with ((k =? q) || memN k vis).
    destruct (k =? q); destruct (memN k vis); cbn [orb negb length]; lia.
Qed.

Lemma unv_le_length fs vis : (unv fs vis <= length fs)%nat.
Proof. unfold unv. induction fs as [|x r IH]; [cbn; lia|]. cbn [filter]. destruct (negb _); cbn [length]; lia. Qed.

(* the traversal never runs out of fuel, and only adds to the visited set *)
Lemma load_wc_total fs L : forall fuel p dirs st, (unv fs (p :: visited st) < fuel)%nat ->
  exists out, load_wc fuel fs L p dirs st = Some out /\ incl (visited st) (visited (o_st out)).
Proof.
  induction fuel as [|fuel IH]; intros p dirs st H; [lia|].
  cbn [load_wc]. destruct (max_depth L <=? N.of_nat (length (visited st))).
  { eexists. split; [reflexivity|]. cbn [o_st]. apply incl_refl. }
  set (st0 := mkLS (p :: visited st) (cache st)).
  assert (B0 : (unv fs (visited st0) <= fuel)%nat) by (cbn [st0 visited]; lia).
  assert (I0 : incl (visited st) (visited st0)) by (cbn [st0 visited]; apply incl_tl, incl_refl).
  match goal with |- context [?g (dir_items fs dirs) (mkRes [] []) [] st0 [] []] => set (GO := g) end.
  assert (G : forall items res errs st1 hits seen, (unv fs (visited st1) <= fuel)%nat -> incl (visited st) (visited st1) ->
              exists out, GO items res errs st1 hits seen = Some out /\ incl (visited st) (visited (o_st out))).
  { induction items as [|[line oq] rest IHi]; intros res errs st1 hits seen B I.
    - eexists. split; [reflexivity|]. exact I.
    - unfold GO. cbn beta iota. fold GO.
      destruct oq as [q|]; [|apply IHi; assumption].
      destruct (memN q (visited st1)) eqn:Mq; [apply IHi; assumption|].
      destruct (flookup q (cache st1)) as [cf|]; [apply IHi; assumption|].
      destruct (flookup q fs) as [f|] eqn:Fq; [|apply IHi; assumption].
      destruct (max_size L <? f_size f); [apply IHi; assumption|].
      pose proof (unv_visit fs (visited st1) q f Fq Mq) as Dec.
      destruct (IH q (f_dirs f) st1 ltac:(lia)) as (sub & Es & Is). rewrite Es.
      destruct (o_res sub) as [sr|].
      + apply IHi.
        * cbn [visited]. pose proof (unv_mono fs _ _ Is). lia.
        * cbn [visited]. eapply incl_tran; [exact I|exact Is].
      + apply IHi.
        * pose proof (unv_mono fs _ _ Is). lia.
        * eapply incl_tran; [exact I|exact Is]. }
  apply G; assumption.
Qed.

Theorem load_root_total fs L c root ov : load_root fs L c root ov <> None.
Proof.
  unfold load_root. destruct (match ov with Some f => Some f | None => flookup root fs end) as [f|]; [|discriminate].
  destruct (max_size L <? f_size f); [discriminate|].
  destruct (load_wc_total fs L (fuel_for fs) root (f_dirs f) (mkLS [] c)) as (out & E & _).
  { unfold fuel_for. pose proof (unv_le_length fs [root]). cbn [visited]. lia. }
  rewrite E. discriminate.
Qed.

(* x is named by a directive of `dirs`, or by a directive of a file so reachable (as read from fs) *)
Inductive reach (fs : fsys) : list directive -> N -> Prop :=
| reach_direct dirs q line : In (line, Some q) (dir_items fs dirs) -> reach fs dirs q
| reach_via dirs q f x line : In (line, Some q) (dir_items fs dirs) -> flookup q fs = Some f ->
    reach fs (f_dirs f) x -> reach fs dirs x.

(* soundness: whatever the cache and the limits, every file in the resolved order is reachable
   through include directives from the journal being loaded *)
Lemma load_wc_sound fs L : forall fuel p dirs st out r,
  load_wc fuel fs L p dirs st = Some out -> o_res out = Some r -> forall x, In x (r_order r) -> reach fs dirs x.
Proof.
  induction fuel as [|fuel IH]; intros p dirs st out r H; [discriminate|].
  cbn [load_wc] in H. destruct (max_depth L <=? N.of_nat (length (visited st))).
  { inversion H; subst. cbn [o_res]. discriminate. }
  set (st0 := mkLS (p :: visited st) (cache st)) in H.
  match type of H with context [?g (dir_items fs dirs) (mkRes [] []) [] st0 [] []] => set (GO := g) in H end.
  assert (G : forall items res errs st1 hits seen out r,
              incl items (dir_items fs dirs) -> (forall x, In x (r_order res) -> reach fs dirs x) ->
              GO items res errs st1 hits seen = Some out -> o_res out = Some r ->
              forall x, In x (r_order r) -> reach fs dirs x).
  { clear H. induction items as [|[line oq] rest IHi]; intros res errs st1 hits seen o r0 Inc Hres HG Hr.
    - inversion HG; subst. cbn [o_res] in Hr. inversion Hr; subst. exact Hres.
    - assert (Inc' : incl rest (dir_items fs dirs)) by (intros y Iy; apply Inc; right; exact Iy).
      assert (Here : forall q, oq = Some q -> In (line, Some q) (dir_items fs dirs)) by (intros q E; subst; apply Inc; left; reflexivity).
      unfold GO in HG. cbn beta iota in HG. fold GO in HG.
      destruct oq as [q|]; [|eapply IHi; eauto].
      destruct (memN q (visited st1)); [eapply IHi; eauto|].
      destruct (flookup q (cache st1)) as [cf|].
      { eapply IHi; [exact Inc'| |exact HG|exact Hr]. cbn [r_order]. intros x Ix. apply in_app_or in Ix as [Ix|[E|[]]]; [auto|].
        subst x. eapply reach_direct. apply Here. reflexivity. }
      destruct (flookup q fs) as [f|] eqn:Fq; [|eapply IHi; eauto].
      destruct (max_size L <? f_size f); [eapply IHi; eauto|].
      destruct (load_wc fuel fs L q (f_dirs f) st1) as [sub|] eqn:Es; [|discriminate].
      destruct (o_res sub) as [sr|] eqn:Er; [|eapply IHi; eauto].
      eapply IHi; [exact Inc'| |exact HG|exact Hr]. cbn [r_order]. intros x Ix.
      apply in_app_or in Ix as [Ix|[E|Ix]]; [auto| |].
      + subst x. eapply reach_direct. apply Here. reflexivity.
      + eapply reach_via; [apply Here; reflexivity|exact Fq|]. eapply IH; eauto. }
  intros Hr x Ix. eapply (G _ _ _ _ _ _ out r (incl_refl _)); [|exact H|exact Hr|exact Ix]. intros y [].
Qed.

Theorem load_root_sound fs L c root ov out r f :
  match ov with Some g => Some g | None => flookup root fs end = Some f ->
  load_root fs L c root ov = Some out -> o_res out = Some r ->
  forall x, In x (r_order r) -> reach fs (f_dirs f) x.
Proof.
  intros Ef H Hr x Ix. unfold load_root in H. rewrite Ef in H.
  destruct (max_size L <? f_size f); [inversion H; subst; discriminate|].
  eapply load_wc_sound; eauto.
Qed.

