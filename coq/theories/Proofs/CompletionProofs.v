(* C16: theorems about the filtering / ranking / truncation core of completion. *)
From Coq Require Import Sorting.Permutation Sorting.Sorted.
From HL Require Import Lib.Bytes Lib.Utf8 Lib.UnicodeTables Model.Lexer Model.Parser Proofs.OrderProofs Model.Completion.
From Coq Require Import ZifyN ZifyNat ZifyBool.
Open Scope Z_scope.

(* ---------- bounded, monotone ---------- *)
Lemma core_bounded labels counts q fuzzy maxr :
  0 < maxr -> Z.of_nat (length (complete_core labels counts q fuzzy maxr)) <= maxr.
Proof.
  intro H. unfold complete_core. set (ranked := rank (filter_score labels q fuzzy) counts).
  destruct ((0 <? maxr) && (maxr <? Z.of_nat (length ranked))) eqn:E.
  - rewrite firstn_length. lia.
  - lia.
Qed.

Lemma firstn_all_ge {A} (l : list A) n : (length l <= n)%nat -> firstn n l = l.
Proof. intro H. apply firstn_all2. exact H. Qed.

Lemma core_monotone labels counts q fuzzy m m' :
  0 < m -> m <= m' ->
  complete_core labels counts q fuzzy m = firstn (Z.to_nat m) (complete_core labels counts q fuzzy m').
Proof.
  intros H0 Hle. unfold complete_core. set (ranked := rank (filter_score labels q fuzzy) counts).
  destruct ((0 <? m) && (m <? Z.of_nat (length ranked))) eqn:E1;
  destruct ((0 <? m') && (m' <? Z.of_nat (length ranked))) eqn:E2.
  - rewrite firstn_firstn. f_equal. lia.
  - reflexivity.
  - exfalso. lia.
  - symmetry. apply firstn_all_ge. lia.
Qed.

(* ---------- soundness ---------- *)
Fixpoint subseq (p s : list N) : Prop :=
  match p, s with
  | [], _ => True
  | _ :: _, [] => False
  | x :: p', y :: s' => (x = y /\ subseq p' s') \/ subseq p s'
  end.

Lemma subseq_nil_l s : subseq [] s.
Proof. destruct s; exact I. Qed.

Lemma subseq_nil_r p : subseq p [] -> p = [].
Proof. destruct p; [reflexivity|intros []]. Qed.

(* if the matching loop exhausts the pattern, the pattern is a subsequence of the text *)
Lemma fms_subseq : forall text pat first prev pm cb score s,
  fms_loop text pat first prev pm cb score = (s, []) -> subseq pat text.
Proof.
  induction text as [|t text IH]; intros pat first prev pm cb score s H.
  - destruct pat; cbn [fms_loop] in H; [apply subseq_nil_l|inversion H].
  - destruct pat as [|p pat]; [apply subseq_nil_l|]. cbn [fms_loop] in H. cbn [subseq].
    destruct (t =? p)%N eqn:E.
    + left. split; [lia|]. destruct pm.
      * eapply IH. exact H.
      * eapply IH. exact H.
    + right. eapply IH. exact H.
Qed.

Lemma fuzzy_score_pos_subseq text pattern :
  0 < fuzzy_score text pattern -> subseq (lower_runes pattern) (lower_runes text).
Proof.
  unfold fuzzy_score. destruct pattern as [|c r]; [intros _; apply subseq_nil_l|].
  destruct (fms_loop (lower_runes text) (lower_runes (c :: r)) true 0%N true 0 0) as [s rest] eqn:E.
  destruct rest; [intros _; eapply fms_subseq; exact E|lia].
Qed.

Lemma in_firstn {A} (x : A) n l : In x (firstn n l) -> In x l.
Proof. revert l. induction n as [|n IH]; intros l H; [destruct H|]. destruct l; [destruct H|]. destruct H as [->|H]; [left; reflexivity|right; apply IH; exact H]. Qed.

Lemma split_on_nonempty sep s cur : split_on sep s cur <> [].
Proof. revert cur. induction s as [|x r IH]; intro cur; cbn [split_on]; [discriminate|]. destruct (x =? sep)%N; [discriminate|apply IH]. Qed.

(* what a kept item satisfies *)
Definition matches (fuzzy : bool) (query label : list N) : Prop :=
  query = [] \/
  (fuzzy = false /\ runes_prefix (lower_runes query) (lower_runes label) = true) \/
  (fuzzy = true /\
   (subseq (lower_runes query) (lower_runes label) \/
    exists seg, In seg (split_byte 58 label) /\ subseq (lower_runes (trim_suffix_colon query)) (lower_runes seg))).

Lemma seg_best_pos segs pattern : forall best, 0 <= best ->
  best < fold_left (fun b seg => let s := fuzzy_score seg pattern in if b <? s then s else b) segs best ->
  exists seg, In seg segs /\ 0 < fuzzy_score seg pattern.
Proof.
  induction segs as [|sg segs IH]; intros best Hb H; cbn [fold_left] in H; [lia|].
  cbv zeta in H. destruct (best <? fuzzy_score sg pattern) eqn:E.
  - exists sg. split; [left; reflexivity|lia].
  - destruct (IH best Hb H) as (seg & Hin & Hp). exists seg. split; [right; exact Hin|exact Hp].
Qed.

Lemma filter_score_sound labels query fuzzy l s :
  In (l, s) (filter_score labels query fuzzy) -> In l labels /\ matches fuzzy query l.
Proof.
  unfold filter_score. destruct query as [|c q].
  - intro H. apply in_map_iff in H as (x & Hx & Hin). inversion Hx; subst. split; [exact Hin|left; reflexivity].
  - destruct fuzzy; cbn [negb].
    + intro H. apply in_flat_map in H as (x & Hin & Hx). cbv zeta in Hx.
      destruct (0 <? (if contains_byte 58 x then fuzzy_score_segments x (trim_suffix_colon (c :: q)) else 0)) eqn:E1.
      * destruct Hx as [Hx|[]]. inversion Hx; subst. split; [exact Hin|]. right. right. split; [reflexivity|]. right.
        destruct (contains_byte 58 l); [|lia].
        unfold fuzzy_score_segments in E1. destruct (trim_suffix_colon (c :: q)) as [|c' q'] eqn:Et.
        -- destruct (split_byte 58 l) as [|sg sgs] eqn:Es; [exfalso; exact (split_on_nonempty 58 l [] Es)|].
           exists sg. split; [left; reflexivity|apply subseq_nil_l].
        -- assert (Hlt : 0 < fold_left (fun b seg => let s := fuzzy_score seg (c' :: q') in if b <? s then s else b) (split_byte 58 l) 0) by (apply Z.ltb_lt in E1; exact E1).
           destruct (seg_best_pos _ _ 0 (Z.le_refl 0) Hlt) as (seg & Hs & Hp).
           exists seg. split; [exact Hs|apply fuzzy_score_pos_subseq; exact Hp].
      * destruct (0 <? fuzzy_score x (c :: q)) eqn:E2; [|destruct Hx].
        destruct Hx as [Hx|[]]. inversion Hx; subst. split; [exact Hin|]. right. right. split; [reflexivity|]. left.
        apply fuzzy_score_pos_subseq. lia.
    + intro H. apply in_flat_map in H as (x & Hin & Hx).
      destruct (runes_prefix (lower_runes (c :: q)) (lower_runes x)) eqn:E; [|destruct Hx].
      destruct Hx as [Hx|[]]. inversion Hx; subst. split; [exact Hin|]. right. left. auto.
Qed.

Lemma rank_in scored counts l : In l (rank scored counts) -> exists s, In (l, s) scored.
Proof.
  unfold rank. intro H. apply in_map_iff in H as ([[sc cn] lb] & Hx & Hin). cbn in Hx. subst lb.
  apply (Permutation_in _ (Permutation_sym (isort_perm _ rank_ltb _))) in Hin.
  apply in_map_iff in Hin as ([l' s'] & Hy & Hin'). inversion Hy; subst. exists s'. exact Hin'.
Qed.

(* C16_sound: every offered name exists among the candidates and matches the typed fragment *)
Theorem core_sound labels counts q fuzzy maxr l :
  In l (complete_core labels counts q fuzzy maxr) -> In l labels /\ matches fuzzy q l.
Proof.
  unfold complete_core. intro H.
  assert (Hr : In l (rank (filter_score labels q fuzzy) counts)).
  { destruct ((0 <? maxr) && (maxr <? Z.of_nat (length (rank (filter_score labels q fuzzy) counts)))).
    - eapply in_firstn. exact H.
    - exact H. }
  destruct (rank_in _ _ _ Hr) as (s & Hs). eapply filter_score_sound. exact Hs.
Qed.

(* ---------- prefix completeness ---------- *)
Lemma fms_prefix : forall pat text first prev pm cb score,
  runes_prefix pat text = true -> 0 <= cb -> 0 <= score ->
  exists s, fms_loop text pat first prev pm cb score = (s, []) /\ score + 10 * Z.of_nat (length pat) <= s.
Proof.
  induction pat as [|p pat IH]; intros text first prev pm cb score Hp Hc Hs.
  - exists score. split; [destruct text; reflexivity|cbn; lia].
  - destruct text as [|t text]; [discriminate Hp|]. cbn [runes_prefix] in Hp.
    apply andb_true_iff in Hp as [Ht Hp]. cbn [fms_loop].
    assert (E : (t =? p)%N = true) by lia. rewrite E.
    destruct pm.
    + set (sc := if first || (prev =? 58)%N then score + 10 + (cb + 5) + 15 else score + 10 + (cb + 5)).
      destruct (IH text false t true (cb + 5) sc Hp) as (s & Hs1 & Hs2); [lia|unfold sc; destruct (first || (prev =? 58)%N); lia|].
      exists s. split; [exact Hs1|]. unfold sc in Hs2. cbn [length]. destruct (first || (prev =? 58)%N); lia.
    + set (sc := if first || (prev =? 58)%N then score + 10 + 15 else score + 10).
      destruct (IH text false t true 0 sc Hp) as (s & Hs1 & Hs2); [lia|unfold sc; destruct (first || (prev =? 58)%N); lia|].
      exists s. split; [exact Hs1|]. unfold sc in Hs2. cbn [length]. destruct (first || (prev =? 58)%N); lia.
Qed.

Lemma lower_runes_nonempty c q : lower_runes (c :: q) <> [].
Proof. unfold lower_runes. cbn [runes_of]. destruct (decode (c :: q)). cbn [map]. discriminate. Qed.

Lemma prefix_scores_positive l c q :
  runes_prefix (lower_runes (c :: q)) (lower_runes l) = true -> 0 < fuzzy_score l (c :: q).
Proof.
  intro H. unfold fuzzy_score.
  destruct (fms_prefix _ _ true 0%N true 0 0 H (Z.le_refl 0) (Z.le_refl 0)) as (s & Hs1 & Hs2).
  rewrite Hs1. pose proof (lower_runes_nonempty c q) as Hne.
  destruct (lower_runes (c :: q)) as [|x r]; [contradiction|]. cbn [length] in Hs2. lia.
Qed.

Lemma filter_score_complete labels query fuzzy l :
  In l labels -> runes_prefix (lower_runes query) (lower_runes l) = true ->
  exists s, In (l, s) (filter_score labels query fuzzy).
Proof.
  intros Hin Hp. unfold filter_score. destruct query as [|c q].
  - exists 1000. apply in_map_iff. exists l. auto.
  - destruct fuzzy; cbn [negb].
    + cbv zeta.
      destruct (0 <? (if contains_byte 58 l then fuzzy_score_segments l (trim_suffix_colon (c :: q)) else 0)) eqn:E1.
      * eexists. apply in_flat_map. exists l. split; [exact Hin|]. cbv zeta. rewrite E1. left. reflexivity.
      * exists (fuzzy_score l (c :: q)). apply in_flat_map. exists l. split; [exact Hin|]. cbv zeta. rewrite E1.
        pose proof (prefix_scores_positive l c q Hp) as P.
        assert (E2 : (0 <? fuzzy_score l (c :: q)) = true) by lia. rewrite E2. left. reflexivity.
    + exists 1000. apply in_flat_map. exists l. split; [exact Hin|]. rewrite Hp. left. reflexivity.
Qed.

Lemma rank_keeps scored counts l s : In (l, s) scored -> In l (rank scored counts).
Proof.
  intro H. unfold rank. apply in_map_iff.
  exists ((Z.to_N s, Z.to_N (count_of counts l)), l). split; [reflexivity|].
  apply (Permutation_in _ (isort_perm _ rank_ltb _)). apply in_map_iff. exists (l, s). split; [reflexivity|exact H].
Qed.

(* C16_prefix_complete: every candidate that starts with the typed fragment (case-insensitively)
   is in the list before truncation, with fuzzy matching on or off *)
Theorem core_prefix_complete labels counts q fuzzy l :
  In l labels -> runes_prefix (lower_runes q) (lower_runes l) = true ->
  In l (rank (filter_score labels q fuzzy) counts).
Proof.
  intros Hin Hp. destruct (filter_score_complete labels q fuzzy l Hin Hp) as (s & Hs). eapply rank_keeps. exact Hs.
Qed.

(* and when the limit does not cut the list, in the answer *)
Corollary core_prefix_complete_untruncated labels counts q fuzzy maxr l :
  Z.of_nat (length (rank (filter_score labels q fuzzy) counts)) <= maxr ->
  In l labels -> runes_prefix (lower_runes q) (lower_runes l) = true ->
  In l (complete_core labels counts q fuzzy maxr).
Proof.
  intros Hm Hin Hp. unfold complete_core.
  assert (E : (0 <? maxr) && (maxr <? Z.of_nat (length (rank (filter_score labels q fuzzy) counts))) = false) by lia.
  rewrite E. apply core_prefix_complete; assumption.
Qed.

(* ---------- frequency ranking with nothing typed ---------- *)
Lemma sorted_counts (l : list (N * N * list N)) :
  StronglySorted (lt _ rank_ltb) l -> (forall x, In x l -> fst (fst x) = 1000%N) ->
  StronglySorted (fun a b => (snd (fst b) <= snd (fst a))%N) l.
Proof.
  induction 1 as [|a l Hs IH Hall]; intro Hsc; [constructor|].
  constructor; [apply IH; intros x Hx; apply Hsc; right; exact Hx|].
  rewrite Forall_forall in *. intros b Hb. specialize (Hall b Hb). unfold lt, rank_ltb in Hall.
  pose proof (Hsc a (or_introl eq_refl)) as Ha. pose proof (Hsc b (or_intror Hb)) as Hb'.
  destruct a as [[sa ca] la], b as [[sb cb] lb]. cbn [fst snd] in *. subst sa sb.
  rewrite N.ltb_irrefl in Hall. destruct (cb <? ca)%N eqn:E1; [lia|]. destruct (ca <? cb)%N eqn:E2; [discriminate|lia].
Qed.

Lemma strongly_sorted_map {A B} (f : A -> B) (R : B -> B -> Prop) l :
  StronglySorted (fun a b => R (f a) (f b)) l -> StronglySorted R (map f l).
Proof.
  induction 1 as [|a l Hs IH Hall]; cbn [map]; constructor; [exact IH|].
  rewrite Forall_forall in *. intros y Hy. apply in_map_iff in Hy as (x & <- & Hx). apply Hall. exact Hx.
Qed.

Lemma nodup_map_inj {A B} (f : A -> B) l : (forall x y, f x = f y -> x = y) -> NoDup l -> NoDup (map f l).
Proof.
  intros Hinj. induction 1 as [|x l Hn Hd IH]; cbn [map]; constructor; [|exact IH].
  intro H. apply in_map_iff in H as (y & Hy & Hin). apply Hinj in Hy. subst. contradiction.
Qed.

(* C16_ranked: with an empty fragment the ranked list is ordered by non-increasing usage count *)
Theorem core_ranked labels counts fuzzy :
  NoDup labels ->
  StronglySorted (fun a b => (Z.to_N (count_of counts b) <= Z.to_N (count_of counts a))%N)
                 (rank (filter_score labels [] fuzzy) counts).
Proof.
  intro Hnd. unfold rank, filter_score. rewrite map_map. cbn [fst snd].
  set (keyed := map (fun x : list N => (Z.to_N 1000, Z.to_N (count_of counts x), x)) labels).
  assert (Hk : NoDup keyed).
  { unfold keyed. apply nodup_map_inj; [|exact Hnd]. intros x y H. inversion H. reflexivity. }
  pose proof (isort_sorted _ rank_ltb rank_trans rank_total keyed Hk) as Hs.
  assert (Hall : forall x, In x (isort _ rank_ltb keyed) -> fst (fst x) = 1000%N).
  { intros x Hx. apply (Permutation_in _ (Permutation_sym (isort_perm _ rank_ltb keyed))) in Hx.
    unfold keyed in Hx. apply in_map_iff in Hx as (y & <- & _). reflexivity. }
  pose proof (sorted_counts _ Hs Hall) as Hc.
  apply strongly_sorted_map.
  assert (Hk2 : forall x, In x (isort _ rank_ltb keyed) -> snd (fst x) = Z.to_N (count_of counts (snd x))).
  { intros x Hx. apply (Permutation_in _ (Permutation_sym (isort_perm _ rank_ltb keyed))) in Hx.
    unfold keyed in Hx. apply in_map_iff in Hx as (y & <- & _). reflexivity. }
  clear -Hc Hk2. induction Hc as [|a l Hs IH Hall]; constructor.
  - apply IH. intros x Hx. apply Hk2. right. exact Hx.
  - rewrite Forall_forall in *. intros b Hb. specialize (Hall b Hb).
    rewrite <- (Hk2 a (or_introl eq_refl)), <- (Hk2 b (or_intror Hb)). exact Hall.
Qed.
