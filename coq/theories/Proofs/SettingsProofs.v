(* Proofs about the settings model (C19). *)
From HL Require Import Lib.Bytes Model.Settings Spec.SettingsSpec.
Open Scope Z_scope.

(* ---- get/set laws ---- *)
Definition val_fits (f : field) (v : sval) : bool :=
  match get f default_settings, v with
  | VB _, VB _ | VZ _, VZ _ | VS _, VS _ => true
  | _, _ => false
  end.

Definition kind_fits (k : kind) (f : field) : bool :=
  match k, get f default_settings with
  | KBool, VB _ | KInt, VZ _ | KDur, VZ _ | KStr, VS _ => true
  | _, _ => false
  end.

Lemma get_set_same f v s : val_fits f v = true -> get f (set f v s) = v.
Proof. destruct s, f, v; cbn; intros H; try discriminate H; reflexivity. Qed.

Lemma get_set_other f g v s : field_eqb f g = false -> get f (set g v s) = get f s.
Proof. destruct s, f, g; cbn; intros H; try discriminate H; reflexivity. Qed.

Lemma field_eqb_eq f g : field_eqb f g = true <-> f = g.
Proof. destruct f, g; cbn; split; intro H; try reflexivity; try discriminate H. Qed.

Lemma conv_fits k f j v : kind_fits k f = true -> conv k j = Some v -> val_fits f v = true.
Proof.
  unfold kind_fits, val_fits. destruct k; cbn [conv]; intros Hk Hc;
    destruct (get f default_settings); try discriminate Hk;
    [ destruct (to_bool j) | destruct (to_int j) | destruct (to_string j) | destruct (to_int j) ];
    cbn in Hc; inversion Hc; reflexivity.
Qed.

Lemma table_kinds : forallb (fun e => kind_fits (snd (fst e)) (snd e)) table = true.
Proof. vm_compute. reflexivity. Qed.

(* ---- the fold over any table computes "last well-typed offer wins, else unchanged" ---- *)
Definition offered_in (t : list entry) (f : field) (o : list (list N * json)) : option sval :=
  last_some (map (fun e => conv (snd (fst e)) (read_source (fst (fst e)) o))
                 (filter (fun e => field_eqb (snd e) f) t)).

Lemma fold_apply_get (t : list entry) (o : list (list N * json)) :
  forallb (fun e => kind_fits (snd (fst e)) (snd e)) t = true ->
  forall f s,
    get f (fold_left (apply_entry o) t s) =
    match offered_in t f o with Some v => v | None => get f s end.
Proof.
  induction t as [|[[src k] g] t IH]; intros Hk f s.
  - reflexivity.
  - cbn [forallb] in Hk. apply andb_true_iff in Hk as [Hk1 Hk2]. cbn [fst snd] in Hk1.
    cbn [fold_left]. rewrite (IH Hk2). unfold offered_in. cbn [filter snd].
    destruct (field_eqb g f) eqn:E.
    + apply field_eqb_eq in E. subst g. cbn [map last_some fst snd].
      fold (offered_in t f o). destruct (offered_in t f o) as [v|]; [reflexivity|].
      unfold apply_entry. destruct (conv k (read_source src o)) as [v|] eqn:Ec; [|reflexivity].
      apply get_set_same. eapply conv_fits; eassumption.
    + fold (offered_in t f o). destruct (offered_in t f o) as [v|]; [reflexivity|].
      unfold apply_entry. destruct (conv k (read_source src o)) as [v|]; [|reflexivity].
      apply get_set_other. destruct (field_eqb f g) eqn:E'; [|reflexivity].
      apply field_eqb_eq in E'. subst. destruct g; discriminate E.
Qed.

Lemma apply_settings_map_get f s o :
  get f (apply_settings_map s o) = match offered f o with Some v => v | None => get f s end.
Proof. unfold apply_settings_map. rewrite (fold_apply_get table o table_kinds). reflexivity. Qed.

(* ---- normalisation, field by field ---- *)
Lemma normalize_get f s : get f (normalize s) = norm_field f (get f s).
Proof.
  destruct s as [a1 a2 a3 a4 a5 a6 a7 a8 a9 a10 b1 b2 b3 c1 c2 c3 d1 d2 d3 e1 e2 e3 g1 g2].
  unfold normalize. cbn [c_max fmt_indent cli_path cli_timeout lim_size lim_depth].
  destruct (b1 <=? 0) eqn:H1; cbn [set c_max fmt_indent cli_path cli_timeout lim_size lim_depth asZ asS asB default_settings];
  destruct (d1 <=? 0) eqn:H2; cbn [set c_max fmt_indent cli_path cli_timeout lim_size lim_depth asZ asS asB default_settings];
  destruct e2 as [|c e2]; cbn [set c_max fmt_indent cli_path cli_timeout lim_size lim_depth asZ asS asB default_settings];
  destruct (e3 <=? 0) eqn:H4; cbn [set c_max fmt_indent cli_path cli_timeout lim_size lim_depth asZ asS asB default_settings];
  destruct (g1 <=? 0) eqn:H5; cbn [set c_max fmt_indent cli_path cli_timeout lim_size lim_depth asZ asS asB default_settings];
  destruct (g2 <=? 0) eqn:H6; cbn [set c_max fmt_indent cli_path cli_timeout lim_size lim_depth asZ asS asB default_settings];
  destruct f; cbn [get norm_field c_max fmt_indent cli_path cli_timeout lim_size lim_depth
                   f_hover f_completion f_formatting f_diagnostics f_semantic f_codeactions f_folding
                   f_links f_wssymbol f_inline c_fuzzy c_counts d_accounts d_commodities d_unbalanced
                   fmt_align fmt_mincol cli_enabled];
  rewrite ?H1, ?H2, ?H4, ?H5, ?H6; reflexivity.
Qed.

Lemma norm_field_idem f v : norm_field f (norm_field f v) = norm_field f v.
Proof.
  destruct f, v as [x|z|[|c r]]; cbn [norm_field]; try reflexivity;
    destruct (z <=? 0) eqn:E; cbn [norm_field]; try rewrite E; reflexivity.
Qed.

Lemma settings_ext s t : (forall f, get f s = get f t) -> s = t.
Proof.
  intros H. destruct s, t.
  pose proof (H FHover) as H1; pose proof (H FCompletion) as H2; pose proof (H FFormatting) as H3;
  pose proof (H FDiagnostics) as H4; pose proof (H FSemantic) as H5; pose proof (H FCodeActions) as H6;
  pose proof (H FFolding) as H7; pose proof (H FLinks) as H8; pose proof (H FWsSymbol) as H9;
  pose proof (H FInline) as H10; pose proof (H CMax) as H11; pose proof (H CFuzzy) as H12;
  pose proof (H CCounts) as H13; pose proof (H DAccounts) as H14; pose proof (H DCommodities) as H15;
  pose proof (H DUnbalanced) as H16; pose proof (H FmtIndent) as H17; pose proof (H FmtAlign) as H18;
  pose proof (H FmtMinCol) as H19; pose proof (H CliEnabled) as H20; pose proof (H CliPath) as H21;
  pose proof (H CliTimeout) as H22; pose proof (H LimSize) as H23; pose proof (H LimDepth) as H24.
  cbn in *.
  repeat match goal with
  | Hx : VB _ = VB _ |- _ => injection Hx as Hx; subst
  | Hx : VZ _ = VZ _ |- _ => injection Hx as Hx; subst
  | Hx : VS _ = VS _ |- _ => injection Hx as Hx; subst
  end.
  reflexivity.
Qed.

Lemma normalize_idem s : normalize (normalize s) = normalize s.
Proof. apply settings_ext. intro f. rewrite !normalize_get. apply norm_field_idem. Qed.

(* normalised = all six guarded fields positive / non-empty *)
Lemma normalize_normalized s : normalized (normalize s).
Proof.
  unfold normalized.
  pose proof (normalize_get CMax s) as H1. pose proof (normalize_get FmtIndent s) as H2.
  pose proof (normalize_get CliPath s) as H3. pose proof (normalize_get CliTimeout s) as H4.
  pose proof (normalize_get LimSize s) as H5. pose proof (normalize_get LimDepth s) as H6.
  cbn [get norm_field] in *.
  repeat split.
  - destruct (c_max s <=? 0) eqn:E; inversion H1; lia.
  - destruct (fmt_indent s <=? 0) eqn:E; inversion H2; lia.
  - destruct (cli_path s) eqn:E; inversion H3 as [H]; rewrite H; discriminate.
  - destruct (cli_timeout s <=? 0) eqn:E; inversion H4; lia.
  - destruct (lim_size s <=? 0) eqn:E; inversion H5; lia.
  - destruct (lim_depth s <=? 0) eqn:E; inversion H6; lia.
Qed.

Lemma normalized_fix s : normalized s -> normalize s = s.
Proof.
  intros (H1 & H2 & H3 & H4 & H5 & H6). apply settings_ext. intro f. rewrite normalize_get.
  destruct f; cbn [get norm_field]; try reflexivity.
  - destruct (c_max s <=? 0) eqn:E; [lia|reflexivity].
  - destruct (fmt_indent s <=? 0) eqn:E; [lia|reflexivity].
  - destruct (cli_path s); [contradiction|reflexivity].
  - destruct (cli_timeout s <=? 0) eqn:E; [lia|reflexivity].
  - destruct (lim_size s <=? 0) eqn:E; [lia|reflexivity].
  - destruct (lim_depth s <=? 0) eqn:E; [lia|reflexivity].
Qed.

(* ---- fuel: the depth of the payload always suffices ---- *)
Lemma alookup_last_depth k (o : list (list N * json)) v :
  alookup_last k o = Some v ->
  (jdepth v <= fold_right (fun kv acc => Nat.max (jdepth (snd kv)) acc) O o)%nat.
Proof.
  induction o as [|[k' v'] o IH]; cbn [alookup_last fold_right snd]; intro H; [discriminate|].
  destruct (alookup_last k o) as [w|] eqn:E.
  - inversion H; subst. specialize (IH eq_refl). lia.
  - destruct (beq k k'); inversion H; subst. lia.
Qed.

Lemma parse_fuel_enough fuel base raw :
  (jdepth raw <= fuel)%nat -> exists s, parse_fuel fuel base raw = Some s.
Proof.
  revert raw. induction fuel as [|n IH]; intros raw Hd.
  - destruct raw as [| | | | |o]; cbn [parse_fuel]; try (eexists; reflexivity).
    cbn [jdepth] in Hd. lia.
  - destruct raw as [| | | | |o]; cbn [parse_fuel]; try (eexists; reflexivity).
    destruct (alookup_last (bs "hledger") o) as [nested|] eqn:E; [|eexists; reflexivity].
    apply IH. apply alookup_last_depth in E. cbn [jdepth] in Hd. lia.
Qed.

Lemma parse_fuel_mono fuel base raw s :
  parse_fuel fuel base raw = Some s -> forall fuel', (fuel <= fuel')%nat -> parse_fuel fuel' base raw = Some s.
Proof.
  revert raw. induction fuel as [|n IH]; intros raw H fuel' Hle.
  - destruct raw as [| | | | |o]; cbn [parse_fuel] in *; destruct fuel'; cbn [parse_fuel]; try exact H.
    destruct (alookup_last (bs "hledger") o); [discriminate|exact H].
  - destruct fuel' as [|m]; [lia|].
    destruct raw as [| | | | |o]; cbn [parse_fuel] in *; try exact H.
    destruct (alookup_last (bs "hledger") o); [|exact H]. apply IH; [exact H|lia].
Qed.

Lemma unwrap_parse fuel base raw :
  parse_fuel fuel base raw =
  match unwrap fuel raw with
  | Some (JObj o) => Some (normalize (apply_settings_map base o))
  | Some _ => Some (normalize base)
  | None => None
  end.
Proof.
  revert raw. induction fuel as [|n IH]; intros raw;
    destruct raw as [| | | | |o]; cbn [parse_fuel unwrap]; try reflexivity.
  - destruct (alookup_last (bs "hledger") o); reflexivity.
  - destruct (alookup_last (bs "hledger") o) as [nested|] eqn:E; [apply IH|reflexivity].
Qed.

(* ---- main characterisation: the parse equals the per-field specification ---- *)
Lemma parse_settings_spec f base raw :
  get f (parse_settings base raw) = spec_payload f base raw.
Proof.
  unfold parse_settings, spec_payload. rewrite unwrap_parse.
  destruct (parse_fuel_enough (jdepth raw) base raw (le_n _)) as [s Hs].
  rewrite unwrap_parse in Hs.
  destruct (unwrap (jdepth raw) raw) as [[| | | | |o]|]; try discriminate Hs;
    try (rewrite normalize_get; reflexivity).
  rewrite normalize_get, apply_settings_map_get. reflexivity.
Qed.

Lemma cfg_step_spec f s raw : get f (cfg_step s raw) = spec_payload f s raw.
Proof.
  unfold cfg_step. rewrite normalize_get, parse_settings_spec.
  unfold spec_payload. destruct (unwrap (jdepth raw) raw) as [[| | | | |o]|];
    unfold spec_object; apply norm_field_idem.
Qed.

Lemma cfg_step_normalized s raw : normalized (cfg_step s raw).
Proof. apply normalize_normalized. Qed.

Lemma cfg_run_normalized ps : normalized (cfg_run ps).
Proof.
  unfold cfg_run. assert (H : normalized init_settings) by apply normalize_normalized.
  revert H. generalize init_settings. induction ps as [|p ps IH]; intros s Hs; cbn [fold_left].
  - exact Hs.
  - apply IH. apply cfg_step_normalized.
Qed.

Lemma cfg_run_snoc ps p : cfg_run (ps ++ [p]) = cfg_step (cfg_run ps) p.
Proof. unfold cfg_run. rewrite fold_left_app. reflexivity. Qed.

(* ---- corollaries used by Props/C19.v ---- *)
Lemma total_normalized base raw :
  exists s, parse_fuel (jdepth raw) base raw = Some s /\ normalized s.
Proof.
  destruct (parse_fuel_enough (jdepth raw) base raw (le_n _)) as [s Hs].
  exists s. split; [exact Hs|]. rewrite unwrap_parse in Hs.
  destruct (unwrap (jdepth raw) raw) as [[| | | | |o]|]; inversion Hs; apply normalize_normalized.
Qed.

Lemma unwrap_plain o : alookup_last (bs "hledger") o = None -> forall n, unwrap n (JObj o) = Some (JObj o).
Proof. intros H n. destruct n; cbn [unwrap]; rewrite H; reflexivity. Qed.

Lemma effective s o f v :
  alookup_last (bs "hledger") o = None -> offered f o = Some v ->
  get f (cfg_step s (JObj o)) = norm_field f v.
Proof.
  intros Hw Ho. rewrite cfg_step_spec. unfold spec_payload. rewrite (unwrap_plain o Hw).
  unfold spec_object. rewrite Ho. reflexivity.
Qed.

Lemma norm_field_fix f s : normalized s -> norm_field f (get f s) = get f s.
Proof. intro H. rewrite <- normalize_get. rewrite (normalized_fix s H). reflexivity. Qed.

Lemma frame s o f :
  normalized s -> alookup_last (bs "hledger") o = None -> offered f o = None ->
  get f (cfg_step s (JObj o)) = get f s.
Proof.
  intros Hn Hw Ho. rewrite cfg_step_spec. unfold spec_payload. rewrite (unwrap_plain o Hw).
  unfold spec_object. rewrite Ho. apply norm_field_fix. exact Hn.
Qed.

Definition is_object (j : json) : bool := match j with JObj _ => true | _ => false end.

Lemma frame_nonobject s raw : normalized s -> is_object raw = false -> cfg_step s raw = s.
Proof.
  intros Hn Hj. apply settings_ext. intro f. rewrite cfg_step_spec. unfold spec_payload.
  destruct raw; try discriminate Hj; cbn [jdepth unwrap]; apply norm_field_fix; exact Hn.
Qed.

Lemma unwrap_enough fuel raw : (jdepth raw <= fuel)%nat -> unwrap fuel raw = unwrap (jdepth raw) raw.
Proof.
  (* both are Some: compare through parse_fuel on a fixed base is awkward; prove directly *)
  assert (Hmono : forall n raw r, unwrap n raw = Some r -> forall m, (n <= m)%nat -> unwrap m raw = Some r).
  { induction n as [|n IH]; intros raw0 r H m Hle.
    - destruct raw0 as [| | | | |o]; cbn [unwrap] in *; destruct m; cbn [unwrap]; try exact H;
        destruct (alookup_last (bs "hledger") o); try discriminate; exact H.
    - destruct m as [|m]; [lia|]. destruct raw0 as [| | | | |o]; cbn [unwrap] in *; try exact H.
      destruct (alookup_last (bs "hledger") o); [|exact H]. apply IH; [exact H|lia]. }
  assert (Hen : forall n raw, (jdepth raw <= n)%nat -> exists r, unwrap n raw = Some r).
  { induction n as [|n IH]; intros raw0 Hd.
    - destruct raw0 as [| | | | |o]; cbn [unwrap]; try (eexists; reflexivity). cbn [jdepth] in Hd. lia.
    - destruct raw0 as [| | | | |o]; cbn [unwrap]; try (eexists; reflexivity).
      destruct (alookup_last (bs "hledger") o) as [nested|] eqn:E; [|eexists; reflexivity].
      apply IH. apply alookup_last_depth in E. cbn [jdepth] in Hd. lia. }
  intro Hd. destruct (Hen (jdepth raw) raw (le_n _)) as [r Hr]. rewrite Hr.
  apply (Hmono _ _ _ Hr). exact Hd.
Qed.

Lemma wrapper s o nested :
  alookup_last (bs "hledger") o = Some nested -> cfg_step s (JObj o) = cfg_step s nested.
Proof.
  intro Hw. apply settings_ext. intro f. rewrite !cfg_step_spec. unfold spec_payload.
  assert (E : unwrap (jdepth (JObj o)) (JObj o) = unwrap (jdepth nested) nested).
  { cbn [jdepth unwrap]. rewrite Hw. apply unwrap_enough. apply alookup_last_depth in Hw. exact Hw. }
  rewrite E. reflexivity.
Qed.

Definition positive_fields : list field := [CMax; FmtIndent; CliTimeout; LimSize; LimDepth].

Lemma defaults f z : In f positive_fields -> z <= 0 -> norm_field f (VZ z) = get f default_settings.
Proof.
  intros Hin Hz. assert (E : (z <=? 0) = true) by (apply Z.leb_le; exact Hz).
  cbn [positive_fields In] in Hin.
  destruct Hin as [<-|[<-|[<-|[<-|[<-|[]]]]]]; cbn [norm_field]; rewrite E; reflexivity.
Qed.

Lemma positive_kept f z : 0 < z -> norm_field f (VZ z) = VZ z.
Proof.
  intro Hz. assert (E : (z <=? 0) = false) by (apply Z.leb_gt; exact Hz).
  destruct f; cbn [norm_field]; rewrite ?E; reflexivity.
Qed.

(* the addressing scheme, made explicit: every field has a nested and a dotted spelling and
   the dotted one is consulted later (so it wins); the size limit has an alias *)
Lemma candidates_shape f :
  f <> LimSize ->
  exists sec name k, candidates f = [(Nested sec name, k, f); (Dotted (dot sec name), k, f)].
Proof.
  intro H. destruct f; try contradiction;
    match goal with |- exists _ _ _, ?c = _ => let c' := eval vm_compute in c in change c with c' end;
    match goal with |- exists _ _ _, ((Nested ?a ?n, ?k, _) :: _) = _ => exists a, n, k end;
    reflexivity.
Qed.

Lemma candidates_limsize :
  candidates LimSize =
  [ (Nested (bs "limits") (bs "maxFileSizeBytes"), KInt, LimSize);
    (Nested (bs "limits") (bs "maxFileSize"), KInt, LimSize);
    (Dotted (bs "limits.maxFileSizeBytes"), KInt, LimSize);
    (Dotted (bs "limits.maxFileSize"), KInt, LimSize) ].
Proof. vm_compute. reflexivity. Qed.
