(* C15: a response assembled by sorting is a function of the SET of entries, not of the order
   in which a Go map happened to yield them. *)
From Coq Require Import Sorting.Permutation Sorting.Sorted.
From HL Require Import Lib.Bytes.
From Coq Require Import ZifyN ZifyBool.
Open Scope N_scope.

Section Sort.
Variable A : Type.
Variable ltb : A -> A -> bool.
Hypothesis ltb_irrefl : forall x, ltb x x = false.
Hypothesis ltb_trans : forall x y z, ltb x y = true -> ltb y z = true -> ltb x z = true.
Hypothesis ltb_total : forall x y, x <> y -> ltb x y = true \/ ltb y x = true.

Fixpoint insert (x : A) (l : list A) : list A :=
  match l with
  | [] => [x]
  | y :: r => if ltb y x then y :: insert x r else x :: l
  end.
Definition isort (l : list A) : list A := fold_right insert [] l.

Definition lt (x y : A) : Prop := ltb x y = true.

Lemma insert_perm x l : Permutation (x :: l) (insert x l).
Proof.
  induction l as [|y r IH]; cbn [insert]; [apply Permutation_refl|].
  destruct (ltb y x); [|apply Permutation_refl].
  eapply Permutation_trans; [apply perm_swap|]. apply perm_skip. exact IH.
Qed.

Lemma isort_perm l : Permutation l (isort l).
Proof.
  induction l as [|x l IH]; cbn [isort fold_right]; [constructor|].
  eapply Permutation_trans; [apply perm_skip; exact IH|apply insert_perm].
Qed.

Lemma insert_sorted x l :
  ~ In x l -> StronglySorted lt l -> StronglySorted lt (insert x l).
Proof.
  intros Hni Hs. induction Hs as [|y r Hs IH Hall]; cbn [insert].
  - constructor; [constructor|constructor].
  - destruct (ltb y x) eqn:E.
    + constructor.
      * apply IH. intro H. apply Hni. right. exact H.
      * assert (P : Permutation (x :: r) (insert x r)) by apply insert_perm.
        rewrite Forall_forall in *. intros z Hz.
        apply (Permutation_in _ (Permutation_sym P)) in Hz. destruct Hz as [<-|Hz]; [exact E|apply Hall; exact Hz].
    + assert (Hxy : lt x y).
      { destruct (ltb_total x y) as [H|H]; [intro; subst; apply Hni; left; reflexivity|exact H|].
        unfold lt in *. congruence. }
      constructor; [constructor; assumption|].
      constructor; [exact Hxy|]. rewrite Forall_forall in *. intros z Hz. eapply ltb_trans; [exact Hxy|apply Hall; exact Hz].
Qed.

Lemma isort_sorted l : NoDup l -> StronglySorted lt (isort l).
Proof.
  induction 1 as [|x l Hni Hnd IH]; cbn [isort fold_right]; [constructor|].
  apply insert_sorted; [|exact IH].
  intro H. apply Hni. apply (Permutation_in _ (Permutation_sym (isort_perm l))). exact H.
Qed.

Lemma sorted_perm_eq : forall l1 l2,
  StronglySorted lt l1 -> StronglySorted lt l2 -> Permutation l1 l2 -> l1 = l2.
Proof.
  induction l1 as [|a r1 IH]; intros l2 S1 S2 P.
  - apply Permutation_nil in P. subst. reflexivity.
  - destruct l2 as [|b r2]; [apply Permutation_sym, Permutation_nil in P; discriminate|].
    inversion S1 as [|? ? S1' H1]; subst. inversion S2 as [|? ? S2' H2]; subst.
    rewrite Forall_forall in H1, H2.
    assert (a = b).
    { assert (Ha : In a (b :: r2)) by (apply (Permutation_in _ P); left; reflexivity).
      assert (Hb : In b (a :: r1)) by (apply (Permutation_in _ (Permutation_sym P)); left; reflexivity).
      destruct Ha as [->|Ha]; [reflexivity|]. destruct Hb as [->|Hb]; [reflexivity|].
      pose proof (H2 a Ha) as L1. pose proof (H1 b Hb) as L2. unfold lt in *.
      pose proof (ltb_trans _ _ _ L1 L2) as L3. rewrite ltb_irrefl in L3. discriminate. }
    subst b. f_equal. apply IH; try assumption. eapply Permutation_cons_inv. exact P.
Qed.

(* the sorted output depends only on the set of entries *)
Theorem isort_order_independent l1 l2 :
  NoDup l1 -> Permutation l1 l2 -> isort l1 = isort l2.
Proof.
  intros N1 P. assert (N2 : NoDup l2) by (eapply Permutation_NoDup; eassumption).
  apply sorted_perm_eq; [apply isort_sorted; exact N1|apply isort_sorted; exact N2|].
  eapply Permutation_trans; [apply Permutation_sym, isort_perm|].
  eapply Permutation_trans; [exact P|apply isort_perm].
Qed.
End Sort.

(* ---- instance: byte strings under Go's string order (sort.Strings) ---- *)
Lemma bltb_irrefl : forall x, bltb x x = false.
Proof. induction x as [|c x IH]; cbn [bltb]; [reflexivity|]. rewrite N.ltb_irrefl. exact IH. Qed.

Lemma bltb_trans : forall x y z, bltb x y = true -> bltb y z = true -> bltb x z = true.
Proof.
  induction x as [|a x IH]; intros [|b y] [|c z] H1 H2; cbn [bltb] in *; try discriminate; try reflexivity.
  destruct (a <? b) eqn:E1.
  - destruct (b <? c) eqn:E2.
    + assert (E : (a <? c) = true) by lia. rewrite E. reflexivity.
    + destruct (c <? b) eqn:E3; [discriminate|]. assert (b = c) by lia. subst. rewrite E1. reflexivity.
  - destruct (b <? a) eqn:E0; [discriminate|]. assert (a = b) by lia. subst b.
    destruct (a <? c) eqn:E2; [reflexivity|]. destruct (c <? a) eqn:E3; [discriminate|].
    eapply IH; eassumption.
Qed.

Lemma bltb_total : forall x y, x <> y -> bltb x y = true \/ bltb y x = true.
Proof.
  induction x as [|a x IH]; intros [|b y] H; cbn [bltb]; try (left; reflexivity); try (right; reflexivity); [contradiction|].
  destruct (a <? b) eqn:E1; [left; reflexivity|]. destruct (b <? a) eqn:E2; [right; reflexivity|].
  assert (a = b) by lia. subst b. apply IH. intro E. apply H. subst. reflexivity.
Qed.

(* entries (key, value) ordered by key; keys distinct *)
Definition kv_ltb {V} (a b : list N * V) : bool := bltb (fst a) (fst b).

(* the UNBALANCED message names the commodities in sorted order: whatever order the map of
   differences is iterated in (any permutation), the message parts are the same *)
Theorem message_order_independent (l1 l2 : list (list N)) :
  NoDup l1 -> Permutation l1 l2 -> isort _ bltb l1 = isort _ bltb l2.
Proof. apply isort_order_independent; [exact bltb_irrefl|exact bltb_trans|exact bltb_total]. Qed.

(* ---- instance: completion ranking (score desc, usage count desc, label asc) ---- *)
Definition rank_ltb (a b : N * N * list N) : bool :=
  let '(sa, ca, la) := a in let '(sb, cb, lb) := b in
  if sb <? sa then true else if sa <? sb then false
  else if cb <? ca then true else if ca <? cb then false
  else bltb la lb.

Lemma rank_irrefl : forall x, rank_ltb x x = false.
Proof. intros [[s c] l]. unfold rank_ltb. rewrite !N.ltb_irrefl. apply bltb_irrefl. Qed.

Lemma rank_trans : forall x y z, rank_ltb x y = true -> rank_ltb y z = true -> rank_ltb x z = true.
Proof.
  intros [[s1 c1] l1] [[s2 c2] l2] [[s3 c3] l3]. unfold rank_ltb.
  destruct (s2 <? s1) eqn:A1; destruct (s1 <? s2) eqn:A2; destruct (s3 <? s2) eqn:B1; destruct (s2 <? s3) eqn:B2;
  destruct (s3 <? s1) eqn:C1; destruct (s1 <? s3) eqn:C2; try lia; try discriminate; try reflexivity;
  destruct (c2 <? c1) eqn:D1; destruct (c1 <? c2) eqn:D2; destruct (c3 <? c2) eqn:E1; destruct (c2 <? c3) eqn:E2;
  destruct (c3 <? c1) eqn:F1; destruct (c1 <? c3) eqn:F2; try lia; try discriminate; try reflexivity.
  apply bltb_trans.
Qed.

Lemma rank_total : forall x y, x <> y -> rank_ltb x y = true \/ rank_ltb y x = true.
Proof.
  intros [[s1 c1] l1] [[s2 c2] l2] H. unfold rank_ltb.
  destruct (s2 <? s1) eqn:A1; [left; reflexivity|]. destruct (s1 <? s2) eqn:A2; [right; reflexivity|].
  destruct (c2 <? c1) eqn:D1; [left; reflexivity|]. destruct (c1 <? c2) eqn:D2; [right; reflexivity|].
  assert (s1 = s2) by lia. assert (c1 = c2) by lia. subst. apply bltb_total. intro E. apply H. subst. reflexivity.
Qed.

Theorem ranking_order_independent (l1 l2 : list (N * N * list N)) :
  NoDup l1 -> Permutation l1 l2 -> isort _ rank_ltb l1 = isort _ rank_ltb l2.
Proof. apply isort_order_independent; [exact rank_irrefl|exact rank_trans|exact rank_total]. Qed.

(* without the final label tie-break (the code before the fix) the comparator is not total and
   two orders of the same candidates give two answers *)
Definition rank_ltb_old (a b : N * N * list N) : bool :=
  let '(sa, ca, _) := a in let '(sb, cb, _) := b in
  if sb <? sa then true else if sa <? sb then false else cb <? ca.
Lemma old_ranking_order_dependent :
  let x := (5, 1, bs "a") in let y := (5, 1, bs "b") in
  isort _ rank_ltb_old [x; y] <> isort _ rank_ltb_old [y; x].
Proof. cbv zeta. vm_compute. discriminate. Qed.
