(* Facts about the UTF-8 decoder model used by the formatter proofs: a text followed by ASCII
   decodes the same way, and the length / column functions are additive over such a split. *)
From HL Require Import Lib.Bytes Lib.Utf8 Model.Ast Model.Formatter Spec.FormatSpec.
Open Scope N_scope.

Definition all_ascii (b : list N) : Prop := Forall (fun c => c < 128) b.

Lemma cont_ascii c : c < 128 -> cont c = false.
Proof. intro H. unfold cont. destruct (128 <=? c) eqn:E; [apply N.leb_le in E; lia|reflexivity]. Qed.

Lemma rng_ascii lo c hi : 128 <= lo -> c < 128 -> (lo <=? c) && (c <=? hi) = false.
Proof. intros H1 H2. destruct (lo <=? c) eqn:E; [apply N.leb_le in E; lia|reflexivity]. Qed.

Lemma lo3_ge b0 : 128 <= lo3 b0. Proof. unfold lo3. destruct (b0 =? 224); lia. Qed.
Lemma lo4_ge b0 : 128 <= lo4 b0. Proof. unfold lo4. destruct (b0 =? 240); lia. Qed.

Lemma decode_app_ascii x r b : all_ascii b -> decode ((x :: r) ++ b) = decode (x :: r).
Proof.
  intro Hb. cbn [app]. unfold decode.
  destruct (x <? 128); [reflexivity|].
  destruct ((194 <=? x) && (x <=? 223)).
  { destruct r as [|b1 r]; cbn [app]; [|reflexivity].
    destruct b as [|c b]; [reflexivity|]. inversion Hb; subst. rewrite cont_ascii by assumption. reflexivity. }
  destruct ((224 <=? x) && (x <=? 239)).
  { destruct r as [|b1 [|b2 r]]; cbn [app]; try reflexivity.
    - destruct b as [|c [|c2 b]]; try reflexivity; inversion Hb; subst.
      + rewrite (rng_ascii (lo3 x) c (hi3 x)) by (auto using lo3_ge). reflexivity.
    - destruct b as [|c b]; try reflexivity; inversion Hb; subst.
      rewrite (cont_ascii c) by assumption. rewrite andb_false_r. reflexivity. }
  destruct ((240 <=? x) && (x <=? 244)); [|reflexivity].
  destruct r as [|b1 [|b2 [|b3 r]]]; cbn [app]; try reflexivity.
  - destruct b as [|c [|c2 [|c3 b]]]; try reflexivity; inversion Hb; subst;
      rewrite (rng_ascii (lo4 x) c (hi4 x)) by (auto using lo4_ge); reflexivity.
  - destruct b as [|c [|c2 b]]; try reflexivity; inversion Hb; subst;
      rewrite (cont_ascii c) by assumption; rewrite andb_false_r; reflexivity.
  - destruct b as [|c b]; try reflexivity; inversion Hb; subst.
    rewrite (cont_ascii c) by assumption. rewrite andb_false_r. reflexivity.
Qed.


Lemma decode_len x r : (1 <= snd (decode (x :: r)) <= S (length r))%nat.
Proof.
  unfold decode.
  destruct (x <? 128); [cbn; lia|].
  destruct ((194 <=? x) && (x <=? 223)).
  { destruct r as [|b1 r]; [cbn; lia|]. destruct (cont b1); cbn; lia. }
  destruct ((224 <=? x) && (x <=? 239)).
  { destruct r as [|b1 [|b2 r]]; try (cbn; lia).
    destruct ((lo3 x <=? b1) && (b1 <=? hi3 x) && cont b2); cbn; lia. }
  destruct ((240 <=? x) && (x <=? 244)); [|cbn; lia].
  destruct r as [|b1 [|b2 [|b3 r]]]; try (cbn; lia).
  destruct ((lo4 x <=? b1) && (b1 <=? hi4 x) && cont b2 && cont b3); cbn; lia.
Qed.

Lemma decode_ascii c r : c < 128 -> decode (c :: r) = (c, 1%nat).
Proof. intro H. unfold decode. apply N.ltb_lt in H. rewrite H. reflexivity. Qed.

Open Scope Z_scope.

(* ---- rune_count / u16_units over a text followed by ASCII ---- *)
Lemma rune_count_ascii b : all_ascii b -> rune_count b 0 = Z.of_nat (length b).
Proof.
  induction 1 as [|c b Hc Hb IH]; [reflexivity|].
  cbn [rune_count]. rewrite decode_ascii by assumption. cbn [Nat.sub]. rewrite IH. cbn [length]. lia.
Qed.

Lemma rune_count_app_ascii : forall s k b, all_ascii b -> (k <= length s)%nat ->
  rune_count (s ++ b) k = rune_count s k + Z.of_nat (length b).
Proof.
  induction s as [|x r IH]; intros k b Hb Hk.
  - cbn [length] in Hk. assert (k = 0%nat) by lia. subst. cbn [app]. rewrite rune_count_ascii by assumption. reflexivity.
  - destruct k as [|k].
    + change ((x :: r) ++ b) with (x :: (r ++ b)). cbn [rune_count].
      change (x :: r ++ b) with ((x :: r) ++ b). rewrite decode_app_ascii by assumption.
      pose proof (decode_len x r) as L. destruct (decode (x :: r)) as [rn n]. cbn [snd] in L.
      rewrite IH by (assumption || lia). lia.
    + cbn [app rune_count]. cbn [length] in Hk. apply IH; [assumption|lia].
Qed.

Lemma u16_ascii b : all_ascii b -> u16_units b 0 = Z.of_nat (length b).
Proof.
  induction 1 as [|c b Hc Hb IH]; [reflexivity|].
  cbn [u16_units]. rewrite decode_ascii by assumption. cbn [Nat.sub]. rewrite IH. cbn [length].
  unfold u16len. destruct (65536 <=? c)%N eqn:E; [apply N.leb_le in E; lia|]. lia.
Qed.

Lemma u16_app_ascii : forall s k b, all_ascii b -> (k <= length s)%nat ->
  u16_units (s ++ b) k = u16_units s k + Z.of_nat (length b).
Proof.
  induction s as [|x r IH]; intros k b Hb Hk.
  - cbn [length] in Hk. assert (k = 0%nat) by lia. subst. cbn [app]. rewrite u16_ascii by assumption. reflexivity.
  - destruct k as [|k].
    + change ((x :: r) ++ b) with (x :: (r ++ b)). cbn [u16_units].
      change (x :: r ++ b) with ((x :: r) ++ b). rewrite decode_app_ascii by assumption.
      pose proof (decode_len x r) as L. destruct (decode (x :: r)) as [rn n]. cbn [snd] in L.
      rewrite IH by (assumption || lia). lia.
    + cbn [app u16_units]. cbn [length] in Hk. apply IH; [assumption|lia].
Qed.

Lemma u16_nonneg : forall s k, 0 <= u16_units s k.
Proof.
  induction s as [|x r IH]; intro k; [cbn; lia|].
  destruct k; cbn [u16_units]; [|apply IH].
  destruct (decode (x :: r)) as [rn n]. specialize (IH (n - 1)%nat). lia.
Qed.

Lemma rune_count_nonneg : forall s k, 0 <= rune_count s k.
Proof.
  induction s as [|x r IH]; intro k; [cbn; lia|].
  destruct k; cbn [rune_count]; [|apply IH].
  destruct (decode (x :: r)) as [rn n]. specialize (IH (n - 1)%nat). lia.
Qed.

(* ASCII in front *)
Lemma rune_count_ascii_app : forall a s, all_ascii a -> rune_count (a ++ s) 0 = Z.of_nat (length a) + rune_count s 0.
Proof.
  induction 1 as [|c a Hc Ha IH]; [cbn [app length]; lia|].
  cbn [app rune_count]. rewrite decode_ascii by assumption. cbn [Nat.sub]. rewrite IH. cbn [length]. lia.
Qed.

(* ---- col_off ---- *)
Lemma col_off_end : forall s k c, (k <= length s)%nat -> u16_units s k <= c -> col_off s k c = Some (length s).
Proof.
  induction s as [|x r IH]; intros k c Hk Hc; [reflexivity|].
  destruct k as [|k].
  - cbn [col_off]. cbn [u16_units] in Hc.
    pose proof (decode_len x r) as L. destruct (decode (x :: r)) as [rn n]. cbn [snd] in L.
    pose proof (u16_nonneg r (n - 1)) as P.
    assert (W : 1 <= Z.of_N (u16len rn)) by (unfold u16len; destruct (65536 <=? rn)%N; lia).
    destruct (c <=? 0) eqn:E0; [lia|].
    destruct (c <? Z.of_N (u16len rn)) eqn:E1; [lia|].
    rewrite IH by lia. reflexivity.
  - cbn [col_off]. cbn [u16_units] in Hc. cbn [length] in Hk. rewrite IH by lia. reflexivity.
Qed.

Lemma col_off_zero s : col_off s 0 0 = Some O.
Proof. destruct s; reflexivity. Qed.

Lemma col_off_prefix : forall t k bl, all_ascii bl -> (k <= length t)%nat ->
  col_off (t ++ bl) k (u16_units t k) = Some (length t).
Proof.
  induction t as [|x r IH]; intros k bl Hb Hk.
  - cbn [length] in Hk. assert (k = 0%nat) by lia. subst. cbn [app u16_units length]. apply col_off_zero.
  - destruct k as [|k].
    + change ((x :: r) ++ bl) with (x :: (r ++ bl)). cbn [col_off u16_units].
      change (x :: r ++ bl) with ((x :: r) ++ bl). rewrite decode_app_ascii by assumption.
      pose proof (decode_len x r) as L. destruct (decode (x :: r)) as [rn n]. cbn [snd] in L.
      pose proof (u16_nonneg r (n - 1)) as P.
      assert (W : 1 <= Z.of_N (u16len rn)) by (unfold u16len; destruct (65536 <=? rn)%N; lia).
      destruct (Z.of_N (u16len rn) + u16_units r (n - 1) <=? 0) eqn:E0; [lia|].
      destruct (Z.of_N (u16len rn) + u16_units r (n - 1) <? Z.of_N (u16len rn)) eqn:E1; [lia|].
      replace (Z.of_N (u16len rn) + u16_units r (n - 1) - Z.of_N (u16len rn)) with (u16_units r (n - 1)) by lia.
      rewrite IH by (assumption || lia). reflexivity.
    + cbn [app col_off u16_units]. cbn [length] in Hk. rewrite IH by (assumption || lia). reflexivity.
Qed.
