(* Syntax errors are reported at token positions: every parsing function keeps the invariant that
   each recorded error is the start position of a token of the lexer's stream, so every error line
   lies inside the document. *)
From HL Require Import Lib.Bytes Lib.Utf8 Model.Ast Model.Lexer Model.Parser Model.Formatter Spec.FormatSpec
  Proofs.LexerProofs Proofs.ParserProofs Proofs.LexerLines Proofs.ParserLines.
Open Scope nat_scope.

(* every recorded syntax error sits at the position of a token of the stream *)
Definition tpos_of (t : token) : N * N := (tp_line (tk_pos t), tp_col (tk_pos t)).
Definition Eok (orig : list token) (ps : pstate) : Prop := forall e, In e (perrs ps) -> exists t, In t orig /\ e = tpos_of t.

(* ps' is reached from ps: well-formedness kept, only moving forward, errors only at token positions *)
Definition R (ps' ps : pstate) : Prop :=
  wf ps -> wf ps' /\ sfx ps' ps /\ (forall orig, suffix (toks ps) orig -> Eok orig ps -> Eok orig ps').

Lemma R_refl ps : R ps ps. Proof. intro W. split; [exact W|]. split; [apply sfx_refl|auto]. Qed.
Lemma R_trans a b c : R a b -> R b c -> R a c.
Proof.
  intros H1 H2 W. destruct (H2 W) as (W2 & S2 & E2). destruct (H1 W2) as (W1 & S1 & E1).
  split; [exact W1|]. split; [eapply sfx_trans; eauto|].
  intros orig So Ec. apply (E1 orig); [eapply suffix_trans; [exact S2|exact So]|apply (E2 orig So Ec)].
Qed.

(* a step that leaves the error list alone *)
Lemma R_quiet ps' ps : le ps' ps -> sfx ps' ps -> perrs ps' = perrs ps -> R ps' ps.
Proof. intros L S P W. split; [apply (L W)|]. split; [exact S|]. intros orig _ E e I. unfold Eok in E. rewrite P in I. auto. Qed.

Lemma adv_R ps : R (adv ps) ps.
Proof. apply R_quiet; [apply adv_le|apply adv_sfx|]. unfold adv. destruct (toks ps) as [|t [|t' r]]; reflexivity. Qed.
Lemma skip_to_next_line_R ps : R (skip_to_next_line ps) ps.
Proof. apply R_quiet; [apply skip_to_next_line_le|apply skip_to_next_line_sfx|reflexivity]. Qed.
Lemma skip_until_R stop ps : R (skip_until stop ps) ps.
Proof. apply R_quiet; [apply skip_until_le|apply skip_until_sfx|reflexivity]. Qed.
Lemma same_R x d : R (mkPS (toks x) (perrs x) d) x.
Proof. apply R_quiet; [apply wf_same_toks; reflexivity|apply sfx_same; reflexivity|reflexivity]. Qed.

Lemma cur_in_toks ps : wf ps -> In (cur ps) (toks ps).
Proof. intros (l & e & E & _). unfold cur. rewrite E. destruct l; left; reflexivity. Qed.

Lemma perr_R ps : R (perr ps) ps.
Proof.
  intro W. split; [apply (perr_le ps W)|]. split; [apply perr_sfx|].
  intros orig So E e I. unfold perr, perr_at in I. cbn [perrs] in I. destruct I as [Eq|I]; [|auto].
  exists (cur ps). split; [|symmetry; exact Eq]. destruct So as (pre & Eo). rewrite Eo. apply in_or_app. right. apply cur_in_toks. exact W.
Qed.

Lemma parse_comment_R ps : R (snd (parse_comment ps)) ps.
Proof. unfold parse_comment. cbn [snd]. apply adv_R. Qed.

(* parse_date reports its error at the date token it has just consumed *)
Lemma parse_date_R ps : R (snd (parse_date ps)) ps.
Proof.
  unfold parse_date. destruct (negb (is_ty (ctype ps) TDate)); [cbn [snd]; apply perr_R|].
  assert (F : R (perr_at (tk_pos (cur ps)) (adv ps)) ps).
  { intro W. destruct (adv_le ps W) as [W1 _]. split; [apply (perr_at_le _ (adv ps) W1)|].
    split; [eapply sfx_trans; [apply perr_at_sfx|apply adv_sfx]|].
    intros orig So E e I. cbn [perr_at perrs] in I. destruct I as [Eq|I].
    - exists (cur ps). split; [|symmetry; exact Eq]. destruct So as (pre & Eo). rewrite Eo. apply in_or_app. right. apply cur_in_toks. exact W.
    - apply E. unfold adv in I. destruct (toks ps) as [|t [|t' r]]; exact I. }
  break_match; cbn [snd]; first [exact F | apply adv_R].
Qed.

Ltac rpeel :=
  match goal with
  | |- R (adv ?x) _ => eapply R_trans; [apply (adv_R x)|]
  | |- R (perr ?x) _ => eapply R_trans; [apply (perr_R x)|]
  | |- R (skip_to_next_line ?x) _ => eapply R_trans; [apply (skip_to_next_line_R x)|]
  | |- R (skip_until ?s ?x) _ => eapply R_trans; [apply (skip_until_R s x)|]
  | |- R (mkPS (toks ?x) (perrs ?x) ?d) _ => eapply R_trans; [apply (same_R x d)|]
  | |- R (snd (parse_comment ?x)) _ => eapply R_trans; [apply (parse_comment_R x)|]
  | H : R ?a ?b |- R ?a _ => eapply R_trans; [exact H|]
  end.
Ltac R_solve := lazymatch goal with |- R ?a ?a => apply R_refl | _ => rpeel; R_solve end.

Lemma parse_status_R ps : R (snd (parse_status ps)) ps.
Proof. unfold parse_status. break_match; cbn [snd]; R_solve. Qed.
Lemma parse_amount_R ps : R (snd (parse_amount ps)) ps.
Proof. unfold parse_amount. break_all; cbn [snd]; R_solve. Qed.
Lemma parse_cost_R ps : R (snd (parse_cost ps)) ps.
Proof.
  unfold parse_cost. pose proof (parse_amount_R (adv ps)) as A.
  destruct (parse_amount (adv ps)) as [[a|] ps'] eqn:E; cbn [snd] in *; (eapply R_trans; [exact A|apply adv_R]).
Qed.
Lemma parse_assertion_R ps : R (snd (parse_assertion ps)) ps.
Proof.
  unfold parse_assertion. pose proof (parse_amount_R (adv ps)) as A.
  destruct (parse_amount (adv ps)) as [[a|] ps'] eqn:E; cbn [snd] in *; (eapply R_trans; [exact A|apply adv_R]).
Qed.

Ltac rfacts :=
  repeat match goal with
         | H : parse_amount ?x = (_, ?p) |- _ =>
             lazymatch goal with L : R p x |- _ => fail | _ => let L := fresh "Rf" in pose proof (parse_amount_R x) as L; rewrite H in L; cbn [snd] in L end
         | H : parse_cost ?x = (_, ?p) |- _ =>
             lazymatch goal with L : R p x |- _ => fail | _ => let L := fresh "Rf" in pose proof (parse_cost_R x) as L; rewrite H in L; cbn [snd] in L end
         | H : parse_assertion ?x = (_, ?p) |- _ =>
             lazymatch goal with L : R p x |- _ => fail | _ => let L := fresh "Rf" in pose proof (parse_assertion_R x) as L; rewrite H in L; cbn [snd] in L end
         | H : parse_status ?x = (_, ?p) |- _ =>
             lazymatch goal with L : R p x |- _ => fail | _ => let L := fresh "Rf" in pose proof (parse_status_R x) as L; rewrite H in L; cbn [snd] in L end
         | H : parse_date ?x = (_, ?p) |- _ =>
             lazymatch goal with L : R p x |- _ => fail | _ => let L := fresh "Rf" in pose proof (parse_date_R x) as L; rewrite H in L; cbn [snd] in L end
         | H : parse_comment ?x = (_, ?p) |- _ =>
             lazymatch goal with L : R p x |- _ => fail | _ => let L := fresh "Rf" in pose proof (parse_comment_R x) as L; rewrite H in L; cbn [snd] in L end
         end.

Lemma parse_posting_R ps : R (snd (parse_posting ps)) ps.
Proof. unfold parse_posting. break_all; cbn [snd]; rfacts; R_solve. Qed.

Lemma parse_postings_R : forall fuel ps acc r ps', parse_postings fuel ps acc = Some (r, ps') -> R ps' ps.
Proof.
  induction fuel as [|fuel IH]; intros ps acc r ps' H; [discriminate|].
  cbn [parse_postings] in H. destruct (is_ty (ctype ps) TIndent).
  - pose proof (parse_posting_R ps) as R1. destruct (parse_posting ps) as [p ps1]. cbn [snd] in R1.
    eapply R_trans; [eapply IH; exact H|]. destruct (is_ty (ctype ps1) TNewline); [eapply R_trans; [apply adv_R|exact R1]|exact R1].
  - inversion H; subst. apply R_refl.
Qed.

Lemma parse_transaction_R fuel ps otx ps' : parse_transaction fuel ps = Some (otx, ps') -> R ps' ps.
Proof.
  intro H. unfold parse_transaction in H.
  pose proof (parse_date_R ps) as D. destruct (parse_date ps) as [od ps1] eqn:Ed. cbn [snd] in D.
  destruct od as [d|].
  - revert H. break_hdr; intro H;
      match type of H with
      | context [parse_postings fuel ?PS []] =>
          destruct (parse_postings fuel PS []) as [[posts psz]|] eqn:Epp; [|discriminate];
          inversion H; subst; clear H;
          eapply R_trans; [eapply parse_postings_R; exact Epp|]; rfacts; R_solve
      end.
  - inversion H; subst. eapply R_trans; [apply skip_to_next_line_R|exact D].
Qed.

Lemma parse_subdirs_R : forall fuel ps m m' ps', parse_subdirs fuel ps m = Some (m', ps') -> R ps' ps.
Proof.
  induction fuel as [|fuel IH]; intros ps m m' ps' H; [discriminate|].
  cbn [parse_subdirs] in H.
  destruct (is_ty (ctype ps) TNewline); cbn [negb] in H; [|inversion H; subst; apply R_refl].
  destruct (is_ty (ctype (adv ps)) TIndent); cbn [negb] in H; [|inversion H; subst; apply adv_R].
  revert H. break_all; intro H; (eapply R_trans; [eapply IH; exact H|]); R_solve.
Qed.

Ltac with_subdirs_R :=
  match goal with
  | H : context [parse_subdirs ?fuel ?PS []] |- R ?ps' ?ps =>
      let E := fresh "Esd" in
      destruct (parse_subdirs fuel PS []) as [[?sub ?psz]|] eqn:E; [|discriminate];
      inversion H; subst; clear H;
      eapply R_trans; [eapply parse_subdirs_R; exact E|]; rfacts; R_solve
  end.

Lemma parse_account_directive_R fuel sp ps r ps' : parse_account_directive fuel sp ps = Some (r, ps') -> R ps' ps.
Proof.
  intro H. unfold parse_account_directive in H.
  destruct (negb (is_ty (ctype ps) TAccount || is_ty (ctype ps) TText)).
  - inversion H; subst. R_solve.
  - revert H. break_hdr; intro H; with_subdirs_R.
Qed.
Lemma parse_commodity_directive_R fuel sp ps r ps' : parse_commodity_directive fuel sp ps = Some (r, ps') -> R ps' ps.
Proof. intro H. unfold parse_commodity_directive in H. revert H. break_hdr; intro H; with_subdirs_R. Qed.

Lemma parse_include_directive_R sp ps : R (snd (parse_include_directive sp ps)) ps.
Proof. unfold parse_include_directive. break_all; cbn [snd]; rfacts; R_solve. Qed.
Lemma parse_price_directive_R sp ps : R (snd (parse_price_directive sp ps)) ps.
Proof. unfold parse_price_directive. break_all; cbn [snd]; rfacts; R_solve. Qed.
Lemma parse_default_directive_R sp ps : R (snd (parse_default_directive sp ps)) ps.
Proof. unfold parse_default_directive. break_all; cbn [snd]; rfacts; R_solve. Qed.
Lemma parse_year_directive_R sp ps : R (snd (parse_year_directive sp ps)) ps.
Proof. unfold parse_year_directive. break_all; cbn [snd]; rfacts; R_solve. Qed.

Lemma parse_directive_R fuel ps r ps' : parse_directive fuel ps = Some (r, ps') -> R ps' ps.
Proof.
  intro H. unfold parse_directive in H. set (ps1 := adv ps) in *.
  assert (A : R ps1 ps) by apply adv_R.
  assert (PAIR : forall (x : option directive * pstate), R (snd x) ps1 -> Some x = Some (r, ps') -> R ps' ps).
  { intros [r0 p0] RX E. inversion E; subst. cbn [snd] in RX. eapply R_trans; [exact RX|exact A]. }
  destruct (beq (tk_val (cur ps)) (bs "account")); [eapply R_trans; [eapply parse_account_directive_R; exact H|exact A]|].
  destruct (beq (tk_val (cur ps)) (bs "commodity")); [eapply R_trans; [eapply parse_commodity_directive_R; exact H|exact A]|].
  destruct (beq (tk_val (cur ps)) (bs "include")); [eapply PAIR; [|exact H]; apply parse_include_directive_R|].
  destruct (beq (tk_val (cur ps)) (bs "P")); [eapply PAIR; [|exact H]; apply parse_price_directive_R|].
  destruct (beq (tk_val (cur ps)) (bs "Y") || beq (tk_val (cur ps)) (bs "year")); [eapply PAIR; [|exact H]; apply parse_year_directive_R|].
  destruct (beq (tk_val (cur ps)) (bs "D")); [eapply PAIR; [|exact H]; apply parse_default_directive_R|].
  eapply (PAIR (None, skip_to_next_line ps1)); [|exact H]. cbn [snd]. apply skip_to_next_line_R.
Qed.

Lemma parse_journal_R : forall fuel ps j j' ps', parse_journal fuel ps j = Some (j', ps') -> R ps' ps.
Proof.
  induction fuel as [|fuel IH]; intros ps j j' ps' H; [discriminate|].
  cbn [parse_journal] in H.
  destruct (is_ty (ctype ps) TEOF); [inversion H; subst; apply R_refl|].
  destruct (is_ty (ctype ps) TNewline); [eapply R_trans; [eapply IH; exact H|apply adv_R]|].
  destruct (is_ty (ctype ps) TComment).
  { pose proof (parse_comment_R ps) as C. destruct (parse_comment ps) as [c ps1]. cbn [snd] in C. eapply R_trans; [eapply IH; exact H|exact C]. }
  destruct (is_ty (ctype ps) TDate).
  { destruct (parse_transaction fuel ps) as [[otx ps1]|] eqn:Et; [|discriminate].
    pose proof (parse_transaction_R _ _ _ _ Et) as T. destruct otx; (eapply R_trans; [eapply IH; exact H|exact T]). }
  destruct (is_ty (ctype ps) TDirective).
  { destruct (parse_directive fuel ps) as [[od ps1]|] eqn:Ed; [|discriminate].
    pose proof (parse_directive_R _ _ _ _ Ed) as T. destruct od as [d|]; [destruct d|]; (eapply R_trans; [eapply IH; exact H|exact T]). }
  eapply R_trans; [eapply IH; exact H|]. R_solve.
Qed.

(* every syntax error the parser reports is at the start position of a token of the lexer's
   stream; in particular its line lies inside the document *)
Theorem parse_errors_at_tokens input j errs : parse input = Some (j, errs) ->
  exists ts, lex input = Some ts /\ forall e, In e errs -> exists t, In t ts /\ e = tpos_of t.
Proof.
  unfold parse. destruct (lex input) as [ts|] eqn:El; [|discriminate].
  destruct (parse_journal (length ts + 2) (mkPS ts [] 0%Z) (mkJournal [] [] [] [])) as [[j0 ps]|] eqn:Ej; [|discriminate].
  intro H. inversion H; subst. exists ts. split; [reflexivity|].
  assert (W : wf (mkPS ts [] 0%Z)) by (apply wf_ends; cbn [toks]; exact (lex_all_ends_eof _ _ _ El)).
  destruct (parse_journal_R _ _ _ _ _ Ej W) as (_ & _ & E).
  intros e I. apply in_rev in I. apply (E ts (suffix_refl ts)); [intros x []|exact I].
Qed.

Theorem parse_error_lines_inside input j errs : parse input = Some (j, errs) ->
  forall l c, In (l, c) errs -> (1 <= l <= 1 + count10 input)%N.
Proof.
  intros H l c I. destruct (parse_errors_at_tokens input j errs H) as (ts & El & F).
  destruct (F _ I) as (t & It & E). inversion E; subst.
  pose proof (lex_line_bounds input ts El) as B. rewrite Forall_forall in B. exact (B t It).
Qed.

