From Coq Require Import Sorting.Permutation.
From HL Require Import Lib.Bytes Model.Ast Proofs.OrderProofs Model.References.
From Coq Require Import ZifyN ZifyBool.
Open Scope Z_scope.

Lemma loc_eqb_eq a b : loc_eqb a b = true <-> a = b.
Proof.
  destruct a as [pa [a1 a2 a3 a4]], b as [pb [b1 b2 b3 b4]]. unfold loc_eqb. cbn [l_path l_rng sl sc el ec].
  split; intro H.
  - assert (pa = pb /\ a1 = b1 /\ a2 = b2 /\ a3 = b3 /\ a4 = b4) as (-> & -> & -> & -> & ->) by lia. reflexivity.
  - inversion H; subst. lia.
Qed.

(* dropping adjacent duplicates keeps the set *)
Lemma dedup_in_cons x : forall l a, In x (dedup_adjacent (a :: l)) <-> In x (a :: l).
Proof.
  induction l as [|b r IH]; intro a; [cbn; tauto|].
  cbn [dedup_adjacent]. destruct (loc_eqb a b) eqn:E.
  - apply loc_eqb_eq in E. subst b. rewrite (IH a). cbn [In]. tauto.
  - cbn [In]. rewrite (IH b). cbn [In]. tauto.
Qed.

Lemma dedup_in x l : In x (dedup_adjacent l) <-> In x l.
Proof. destruct l as [|a l]; [cbn; tauto|apply dedup_in_cons]. Qed.

(* sortAndDedup returns exactly the locations it was given (as a set) *)
Lemma sort_dedup_in x l : In x (sort_dedup l) <-> In x l.
Proof.
  unfold sort_dedup. rewrite dedup_in. split; intro H.
  - apply (Permutation_in _ (Permutation_sym (isort_perm _ key_ltb l))). exact H.
  - apply (Permutation_in _ (isort_perm _ key_ltb l)). exact H.
Qed.

(* C09 core: the answer is exactly the set of hits of the journals consulted, each attributed
   to the path its journal is filed under *)
Theorem references_exact k name incl m x :
  In x (find_references k name incl m) <->
  exists p j, In (p, j) m /\ In (l_rng x) (hits k name incl j) /\ l_path x = p.
Proof.
  unfold find_references. rewrite sort_dedup_in, in_flat_map. split.
  - intros ([p j] & Hin & Hx). cbn [fst snd] in Hx. apply in_map_iff in Hx as (r & <- & Hr).
    exists p, j. cbn. auto.
  - intros (p & j & Hin & Hr & Hp). exists (p, j). split; [exact Hin|]. cbn [fst snd].
    apply in_map_iff. exists (l_rng x). split; [destruct x; cbn in *; subst; reflexivity|exact Hr].
Qed.

(* which journals are consulted, and under which path: every file under its OWN path --
   the requesting document (as just parsed when the tree's primary is another file), the tree's
   primary under the path it was parsed from, every other file of the tree under its own *)
Lemma jput_in p0 j0 (m : jmap) p j : In (p, j) (jput p0 j0 m) <-> (p = p0 /\ j = j0) \/ (p <> p0 /\ In (p, j) m).
Proof.
  unfold jput. cbn [In]. rewrite filter_In. cbn [fst]. split.
  - intros [H|[H1 H2]]; [inversion H; auto|]. right. split; [|exact H1]. intro E. subst. rewrite N.eqb_refl in H2. discriminate.
  - intros [[-> ->]|[H1 H2]]; [left; reflexivity|]. right. split; [exact H2|]. destruct (p =? p0)%N eqn:E; [lia|reflexivity].
Qed.

Lemma jdel_in p0 (m : jmap) p j : In (p, j) (jdel p0 m) <-> p <> p0 /\ In (p, j) m.
Proof.
  unfold jdel. rewrite filter_In. cbn [fst]. split.
  - intros [H1 H2]. split; [|exact H1]. intro E. subst. rewrite N.eqb_refl in H2. discriminate.
  - intros [H1 H2]. split; [exact H2|]. destruct (p =? p0)%N eqn:E; [lia|reflexivity].
Qed.

Lemma all_journals_from_primary files pj current cj p j :
  In (p, j) (all_journals files (Some pj) true current current cj) <->
  (p = current /\ j = pj) \/ (p <> current /\ In (p, j) files).
Proof. unfold all_journals. rewrite N.eqb_refl. apply jput_in. Qed.

Lemma all_journals_from_elsewhere files pj pp current cj p j : pp <> current ->
  In (p, j) (all_journals files (Some pj) true pp current cj) <->
  (p = current /\ j = cj) \/ (p = pp /\ j = pj) \/ (p <> current /\ p <> pp /\ In (p, j) files).
Proof.
  intro NE. unfold all_journals. destruct (pp =? current)%N eqn:E; [lia|].
  rewrite jput_in, jput_in, jdel_in. split.
  - intros [H|[H1 [[-> ->]|[H2 [H3 H4]]]]]; auto.
  - intros [H|[[-> ->]|(H1 & H2 & H3)]]; [left; exact H|right; split; [exact NE|left; auto]|right; split; [exact H1|right; auto]].
Qed.

(* the C09 statement for the set of journals: given the resolved tree (its primary parsed from
   `pp`, the other files in `files`, each once) every (path, journal) pair consulted is a file of the
   tree under its own path, or the requesting document; nothing of the tree is left out except the
   tree's stale copy of the requesting document *)
Theorem consulted_journals_own_paths files pj pp current cj p j :
  In (p, j) (all_journals files (Some pj) true pp current cj) ->
  (p = current /\ (j = cj \/ (pp = current /\ j = pj))) \/ (p = pp /\ j = pj) \/ In (p, j) files.
Proof.
  destruct (N.eq_dec pp current) as [->|NE].
  - rewrite all_journals_from_primary. intros [[-> ->]|[_ H]]; auto.
  - rewrite (all_journals_from_elsewhere _ _ _ _ _ _ _ NE). intros [[-> ->]|[[-> ->]|(_ & _ & H)]]; auto.
Qed.

Theorem tree_files_are_consulted files pj pp current cj p j :
  (p = pp /\ j = pj) \/ In (p, j) files -> p <> current ->
  (pp <> current -> ~ In pp (map fst files)) ->
  In (p, j) (all_journals files (Some pj) true pp current cj).
Proof.
  intros H NC Hpp. destruct (N.eq_dec pp current) as [->|NE].
  - rewrite all_journals_from_primary. destruct H as [[-> _]|H]; [contradiction|]. right. auto.
  - rewrite (all_journals_from_elsewhere _ _ _ _ _ _ _ NE). destruct H as [[-> ->]|H]; [right; left; auto|].
    right. right. split; [exact NC|]. split; [|exact H]. intros ->. apply (Hpp NE). apply (in_map fst) in H. exact H.
Qed.

(* ---- sample: workspace mode, request from an included file ---- *)
Definition mkp (acct : string) (line : Z) : posting :=
  mkPosting StNone (bs acct) (mkRng (mkPos line 5 0) (mkPos line 8 0)) None None None [] [] VNone rng0.
Definition mkt (line : Z) (ps : list posting) : transaction :=
  mkTx (mkDate 2024 1 1 (mkRng (mkPos line 1 0) (mkPos line 11 0))) None StNone [] (bs "x") [] [] rng0 ps [] [] rng0.
Definition root_ast : journal := mkJournal [mkt 2 [mkp "a:b" 3]] [] [] [].     (* main.journal: uses a:b on line 3 *)
Definition sub_ast : journal := mkJournal [mkt 1 [mkp "a:b" 2; mkp "c:d" 7]] [] [] [].  (* sub.journal: a:b on line 2 *)

(* the workspace's resolved journal has Primary = root (path 3) and Files = {sub}; the request comes
   from sub (path 1): each occurrence is attributed to the file that contains it *)
Lemma from_include_sample :
  find_references KAccount (bs "a:b") true (all_journals [(1%N, sub_ast)] (Some root_ast) true 3%N 1%N sub_ast)
  = [mkLoc 1 (mkPR 1 4 1 7); mkLoc 3 (mkPR 2 4 2 7)].
Proof. vm_compute. reflexivity. Qed.
