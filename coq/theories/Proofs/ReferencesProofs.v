From Coq Require Import Sorting.Permutation.
From HL Require Import Lib.Bytes Model.Ast Proofs.OrderProofs Model.References.
From Coq Require Import ZifyN ZifyBool.
Open Scope Z_scope.

Lemma loc_eqb_eq a b : loc_eqb a b = true <-> a = b.
Proof.
  destruct a as [pa [a1 a2 a3 a4]], b as [pb [b1 b2 b3 b4]]. unfold loc_eqb. cbn [l_path l_rng sl sc el ec].
  split; intro H.
  - assert (pa = pb /\ a1 = b1 /\ a2 = b2 /\ a3 = b3 /\ a4 = b4) as (-> & -> & -> & -> & ->) by lia. reflexivity.
  - inversion H; subst. lia.
Qed.

(* dropping adjacent duplicates keeps the set *)
Lemma dedup_in_cons x : forall l a, In x (dedup_adjacent (a :: l)) <-> In x (a :: l).
Proof.
  induction l as [|b r IH]; intro a; [cbn; tauto|].
  cbn [dedup_adjacent]. destruct (loc_eqb a b) eqn:E.
  - apply loc_eqb_eq in E. subst b. rewrite (IH a). cbn [In]. tauto.
  - cbn [In]. rewrite (IH b). cbn [In]. tauto.
Qed.

Lemma dedup_in x l : In x (dedup_adjacent l) <-> In x l.
Proof. destruct l as [|a l]; [cbn; tauto|apply dedup_in_cons]. Qed.

(* sortAndDedup returns exactly the locations it was given (as a set) *)
Lemma sort_dedup_in x l : In x (sort_dedup l) <-> In x l.
Proof.
  unfold sort_dedup. rewrite dedup_in. split; intro H.
  - apply (Permutation_in _ (Permutation_sym (isort_perm _ key_ltb l))). exact H.
  - apply (Permutation_in _ (isort_perm _ key_ltb l)). exact H.
Qed.

(* C09 core: the answer is exactly the set of hits of the journals consulted, each attributed
   to the path its journal is filed under *)
Theorem references_exact k name incl m x :
  In x (find_references k name incl m) <->
  exists p j, In (p, j) m /\ In (l_rng x) (hits k name incl j) /\ l_path x = p.
Proof.
  unfold find_references. rewrite sort_dedup_in, in_flat_map. split.
  - intros ([p j] & Hin & Hx). cbn [fst snd] in Hx. apply in_map_iff in Hx as (r & <- & Hr).
    exists p, j. cbn. auto.
  - intros (p & j & Hin & Hr & Hp). exists (p, j). split; [exact Hin|]. cbn [fst snd].
    apply in_map_iff. exists (l_rng x). split; [destruct x; cbn in *; subst; reflexivity|exact Hr].
Qed.

(* which journals are consulted: with a resolved journal whose primary is the current
   document's own AST, every file is consulted under its own path *)
Lemma all_journals_from_primary files pj current cj p j :
  In (p, j) (all_journals files (Some pj) true current cj) <->
  (p = current /\ j = pj) \/ (p <> current /\ In (p, j) files).
Proof.
  unfold all_journals, jput. cbn [In]. rewrite filter_In. cbn [fst]. split.
  - intros [H|[H1 H2]]; [inversion H; auto|]. right. split; [|exact H1]. intro E. subst. rewrite N.eqb_refl in H2. discriminate.
  - intros [[-> ->]|[H1 H2]]; [left; reflexivity|]. right. split; [exact H2|]. destruct (p =? current)%N eqn:E; [lia|reflexivity].
Qed.

(* ---- refutation: workspace mode, request from an included file ---- *)
Definition mkp (acct : string) (line : Z) : posting :=
  mkPosting StNone (bs acct) (mkRng (mkPos line 5 0) (mkPos line 8 0)) None None None [] [] VNone rng0.
Definition mkt (line : Z) (ps : list posting) : transaction :=
  mkTx (mkDate 2024 1 1 (mkRng (mkPos line 1 0) (mkPos line 11 0))) None StNone [] (bs "x") [] [] ps [] [] rng0.
Definition root_ast : journal := mkJournal [mkt 2 [mkp "a:b" 3]] [] [] [].     (* main.journal: uses a:b on line 3 *)
Definition sub_ast : journal := mkJournal [mkt 1 [mkp "a:b" 2; mkp "c:d" 7]] [] [] [].  (* sub.journal: a:b on line 2 *)

(* the workspace's resolved journal has Primary = root and Files = {sub}; the request comes from sub (path 1) *)
Lemma from_include_refuted :
  find_references KAccount (bs "a:b") true (all_journals [(1%N, sub_ast)] (Some root_ast) true 1%N sub_ast)
  = [mkLoc 1 (mkPR 2 4 2 7)]   (* the ROOT's occurrence (line 3), filed under sub's path; sub's own (line 2) is gone *)
  /\ find_references KAccount (bs "a:b") true [(1%N, sub_ast); (3%N, root_ast)]
     = [mkLoc 1 (mkPR 1 4 1 7); mkLoc 3 (mkPR 2 4 2 7)].
Proof. split; vm_compute; reflexivity. Qed.
