(* C03: machine-checked witnesses that the parser model does not read every journal of the
   supported grammar G silently and faithfully.  Each witness is a G text (its structure is
   given next to it) evaluated through the lexer and parser models by vm_compute. *)
From HL Require Import Lib.Bytes Model.Ast Lib.Dec Model.Lexer Model.Parser Spec.Grammar.
Open Scope N_scope.

Definition nl : list N := [10].
Definition simple_posting (acct : string) (q : Z) (sym : string) : iposting :=
  mkIP StNone VNone (bs acct) (Some (mkIA (mkDec q 0) (bs sym) false)) None None [].
Definition tx_with (desc : string) (ps : list iposting) : itx :=
  mkIT (2024, 1, 1)%Z None StNone [] (bs desc) [] [] [] ps.
Definition two := [simple_posting "a:b" 1 "USD"; simple_posting "c:d" (-1) "USD"].
Definition body := bs "    a:b  1 USD" ++ nl ++ bs "    c:d  -1 USD" ++ nl.

(* faithful = no syntax error and the extracted structure is the intended one *)
Definition faithful (text : list N) (s : istruct) : bool :=
  match parse text with
  | Some (j, errs) => match errs with [] => is_eqb (extract j) s | _ => false end
  | None => false
  end.
Definition one_tx (t : itx) : istruct := mkIS [t] [] [] [].

(* the baseline is read faithfully (non-vacuity of the notion) *)
Lemma baseline_ok : faithful (bs "2024-01-01 grocery store" ++ nl ++ body) (one_tx (tx_with "grocery store" two)) = true.
Proof. vm_compute. reflexivity. Qed.

Lemma desc_upper : faithful (bs "2024-01-01 ATM" ++ nl ++ body) (one_tx (tx_with "ATM" two)) = false.
Proof. vm_compute. reflexivity. Qed.
Lemma desc_digit : faithful (bs "2024-01-01 7eleven" ++ nl ++ body) (one_tx (tx_with "7eleven" two)) = false.
Proof. vm_compute. reflexivity. Qed.
Lemma desc_colon : faithful (bs "2024-01-01 foo: bar" ++ nl ++ body) (one_tx (tx_with "foo: bar" two)) = false.
Proof. vm_compute. reflexivity. Qed.
Lemma desc_sigil : faithful (bs "2024-01-01 $5 lunch" ++ nl ++ body) (one_tx (tx_with "$5 lunch" two)) = false.
Proof. vm_compute. reflexivity. Qed.
Lemma crlf : faithful (bs "2024-01-01 shop" ++ [13; 10] ++ bs "    a:b  1 USD" ++ [13; 10] ++ bs "    c:d  -1 USD" ++ [13; 10])
                      (one_tx (tx_with "shop" two)) = false.
Proof. vm_compute. reflexivity. Qed.
Lemma tab_separator : faithful (bs "2024-01-01 shop" ++ nl ++ bs "    a:b" ++ [9] ++ bs "1 USD" ++ nl ++ bs "    c:d  -1 USD" ++ nl)
                               (one_tx (tx_with "shop" two)) = false.
Proof. vm_compute. reflexivity. Qed.
Lemma tx_comment_line :
  faithful (bs "2024-01-01 shop" ++ nl ++ bs "    ; b:2" ++ nl ++ body)
           (one_tx (mkIT (2024, 1, 1)%Z None StNone [] (bs "shop") [] [] [bs "b:2"] two)) = false.
Proof. vm_compute. reflexivity. Qed.
Lemma code_colon :
  faithful (bs "2024-01-01 (a:1) shop" ++ nl ++ body)
           (one_tx (mkIT (2024, 1, 1)%Z None StNone (bs "a:1") (bs "shop") [] [] [] two)) = false.
Proof. vm_compute. reflexivity. Qed.
Lemma lower_sym_cost :
  faithful (bs "2024-01-01 shop" ++ nl ++ bs "    a:b  5 apples @ 1 USD" ++ nl ++ bs "    c:d  -5 USD" ++ nl)
           (one_tx (tx_with "shop"
              [mkIP StNone VNone (bs "a:b") (Some (mkIA (mkDec 5 0) (bs "apples") false))
                    (Some (false, mkIA (mkDec 1 0) (bs "USD") false)) None [];
               simple_posting "c:d" (-5) "USD"])) = false.
Proof. vm_compute. reflexivity. Qed.
Lemma exponent_with_mark :
  faithful (bs "2024-01-01 shop" ++ nl ++ bs "    a:b  1.5E3 USD" ++ nl ++ bs "    c:d  -1500 USD" ++ nl)
           (one_tx (tx_with "shop" [mkIP StNone VNone (bs "a:b") (Some (mkIA (mkDec 1500 0) (bs "USD") false)) None None [];
                                    simple_posting "c:d" (-1500) "USD"])) = false.
Proof. vm_compute. reflexivity. Qed.

(* number reading, for whole families (no witness needed): a number without any mark is read
   as written, whatever its length *)
Lemma normalize_plain s : count_byte 46 s = O -> count_byte 44 s = O -> normalize_number s = s.
Proof. intros H1 H2. unfold normalize_number. rewrite H1, H2. reflexivity. Qed.
