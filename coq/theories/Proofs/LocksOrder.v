(* Deadlock freedom of the lock machine for programs that take locks in increasing order. *)
From HL Require Import Lib.Bytes Model.Locks Proofs.LocksProofs.
Open Scope N_scope.

(* a program takes locks in increasing order of their numbers and ends holding none *)
Fixpoint ordered (h : held) (p : list instr) : Prop :=
  match p with
  | [] => h = []
  | i :: r =>
      match i with
      | Acq l _ => forall l' m, In (l', m) h -> l' < l
      | _ => True
      end /\ ordered (hstep h i) r
  end.

Definition all_ordered (ts : list thread) : Prop :=
  forall i t, nth_error ts i = Some t -> ordered (t_held t) (t_todo t).

Lemma ordered_step ts ts' : all_ordered ts -> step ts ts' -> all_ordered ts'.
Proof.
  intros O St. destruct St as [ts i t Hn En]. intros x tx Hx.
  destruct (Nat.eq_dec x i) as [E|E].
  - subst x. rewrite (nth_update_same ts i _ t Hn) in Hx. inversion Hx; subst tx. clear Hx.
    specialize (O i t Hn). unfold advance. destruct (t_todo t) as [|ins r] eqn:Et; [rewrite Et; exact O|].
    cbn [t_held t_todo]. cbn [ordered] in O. exact (proj2 O).
  - rewrite nth_update_other in Hx by congruence. exact (O x tx Hx).
Qed.

Lemma others_ok_from_false ok i : forall ts k, others_ok_from ts k i ok = false ->
  exists j tj, (k + j)%nat <> i /\ nth_error ts j = Some tj /\ ok (t_held tj) = false.
Proof.
  induction ts as [|a ts IH]; intros k H; [discriminate|].
  cbn [others_ok_from] in H. apply andb_false_iff in H as [H|H].
  - apply orb_false_iff in H as [H1 H2]. apply Nat.eqb_neq in H1.
    exists 0%nat, a. split; [lia|]. split; [reflexivity|exact H2].
  - destruct (IH (S k) H) as (j & tj & Hj & Hn & Ho). exists (S j), tj. split; [lia|]. split; [exact Hn|exact Ho].
Qed.

(* a thread that cannot take its step is waiting for a lock some other thread holds *)
Lemma blocked_has_holder ts i t : nth_error ts i = Some t -> t_todo t <> [] -> enabled ts i = false ->
  exists l m r, t_todo t = Acq l m :: r /\ exists j tj m', j <> i /\ nth_error ts j = Some tj /\ In (l, m') (t_held tj).
Proof.
  intros Hn Ht En. unfold enabled in En. rewrite Hn in En.
  destruct (t_todo t) as [|ins r] eqn:Et; [contradiction|].
  destruct ins as [l m|l|x w]; try discriminate.
  exists l, m, r. split; [reflexivity|].
  destruct m; apply others_ok_from_false in En as (j & tj & Hj & Hnj & Ho); apply negb_false_iff in Ho.
  - apply holds_w_spec in Ho. exists j, tj, MW. split; [cbn in Hj; lia|]. split; assumption.
  - apply holds_spec in Ho as (m' & Ho). exists j, tj, m'. split; [cbn in Hj; lia|]. split; assumption.
Qed.

Lemma blocked_chain ts B : all_ordered ts ->
  (forall i t l m, nth_error ts i = Some t -> In (Acq l m) (t_todo t) -> l < B) ->
  forall n i t l m r, (N.to_nat (B - l) <= n)%nat ->
    nth_error ts i = Some t -> t_todo t = Acq l m :: r -> enabled ts i = false ->
    exists k, enabled ts k = true.
Proof.
  intros O Bd. induction n as [|n IH]; intros i t l m r Hm Hn Ht En.
  - assert (l < B) by (eapply Bd; [exact Hn|rewrite Ht; left; reflexivity]). lia.
  - destruct (blocked_has_holder ts i t Hn ltac:(rewrite Ht; discriminate) En) as (l0 & m0 & r0 & Et & j & tj & m' & Hj & Hnj & Hh).
    rewrite Ht in Et. inversion Et; subst l0 m0 r0. clear Et.
    destruct (enabled ts j) eqn:Ej; [exists j; exact Ej|].
    pose proof (O j tj Hnj) as Oj.
    destruct (t_todo tj) as [|ins rj] eqn:Etj.
    + cbn [ordered] in Oj. rewrite Oj in Hh. destruct Hh.
    + destruct (blocked_has_holder ts j tj Hnj ltac:(rewrite Etj; discriminate) Ej) as (l1 & m1 & r1 & Et1 & _).
      rewrite Etj in Et1. inversion Et1; subst ins rj. cbn [ordered] in Oj. destruct Oj as [Lt _].
      specialize (Lt l m' Hh).
      assert (l1 < B) by (eapply Bd; [exact Hnj|rewrite Etj; left; reflexivity]).
      eapply (IH j tj l1 m1 r1); [lia|exact Hnj|exact Etj|exact Ej].
Qed.

(* no deadlock: while some thread has something left to do, some thread can take a step *)
Theorem ordered_no_deadlock ts :
  all_ordered ts -> (exists i t, nth_error ts i = Some t /\ t_todo t <> []) -> exists k, enabled ts k = true.
Proof.
  intros O (i & t & Hn & Ht).
  destruct (enabled ts i) eqn:En; [exists i; exact En|].
  destruct (blocked_has_holder ts i t Hn Ht En) as (l & m & r & Et & _).
  (* a bound on the lock numbers that occur *)
  set (mx := fold_right (fun t acc => fold_right (fun ins acc => match ins with Acq l _ => N.max l acc | _ => acc end) acc (t_todo t)) 0 ts).
  assert (Bd : forall i t l m, nth_error ts i = Some t -> In (Acq l m) (t_todo t) -> l < mx + 1).
  { clear. intros i t l m Hn Hi. subst mx. revert i Hn. induction ts as [|a ts IH]; intros i Hn; [destruct i; discriminate|].
    cbn [fold_right]. set (rest := fold_right _ 0 ts) in *.
    assert (Mono : forall p acc, acc <= fold_right (fun ins acc => match ins with Acq l _ => N.max l acc | _ => acc end) acc p).
    { induction p as [|x p IHp]; intro acc; cbn [fold_right]; [lia|]. specialize (IHp acc). destruct x; lia. }
    destruct i as [|i]; cbn in Hn.
    - inversion Hn; subst a. clear - Hi. induction (t_todo t) as [|x p IHp]; [destruct Hi|].
      cbn [fold_right]. destruct Hi as [E|Hi]; [subst x; lia|]. specialize (IHp Hi). destruct x; lia.
    - specialize (IH i Hn). specialize (Mono (t_todo a) rest). fold rest in IH. lia. }
  eapply (blocked_chain ts (mx + 1) O Bd (N.to_nat (mx + 1 - l)) i t l m r); [lia|exact Hn|exact Et|exact En].
Qed.

Theorem reachable_no_deadlock init ts :
  all_ordered init -> reachable init ts ->
  (exists i t, nth_error ts i = Some t /\ t_todo t <> []) -> exists k, enabled ts k = true.
Proof.
  intros O R. apply ordered_no_deadlock. induction R as [|ts ts' R IH St]; [exact O|eapply ordered_step; eauto].
Qed.
