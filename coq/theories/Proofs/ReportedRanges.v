(* From the AST to what is reported: every range of the document-symbol and document-link answers is,
   for EVERY byte string, a pair of places of the text in LSP coordinates (line and UTF-16 character,
   both zero-based, as uint32). *)
From HL Require Import Lib.Bytes Lib.Utf8 Model.Ast Model.Lexer Model.Parser Model.References Model.Ranges
  Proofs.LexerColumns Proofs.ParserPositions.
Open Scope Z_scope.

(* (l, c) is the zero-based LSP position of a place of the text: some byte offset inside the text, on a
   rune boundary, whose line (counted from 1 by line feeds) and UTF-16 column (from 1) are l+1 and c+1 *)
Definition lsp_place (text : list N) (l c : Z) : Prop :=
  exists off ln col, (off <= length text)%nat /\ walk text off 0 1%N 1%N = Some (ln, col) /\
                     l = u32 (Z.of_N ln - 1) /\ c = u32 (Z.of_N col - 1).

Lemma pos_in_text_place text p : pos_in_text text p -> lsp_place text (u32 (p_line p - 1)) (u32 (p_col p - 1)).
Proof.
  intros (tp & <- & (Wk & Ln)). exists (N.to_nat (tp_off tp)), (tp_line tp), (tp_col tp).
  split; [exact Ln|]. split; [exact Wk|]. split; reflexivity.
Qed.

Definition prange_places (text : list N) (r : prange) : Prop :=
  lsp_place text (sl r) (sc r) /\ lsp_place text (el r) (ec r).

Lemma to_proto_places text r : pos_in_text text (r_start r) -> pos_in_text text (r_end r) -> prange_places text (to_proto r).
Proof. intros A B. split; cbn [to_proto sl sc el ec]; apply pos_in_text_place; assumption. Qed.

Theorem symbols_and_links_are_places text j errs : parse text = Some (j, errs) ->
  (forall r, In r (doc_symbols j) -> prange_places text r) /\ (forall r, In r (doc_links j) -> prange_places text r).
Proof.
  intro H. destruct (parse_entry_ranges_in_text text j errs H) as (T & I & D).
  assert (L : forall r, In r (map (fun i => to_proto (inc_rng i)) (j_includes j)) -> prange_places text r).
  { intros r Hr. apply in_map_iff in Hr as (i & <- & Hi). destruct (I i Hi) as [A B]. apply to_proto_places; [exact A|exact B]. }
  split; [|exact L].
  intros r Hr. unfold doc_symbols in Hr. apply in_app_or in Hr as [Hr|Hr]; [|apply in_app_or in Hr as [Hr|Hr]; [|exact (L r Hr)]].
  - apply in_map_iff in Hr as (t & <- & Ht). destruct (T t Ht) as [A B]. apply to_proto_places; [exact A|exact B].
  - apply in_map_iff in Hr as (d & <- & Hd). specialize (D d Hd).
    destruct d; cbn [dir_rng]; [destruct D as [_ [A B]]|destruct D as [_ [A B]]|destruct D as [A B]|destruct D as [A B]|destruct D as [A B]|destruct D as [A B]];
      (apply to_proto_places; [exact A|exact B]).
Qed.

(* ---- hover on an account or a date: the reported range is the range of ONE token ---- *)
Lemma first_some_in {A B} (f : A -> option B) l y : first_some f l = Some y -> exists x, In x l /\ f x = Some y.
Proof.
  induction l as [|x l IH]; cbn [first_some]; [discriminate|]. destruct (f x) as [z|] eqn:E.
  - intro H. inversion H; subst. exists x. split; [left; reflexivity|exact E].
  - intro H. destruct (IH H) as (x' & I & Hx). exists x'. split; [right; exact I|exact Hx].
Qed.

Lemma tag_at_kind tags pl pc k r : tag_at tags pl pc = Some (k, r) -> k = HTag \/ k = HTagValue.
Proof.
  induction tags as [|g tags IH]; cbn [tag_at]; [discriminate|].
  destruct (position_in_range pl pc (tg_rng g)); [|exact IH].
  destruct (pc + 1 <=? _); intro H; inversion H; auto.
Qed.

Theorem hover_account_and_date_ranges text j errs pl pc k r : parse text = Some (j, errs) ->
  hover_element j pl pc = Some (k, r) -> k = HAccount \/ k = HDate ->
  exists rr, rng_in_text text rr /\ r = to_proto rr.
Proof.
  intros Hp Hh Hk. pose proof (parse_ranges_in_text text j errs Hp) as Q.
  unfold hover_element in Hh. destruct (first_some (fun t => tx_element t pl pc) (j_txs j)) as [[k0 r0]|] eqn:E; [|discriminate].
  cbn [option_map fst snd] in Hh. inversion Hh; subst k0 r. clear Hh.
  destruct (first_some_in _ _ _ E) as (t & It & Et). destruct (Q t It) as [Dq Pq].
  unfold tx_element in Et.
  destruct (position_in_range pl pc (d_rng (tx_date t))). { inversion Et; subst. exists (d_rng (tx_date t)). split; [exact Dq|reflexivity]. }
  destruct (negb (beq (payee_or_desc t) []) && position_in_range pl pc (payee_range t (payee_or_desc t))).
  { inversion Et; subst. destruct Hk; discriminate. }
  destruct (first_some (fun c => tag_at (cm_tags c) pl pc) (tx_comments t)) as [e|] eqn:Ec.
  { inversion Et; subst e. destruct (first_some_in _ _ _ Ec) as (c & _ & Hc). destruct (tag_at_kind _ _ _ _ _ Hc); subst; destruct Hk; discriminate. }
  destruct (first_some_in _ _ _ Et) as (p & Ip & Hpe). destruct (Pq p Ip) as (Aq & _).
  unfold posting_element in Hpe. destruct (position_in_range pl pc (po_acct_rng p)).
  { inversion Hpe; subst. exists (po_acct_rng p). split; [exact Aq|reflexivity]. }
  destruct (po_amount p) as [a|].
  - destruct (position_in_range pl pc (a_rng a)); [inversion Hpe; subst; destruct Hk; discriminate|].
    destruct (tag_at_kind _ _ _ _ _ Hpe); subst; destruct Hk; discriminate.
  - destruct (tag_at_kind _ _ _ _ _ Hpe); subst; destruct Hk; discriminate.
Qed.

(* ---- references / rename: every reported occurrence of an account or a commodity ---- *)
Lemma rng_in_text_places text rr : rng_in_text text rr -> prange_places text (to_proto rr).
Proof.
  intros (t & (A & B & _) & ->). apply to_proto_places; cbn [r_start r_end]; [exists (tk_pos t)|exists (tk_end t)]; auto.
Qed.

Theorem account_and_commodity_hits_are_places text j errs : parse text = Some (j, errs) ->
  (forall name incl r, In r (account_hits name incl j) -> prange_places text r) /\
  (forall sym incl r, sym <> [] -> In r (commodity_hits sym incl j) -> prange_places text r).
Proof.
  intro H. pose proof (parse_ranges_in_text text j errs H) as Q.
  destruct (parse_entry_ranges_in_text text j errs H) as (_ & _ & D).
  split.
  - intros name incl r Hr. unfold account_hits in Hr. apply in_app_or in Hr as [Hr|Hr].
    + destruct incl; [|destruct Hr]. apply in_flat_map in Hr as (d & Id & Hd). specialize (D d Id).
      destruct d; try (destruct Hd; fail). destruct (beq name0 name); [|destruct Hd]. destruct Hd as [<-|[]].
      destruct D as [[A B] _]. apply to_proto_places; assumption.
    + apply in_flat_map in Hr as (t & It & Ht). apply in_flat_map in Ht as (p & Ip & Hp).
      destruct (beq (po_acct p) name); [|destruct Hp]. destruct Hp as [<-|[]].
      destruct (Q t It) as [_ Pq]. destruct (Pq p Ip) as (A & _). apply rng_in_text_places. exact A.
  - intros sym incl r Hne Hr. unfold commodity_hits in Hr. apply in_app_or in Hr as [Hr|Hr].
    + destruct incl; [|destruct Hr]. apply in_flat_map in Hr as (d & Id & Hd). specialize (D d Id).
      destruct d; try (destruct Hd; fail). destruct (beq (c_sym c) sym) eqn:E; [|destruct Hd]. destruct Hd as [<-|[]].
      destruct D as [[E0|A] _]; [apply beq_eq in E; congruence|apply rng_in_text_places; exact A].
    + apply in_flat_map in Hr as (t & It & Ht). apply in_flat_map in Ht as (p & Ip & Hp).
      destruct (po_amount p) as [a|] eqn:Ea; [|destruct Hp]. destruct (beq (c_sym (a_com a)) sym) eqn:E; [|destruct Hp]. destruct Hp as [<-|[]].
      destruct (Q t It) as [_ Pq]. destruct (Pq p Ip) as (_ & B & _). destruct (B a Ea) as [E0|A]; [apply beq_eq in E; congruence|apply rng_in_text_places; exact A].
Qed.
