(* C07: error recovery resynchronises at the next line start, whatever follows. *)
From HL Require Import Lib.Bytes Model.Lexer Model.Parser.
Open Scope N_scope.

Definition is_nl (t : token) : bool := is_ty (tk_type t) TNewline.
Definition is_eof (t : token) : bool := is_ty (tk_type t) TEOF.

(* skipToNextLine leaves the parser right after the first Newline token of what remains, never
   beyond it; (when an EOF token comes first it stops there) *)
Lemma skip_line_resync : forall pre t rest,
  forallb (fun x => negb (is_nl x) && negb (is_eof x)) pre = true -> is_nl t = true -> rest <> [] ->
  skip_line_toks (pre ++ t :: rest) = rest.
Proof.
  induction pre as [|x pre IH]; intros t rest Hp Ht Hr.
  - cbn [app skip_line_toks]. destruct rest as [|r0 rest]; [contradiction|]. unfold is_nl in Ht. rewrite Ht. reflexivity.
  - cbn [forallb] in Hp. apply andb_true_iff in Hp as [Hx Hp]. apply andb_true_iff in Hx as [H1 H2].
    cbn [app skip_line_toks]. destruct (pre ++ t :: rest) as [|y ys] eqn:E.
    + destruct pre; discriminate E.
    + unfold is_nl, is_eof in H1, H2. apply negb_true_iff in H1, H2. rewrite H1, H2. rewrite <- E. apply IH; assumption.
Qed.

(* it never consumes a token of the line after the next one: the result is a suffix *)
Lemma skip_line_suffix : forall l, exists k, skip_line_toks l = skipn k l.
Proof.
  induction l as [|t r IH]; [exists O; reflexivity|]. cbn [skip_line_toks].
  destruct r as [|r0 r']; [exists O; reflexivity|].
  destruct (is_ty (tk_type t) TNewline); [exists 1%nat; reflexivity|].
  destruct (is_ty (tk_type t) TEOF); [exists O; reflexivity|].
  destruct IH as [k Hk]. exists (S k). cbn [skipn]. exact Hk.
Qed.
