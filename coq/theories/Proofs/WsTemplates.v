(* The payee-template table of the workspace index (buildPayeeTemplates, called by
   refreshDerived) is a function of the SET of indexed files: whatever order the files were
   indexed, updated or removed in, the table is the same; and a payee has a template exactly
   when some indexed file provides one. *)
From HL Require Import Lib.Bytes Model.WsIndex Proofs.OrderProofs Proofs.WsIndexProofs.
From Coq Require Import Permutation.
Open Scope N_scope.

Notation files := (list (list N * findex)).

(* ---- sorting by path does not depend on the order of the input ---- *)
Lemma bltb_asym x y : bltb x y = true -> bltb y x = false.
Proof.
  intro H. destruct (bltb y x) eqn:E; [|reflexivity].
  pose proof (bltb_trans _ _ _ H E) as H2. rewrite bltb_irrefl in H2. discriminate.
Qed.

Lemma insert_comm (a b : list N * findex) l : fst a <> fst b ->
  insert_file a (insert_file b l) = insert_file b (insert_file a l).
Proof.
  intro Hne. induction l as [|y r IH]; cbn [insert_file].
  - destruct (bltb_total _ _ Hne) as [H|H]; rewrite H, (bltb_asym _ _ H); reflexivity.
  - destruct (bltb (fst b) (fst y)) eqn:Eb, (bltb (fst a) (fst y)) eqn:Ea; cbn [insert_file]; rewrite ?Ea, ?Eb.
    + destruct (bltb_total _ _ Hne) as [H|H]; rewrite H, (bltb_asym _ _ H); reflexivity.
    + (* b < y, not a < y: then b < a *)
      assert (Hba : bltb (fst b) (fst a) = true).
      { destruct (bltb_total _ _ Hne) as [H|H]; [|exact H].
        rewrite (bltb_trans _ _ _ H Eb) in Ea. discriminate. }
      rewrite (bltb_asym _ _ Hba). reflexivity.
    + assert (Hab : bltb (fst a) (fst b) = true).
      { destruct (bltb_total _ _ Hne) as [H|H]; [exact H|].
        rewrite (bltb_trans _ _ _ H Ea) in Eb. discriminate. }
      rewrite (bltb_asym _ _ Hab). reflexivity.
    + rewrite IH. reflexivity.
Qed.

Lemma insert_perm x l : Permutation (insert_file x l) (x :: l).
Proof.
  induction l as [|y r IH]; cbn [insert_file]; [apply Permutation_refl|].
  destruct (bltb (fst x) (fst y)); [apply Permutation_refl|].
  eapply Permutation_trans; [apply perm_skip; exact IH|apply perm_swap].
Qed.

Lemma sort_files_perm fs : Permutation (sort_files fs) fs.
Proof.
  induction fs as [|x fs IH]; cbn [sort_files fold_right]; [constructor|].
  eapply Permutation_trans; [apply insert_perm|apply perm_skip; exact IH].
Qed.

Lemma sort_files_order_independent (fs1 fs2 : files) :
  Permutation fs1 fs2 -> NoDup (map fst fs1) -> sort_files fs1 = sort_files fs2.
Proof.
  induction 1 as [|x l l' P IH|x y l|l l' l'' P1 IH1 P2 IH2]; intro Hn.
  - reflexivity.
  - cbn [sort_files fold_right]. fold (sort_files l) (sort_files l'). rewrite IH; [reflexivity|].
    cbn [map] in Hn. inversion Hn; assumption.
  - cbn [sort_files fold_right]. fold (sort_files l). apply insert_comm.
    cbn [map] in Hn. inversion Hn as [|? ? Hni _]; subst. intro E. apply Hni. left. symmetry. exact E.
  - rewrite IH1; [apply IH2|exact Hn].
    eapply Permutation_NoDup; [apply Permutation_map; exact P1|exact Hn].
Qed.

(* ---- two enumerations of the same file map are permutations of each other ---- *)
Lemma file_get_in p f (fs : files) : NoDup (map fst fs) -> (In (p, f) fs <-> file_get p fs = Some f).
Proof.
  induction fs as [|[p2 f2] fs IH]; intro Hn; cbn [In file_get]; [split; [intros []|discriminate]|].
  cbn [map fst] in Hn. inversion Hn as [|? ? Hni Hnd]; subst.
  destruct (beq p p2) eqn:E.
  - apply beq_eq in E. subst p2. split.
    + intros [H|H]; [inversion H; reflexivity|]. exfalso. apply Hni. apply (in_map fst) in H. exact H.
    + intro H. inversion H. left. reflexivity.
  - rewrite <- (IH Hnd). split; [|intro H; right; exact H].
    intros [H|H]; [|exact H]. inversion H; subst. rewrite beq_refl in E. discriminate.
Qed.

Lemma nodup_files (fs : files) : NoDup (map fst fs) -> NoDup fs.
Proof.
  induction fs as [|x fs IH]; intro Hn; [constructor|]. cbn [map] in Hn. inversion Hn as [|? ? Hni Hnd]; subst.
  constructor; [|apply IH; exact Hnd]. intro H. apply Hni. apply in_map. exact H.
Qed.

Lemma same_map_perm (fs1 fs2 : files) :
  NoDup (map fst fs1) -> NoDup (map fst fs2) ->
  (forall p, file_get p fs1 = file_get p fs2) -> Permutation fs1 fs2.
Proof.
  intros N1 N2 H. apply NoDup_Permutation; [apply nodup_files; exact N1|apply nodup_files; exact N2|].
  intros [p f]. rewrite (file_get_in p f fs1 N1), (file_get_in p f fs2 N2), H. reflexivity.
Qed.

(* buildPayeeTemplates is a function of the file map *)
Theorem build_templates_function_of_files (fs1 fs2 : files) :
  NoDup (map fst fs1) -> NoDup (map fst fs2) ->
  (forall p, file_get p fs1 = file_get p fs2) -> build_templates fs1 = build_templates fs2.
Proof.
  intros N1 N2 H. unfold build_templates.
  rewrite (sort_files_order_independent fs1 fs2); [reflexivity|apply same_map_perm; assumption|exact N1].
Qed.

(* ---- which payees have a template ---- *)
Lemma alookup_tput k k' v (t : tmap) : alookup k (tput k' v t) = if beq k k' then Some v else alookup k t.
Proof.
  induction t as [|[k2 v2] t IH]; cbn [tput alookup]; [destruct (beq k k'); reflexivity|].
  destruct (beq k' k2) eqn:E; cbn [alookup].
  - apply beq_eq in E. subst k2. destruct (beq k k'); reflexivity.
  - destruct (beq k k2) eqn:E2; [|exact IH].
    destruct (beq k k') eqn:E3; [|reflexivity]. apply beq_eq in E2, E3. subst. rewrite beq_refl in E. discriminate.
Qed.

Lemma alookup_merge k (l : tmap) : forall t,
  alookup k (fold_left (fun t kv => tput (fst kv) (snd kv) t) l t) =
  match alookup_last k l with Some v => Some v | None => alookup k t end.
Proof.
  induction l as [|[k2 v2] l IH]; intro t; cbn [fold_left alookup_last fst snd]; [reflexivity|].
  rewrite IH. destruct (alookup_last k l); [reflexivity|]. rewrite alookup_tput. destruct (beq k k2); reflexivity.
Qed.

Definition provides (k : list N) (pf : list N * findex) : bool := isSome (alookup_last k (fi_templates (snd pf))).

Lemma isSome_fold k (l : files) : forall t,
  isSome (alookup k (fold_left merge_file l t)) = isSome (alookup k t) || existsb (provides k) l.
Proof.
  induction l as [|pf l IH]; intro t; cbn [fold_left existsb]; [rewrite Bool.orb_false_r; reflexivity|].
  rewrite IH. unfold merge_file at 1. rewrite alookup_merge. unfold provides at 2.
  destruct (alookup_last k (fi_templates (snd pf))); cbn [isSome]; [rewrite Bool.orb_true_r; reflexivity|].
  reflexivity.
Qed.

Lemma alookup_last_some {V} k (l : list (list N * V)) : isSome (alookup_last k l) = isSome (alookup k l).
Proof.
  induction l as [|[k2 v2] l IH]; cbn [alookup_last alookup]; [reflexivity|].
  destruct (alookup_last k l); cbn [isSome] in *.
  - destruct (beq k k2); [reflexivity|exact IH].
  - destruct (beq k k2); [reflexivity|exact IH].
Qed.

(* a payee has a template in the workspace table exactly when one of the indexed files has one *)
Theorem template_present_iff (fs : files) k : NoDup (map fst fs) ->
  (alookup k (build_templates fs) <> None <->
   exists p f, file_get p fs = Some f /\ alookup k (fi_templates f) <> None).
Proof.
  intro Hn. unfold build_templates.
  assert (E : isSome (alookup k (fold_left merge_file (sort_files fs) [])) = existsb (provides k) (sort_files fs))
    by (rewrite isSome_fold; reflexivity).
  split.
  - intro H. destruct (alookup k (fold_left merge_file (sort_files fs) [])) eqn:E2; [|contradiction].
    cbn [isSome] in E. symmetry in E. apply existsb_exists in E as ([p f] & Hin & Hp).
    exists p, f. split.
    + apply (file_get_in p f fs Hn). eapply Permutation_in; [apply sort_files_perm|exact Hin].
    + unfold provides in Hp. cbn [snd] in Hp. rewrite alookup_last_some in Hp.
      destruct (alookup k (fi_templates f)); [discriminate|discriminate Hp].
  - intros (p & f & Hg & Hk).
    assert (Hex : existsb (provides k) (sort_files fs) = true).
    { apply existsb_exists. exists (p, f). split.
      - eapply Permutation_in; [apply Permutation_sym, sort_files_perm|apply (file_get_in p f fs Hn); exact Hg].
      - unfold provides. cbn [snd]. rewrite alookup_last_some. destruct (alookup k (fi_templates f)); [reflexivity|contradiction]. }
    rewrite Hex in E. destruct (alookup k (fold_left merge_file (sort_files fs) [])); [discriminate|discriminate E].
Qed.

(* ---- lifted to every history of the index ---- *)
Lemma templates_inv_step w o : wi_templates w = build_templates (wi_files w) ->
  wi_templates (wstep w o) = build_templates (wi_files (wstep w o)).
Proof.
  intro H. destruct o as [p f|p]; cbn [wstep].
  - reflexivity.
  - destruct (file_get p (wi_files w)); [reflexivity|exact H].
Qed.

Theorem templates_are_rebuilt ops : wi_templates (wrun ops) = build_templates (wi_files (wrun ops)).
Proof.
  unfold wrun. assert (H0 : wi_templates winit = build_templates (wi_files winit)) by reflexivity.
  revert H0. generalize winit. induction ops as [|o ops IH]; intros w H0; cbn [fold_left]; [exact H0|].
  apply IH. apply templates_inv_step. exact H0.
Qed.

Lemma wrun_winv ops : winv (wrun ops).
Proof.
  unfold wrun. assert (H0 : winv winit) by (repeat split; try constructor; reflexivity).
  revert H0. generalize winit. induction ops as [|o ops IH]; intros w H0; cbn [fold_left]; [exact H0|].
  apply IH. apply step_inv. exact H0.
Qed.

(* two histories that end with the same files have the same aggregated view: every counter
   and the whole template table *)
Theorem view_function_of_files ops1 ops2 :
  (forall p, file_get p (wi_files (wrun ops1)) = file_get p (wi_files (wrun ops2))) ->
  wi_templates (wrun ops1) = wi_templates (wrun ops2) /\
  forall k, cget k (wi_counts (wrun ops1)) = cget k (wi_counts (wrun ops2)).
Proof.
  intro H. destruct (wrun_winv ops1) as (_ & N1 & _). destruct (wrun_winv ops2) as (_ & N2 & _). split.
  - rewrite !templates_are_rebuilt. apply build_templates_function_of_files; assumption.
  - intro k. rewrite !counters_equal_rebuild.
    assert (P : Permutation (wi_files (wrun ops1)) (wi_files (wrun ops2))) by (apply same_map_perm; assumption).
    clear -P. induction P as [|[p f] l l' P IH|[p f] [q g] l|l l' l'' P1 IH1 P2 IH2]; cbn [total]; try lia.
Qed.

(* the old failing history: two files share a payee, one drops it -- the template stays *)
Definition shared_payee_history : list wop :=
  [ WSet (bs "root") (mkFI [(bs "Pshop", 1)] [(bs "shop", 7)]);
    WSet (bs "sub") (mkFI [(bs "Pshop", 1)] [(bs "shop", 9)]);
    WSet (bs "sub") (mkFI [] []) ].

Lemma shared_payee_keeps_template :
  let w := wrun shared_payee_history in
  cget (bs "Pshop") (wi_counts w) = 1 /\ wi_templates w = [(bs "shop", 7)].
Proof. vm_compute. split; reflexivity. Qed.
