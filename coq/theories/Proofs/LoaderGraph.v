(* Graph-level facts about the reference traversal of Spec/LoaderSpec.v, for ALL file systems,
   include graphs (cyclic ones, globs, self includes) and limits:
     - it terminates (the driver's fuel is never exhausted);
     - every file is loaded at most once;
     - every loaded file is reachable through include directives;
     - every diagnostic sits on a directive that names its target, in a loaded file;
     - a cycle diagnostic names a file that is reachable from itself (a real cycle);
     - every include of every loaded file is either loaded or carries a diagnostic of its own
       (a refused include does not stop the others), hence without such diagnostics every
       reachable file is loaded.
   Proofs/LoaderTraversal.v carries them over to the loader model. *)
From HL Require Import Lib.Bytes Model.Loader Spec.LoaderSpec.
Open Scope N_scope.

Lemma memN_In x l : memN x l = true <-> In x l.
Proof.
  induction l as [|y r IH]; cbn [memN In]; [split; [discriminate|intros []]|].
  rewrite orb_true_iff, IH, N.eqb_eq. split; intros [H|H]; auto.
Qed.

Lemma memN_not_In x l : memN x l = false <-> ~ In x l.
Proof. rewrite <- memN_In. destruct (memN x l); split; intro H; try discriminate; try reflexivity; exfalso; apply H; reflexivity. Qed.

Lemma with_err_some e o r : with_err e o = Some r ->
  exists r', o = Some r' /\ r = mkRout (ro_order r') (e :: ro_errs r') (ro_loaded r').
Proof. destruct o as [r'|]; cbn [with_err]; intro H; [|discriminate]. inversion H; subst. exists r'. split; reflexivity. Qed.

Section Items.
Variables (fs : fsys) (L : limits).

(* why an include is refused, with the diagnostic it gets *)
Inductive refusal (stk V : list N) : N * option N -> lerr -> Prop :=
| rf_glob line : refusal stk V (line, None) (mkErr ENotFound 999999 line)
| rf_cycle line q : memN q stk = true -> refusal stk V (line, Some q) (mkErr ECycle q line)
| rf_deep line q : memN q stk = false -> memN q V = false ->
    (max_depth L <=? N.of_nat (length stk)) = true -> refusal stk V (line, Some q) (mkErr ETooDeep q line)
| rf_missing line q : memN q stk = false -> memN q V = false -> flookup q fs = None ->
    refusal stk V (line, Some q) (mkErr ENotFound q line)
| rf_large line q f : memN q stk = false -> memN q V = false -> flookup q fs = Some f ->
    (max_size L <? f_size f) = true -> refusal stk V (line, Some q) (mkErr ETooLarge q line).

(* case analysis of ref_items, once and for all *)
Lemma ref_items_ind (rec : rrecT) (stk : list N) (P : list (N * option N) -> list N -> rout -> Prop) :
  (forall V, P [] V (mkRout [] [] V)) ->
  (forall it rest V e r', refusal stk V it e -> ref_items rec fs L stk rest V = Some r' -> P rest V r' ->
      P (it :: rest) V (mkRout (ro_order r') (e :: ro_errs r') (ro_loaded r'))) ->
  (forall line q rest V r', memN q stk = false -> memN q V = true ->
      ref_items rec fs L stk rest V = Some r' -> P rest V r' -> P ((line, Some q) :: rest) V r') ->
  (forall line q f rest V sub r', memN q stk = false -> memN q V = false ->
      (max_depth L <=? N.of_nat (length stk)) = false -> flookup q fs = Some f -> (max_size L <? f_size f) = false ->
      rec q (f_dirs f) stk V = Some sub -> ref_items rec fs L stk rest (ro_loaded sub) = Some r' ->
      P rest (ro_loaded sub) r' ->
      P ((line, Some q) :: rest) V (mkRout (q :: ro_order sub ++ ro_order r') (ro_errs sub ++ ro_errs r') (ro_loaded r'))) ->
  forall items V r, ref_items rec fs L stk items V = Some r -> P items V r.
Proof.
  intros Hnil Hrf Hagain Hrec. induction items as [|[line oq] rest IH]; intros V r H; cbn [ref_items] in H.
  - inversion H; subst. apply Hnil.
  - destruct oq as [q|].
    2:{ apply with_err_some in H as (r' & H1 & ->). apply Hrf; [constructor|exact H1|apply IH; exact H1]. }
    destruct (memN q stk) eqn:Ms.
    { apply with_err_some in H as (r' & H1 & ->). apply Hrf; [constructor; assumption|exact H1|apply IH; exact H1]. }
    destruct (memN q V) eqn:Mv.
    { apply Hagain; [assumption|assumption|exact H|apply IH; exact H]. }
    destruct (max_depth L <=? N.of_nat (length stk)) eqn:Dp.
    { apply with_err_some in H as (r' & H1 & ->). apply Hrf; [constructor; assumption|exact H1|apply IH; exact H1]. }
    destruct (flookup q fs) as [f|] eqn:Fq.
    2:{ apply with_err_some in H as (r' & H1 & ->). apply Hrf; [constructor; assumption|exact H1|apply IH; exact H1]. }
    destruct (max_size L <? f_size f) eqn:Zq.
    { apply with_err_some in H as (r' & H1 & ->). apply Hrf; [eapply rf_large; eassumption|exact H1|apply IH; exact H1]. }
    destruct (rec q (f_dirs f) stk V) as [sub|] eqn:Es; [|discriminate].
    destruct (ref_items rec fs L stk rest (ro_loaded sub)) as [r'|] eqn:Er; [|discriminate].
    inversion H; subst. eapply Hrec; try eassumption; try reflexivity. apply IH. exact Er.
Qed.

(* ---- shape: the loaded set grows by exactly the files of the order, newest first ---- *)
Definition rec_shape (rec : rrecT) : Prop :=
  forall q dirs stk V r, rec q dirs stk V = Some r -> ro_loaded r = rev (ro_order r) ++ q :: V.

Lemma ref_items_shape rec stk : rec_shape rec -> forall items V r,
  ref_items rec fs L stk items V = Some r -> ro_loaded r = rev (ro_order r) ++ V.
Proof.
  intro Hs. apply (ref_items_ind rec stk (fun _ V r => ro_loaded r = rev (ro_order r) ++ V)).
  - reflexivity.
  - intros it rest V e r' _ _ IH. exact IH.
  - intros line q rest V r' _ _ _ IH. exact IH.
  - intros line q f rest V sub r' _ _ _ _ _ Es _ IH. cbn [ro_loaded ro_order]. rewrite IH, (Hs _ _ _ _ _ Es).
    cbn [rev]. rewrite rev_app_distr, <- !app_assoc. reflexivity.
Qed.

(* ---- each file once ---- *)
Definition rec_nodup (rec : rrecT) : Prop :=
  forall q dirs stk V r, NoDup V -> ~ In q V -> rec q dirs stk V = Some r -> NoDup (ro_loaded r).

Lemma ref_items_nodup rec stk : rec_nodup rec -> forall items V r,
  ref_items rec fs L stk items V = Some r -> NoDup V -> NoDup (ro_loaded r).
Proof.
  intro Hn. apply (ref_items_ind rec stk (fun _ V r => NoDup V -> NoDup (ro_loaded r))).
  - intros V H. exact H.
  - intros it rest V e r' _ _ IH H. exact (IH H).
  - intros line q rest V r' _ _ _ IH H. exact (IH H).
  - intros line q f rest V sub r' _ Mv _ _ _ Es _ IH H. cbn [ro_loaded]. apply IH.
    eapply Hn; [exact H| |exact Es]. apply memN_not_In. exact Mv.
Qed.

(* ---- the loaded set only grows ---- *)
Definition rec_mono (rec : rrecT) : Prop :=
  forall q dirs stk V r, rec q dirs stk V = Some r -> incl (q :: V) (ro_loaded r).

Lemma ref_items_mono rec stk : rec_mono rec -> forall items V r,
  ref_items rec fs L stk items V = Some r -> incl V (ro_loaded r).
Proof.
  intro Hm. apply (ref_items_ind rec stk (fun _ V r => incl V (ro_loaded r))).
  - intro V. apply incl_refl.
  - intros it rest V e r' _ _ IH. exact IH.
  - intros line q rest V r' _ _ _ IH. exact IH.
  - intros line q f rest V sub r' _ _ _ _ _ Es _ IH. cbn [ro_loaded].
    eapply incl_tran; [|exact IH]. eapply incl_tran; [apply incl_tl, incl_refl|exact (Hm _ _ _ _ _ Es)].
Qed.
End Items.

(* ------------------------------------------------------------------------------------------ *)
Lemma ref_load_shape fs L : forall fuel, rec_shape (ref_load fuel fs L).
Proof.
  induction fuel as [|fuel IH]; intros p dirs stk V r H; [discriminate|]. cbn [ref_load] in H.
  exact (ref_items_shape fs L _ _ IH _ _ _ H).
Qed.

Lemma ref_load_nodup fs L : forall fuel, rec_nodup (ref_load fuel fs L).
Proof.
  induction fuel as [|fuel IH]; intros p dirs stk V r Hn Hp H; [discriminate|]. cbn [ref_load] in H.
  eapply (ref_items_nodup fs L _ _ IH); [exact H|]. constructor; assumption.
Qed.

Lemma ref_load_mono fs L : forall fuel, rec_mono (ref_load fuel fs L).
Proof.
  induction fuel as [|fuel IH]; intros p dirs stk V r H; [discriminate|]. cbn [ref_load] in H.
  exact (ref_items_mono fs L _ _ IH _ _ _ H).
Qed.

Lemma nodup_app_l {A} (l l' : list A) : NoDup (l ++ l') -> NoDup l.
Proof.
  induction l as [|x l IH]; cbn [app]; intro H; [constructor|]. inversion H as [|? ? Hni Hnd]; subst.
  constructor; [intro Hx; apply Hni; apply in_or_app; left; exact Hx|apply IH; exact Hnd].
Qed.

(* every file at most once: the order has no duplicates and avoids what was loaded before *)
Theorem ref_load_each_once fs L fuel p dirs stk V r : NoDup V -> ~ In p V ->
  ref_load fuel fs L p dirs stk V = Some r ->
  NoDup (ro_order r) /\ (forall x, In x (ro_order r) -> x <> p /\ ~ In x V).
Proof.
  intros Hn Hp H. pose proof (ref_load_nodup fs L fuel p dirs stk V r Hn Hp H) as ND.
  rewrite (ref_load_shape fs L fuel _ _ _ _ _ H) in ND.
  pose proof (nodup_app_l _ _ ND) as ND1. split.
  - apply NoDup_rev in ND1. rewrite rev_involutive in ND1. exact ND1.
  - intros x Hx. assert (Hx' : In x (rev (ro_order r))) by (apply in_rev in Hx; exact Hx).
    clear -ND Hx'. induction (rev (ro_order r)) as [|y l IH]; [destruct Hx'|].
    cbn [app] in ND. inversion ND as [|? ? Hni Hnd]; subst. destruct Hx' as [->|Hx'].
    + split; [intros ->; apply Hni; apply in_or_app; right; left; reflexivity|].
      intro Hv. apply Hni. apply in_or_app. right. right. exact Hv.
    + apply IH; assumption.
Qed.

(* ------------------------------------------------------------------------------------------ *)
(* termination *)

(* files of the file system not yet loaded *)
Definition unv (fs : fsys) (vis : list N) : nat := length (filter (fun kv => negb (memN (fst kv) vis)) fs).

Lemma unv_mono fs v1 v2 : incl v1 v2 -> (unv fs v2 <= unv fs v1)%nat.
Proof.
  intro I. unfold unv. induction fs as [|[k f] r IH]; [cbn; lia|]. cbn [filter fst].
  destruct (memN k v2) eqn:M2; destruct (memN k v1) eqn:M1; cbn [negb length]; try lia.
  exfalso. apply memN_In in M1. apply I in M1. apply memN_In in M1. congruence.
Qed.

Lemma flookup_In {A} k (m : list (N * A)) v : flookup k m = Some v -> In (k, v) m.
Proof.
  induction m as [|[k' v'] r IH]; cbn [flookup]; [discriminate|].
  destruct (k =? k') eqn:E; [apply N.eqb_eq in E; subst; intro H; inversion H; left; reflexivity|intro H; right; auto].
Qed.

Lemma filter_visit_le (r : fsys) q vis :
  (length (filter (fun kv => negb (memN (fst kv) (q :: vis))) r) <= length (filter (fun kv => negb (memN (fst kv) vis)) r))%nat.
Proof.
  induction r as [|[k g] r IH]; [cbn; lia|]. cbn [filter fst].
  change (memN k (q :: vis)) with ((k =? q) || memN k vis).
  destruct (k =? q); destruct (memN k vis); cbn [orb negb length]; lia.
Qed.

Lemma unv_visit fs vis q f : flookup q fs = Some f -> memN q vis = false -> (unv fs (q :: vis) < unv fs vis)%nat.
Proof.
  intros L M. apply flookup_In in L. unfold unv. induction fs as [|[k g] r IH]; [destruct L|].
  destruct L as [E|L].
  - inversion E; subst. cbn [filter fst]. change (memN q (q :: vis)) with ((q =? q) || memN q vis).
    rewrite N.eqb_refl, M. cbn [orb negb length].
    pose proof (filter_visit_le r q vis) as H. lia.
  - specialize (IH L). cbn [filter fst]. change (memN k (q :: vis)) with ((k =? q) || memN k vis).
    destruct (k =? q); destruct (memN k vis); cbn [orb negb length]; lia.
Qed.

Lemma unv_le_length fs vis : (unv fs vis <= length fs)%nat.
Proof. unfold unv. induction fs as [|x r IH]; [cbn; lia|]. cbn [filter]. destruct (negb _); cbn [length]; lia. Qed.

Lemma ref_items_total fs L rec stk n :
  rec_mono rec ->
  (forall q f V, flookup q fs = Some f -> memN q V = false -> (unv fs V <= n)%nat -> rec q (f_dirs f) stk V <> None) ->
  forall items V, (unv fs V <= n)%nat -> ref_items rec fs L stk items V <> None.
Proof.
  intros Hm Hr. induction items as [|[line oq] rest IH]; intros V B; cbn [ref_items]; [discriminate|].
  assert (W : forall e, with_err e (ref_items rec fs L stk rest V) <> None).
  { intro e. specialize (IH V B). destruct (ref_items rec fs L stk rest V); [discriminate|contradiction]. }
  destruct oq as [q|]; [|apply W].
  destruct (memN q stk); [apply W|]. destruct (memN q V) eqn:Mv; [apply IH; exact B|].
  destruct (max_depth L <=? N.of_nat (length stk)); [apply W|].
  destruct (flookup q fs) as [f|] eqn:Fq; [|apply W].
  destruct (max_size L <? f_size f); [apply W|].
  specialize (Hr q f V Fq Mv B). destruct (rec q (f_dirs f) stk V) as [sub|] eqn:Es; [|contradiction].
  assert (B' : (unv fs (ro_loaded sub) <= n)%nat).
  { pose proof (Hm _ _ _ _ _ Es) as I. pose proof (unv_mono fs V (ro_loaded sub)) as U.
    assert (incl V (ro_loaded sub)) by (eapply incl_tran; [apply incl_tl, incl_refl|exact I]). specialize (U H). lia. }
  specialize (IH (ro_loaded sub) B'). destruct (ref_items rec fs L stk rest (ro_loaded sub)); [discriminate|contradiction].
Qed.

(* every recursive call marks a file of the file system that was not marked before *)
Lemma ref_load_total fs L : forall fuel p dirs stk V, (unv fs (p :: V) < fuel)%nat ->
  ref_load fuel fs L p dirs stk V <> None.
Proof.
  induction fuel as [|fuel IH]; intros p dirs stk V B; [lia|]. cbn [ref_load].
  apply (ref_items_total fs L _ _ fuel (ref_load_mono fs L fuel)); [|lia].
  intros q f V' Fq Mv B'. apply IH. pose proof (unv_visit fs V' q f Fq Mv). lia.
Qed.

Theorem ref_root_total fs L root ov : ref_root fs L root ov <> None.
Proof.
  unfold ref_root. destruct (match ov with Some f => Some f | None => flookup root fs end) as [f|]; [|discriminate].
  destruct (max_size L <? f_size f); [discriminate|]. destruct (max_depth L <=? 0); [discriminate|].
  apply ref_load_total. unfold fuel_for. pose proof (unv_le_length fs [root]). lia.
Qed.

(* ------------------------------------------------------------------------------------------ *)
(* reachability *)

(* (line, q): a directive at `line` of a file reachable from `dirs` (or of `dirs` itself) names q *)
Inductive attached (fs : fsys) : list directive -> N -> N -> Prop :=
| at_direct dirs q line : In (line, Some q) (dir_items fs dirs) -> attached fs dirs q line
| at_via dirs y fy l' q line : In (l', Some y) (dir_items fs dirs) -> flookup y fs = Some fy ->
    attached fs (f_dirs fy) q line -> attached fs dirs q line.

(* x is named by a directive of `dirs`, or by a directive of a file so reachable (as read from fs) *)
Inductive reach (fs : fsys) : list directive -> N -> Prop :=
| reach_direct dirs q line : In (line, Some q) (dir_items fs dirs) -> reach fs dirs q
| reach_via dirs q f x line : In (line, Some q) (dir_items fs dirs) -> flookup q fs = Some f ->
    reach fs (f_dirs f) x -> reach fs dirs x.

Lemma attached_reach fs dirs q line : attached fs dirs q line -> reach fs dirs q.
Proof. induction 1; [eapply reach_direct; eassumption|eapply reach_via; eassumption]. Qed.

Lemma reach_trans fs dirs q f x : reach fs dirs q -> flookup q fs = Some f -> reach fs (f_dirs f) x -> reach fs dirs x.
Proof.
  intros H. revert f x. induction H as [dirs q line Hin|dirs q0 f0 y line Hin Hf _ IH]; intros f x Hq Hx.
  - eapply reach_via; eassumption.
  - eapply reach_via; [exact Hin|exact Hf|]. eapply IH; eassumption.
Qed.

(* what is known of every diagnostic and every loaded file of a traversal of `dirs` with stack stk *)
Definition sound_out (fs : fsys) (dirs : list directive) (stk : list N) (r : rout) : Prop :=
  (forall x, In x (ro_order r) -> reach fs dirs x /\ exists f, flookup x fs = Some f) /\
  (forall e, In e (ro_errs r) ->
     (e_kind e = ENotFound /\ e_target e = 999999) \/
     (attached fs dirs (e_target e) (e_line e) /\
      (e_kind e = ECycle -> In (e_target e) stk \/ exists f, flookup (e_target e) fs = Some f /\ reach fs (f_dirs f) (e_target e)))).

Definition rec_sound (fs : fsys) (rec : rrecT) : Prop :=
  forall q f stk V r, flookup q fs = Some f -> rec q (f_dirs f) stk V = Some r -> sound_out fs (f_dirs f) (q :: stk) r.

Lemma ref_items_sound fs L rec stk dirs : rec_sound fs rec -> forall items V r,
  ref_items rec fs L stk items V = Some r -> incl items (dir_items fs dirs) -> sound_out fs dirs stk r.
Proof.
  intro Hs. apply (ref_items_ind fs L rec stk (fun items V r => incl items (dir_items fs dirs) -> sound_out fs dirs stk r)).
  - intros V _. split; [intros x []|intros e []].
  - intros it rest V e r' Rf _ IH Inc.
    assert (Inc' : incl rest (dir_items fs dirs)) by (intros y Iy; apply Inc; right; exact Iy).
    assert (Here : In it (dir_items fs dirs)) by (apply Inc; left; reflexivity).
    destruct (IH Inc') as [I1 I2]. split; [exact I1|]. cbn [ro_errs]. intros e0 [<-|He]; [|apply I2; exact He].
    destruct Rf as [line|line q Ms|line q _ _ _|line q _ _ _|line q f _ _ _ _]; cbn [e_kind e_target e_line].
    + left. split; reflexivity.
    + right. split; [apply at_direct; exact Here|]. intros _. left. apply memN_In. exact Ms.
    + right. split; [apply at_direct; exact Here|discriminate].
    + right. split; [apply at_direct; exact Here|discriminate].
    + right. split; [apply at_direct; exact Here|discriminate].
  - intros line q rest V r' _ _ _ IH Inc. apply IH. intros y Iy. apply Inc. right. exact Iy.
  - intros line q f rest V sub r' _ _ _ Fq _ Es _ IH Inc.
    assert (Inc' : incl rest (dir_items fs dirs)) by (intros y Iy; apply Inc; right; exact Iy).
    assert (Here : In (line, Some q) (dir_items fs dirs)) by (apply Inc; left; reflexivity).
    destruct (IH Inc') as [I1 I2]. destruct (Hs q f stk V sub Fq Es) as [S1 S2]. split; cbn [ro_order ro_errs].
    + intros x [<-|Hx]; [split; [eapply reach_direct; exact Here|exists f; exact Fq]|].
      apply in_app_or in Hx as [Hx|Hx]; [|apply I1; exact Hx].
      destruct (S1 x Hx) as [Rx Ex]. split; [eapply reach_via; eassumption|exact Ex].
    + intros e He. apply in_app_or in He as [He|He]; [|apply I2; exact He].
      destruct (S2 e He) as [G|[At Cy]]; [left; exact G|]. right. split; [eapply at_via; eassumption|].
      intro K. destruct (Cy K) as [[E|Hin]|Hc]; [|left; exact Hin|right; exact Hc].
      (* the cycle closes on q itself: q reaches q through its own directives *)
      right. rewrite <- E in At |- *. exists f. split; [exact Fq|]. eapply attached_reach. exact At.
Qed.

Lemma ref_load_sound fs L : forall fuel, rec_sound fs (ref_load fuel fs L).
Proof.
  induction fuel as [|fuel IH]; intros q f stk V r Fq H; [discriminate|]. cbn [ref_load] in H.
  eapply (ref_items_sound fs L _ (q :: stk) (f_dirs f) IH); [exact H|apply incl_refl].
Qed.

(* ------------------------------------------------------------------------------------------ *)
(* nothing is dropped silently *)

Definition bad_err (y line : N) (errs : list lerr) : Prop :=
  exists k, k <> ECycle /\ In (mkErr k y line) errs.

(* every include among `items` is loaded or carries a diagnostic of its own *)
Definition items_closed (items : list (N * option N)) (loaded : list N) (errs : list lerr) : Prop :=
  (forall line y, In (line, Some y) items -> In y loaded \/ bad_err y line errs) /\
  (forall line, In (line, None) items -> In (mkErr ENotFound 999999 line) errs).

Lemma items_closed_mono items l1 e1 l2 e2 : incl l1 l2 -> incl e1 e2 -> items_closed items l1 e1 -> items_closed items l2 e2.
Proof.
  intros Il Ie [A B]. split.
  - intros line y H. destruct (A line y H) as [G|(k & Hk & G)]; [left; apply Il; exact G|right; exists k; split; [exact Hk|apply Ie; exact G]].
  - intros line H. apply Ie. apply B. exact H.
Qed.

Definition closed_out (fs : fsys) (r : rout) : Prop :=
  forall x, In x (ro_order r) -> exists f, flookup x fs = Some f /\ items_closed (dir_items fs (f_dirs f)) (ro_loaded r) (ro_errs r).

Definition rec_closed (fs : fsys) (rec : rrecT) : Prop :=
  forall q f stk V r, incl stk V -> flookup q fs = Some f -> rec q (f_dirs f) stk V = Some r ->
    items_closed (dir_items fs (f_dirs f)) (ro_loaded r) (ro_errs r) /\ closed_out fs r.

Lemma closed_out_mono fs o l1 e1 l2 e2 : incl l1 l2 -> incl e1 e2 ->
  closed_out fs (mkRout o e1 l1) -> closed_out fs (mkRout o e2 l2).
Proof.
  intros Il Ie H x Hx. destruct (H x Hx) as (f & Fx & Cl). exists f. split; [exact Fx|].
  cbn [ro_loaded ro_errs] in *. eapply items_closed_mono; eassumption.
Qed.

Lemma ref_items_closed fs L rec stk : rec_mono rec -> rec_closed fs rec -> forall items V r,
  ref_items rec fs L stk items V = Some r -> incl stk V ->
  items_closed items (ro_loaded r) (ro_errs r) /\ closed_out fs r.
Proof.
  intros Hm Hc.
  apply (ref_items_ind fs L rec stk (fun items V r => incl stk V -> items_closed items (ro_loaded r) (ro_errs r) /\ closed_out fs r)).
  - intros V _. split; [split; [intros line y []|intros line []]|intros x []].
  - intros it rest V e r' Rf Er IH Inc. destruct (IH Inc) as [[A B] Cl].
    assert (Mono : incl V (ro_loaded r')) by (eapply ref_items_mono; eassumption).
    split.
    + cbn [ro_loaded ro_errs]. split.
      * intros line y [E|H].
        -- subst it. inversion Rf as [|l q Ms|l q _ _ _|l q _ _ _|l q f _ _ _ _]; subst.
           ++ left. apply Mono. apply Inc. apply memN_In. exact Ms.
           ++ right. exists ETooDeep. split; [discriminate|left; reflexivity].
           ++ right. exists ENotFound. split; [discriminate|left; reflexivity].
           ++ right. exists ETooLarge. split; [discriminate|left; reflexivity].
        -- destruct (A line y H) as [G|(k & Hk & G)]; [left; exact G|right; exists k; split; [exact Hk|right; exact G]].
      * intros line [E|H]; [subst it; inversion Rf; subst; left; reflexivity|right; apply B; exact H].
    + destruct r' as [o' e' l']. cbn [ro_order ro_errs ro_loaded] in *.
      eapply closed_out_mono; [apply incl_refl|apply incl_tl, incl_refl|exact Cl].
  - intros line q rest V r' _ Mv Er IH Inc. destruct (IH Inc) as [[A B] Cl].
    assert (Mono : incl V (ro_loaded r')) by (eapply ref_items_mono; eassumption).
    split; [|exact Cl]. split.
    + intros l y [E|H]; [inversion E; subst; left; apply Mono; apply memN_In; exact Mv|apply A; exact H].
    + intros l [E|H]; [discriminate E|apply B; exact H].
  - intros line q f rest V sub r' _ _ _ Fq _ Es Er IH Inc.
    pose proof (Hm _ _ _ _ _ Es) as MonoS.
    assert (IncS : incl stk (ro_loaded sub)) by (eapply incl_tran; [exact Inc|]; eapply incl_tran; [apply incl_tl, incl_refl|exact MonoS]).
    destruct (IH IncS) as [[A B] Cl]. destruct (Hc q f stk V sub Inc Fq Es) as [ClQ ClS].
    assert (Mono : incl (ro_loaded sub) (ro_loaded r')) by (eapply ref_items_mono; eassumption).
    cbn [ro_loaded ro_errs ro_order]. split.
    + split.
      * intros l y [E|H].
        -- inversion E; subst. left. apply Mono. apply MonoS. left. reflexivity.
        -- destruct (A l y H) as [G|(k & Hk & G)]; [left; exact G|right; exists k; split; [exact Hk|apply in_or_app; right; exact G]].
      * intros l [E|H]; [discriminate E|apply in_or_app; right; apply B; exact H].
    + intros x [<-|Hx].
      * exists f. split; [exact Fq|]. eapply items_closed_mono; [exact Mono| |exact ClQ]. apply incl_appl, incl_refl.
      * apply in_app_or in Hx as [Hx|Hx].
        -- destruct (ClS x Hx) as (fx & Fx & Cx). exists fx. split; [exact Fx|].
           eapply items_closed_mono; [exact Mono| |exact Cx]. apply incl_appl, incl_refl.
        -- destruct (Cl x Hx) as (fx & Fx & Cx). exists fx. split; [exact Fx|].
           eapply items_closed_mono; [apply incl_refl| |exact Cx]. apply incl_appr, incl_refl.
Qed.

Lemma ref_load_closed fs L : forall fuel, rec_closed fs (ref_load fuel fs L).
Proof.
  induction fuel as [|fuel IH]; intros q f stk V r Inc Fq H; [discriminate|]. cbn [ref_load] in H.
  eapply (ref_items_closed fs L _ (q :: stk) (ref_load_mono fs L fuel) IH); [exact H|].
  intros y [<-|Hy]; [left; reflexivity|right; apply Inc; exact Hy].
Qed.

(* ------------------------------------------------------------------------------------------ *)
(* the whole traversal from a root *)

(* the root is readable and within the limits: the traversal runs *)
Definition root_file (fs : fsys) (L : limits) (root : N) (ov : option file) (f : file) : Prop :=
  match ov with Some g => Some g | None => flookup root fs end = Some f /\
  (max_size L <? f_size f) = false /\ (max_depth L <=? 0) = false.

Lemma ref_root_runs fs L root ov f : root_file fs L root ov f ->
  ref_root fs L root ov = ref_load (fuel_for fs) fs L root (f_dirs f) [] [].
Proof. intros (E & Z & D). unfold ref_root. rewrite E, Z, D. reflexivity. Qed.

Theorem ref_root_each_once fs L root ov f r : root_file fs L root ov f -> ref_root fs L root ov = Some r ->
  NoDup (ro_order r) /\ ~ In root (ro_order r) /\ ro_loaded r = rev (ro_order r) ++ [root].
Proof.
  intros RF H. rewrite (ref_root_runs _ _ _ _ _ RF) in H.
  destruct (ref_load_each_once fs L _ _ _ _ _ r (NoDup_nil N) (fun x => x) H) as [A B].
  split; [exact A|]. split; [intro Hx; destruct (B root Hx) as [Hne _]; apply Hne; reflexivity|].
  exact (ref_load_shape fs L _ _ _ _ _ _ H).
Qed.

(* soundness: only reachable, existing files are loaded; every diagnostic is attached to a directive
   that names its target; a cycle diagnostic names a file reachable from itself *)
Theorem ref_root_sound fs L root ov f r : root_file fs L root ov f -> ref_root fs L root ov = Some r ->
  (forall x, In x (ro_order r) -> reach fs (f_dirs f) x /\ exists g, flookup x fs = Some g) /\
  (forall e, In e (ro_errs r) ->
     (e_kind e = ENotFound /\ e_target e = 999999) \/
     (attached fs (f_dirs f) (e_target e) (e_line e) /\
      (e_kind e = ECycle -> e_target e = root \/ exists g, flookup (e_target e) fs = Some g /\ reach fs (f_dirs g) (e_target e)))).
Proof.
  intros RF H. rewrite (ref_root_runs _ _ _ _ _ RF) in H. unfold fuel_for in H. set (n := S (length fs)) in H. cbn [ref_load] in H.
  destruct (ref_items_sound fs L _ [root] (f_dirs f) (ref_load_sound fs L _) _ _ _ H (incl_refl _)) as [A B].
  split; [exact A|]. intros e He. destruct (B e He) as [G|[At Cy]]; [left; exact G|]. right. split; [exact At|].
  intro K. destruct (Cy K) as [[E|[]]|Hc]; [left; symmetry; exact E|right; exact Hc].
Qed.

(* a glob without match is reported on its line *)
(* nothing is dropped silently: every include of the root and of every loaded file is loaded, or
   carries a diagnostic of its own (missing, too large, too deep) on its line *)
Theorem ref_root_closed fs L root ov f r : root_file fs L root ov f -> ref_root fs L root ov = Some r ->
  items_closed (dir_items fs (f_dirs f)) (ro_loaded r) (ro_errs r) /\ closed_out fs r.
Proof.
  intros RF H. rewrite (ref_root_runs _ _ _ _ _ RF) in H. unfold fuel_for in H. set (n := S (length fs)) in H. cbn [ref_load] in H.
  apply (ref_items_closed fs L _ [root] (ref_load_mono fs L _) (ref_load_closed fs L _) _ _ _ H).
  intros y [<-|[]]. left. reflexivity.
Qed.

(* completeness: when no include is refused for being missing, too large or too deep (cycle
   diagnostics are allowed), every file reachable through include directives is loaded.
   The root's own directives are the given ones (an unsaved buffer may differ from the disk): the
   hypothesis says that a path leading back into the root continues with those. *)
Theorem ref_root_complete fs L root ov f r : root_file fs L root ov f -> ref_root fs L root ov = Some r ->
  (forall g, flookup root fs = Some g -> dir_items fs (f_dirs g) = dir_items fs (f_dirs f)) ->
  (forall e, In e (ro_errs r) -> e_kind e = ECycle) ->
  forall x, reach fs (f_dirs f) x -> x = root \/ In x (ro_order r).
Proof.
  intros RF H Hroot Hc. destruct (ref_root_closed _ _ _ _ _ _ RF H) as [Cr Co].
  destruct (ref_root_each_once _ _ _ _ _ _ RF H) as (_ & _ & Sh).
  assert (NB : forall y line, ~ bad_err y line (ro_errs r)).
  { intros y line (k & Hk & Hin). apply Hk. exact (Hc _ Hin). }
  assert (Mem : forall y, In y (ro_loaded r) -> y = root \/ In y (ro_order r)).
  { intros y Hy. rewrite Sh in Hy. apply in_app_or in Hy as [Hy|[<-|[]]]; [right; apply in_rev; exact Hy|left; reflexivity]. }
  assert (G : forall dirs x, reach fs dirs x ->
              (forall line y, In (line, Some y) (dir_items fs dirs) -> In y (ro_loaded r) \/ bad_err y line (ro_errs r)) ->
              In x (ro_loaded r)).
  { intros dirs x Hr. induction Hr as [dirs q line Hin|dirs q g x line Hin Hg Hr IH]; intro Cl.
    - destruct (Cl line q Hin) as [G|B]; [exact G|exfalso; exact (NB _ _ B)].
    - apply IH. destruct (Cl line q Hin) as [G|B]; [|exfalso; exact (NB _ _ B)].
      destruct (Mem q G) as [->|Hq].
      + rewrite (Hroot g Hg). exact (proj1 Cr).
      + destruct (Co q Hq) as (g' & Hg' & Cq). assert (g' = g) by congruence. subst g'. exact (proj1 Cq). }
  intros x Hx. apply Mem. exact (G _ x Hx (proj1 Cr)).
Qed.

(* in particular: an acyclic part of the graph produces no cycle diagnostic (a file reached twice
   along different acyclic paths is not an error) *)
Corollary ref_root_no_spurious_cycle fs L root ov f r : root_file fs L root ov f -> ref_root fs L root ov = Some r ->
  ~ reach fs (f_dirs f) root ->
  (forall x g, reach fs (f_dirs f) x -> flookup x fs = Some g -> ~ reach fs (f_dirs g) x) ->
  forall e, In e (ro_errs r) -> e_kind e <> ECycle.
Proof.
  intros RF H Nr Nc e He K. destruct (ref_root_sound _ _ _ _ _ _ RF H) as [_ B].
  destruct (B e He) as [[G _]|[At Cy]]; [congruence|]. pose proof (attached_reach _ _ _ _ At) as Re.
  destruct (Cy K) as [E|(g & Hg & Rg)]; [rewrite E in Re; exact (Nr Re)|exact (Nc _ _ Re Hg Rg)].
Qed.
