(* Concrete thread sets for the non-vacuity statements of C14. *)
From HL Require Import Lib.Bytes Model.Locks Proofs.LocksProofs Proofs.LocksOrder Tie.C14.
Open Scope N_scope.

Lemma conc_table : conc 0 2 = false /\ conc 1 1 = false /\ conc 1 2 = true /\ conc 2 2 = true /\ conc 2 3 = true.
Proof. repeat split; reflexivity. Qed.

Definition writer : thread := mkThread 1 [] [Acq 1 MW; Acc 7 true; Rel 1].
Definition reader : thread := mkThread 2 [] [Acq 1 MR; Acc 7 false; Rel 1].
Definition sample_threads : list thread := [writer; reader; reader].
Definition sample_table : list row := [mkRow 1 7 true [(1, MW)]; mkRow 2 7 false [(1, MR)]].

Definition bare_reader : thread := mkThread 2 [] [Acc 7 false].
Definition sample_bad_threads : list thread := [writer; bare_reader].
Definition sample_bad_table : list row := [mkRow 1 7 true [(1, MW)]; mkRow 2 7 false []].

Lemma sample_ok : disciplined conc sample_table = true /\ all_covered sample_table sample_threads /\
  kinds_ok conc sample_threads /\ initial sample_threads /\ disciplined conc sample_bad_table = false.
Proof.
  split; [reflexivity|]. split.
  { intros i t H. destruct i as [|[|[|i]]]; cbn in H; try (destruct i; discriminate); inversion H; subst t; cbn.
    - split; [exact I|]. split; [|split; [exact I|exact I]].
      exists (mkRow 1 7 true [(1, MW)]). cbn. repeat split; auto.
    - split; [exact I|]. split; [|split; [exact I|exact I]].
      exists (mkRow 2 7 false [(1, MR)]). cbn. repeat split; auto.
    - split; [exact I|]. split; [|split; [exact I|exact I]].
      exists (mkRow 2 7 false [(1, MR)]). cbn. repeat split; auto. }
  split.
  { intros i j ti tj Hij Hi Hj.
    destruct i as [|[|[|i]]]; cbn in Hi; try (destruct i; discriminate); inversion Hi; subst ti;
      destruct j as [|[|[|j]]]; cbn in Hj; try (destruct j; discriminate); inversion Hj; subst tj;
      try reflexivity; exfalso; apply Hij; reflexivity. }
  split; [|reflexivity].
  intros i t H. destruct i as [|[|[|i]]]; cbn in H; try (destruct i; discriminate); inversion H; reflexivity.
Qed.

Lemma bad_races : exists ts, reachable sample_bad_threads ts /\ race ts.
Proof.
  exists (update sample_bad_threads 0 (advance writer)). split.
  - eapply reach_step; [apply reach_init|]. apply (step_thread sample_bad_threads 0%nat writer); reflexivity.
  - exists 0%nat, 1%nat, (advance writer), bare_reader, 7, true, false, [Rel 1], [].
    repeat split; try reflexivity. discriminate.
Qed.

Lemma sample_ordered : all_ordered sample_threads.
Proof.
  intros i t H. destruct i as [|[|[|i]]]; cbn in H; try (destruct i; discriminate); inversion H; subst t; cbn;
    (split; [intros l' m []|]); (split; [exact I|]); (split; [exact I|]); reflexivity.
Qed.
