(* C11 for the repaired loader: a coherent cache is an invariant of every operation sequence, and in a
   coherent state a load equals a fresh load. *)
From HL Require Import Lib.Bytes Model.Loader Spec.LoaderSpec Tie.C10 Tie.C11 Proofs.LoaderProofs Proofs.LoaderTraversal.
Open Scope N_scope.

Lemma flookup_cache_del k q (c : list (N * file)) : flookup q (cache_del k c) = if q =? k then None else flookup q c.
Proof.
  unfold cache_del. induction c as [|[k' v] c IH]; cbn [filter fst flookup]; [destruct (q =? k); reflexivity|].
  destruct (k' =? k) eqn:E; cbn [negb].
  - rewrite IH. apply N.eqb_eq in E. subst k'. destruct (q =? k); reflexivity.
  - cbn [flookup]. rewrite IH. destruct (q =? k') eqn:E2; [|reflexivity].
    apply N.eqb_eq in E2. subst k'. rewrite E. reflexivity.
Qed.

Lemma flookup_fs_set_other k q f (fs : fsys) : q <> k -> flookup q (fs_set k f fs) = flookup q fs.
Proof.
  intro NE. induction fs as [|[k' v] r IH]; cbn [fs_set flookup].
  - destruct f; cbn [flookup]; [|reflexivity]. destruct (q =? k) eqn:E; [apply N.eqb_eq in E; contradiction|reflexivity].
  - destruct (k =? k') eqn:E.
    + apply N.eqb_eq in E. subst k'. destruct (q =? k) eqn:E2; [apply N.eqb_eq in E2; contradiction|].
      destruct f; cbn [flookup]; rewrite ?E2; reflexivity.
    + cbn [flookup]. destruct (q =? k'); [reflexivity|exact IH].
Qed.

Definition sys_ok (L : limits) (s : lsys) : Prop := coherent (s_fs s) L (s_cache s).

Lemma load_root_coherent fs L c root ov o : coherent fs L c -> load_root fs L c root ov = Some o ->
  coherent fs L (cache (o_st o)).
Proof.
  intros C H. pose proof (load_root_refines fs L c root ov C) as R. rewrite H in R. unfold root_refines in R.
  destruct (ref_root fs L root ov); [|contradiction]. destruct R as (_ & _ & _ & K). exact K.
Qed.

(* one load: the result and the diagnostics do not depend on which coherent cache it starts with *)
Lemma load_root_cache_indep fs L c1 c2 root ov o1 : coherent fs L c1 -> coherent fs L c2 ->
  load_root fs L c1 root ov = Some o1 ->
  exists o2, load_root fs L c2 root ov = Some o2 /\ o_res o1 = o_res o2 /\ o_errs o1 = o_errs o2.
Proof.
  intros C1 C2 H. unfold load_root in *.
  destruct (match ov with Some f => Some f | None => flookup root fs end) as [f|];
    [|inversion H; subst; eexists; split; [reflexivity|split; reflexivity]].
  destruct (max_size L <? f_size f); [inversion H; subst; eexists; split; [reflexivity|split; reflexivity]|].
  destruct (max_depth L <=? 0); [inversion H; subst; eexists; split; [reflexivity|split; reflexivity]|].
  destruct (load_wc (fuel_for fs) fs L root (f_dirs f) (mkLS [] [] c1)) as [w1|] eqn:E1; [|discriminate].
  destruct (load_wc_cache_indep fs L _ _ _ _ _ c1 c2 w1 C1 C2 E1) as (w2 & E2 & (R1 & R2 & _) & _).
  rewrite E2. inversion H; subst o1. eexists. split; [reflexivity|]. cbn [o_res o_errs]. rewrite R1, R2. split; reflexivity.
Qed.

Lemma sys_ok_step L s op : sys_ok L s -> sys_ok L (fst (lsys_step L s op)).
Proof.
  unfold sys_ok. intro C. destruct op as [root|root f|k f|]; cbn [lsys_step].
  - destruct (load_root (s_fs s) L (s_cache s) root None) as [o|] eqn:E; cbn [fst s_fs s_cache]; [|exact C].
    eapply load_root_coherent; eauto.
  - destruct (load_root (s_fs s) L (s_cache s) root (Some f)) as [o|] eqn:E; cbn [fst s_fs s_cache]; [|exact C].
    eapply load_root_coherent; eauto.
  - cbn [fst s_fs s_cache]. intros q cf H. rewrite flookup_cache_del in H.
    destruct (q =? k) eqn:E; [discriminate|]. apply N.eqb_neq in E.
    rewrite flookup_fs_set_other by exact E. apply C. exact H.
  - cbn [fst s_fs s_cache]. apply coherent_nil.
Qed.

(* in a coherent state a load returns what a fresh loader returns *)
Lemma step_is_fresh L s op sh fr : sys_ok L s ->
  snd (lsys_step L s op) = Some sh -> fresh_of s L op = Some fr ->
  o_res sh = o_res fr /\ o_errs sh = o_errs fr.
Proof.
  unfold sys_ok. intros C H F. destruct op as [root|root f|k f|]; cbn [lsys_step fresh_of] in *; try discriminate.
  - destruct (load_root (s_fs s) L (s_cache s) root None) as [o|] eqn:E; cbn [snd] in H; [|discriminate]. inversion H; subst o.
    destruct (load_root_cache_indep _ L _ [] root None sh C (coherent_nil _ _) E) as (o2 & E2 & R1 & R2).
    rewrite E2 in F. inversion F; subst. auto.
  - destruct (load_root (s_fs s) L (s_cache s) root (Some f)) as [o|] eqn:E; cbn [snd] in H; [|discriminate]. inversion H; subst o.
    destruct (load_root_cache_indep _ L _ [] root (Some f) sh C (coherent_nil _ _) E) as (o2 & E2 & R1 & R2).
    rewrite E2 in F. inversion F; subst. auto.
Qed.

Definition C11_statement : Prop :=
  forall fs L ops,
    let run := fold_left (fun acc op => let '(s, outs) := acc in
                                        let '(s', o) := lsys_step L s op in
                                        (s', outs ++ [(o, fresh_of s L op)]))
                         ops (mkSys fs [], []) in
    forall sh fr, In (Some sh, Some fr) (snd run) ->
      o_res sh = o_res fr /\ o_errs sh = o_errs fr.

(* C11, full statement, for the loader as repaired: along EVERY operation sequence (loads of any
   root, rewrites and deletions with invalidation, cache clears) every load returns the result and
   the errors a fresh loader returns on the files as they are at that moment *)
Theorem C11_holds : C11_statement.
Proof.
  intros fs L ops.
  assert (G : forall ops s outs, sys_ok L s ->
             (forall sh fr, In (Some sh, Some fr) outs -> o_res sh = o_res fr /\ o_errs sh = o_errs fr) ->
             forall sh fr, In (Some sh, Some fr)
               (snd (fold_left (fun acc op => let '(s, outs) := acc in let '(s', o) := lsys_step L s op in
                                              (s', outs ++ [(o, fresh_of s L op)])) ops (s, outs))) ->
             o_res sh = o_res fr /\ o_errs sh = o_errs fr).
  { induction ops0 as [|op r IH]; intros s outs OK Hout sh fr I; [cbn in I; auto|].
    cbn [fold_left] in I. destruct (lsys_step L s op) as [s' o] eqn:E.
    apply (IH s' (outs ++ [(o, fresh_of s L op)])); [| |exact I].
    - replace s' with (fst (lsys_step L s op)) by (rewrite E; reflexivity). apply sys_ok_step. exact OK.
    - intros a b Ia. apply in_app_or in Ia as [Ia|[Ea|[]]]; [auto|]. inversion Ea; subst.
      eapply step_is_fresh; [exact OK| |eassumption]. rewrite E. reflexivity. }
  apply G; [apply coherent_nil|intros a b []].
Qed.


Lemma sample_second_load :
  let s0 := mkSys diamond [] in
  let '(s1, o1) := lsys_step big s0 (OLoad 0) in
  let '(s2, o2) := lsys_step big s1 (OLoad 0) in
  option_map (fun o => option_map r_order (o_res o)) o2 = option_map (fun o => option_map r_order (o_res o)) o1 /\
  s_cache s1 <> [].
Proof. vm_compute. split; [reflexivity|discriminate]. Qed.
