(* Posting lines: the parser only moves forward in the token list (suffix relation), a posting is
   built from exactly one indent token and starts on that token's line, so the postings of a parsed
   journal lie on pairwise different lines of the text, all inside it: the premise post_lines_ok of
   the formatter theorems holds for EVERY output of parse. *)
From HL Require Import Lib.Bytes Lib.Utf8 Model.Ast Model.Lexer Model.Parser Model.Formatter Spec.FormatSpec
  Proofs.LexerProofs Proofs.ParserProofs Proofs.LexerLines.
From Coq Require Import Sorted.
Open Scope nat_scope.

(* the parser only ever moves forward in the token list *)
Definition suffix (a b : list token) : Prop := exists pre, b = pre ++ a.
Definition sfx (ps' ps : pstate) : Prop := suffix (toks ps') (toks ps).

Lemma suffix_refl a : suffix a a. Proof. exists []. reflexivity. Qed.
Lemma suffix_trans a b c : suffix a b -> suffix b c -> suffix a c.
Proof. intros (p & E1) (q & E2). exists (q ++ p). rewrite E2, E1, app_assoc. reflexivity. Qed.
Lemma suffix_cons t a b : suffix a b -> suffix a (t :: b).
Proof. intros (p & E). exists (t :: p). rewrite E. reflexivity. Qed.

Lemma sfx_refl ps : sfx ps ps. Proof. apply suffix_refl. Qed.
Lemma sfx_trans a b c : sfx a b -> sfx b c -> sfx a c. Proof. apply suffix_trans. Qed.
Lemma sfx_same ps ps' : toks ps' = toks ps -> sfx ps' ps. Proof. unfold sfx. intro E. rewrite E. apply suffix_refl. Qed.

Lemma adv_sfx ps : sfx (adv ps) ps.
Proof. unfold sfx, adv. destruct (toks ps) as [|t [|t' r]] eqn:E; try (rewrite E; apply suffix_refl). cbn [toks]. apply suffix_cons, suffix_refl. Qed.
Lemma perr_at_sfx p ps : sfx (perr_at p ps) ps. Proof. apply sfx_same. reflexivity. Qed.
Lemma perr_sfx ps : sfx (perr ps) ps. Proof. apply perr_at_sfx. Qed.

Lemma skip_line_toks_suffix : forall l, suffix (skip_line_toks l) l.
Proof.
  induction l as [|t r IH]; [apply suffix_refl|]. destruct r as [|t' r']; [apply suffix_refl|].
  cbn [skip_line_toks]. destruct (is_ty (tk_type t) TNewline); [apply suffix_cons, suffix_refl|].
  destruct (is_ty (tk_type t) TEOF); [apply suffix_refl|]. apply suffix_cons. exact IH.
Qed.
Lemma skip_to_next_line_sfx ps : sfx (skip_to_next_line ps) ps.
Proof. unfold sfx, skip_to_next_line. cbn [toks]. apply skip_line_toks_suffix. Qed.

Lemma skip_until_toks_suffix stop : forall l, suffix (skip_until_toks stop l) l.
Proof.
  induction l as [|t r IH]; [apply suffix_refl|]. destruct r as [|t' r']; [apply suffix_refl|].
  cbn [skip_until_toks]. destruct (stop (tk_type t)); [apply suffix_refl|]. apply suffix_cons. exact IH.
Qed.
Lemma skip_until_sfx stop ps : sfx (skip_until stop ps) ps.
Proof. unfold sfx, skip_until. cbn [toks]. apply skip_until_toks_suffix. Qed.

Ltac speel :=
  match goal with
  | |- sfx (adv ?x) _ => eapply sfx_trans; [apply (adv_sfx x)|]
  | |- sfx (perr ?x) _ => eapply sfx_trans; [apply (perr_sfx x)|]
  | |- sfx (perr_at ?p ?x) _ => eapply sfx_trans; [apply (perr_at_sfx p x)|]
  | |- sfx (skip_to_next_line ?x) _ => eapply sfx_trans; [apply (skip_to_next_line_sfx x)|]
  | |- sfx (skip_until ?s ?x) _ => eapply sfx_trans; [apply (skip_until_sfx s x)|]
  | |- sfx (mkPS (toks ?x) ?e ?d) _ => eapply sfx_trans; [apply (sfx_same x (mkPS (toks x) e d) eq_refl)|]
  | H : sfx ?a ?b |- sfx ?a _ => eapply sfx_trans; [exact H|]
  end.
Ltac sfx_tac := lazymatch goal with |- sfx ?a ?a => apply sfx_refl | _ => speel; sfx_tac end.

Lemma parse_comment_sfx ps : sfx (snd (parse_comment ps)) ps.
Proof. unfold parse_comment. cbn [snd]. sfx_tac. Qed.
Lemma parse_date_sfx ps : sfx (snd (parse_date ps)) ps.
Proof. unfold parse_date. break_match; cbn [snd]; sfx_tac. Qed.
Lemma parse_status_sfx ps : sfx (snd (parse_status ps)) ps.
Proof. unfold parse_status. break_match; cbn [snd]; sfx_tac. Qed.
Lemma parse_amount_sfx ps : sfx (snd (parse_amount ps)) ps.
Proof. unfold parse_amount. break_all; cbn [snd]; sfx_tac. Qed.
Lemma parse_cost_sfx ps : sfx (snd (parse_cost ps)) ps.
Proof.
  unfold parse_cost. pose proof (parse_amount_sfx (adv ps)) as A.
  destruct (parse_amount (adv ps)) as [[a|] ps'] eqn:E; cbn [snd] in *; (eapply sfx_trans; [exact A|apply adv_sfx]).
Qed.
Lemma parse_assertion_sfx ps : sfx (snd (parse_assertion ps)) ps.
Proof.
  unfold parse_assertion. pose proof (parse_amount_sfx (adv ps)) as A.
  destruct (parse_amount (adv ps)) as [[a|] ps'] eqn:E; cbn [snd] in *; (eapply sfx_trans; [exact A|apply adv_sfx]).
Qed.

Ltac sfacts :=
  repeat match goal with
         | H : parse_amount ?x = (_, ?p) |- _ =>
             lazymatch goal with L : sfx p x |- _ => fail | _ => let L := fresh "S" in pose proof (parse_amount_sfx x) as L; rewrite H in L; cbn [snd] in L end
         | H : parse_cost ?x = (_, ?p) |- _ =>
             lazymatch goal with L : sfx p x |- _ => fail | _ => let L := fresh "S" in pose proof (parse_cost_sfx x) as L; rewrite H in L; cbn [snd] in L end
         | H : parse_assertion ?x = (_, ?p) |- _ =>
             lazymatch goal with L : sfx p x |- _ => fail | _ => let L := fresh "S" in pose proof (parse_assertion_sfx x) as L; rewrite H in L; cbn [snd] in L end
         | H : parse_status ?x = (_, ?p) |- _ =>
             lazymatch goal with L : sfx p x |- _ => fail | _ => let L := fresh "S" in pose proof (parse_status_sfx x) as L; rewrite H in L; cbn [snd] in L end
         | H : parse_date ?x = (_, ?p) |- _ =>
             lazymatch goal with L : sfx p x |- _ => fail | _ => let L := fresh "S" in pose proof (parse_date_sfx x) as L; rewrite H in L; cbn [snd] in L end
         | H : parse_comment ?x = (_, ?p) |- _ =>
             lazymatch goal with L : sfx p x |- _ => fail | _ => let L := fresh "S" in pose proof (parse_comment_sfx x) as L; rewrite H in L; cbn [snd] in L end
         end.
Ltac speel2 :=
  match goal with
  | |- sfx (snd (parse_comment ?x)) _ => eapply sfx_trans; [apply (parse_comment_sfx x)|]
  | _ => speel
  end.
Ltac sfx_solve := lazymatch goal with |- sfx ?a ?a => apply sfx_refl | _ => speel2; sfx_solve end.

Lemma parse_posting_sfx ps : sfx (snd (parse_posting ps)) ps.
Proof. unfold parse_posting. break_all; cbn [snd]; sfacts; sfx_solve. Qed.

(* a posting is only built from an indent token, starts on the token after it, and leaves the
   parser strictly behind that indent *)
Lemma parse_posting_spec ps p ps' : parse_posting ps = (Some p, ps') ->
  is_ty (ctype ps) TIndent = true /\ sfx ps' (adv ps) /\
  p_line (r_start (po_rng p)) = Z.of_N (tp_line (tk_pos (cur (adv ps)))).
Proof.
  unfold parse_posting. destruct (is_ty (ctype ps) TIndent) eqn:Ti; cbn [negb]; [|discriminate].
  set (ps1 := adv ps). clearbody ps1. intro H. split; [reflexivity|].
  revert H. break_all; intro H; try discriminate; inversion H; subst; clear H; cbn [po_rng r_start p_line zpos];
    (split; [sfacts; sfx_solve|reflexivity]).
Qed.

Lemma is_ty_eq a b : is_ty a b = true -> a = b.
Proof. unfold is_ty. intro H. apply N.eqb_eq in H. destruct a, b; cbn in H; try reflexivity; discriminate H. Qed.

Definition adj_ok (l : list token) : Prop :=
  forall a t1 t2 b, l = a ++ t1 :: t2 :: b -> tk_type t1 <> TNewline -> tline t2 = tline t1.
Definition tl_ok (l : list token) : Prop := StronglySorted N.lt (indent_lines l) /\ adj_ok l.

Lemma indent_lines_app a b : indent_lines (a ++ b) = indent_lines a ++ indent_lines b.
Proof. unfold indent_lines. rewrite filter_app, map_app. reflexivity. Qed.

Lemma StronglySorted_app_r {A} (R : A -> A -> Prop) x y : StronglySorted R (x ++ y) -> StronglySorted R y.
Proof. induction x as [|a x IH]; cbn [app]; [auto|]. intro H. inversion H; subst. auto. Qed.

Lemma tl_ok_suffix a b : suffix a b -> tl_ok b -> tl_ok a.
Proof.
  intros (pre & E) [S A]. subst b. split.
  - rewrite indent_lines_app in S. eapply StronglySorted_app_r. exact S.
  - intros a0 t1 t2 b0 E NT. apply (A (pre ++ a0) t1 t2 b0); [rewrite E, app_assoc; reflexivity|exact NT].
Qed.

Definition bound (lines : list Z) (l : list token) : Prop :=
  forall x y, In x lines -> In y (indent_lines l) -> (x < Z.of_N y)%Z.

Lemma bound_suffix lines a b : suffix a b -> bound lines b -> bound lines a.
Proof.
  intros (pre & E) B x y Ix Iy. subst b. apply (B x y Ix). rewrite indent_lines_app. apply in_or_app. right. exact Iy.
Qed.

Definition pl (p : posting) : Z := p_line (r_start (po_rng p)).

Record P (lines : list Z) (ps : pstate) : Prop := {
  P_sorted : StronglySorted Z.lt lines;
  P_bound : bound lines (toks ps);
  P_tl : tl_ok (toks ps) }.

Lemma P_sfx lines ps ps' : sfx ps' ps -> P lines ps -> P lines ps'.
Proof. intros S [A B C]. constructor; [exact A|eapply bound_suffix; eauto|eapply tl_ok_suffix; eauto]. Qed.

Lemma StronglySorted_snoc l x : StronglySorted Z.lt l -> (forall y, In y l -> (y < x)%Z) -> StronglySorted Z.lt (l ++ [x]).
Proof.
  induction l as [|a l IH]; intros S H; cbn [app]; [constructor; [constructor|constructor]|].
  inversion S; subst. constructor.
  - apply IH; [assumption|]. intros y Iy. apply H. right. exact Iy.
  - apply Forall_forall. intros y Iy. apply in_app_or in Iy as [Iy|[E|[]]].
    + rewrite Forall_forall in H3. auto.
    + subst y. apply H. left. reflexivity.
Qed.

Lemma posting_step lines ps p ps' : wf ps -> P lines ps -> parse_posting ps = (Some p, ps') ->
  P (lines ++ [pl p]) ps' /\ exists I, In I (toks ps) /\ pl p = Z.of_N (tline I).
Proof.
  intros W [Srt Bd [TS TA]] H. destruct (parse_posting_spec ps p ps' H) as (Ti & Sf & Ln).
  assert (NE : is_ty (ctype ps) TEOF = false) by (eapply not_eof_of; [exact Ti|reflexivity]).
  destruct (wf_two ps W NE) as (I & t2 & r & E).
  assert (TI : tk_type I = TIndent) by (apply is_ty_eq; unfold ctype, cur in Ti; rewrite E in Ti; exact Ti).
  assert (A2 : toks (adv ps) = t2 :: r) by (unfold adv; rewrite E; reflexivity).
  assert (L2 : tline t2 = tline I).
  { apply (TA [] I t2 r); [rewrite E; reflexivity|rewrite TI; discriminate]. }
  assert (PL : pl p = Z.of_N (tline I)).
  { unfold pl. rewrite Ln. unfold cur. rewrite A2. fold (tline t2). rewrite L2. reflexivity. }
  assert (IL : indent_lines (toks ps) = tline I :: indent_lines (t2 :: r)).
  { rewrite E. rewrite indent_lines_cons. unfold is_indent. rewrite TI. reflexivity. }
  split; [|exists I; split; [rewrite E; left; reflexivity|exact PL]].
  assert (SF : suffix (toks ps') (t2 :: r)) by (unfold sfx in Sf; rewrite A2 in Sf; exact Sf).
  constructor.
  - apply StronglySorted_snoc; [exact Srt|]. intros y Iy. rewrite PL. apply (Bd y (tline I) Iy). rewrite IL. left. reflexivity.
  - intros x y Ix Iy. apply in_app_or in Ix as [Ix|[Ex|[]]].
    + apply (Bd x y Ix). rewrite IL. right. destruct SF as (pre & E2). rewrite E2, indent_lines_app. apply in_or_app. right. exact Iy.
    + subst x. rewrite PL. rewrite IL in TS. inversion TS; subst. rewrite Forall_forall in H3.
      apply N2Z.inj_lt. apply H3. destruct SF as (pre & E2). rewrite E2, indent_lines_app. apply in_or_app. right. exact Iy.
  - apply (tl_ok_suffix (toks ps') (toks ps)); [|split; assumption]. rewrite E. apply suffix_cons. exact SF.
Qed.

(* every line recorded so far is the line of some token of the original stream *)
Definition from_tokens (orig : list token) (lines : list Z) : Prop :=
  forall x, In x lines -> exists t, In t orig /\ x = Z.of_N (tline t).

Lemma suffix_in {A} (a b : list A) x : (exists pre, b = pre ++ a) -> In x a -> In x b.
Proof. intros (pre & E) I. subst. apply in_or_app. right. exact I. Qed.

Lemma parse_postings_inv orig : forall fuel ps acc r ps' lines,
  wf ps -> suffix (toks ps) orig -> parse_postings fuel ps acc = Some (r, ps') -> P lines ps -> from_tokens orig lines ->
  exists new, r = acc ++ new /\ P (lines ++ map pl new) ps' /\ from_tokens orig (lines ++ map pl new) /\ sfx ps' ps /\ wf ps'.
Proof.
  induction fuel as [|fuel IH]; intros ps acc r ps' lines W So H Pp Fr; [discriminate|].
  cbn [parse_postings] in H. destruct (is_ty (ctype ps) TIndent) eqn:Ti.
  - pose proof (parse_posting_body_le ps W) as [W1 _]. pose proof (parse_posting_sfx ps) as S1.
    destruct (parse_posting ps) as [op ps1] eqn:Ep. cbn [snd] in *.
    set (ps2 := if is_ty (ctype ps1) TNewline then adv ps1 else ps1) in *.
    assert (S2 : sfx ps2 ps1) by (unfold ps2; destruct (is_ty (ctype ps1) TNewline); [apply adv_sfx|apply sfx_refl]).
    assert (W2 : wf ps2) by (unfold ps2; destruct (is_ty (ctype ps1) TNewline); [apply (adv_le ps1 W1)|exact W1]).
    assert (So2 : suffix (toks ps2) orig) by (eapply suffix_trans; [exact S2|]; eapply suffix_trans; [exact S1|exact So]).
    destruct op as [p|].
    + destruct (posting_step lines ps p ps1 W Pp Ep) as [P1 (I & II & PL)].
      assert (Fr1 : from_tokens orig (lines ++ [pl p])).
      { intros x Ix. apply in_app_or in Ix as [Ix|[E|[]]]; [auto|]. subst x. exists I. split; [|exact PL].
        eapply suffix_in; [exact So|exact II]. }
      destruct (IH ps2 (acc ++ [p]) r ps' (lines ++ [pl p]) W2 So2 H (P_sfx _ _ _ S2 P1) Fr1) as (new & E & Pn & Fn & Sn & Wn).
      exists (p :: new). cbn [map]. rewrite <- app_assoc in E. cbn [app] in E. rewrite <- app_assoc in Pn, Fn. cbn [app] in Pn, Fn.
      split; [exact E|]. split; [exact Pn|]. split; [exact Fn|]. split; [|exact Wn].
      eapply sfx_trans; [exact Sn|]. eapply sfx_trans; [exact S2|exact S1].
    + destruct (IH ps2 acc r ps' lines W2 So2 H (P_sfx _ _ _ S2 (P_sfx _ _ _ S1 Pp)) Fr) as (new & E & Pn & Fn & Sn & Wn).
      exists new. split; [exact E|]. split; [exact Pn|]. split; [exact Fn|]. split; [|exact Wn].
      eapply sfx_trans; [exact Sn|]. eapply sfx_trans; [exact S2|exact S1].
  - inversion H; subst. exists []. cbn [map]. rewrite !app_nil_r.
    split; [reflexivity|]. split; [exact Pp|]. split; [exact Fr|]. split; [apply sfx_refl|exact W].
Qed.

Definition tx_lines (o : option transaction) : list Z :=
  match o with Some t => map pl (tx_postings t) | None => [] end.

Lemma parse_transaction_inv orig fuel ps otx ps' lines :
  wf ps -> suffix (toks ps) orig -> parse_transaction fuel ps = Some (otx, ps') -> P lines ps -> from_tokens orig lines ->
  P (lines ++ tx_lines otx) ps' /\ from_tokens orig (lines ++ tx_lines otx) /\ sfx ps' ps /\ wf ps'.
Proof.
  intros W So H Pp Fr. unfold parse_transaction in H.
  pose proof (parse_date_le ps W) as [W1 _]. pose proof (parse_date_sfx ps) as S1.
  destruct (parse_date ps) as [od ps1] eqn:Ed. cbn [snd] in *.
  destruct od as [d|].
  - revert H. break_hdr; intro H;
      match type of H with
      | context [parse_postings fuel ?PS []] =>
          assert (SF : sfx PS ps1) by (sfacts; sfx_solve);
          assert (LE : le PS ps1) by (sub_facts; le_solve);
          destruct (LE W1) as [Wn _];
          destruct (parse_postings fuel PS []) as [[posts psz]|] eqn:Epp; [|discriminate];
          inversion H; subst; clear H;
          assert (SoN : suffix (toks PS) orig) by (eapply suffix_trans; [exact SF|]; eapply suffix_trans; [exact S1|exact So]);
          destruct (parse_postings_inv orig fuel PS [] posts ps' lines Wn SoN Epp (P_sfx _ _ _ SF (P_sfx _ _ _ S1 Pp)) Fr)
            as (new & E & Pn & Fn & Sn & Wz);
          cbn [app] in E; subst new; cbn [tx_lines tx_postings];
          (split; [exact Pn|]); (split; [exact Fn|]); (split; [|exact Wz]);
          eapply sfx_trans; [exact Sn|]; eapply sfx_trans; [exact SF|exact S1]
      end.
  - inversion H; subst. cbn [tx_lines]. rewrite app_nil_r.
    assert (S2 : sfx (skip_to_next_line ps1) ps) by (eapply sfx_trans; [apply skip_to_next_line_sfx|exact S1]).
    split; [eapply P_sfx; eauto|]. split; [exact Fr|]. split; [exact S2|]. apply (skip_to_next_line_le ps1 W1).
Qed.

Lemma parse_subdirs_inv : forall fuel ps m m' ps', wf ps -> parse_subdirs fuel ps m = Some (m', ps') -> wf ps' /\ sfx ps' ps.
Proof.
  induction fuel as [|fuel IH]; intros ps m m' ps' W H; [discriminate|].
  cbn [parse_subdirs] in H.
  destruct (is_ty (ctype ps) TNewline) eqn:Tn; cbn [negb] in H.
  2:{ inversion H; subst. split; [exact W|apply sfx_refl]. }
  destruct (adv_le ps W) as [W1 _]. set (ps1 := adv ps) in *.
  assert (S1 : sfx ps1 ps) by apply adv_sfx.
  assert (REC : forall X m0, le X ps1 -> sfx X ps1 -> parse_subdirs fuel X m0 = Some (m', ps') -> wf ps' /\ sfx ps' ps).
  { intros X m0 LE SX HX. destruct (LE W1) as [WX _]. destruct (IH X m0 m' ps' WX HX) as [Wz Sz].
    split; [exact Wz|]. eapply sfx_trans; [exact Sz|]. eapply sfx_trans; [exact SX|exact S1]. }
  destruct (is_ty (ctype ps1) TIndent); cbn [negb] in H.
  2:{ inversion H; subst. split; [exact W1|exact S1]. }
  revert H. break_all; intro H; (eapply REC; [| |exact H]; [le_tac|sfx_tac]).
Qed.

Ltac with_subdirs_inv W tgt :=
  match goal with
  | H : context [parse_subdirs ?fuel ?PS []] |- _ =>
      let SF := fresh "SF" in let LE := fresh "LE" in
      assert (SF : sfx PS tgt) by (sfacts; sfx_solve);
      assert (LE : le PS tgt) by (sub_facts; le_solve);
      let Wn := fresh "Wn" in destruct (LE W) as [Wn _];
      let E := fresh "Esd" in
      destruct (parse_subdirs fuel PS []) as [[?sub ?psz]|] eqn:E; [|discriminate];
      inversion H; subst; clear H;
      let Wz := fresh "Wz" in let Sz := fresh "Sz" in
      destruct (parse_subdirs_inv _ _ _ _ _ Wn E) as [Wz Sz];
      split; [exact Wz|]; eapply sfx_trans; [exact Sz|exact SF]
  end.

Lemma parse_account_directive_inv fuel sp ps r ps' : wf ps ->
  parse_account_directive fuel sp ps = Some (r, ps') -> wf ps' /\ sfx ps' ps.
Proof.
  intros W H. unfold parse_account_directive in H.
  destruct (negb (is_ty (ctype ps) TAccount || is_ty (ctype ps) TText)).
  - inversion H; subst. split; [apply (le_trans _ _ _ (skip_to_next_line_le (perr ps)) (perr_le ps) W)|sfx_tac].
  - revert H. break_hdr; intro H; with_subdirs_inv W ps.
Qed.

Lemma parse_commodity_directive_inv fuel sp ps r ps' : wf ps ->
  parse_commodity_directive fuel sp ps = Some (r, ps') -> wf ps' /\ sfx ps' ps.
Proof.
  intros W H. unfold parse_commodity_directive in H. revert H. break_hdr; intro H; with_subdirs_inv W ps.
Qed.

Lemma parse_include_directive_sfx sp ps : sfx (snd (parse_include_directive sp ps)) ps.
Proof. unfold parse_include_directive. break_all; cbn [snd]; sfacts; sfx_solve. Qed.
Lemma parse_price_directive_sfx sp ps : sfx (snd (parse_price_directive sp ps)) ps.
Proof. unfold parse_price_directive. break_all; cbn [snd]; sfacts; sfx_solve. Qed.
Lemma parse_default_directive_sfx sp ps : sfx (snd (parse_default_directive sp ps)) ps.
Proof. unfold parse_default_directive. break_all; cbn [snd]; sfacts; sfx_solve. Qed.
Lemma parse_year_directive_sfx sp ps : sfx (snd (parse_year_directive sp ps)) ps.
Proof. unfold parse_year_directive. break_all; cbn [snd]; sfacts; sfx_solve. Qed.

Lemma parse_directive_inv fuel ps r ps' : wf ps -> parse_directive fuel ps = Some (r, ps') -> wf ps' /\ sfx ps' ps.
Proof.
  intros W H. unfold parse_directive in H.
  destruct (adv_le ps W) as [W1 _]. set (ps1 := adv ps) in *. assert (S1 : sfx ps1 ps) by apply adv_sfx.
  assert (PAIR : forall (x : option directive * pstate), le (snd x) ps1 -> sfx (snd x) ps1 -> Some x = Some (r, ps') -> wf ps' /\ sfx ps' ps).
  { intros [r0 p0] LE SX E. inversion E; subst. cbn [snd] in *. split; [apply (LE W1)|eapply sfx_trans; [exact SX|exact S1]]. }
  destruct (beq (tk_val (cur ps)) (bs "account")).
  { destruct (parse_account_directive_inv _ _ _ _ _ W1 H) as [A B]. split; [exact A|eapply sfx_trans; [exact B|exact S1]]. }
  destruct (beq (tk_val (cur ps)) (bs "commodity")).
  { destruct (parse_commodity_directive_inv _ _ _ _ _ W1 H) as [A B]. split; [exact A|eapply sfx_trans; [exact B|exact S1]]. }
  destruct (beq (tk_val (cur ps)) (bs "include")); [eapply PAIR; [| |exact H]; [apply parse_include_directive_le|apply parse_include_directive_sfx]|].
  destruct (beq (tk_val (cur ps)) (bs "P")); [eapply PAIR; [| |exact H]; [apply parse_price_directive_le|apply parse_price_directive_sfx]|].
  destruct (beq (tk_val (cur ps)) (bs "Y") || beq (tk_val (cur ps)) (bs "year")); [eapply PAIR; [| |exact H]; [apply parse_year_directive_le|apply parse_year_directive_sfx]|].
  destruct (beq (tk_val (cur ps)) (bs "D")); [eapply PAIR; [| |exact H]; [apply parse_default_directive_le|apply parse_default_directive_sfx]|].
  eapply (PAIR (None, skip_to_next_line ps1)); [| |exact H]; cbn [snd]; [apply skip_to_next_line_le|apply skip_to_next_line_sfx].
Qed.

Definition jl (j : journal) : list Z := map pl (all_postings (j_txs j)).

Lemma jl_snoc j tx d c i : jl (mkJournal (j_txs j ++ [tx]) d c i) = jl j ++ map pl (tx_postings tx).
Proof. unfold jl, all_postings. cbn [j_txs]. rewrite flat_map_app, map_app. cbn [flat_map]. rewrite app_nil_r. reflexivity. Qed.

Lemma parse_journal_inv orig : forall fuel ps j j' ps',
  wf ps -> suffix (toks ps) orig -> parse_journal fuel ps j = Some (j', ps') ->
  P (jl j) ps -> from_tokens orig (jl j) ->
  StronglySorted Z.lt (jl j') /\ from_tokens orig (jl j').
Proof.
  induction fuel as [|fuel IH]; intros ps j j' ps' W So H Pp Fr; [discriminate|].
  cbn [parse_journal] in H.
  destruct (is_ty (ctype ps) TEOF) eqn:Te.
  { inversion H; subst. split; [apply (P_sorted _ _ Pp)|exact Fr]. }
  assert (STEP : forall X jx, le X ps -> sfx X ps -> jl jx = jl j -> parse_journal fuel X jx = Some (j', ps') ->
                 StronglySorted Z.lt (jl j') /\ from_tokens orig (jl j')).
  { intros X jx LE SX EJ HX. destruct (LE W) as [WX _].
    apply (IH X jx j' ps' WX); [eapply suffix_trans; [exact SX|exact So]|exact HX|rewrite EJ; eapply P_sfx; eauto|rewrite EJ; exact Fr]. }
  destruct (is_ty (ctype ps) TNewline).
  { eapply (STEP (adv ps) j); [apply adv_le|apply adv_sfx|reflexivity|exact H]. }
  destruct (is_ty (ctype ps) TComment).
  { pose proof (parse_comment_le ps) as LC. pose proof (parse_comment_sfx ps) as SC.
    destruct (parse_comment ps) as [c ps1]. cbn [snd] in *.
    eapply (STEP ps1); [exact LC|exact SC| |exact H]. reflexivity. }
  destruct (is_ty (ctype ps) TDate).
  { destruct (parse_transaction fuel ps) as [[otx ps1]|] eqn:Et; [|discriminate].
    destruct (parse_transaction_inv orig fuel ps otx ps1 (jl j) W So Et Pp Fr) as (P1 & F1 & S1 & W1).
    destruct otx as [tx|]; cbn [tx_lines] in P1, F1.
    - eapply (IH ps1); [exact W1|eapply suffix_trans; [exact S1|exact So]|exact H|rewrite jl_snoc; exact P1|rewrite jl_snoc; exact F1].
    - rewrite app_nil_r in P1, F1. apply (IH ps1 j j' ps' W1); [eapply suffix_trans; [exact S1|exact So]|exact H|exact P1|exact F1]. }
  destruct (is_ty (ctype ps) TDirective).
  { destruct (parse_directive fuel ps) as [[od ps1]|] eqn:Ed; [|discriminate].
    destruct (parse_directive_inv fuel ps od ps1 W Ed) as [W1 S1].
    assert (GO : forall jx, jl jx = jl j -> parse_journal fuel ps1 jx = Some (j', ps') ->
                 StronglySorted Z.lt (jl j') /\ from_tokens orig (jl j')).
    { intros jx EJ HX. apply (IH ps1 jx j' ps' W1); [eapply suffix_trans; [exact S1|exact So]|exact HX|rewrite EJ; eapply P_sfx; eauto|rewrite EJ; exact Fr]. }
    destruct od as [d|]; [destruct d|]; (eapply GO; [|exact H]); reflexivity. }
  eapply (STEP (skip_to_next_line (perr ps)) j); [le_tac|sfx_tac|reflexivity|exact H].
Qed.

Lemma sorted_shift l : StronglySorted Z.lt l -> NoDup (map (fun x => (x - 1)%Z) l).
Proof.
  induction 1 as [|a l S IH F]; [constructor|]. cbn [map]. constructor; [|exact IH].
  intro I. apply in_map_iff in I as (y & E & Iy). rewrite Forall_forall in F. specialize (F y Iy). lia.
Qed.

Lemma plines_jl j : plines j = map (fun x => (x - 1)%Z) (jl j).
Proof. unfold plines, jl. rewrite map_map. apply map_ext. reflexivity. Qed.

(* postings of a parsed journal sit on pairwise different lines, each the line of a token *)
Theorem parse_posting_lines input j errs : parse input = Some (j, errs) ->
  NoDup (plines j) /\
  exists ts, lex input = Some ts /\ forall l, In l (plines j) -> exists t, In t ts /\ l = (Z.of_N (tline t) - 1)%Z.
Proof.
  unfold parse. destruct (lex input) as [ts|] eqn:El; [|discriminate].
  destruct (parse_journal (length ts + 2) (mkPS ts [] 0%Z) (mkJournal [] [] [] [])) as [[j0 ps]|] eqn:Ej; [|discriminate].
  intro H. inversion H; subst j0 errs. clear H.
  pose proof (lex_stream input ts El) as [_ _ Hs _ Ha].
  assert (W : wf (mkPS ts [] 0%Z)) by (apply wf_ends; cbn [toks]; exact (lex_all_ends_eof _ _ _ El)).
  assert (P0 : P (jl (mkJournal [] [] [] [])) (mkPS ts [] 0%Z)).
  { constructor; [constructor|intros x y []|split; [exact Hs|exact Ha]]. }
  destruct (parse_journal_inv ts _ _ _ _ _ W (suffix_refl ts) Ej P0 ltac:(intros x [])) as [S F].
  split; [rewrite plines_jl; apply sorted_shift; exact S|].
  exists ts. split; [reflexivity|]. intros l Il. rewrite plines_jl in Il. apply in_map_iff in Il as (x & E & Ix).
  destruct (F x Ix) as (t & It & Ex). exists t. split; [exact It|]. subst. reflexivity.
Qed.

Lemma split_lf_length t : Z.of_nat (length (split_lf t)) = Z.of_N (1 + count10 t).
Proof.
  induction t as [|c r IH]; [reflexivity|].
  cbn [split_lf count10]. destruct (c =? 10)%N.
  - cbn [length]. rewrite Nat2Z.inj_succ, IH. lia.
  - destruct (split_lf r) as [|l rest] eqn:E; [cbn [length] in *; lia|]. cbn [length] in *. rewrite IH. lia.
Qed.

Lemma NoDup_nodupb l : NoDup l -> nodupb l = true.
Proof.
  induction 1 as [|x l NI ND IH]; [reflexivity|]. cbn [nodupb]. rewrite IH, andb_true_r. apply negb_true_iff.
  destruct (mem_z x l) eqn:M; [|reflexivity]. exfalso. apply NI.
  unfold mem_z in M. apply existsb_exists in M as (y & Iy & E). apply Z.eqb_eq in E. subst. exact Iy.
Qed.

(* the premise of C04_frame and C05_edits_wf holds for every journal the parser returns *)
Theorem parse_post_lines_ok input j errs : parse input = Some (j, errs) -> post_lines_ok j (split_lf input) = true.
Proof.
  intro H. destruct (parse_posting_lines input j errs H) as (ND & ts & El & Fr).
  unfold post_lines_ok. apply andb_true_iff. split; [apply NoDup_nodupb; exact ND|].
  apply forallb_forall. intros l Il. destruct (Fr l Il) as (t & It & E).
  pose proof (lex_line_bounds input ts El) as B. rewrite Forall_forall in B. specialize (B t It).
  rewrite split_lf_length. apply andb_true_iff. split; [apply Z.leb_le|apply Z.ltb_lt]; lia.
Qed.

