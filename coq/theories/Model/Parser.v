(* Model of internal/parser/parser.go: a function-by-function transcription.  The parser never
   feeds back into the lexer (advance = lexer.Next), so the model lexes first and parses the
   token list; the last token (EOF) is never dropped, as the lexer keeps answering EOF.
   Loops whose progress is not structural take fuel (None = out of fuel). *)
From HL Require Import Lib.Bytes Lib.Utf8 Lib.UnicodeTables Model.Ast Model.Settings Model.Lexer.
Open Scope Z_scope.

(* ---------- Go strings helpers ---------- *)
Fixpoint index_byte (c : N) (s : list N) : option nat :=
  match s with
  | [] => None
  | x :: r => if (x =? c)%N then Some O else option_map S (index_byte c r)
  end.

Fixpoint has_prefix_b (p s : list N) : bool :=
  match p, s with
  | [], _ => true
  | x :: p', y :: s' => (x =? y)%N && has_prefix_b p' s'
  | _ :: _, [] => false
  end.

(* strings.Index *)
Fixpoint index_sub (needle hay : list N) : option nat :=
  if has_prefix_b needle hay then Some O
  else match hay with
       | [] => None
       | _ :: r => option_map S (index_sub needle r)
       end.

(* strings.Split(s, sep) for a one-byte separator *)
Fixpoint split_on (sep : N) (s : list N) (cur : list N) : list (list N) :=
  match s with
  | [] => [rev cur]
  | x :: r => if (x =? sep)%N then rev cur :: split_on sep r [] else split_on sep r (x :: cur)
  end.
Definition split_byte (sep : N) (s : list N) : list (list N) := split_on sep s [].

Definition remove_byte (c : N) (s : list N) : list N := filter (fun x => negb (x =? c)%N) s.
Definition count_byte (c : N) (s : list N) : nat := length (filter (fun x => (x =? c)%N) s).
Fixpoint last_index_byte (c : N) (s : list N) (i : nat) (acc : nat) : nat :=
  match s with
  | [] => acc
  | x :: r => last_index_byte c r (S i) (if (x =? c)%N then i else acc)
  end.

(* ---------- normalizeNumber ---------- *)
Definition has_nonzero (s : list N) : bool := existsb (fun x => negb (x =? 48)%N && negb (x =? 45)%N) s.

Definition normalize_number (s : list N) : list N :=
  let dots := count_byte 46 s in
  let commas := count_byte 44 s in
  let lastDot := last_index_byte 46 s 0 0 in
  let lastComma := last_index_byte 44 s 0 0 in
  let len := length s in
  match dots, commas with
  | O, O => s
  | O, S O =>
      if Nat.leb 1 lastComma && Nat.eqb (len - lastComma - 1) 3 && has_nonzero (firstn lastComma s)
      then firstn lastComma s ++ skipn (S lastComma) s
      else firstn lastComma s ++ [46%N] ++ skipn (S lastComma) s
  | S O, O =>
      if Nat.leb 1 lastDot && Nat.eqb (len - lastDot - 1) 3 && has_nonzero (firstn lastDot s)
      then firstn lastDot s ++ skipn (S lastDot) s
      else s
  | O, _ => remove_byte 44 s
  | _, O => remove_byte 46 s
  | _, _ =>
      let decimalPos :=
        if Nat.eqb commas 1 && Nat.ltb lastDot lastComma then lastComma
        else if Nat.eqb dots 1 && Nat.ltb lastComma lastDot then lastDot
        else if Nat.eqb commas 1 then lastDot
        else O in
      (fix go (l : list N) (i : nat) : list N :=
         match l with
         | [] => []
         | ch :: r =>
             if ((ch =? 46) || (ch =? 44))%N then (if Nat.eqb i decimalPos then 46%N :: go r (S i) else go r (S i))
             else ch :: go r (S i)
         end) s O
  end.

(* ---------- decimal.NewFromString (shopspring v1.4.0) ---------- *)
Definition int32_ok (z : Z) : bool := (- 2147483648 <=? z) && (z <=? 2147483647).

(* ParseInt / big.Int.SetString base 10: optional sign, at least one digit, digits only *)
Definition parse_bigint (s : list N) : option Z :=
  let '(neg, ds) := match s with 43%N :: r => (false, r) | 45%N :: r => (true, r) | _ => (false, s) end in
  match ds with
  | [] => None
  | _ => match digits_val ds 0 with Some v => Some (if (neg : bool) then - v else v) | None => None end
  end.

Fixpoint index_any_e (s : list N) : option nat :=
  match s with
  | [] => None
  | x :: r => if ((x =? 69) || (x =? 101))%N then Some O else option_map S (index_any_e r)
  end.

Definition new_from_string (value : list N) : option dec :=
  let '(value, eexp, ok) :=
    match index_any_e value with
    | Some i =>
        match atoi (skipn (S i) value) with          (* ParseInt(.., 10, 32) *)
        | Some e => if int32_ok e then (firstn i value, e, true) else (value, 0, false)
        | None => (value, 0, false)
        end
    | None => (value, 0, true)
    end in
  if negb ok then None
  else
    match count_byte 46 value with
    | O => match parse_bigint value with
           | Some m => if int32_ok eexp then Some (mkDec m eexp) else None
           | None => None
           end
    | S O =>
        match index_byte 46 value with
        | Some p =>
            let intString := firstn p value ++ skipn (S p) value in
            let e := eexp - Z.of_nat (length value - p - 1) in
            match parse_bigint intString with
            | Some m => if int32_ok e then Some (mkDec m e) else None
            | None => None
            end
        | None => None
        end
    | _ => None
    end.

(* ---------- parser state ---------- *)
Definition zpos (p : tpos) : pos := mkPos (Z.of_N (tp_line p)) (Z.of_N (tp_col p)) (Z.of_N (tp_off p)).

Record pstate := mkPS { toks : list token; perrs : list (N * N); dyear : Z }.

Definition eof0 : token := mkToken TEOF [] (mkTP 1 1 0) (mkTP 1 1 0).
Definition cur (ps : pstate) : token := match toks ps with t :: _ => t | [] => eof0 end.
Definition ctype (ps : pstate) : ttype := tk_type (cur ps).
Definition adv (ps : pstate) : pstate :=
  match toks ps with
  | _ :: r => match r with [] => ps | _ :: _ => mkPS r (perrs ps) (dyear ps) end
  | [] => ps
  end.
Definition perr_at (p : tpos) (ps : pstate) : pstate :=
  mkPS (toks ps) ((tp_line p, tp_col p) :: perrs ps) (dyear ps).
Definition perr (ps : pstate) : pstate := perr_at (tk_pos (cur ps)) ps.

Definition is_ty (a b : ttype) : bool := (ttype_code a =? ttype_code b)%N.

(* skipToNextLine *)
Fixpoint skip_line_toks (l : list token) : list token :=
  match l with
  | [] => []
  | [t] => [t]
  | t :: r =>
      if is_ty (tk_type t) TNewline then r
      else if is_ty (tk_type t) TEOF then l
      else skip_line_toks r
  end.
Definition skip_to_next_line (ps : pstate) : pstate := mkPS (skip_line_toks (toks ps)) (perrs ps) (dyear ps).

(* advance while the current token is none of the stop types *)
Fixpoint skip_until_toks (stop : ttype -> bool) (l : list token) : list token :=
  match l with
  | [] => []
  | [t] => [t]
  | t :: r => if stop (tk_type t) then l else skip_until_toks stop r
  end.
Definition skip_until (stop : ttype -> bool) (ps : pstate) : pstate :=
  mkPS (skip_until_toks stop (toks ps)) (perrs ps) (dyear ps).

(* ---------- tags ---------- *)
Definition isValidTagName (name : list N) : bool :=
  forallb (fun c => (((97 <=? c) && (c <=? 122)) || ((65 <=? c) && (c <=? 90)) || ((48 <=? c) && (c <=? 57)) ||
                     (c =? 45) || (c =? 95))%N) name.

Fixpoint parse_tags_parts (parts : list (list N)) (text : list N) (base : tpos) (searchStart : nat) : list tag :=
  match parts with
  | [] => []
  | part :: rest =>
      let trimmed := trim_space_u part in
      match index_byte 58 trimmed with
      | None => parse_tags_parts rest text base searchStart
      | Some colonIdx =>
          let name := trim_space_u (firstn colonIdx trimmed) in
          if beq name [] || negb (isValidTagName name) then parse_tags_parts rest text base searchStart
          else
            let value := trim_space_u (skipn (S colonIdx) trimmed) in
            match index_sub (name ++ [58%N]) (skipn searchStart text) with
            | None => parse_tags_parts rest text base searchStart
            | Some ts =>
                let tagStart := (ts + searchStart)%nat in
                let tagEnd0 := (tagStart + length name + 1)%nat in
                let tagEnd :=
                  match value with
                  | [] => tagEnd0
                  | _ => match index_sub value (skipn tagEnd0 text) with
                         | Some vs => (tagEnd0 + vs + length value)%nat
                         | None => tagEnd0
                         end
                  end in
                let bl := Z.of_N (tp_line base) in
                let bc := Z.of_N (tp_col base) in
                let bo := Z.of_N (tp_off base) in
                mkTag name value
                      (* columns in UTF-16 units of the comment text before the tag, offsets in bytes *)
                      (mkRng (mkPos bl (bc + 1 + Z.of_N (u16n (firstn tagStart text))) (bo + 1 + Z.of_nat tagStart))
                             (mkPos bl (bc + 1 + Z.of_N (u16n (firstn tagEnd text))) (bo + 1 + Z.of_nat tagEnd)))
                  :: parse_tags_parts rest text base tagEnd
            end
      end
  end.

Definition parse_tags (text : list N) (base : tpos) : list tag :=
  match index_byte 58 text with
  | None => []
  | Some _ => parse_tags_parts (split_byte 44 text) text base O
  end.

Definition parse_comment (ps : pstate) : comment * pstate :=
  let t := cur ps in
  (mkComment (tk_val t) (parse_tags (tk_val t) (tk_pos t)) (mkRng (zpos (tk_pos t)) pos0), adv ps).

(* ---------- dates ---------- *)
Definition first_sep (v : list N) : N :=
  match filter (fun c => ((c =? 45) || (c =? 47) || (c =? 46))%N) v with c :: _ => c | [] => 0%N end.

Definition parse_date (ps : pstate) : option date * pstate :=
  if negb (is_ty (ctype ps) TDate) then (None, perr ps)
  else
    let t := cur ps in
    let value := tk_val t in
    let ps1 := adv ps in
    let r := mkRng (zpos (tk_pos t)) (zpos (tk_end t)) in
    let fail := (None, perr_at (tk_pos t) ps1) in
    match split_byte (first_sep value) value with
    | [a; b] =>
        if dyear ps =? 0 then fail
        else match atoi a, atoi b with
             | Some m, Some d => (Some (mkDate (dyear ps) m d r), ps1)
             | _, _ => fail
             end
    | [a; b; c] =>
        match atoi a, atoi b, atoi c with
        | Some y, Some m, Some d => (Some (mkDate y m d r), ps1)
        | _, _, _ => fail
        end
    | _ => fail
    end.

Definition parse_status (ps : pstate) : status * pstate :=
  if is_ty (ctype ps) TStatus then
    ((if beq (tk_val (cur ps)) [42%N] then StCleared else if beq (tk_val (cur ps)) [33%N] then StPending else StNone), adv ps)
  else (StNone, ps).

(* ---------- amounts ---------- *)
Fixpoint runes_all (p : N -> bool) (l : list N) (skip : nat) : bool :=
  match l with
  | [] => true
  | _ :: r =>
      match skip with
      | S k => runes_all p r k
      | O => let '(rn, size) := decode l in p rn && runes_all p r (size - 1)
      end
  end.
Fixpoint runes_any (p : N -> bool) (l : list N) (skip : nat) : bool :=
  match l with
  | [] => false
  | _ :: r =>
      match skip with
      | S k => runes_any p r k
      | O => let '(rn, size) := decode l in p rn || runes_any p r (size - 1)
      end
  end.
Definition isValidCommodityText (v : list N) : bool :=
  match v with
  | [] => false
  | _ => runes_all (fun r => is_letter_rune r || is_digit_rune r) v 0 && runes_any is_letter_rune v 0
  end.

Definition com_at (t : token) (left : bool) : commodity :=
  mkCom (tk_val t) left (mkRng (zpos (tk_pos t)) (zpos (tk_end t))).
Definition com0 : commodity := mkCom [] true rng0.

Definition parse_amount (ps : pstate) : option amount * pstate :=
  let start := zpos (tk_pos (cur ps)) in
  let '(sign, sbc, ps) :=
    if is_ty (ctype ps) TSign then (tk_val (cur ps), true, adv ps) else ([], false, ps) in
  let '(com, signBefore, ps) :=
    if is_ty (ctype ps) TCommodity
    then (com_at (cur ps) true, sbc && (beq sign [45%N] || beq sign [43%N]), adv ps)
    else (com0, false, ps) in
  let '(sign, ps) :=
    if is_ty (ctype ps) TSign then ((match sign with [] => tk_val (cur ps) | _ => sign end), adv ps) else (sign, ps) in
  if negb (is_ty (ctype ps) TNumber) then (None, perr ps)
  else
    let raw0 := tk_val (cur ps) in
    let raw := if beq sign [45%N] && negb (has_prefix_b [45%N] raw0) then 45%N :: raw0 else raw0 in
    let numberStr := normalize_number (remove_byte 32 raw) in
    match new_from_string numberStr with
    | None => (None, perr ps)
    | Some q =>
        (* maxNumberExponent: quantities whose decimal exponent is beyond +-255 are refused *)
        if (255 <? dexp q)%Z || (dexp q <? -255)%Z then (None, perr ps) else
        let ps := adv ps in
        let '(com, ps) :=
          match c_sym com with
          | [] =>
              if is_ty (ctype ps) TCommodity || (is_ty (ctype ps) TText && isValidCommodityText (tk_val (cur ps)))
              then (com_at (cur ps) false, adv ps) else (com, ps)
          | _ => (com, ps)
          end in
        (Some (mkAmt q raw com signBefore (mkRng start (zpos (tk_pos (cur ps))))), ps)
    end.

Definition parse_cost (ps : pstate) : option cost * pstate :=
  let start := zpos (tk_pos (cur ps)) in
  let total := is_ty (ctype ps) TAtAt in
  let ps := adv ps in
  match parse_amount ps with
  | (Some a, ps') => (Some (mkCost a total (mkRng start (zpos (tk_pos (cur ps'))))), ps')
  | (None, ps') => (None, ps')
  end.

Definition parse_assertion (ps : pstate) : option assertion * pstate :=
  let start := zpos (tk_pos (cur ps)) in
  let strict := is_ty (ctype ps) TDoubleEquals in
  let ps := adv ps in
  match parse_amount ps with
  | (Some a, ps') => (Some (mkAssert a strict false (mkRng start (zpos (tk_pos (cur ps'))))), ps')
  | (None, ps') => (None, ps')
  end.

(* ---------- postings and transactions ---------- *)
Definition parse_posting (ps : pstate) : option posting * pstate :=
  if negb (is_ty (ctype ps) TIndent) then (None, ps)
  else
    let ps := adv ps in
    if is_ty (ctype ps) TComment then (None, snd (parse_comment ps))
    else if is_ty (ctype ps) TNewline || is_ty (ctype ps) TEOF then (None, ps)
    else
      let start := zpos (tk_pos (cur ps)) in
      let '(st, ps) := if is_ty (ctype ps) TStatus then parse_status ps else (StNone, ps) in
      let '(virt, closing, ps) :=
        if is_ty (ctype ps) TLBracket then (VBalanced, Some TRBracket, adv ps)
        else if is_ty (ctype ps) TLParen then (VUnbalanced, Some TRParen, adv ps)
        else (VNone, None, ps) in
      if negb (is_ty (ctype ps) TAccount) then (None, skip_to_next_line (perr ps))
      else
        let acct := tk_val (cur ps) in
        let arng := mkRng (zpos (tk_pos (cur ps))) (zpos (tk_end (cur ps))) in
        let ps := adv ps in
        let ps := match closing with Some c => if is_ty (ctype ps) c then adv ps else ps | None => ps end in
        let '(amt, ps) :=
          if is_ty (ctype ps) TCommodity || is_ty (ctype ps) TNumber || is_ty (ctype ps) TSign
          then parse_amount ps else (None, ps) in
        let '(cst, ps) :=
          if is_ty (ctype ps) TAt || is_ty (ctype ps) TAtAt then parse_cost ps else (None, ps) in
        let '(asr, ps) :=
          if is_ty (ctype ps) TEquals || is_ty (ctype ps) TDoubleEquals then parse_assertion ps else (None, ps) in
        let '(cmt, tags, ps) :=
          if is_ty (ctype ps) TComment
          then (tk_val (cur ps), parse_tags (tk_val (cur ps)) (tk_pos (cur ps)), adv ps) else ([], [], ps) in
        (Some (mkPosting st acct arng amt asr cst cmt tags virt (mkRng start (zpos (tk_pos (cur ps))))), ps).

Fixpoint parse_postings (fuel : nat) (ps : pstate) (acc : list posting) : option (list posting * pstate) :=
  match fuel with
  | O => None
  | S f =>
      if is_ty (ctype ps) TIndent then
        let '(p, ps) := parse_posting ps in
        let acc := match p with Some x => acc ++ [x] | None => acc end in
        let ps := if is_ty (ctype ps) TNewline then adv ps else ps in
        parse_postings f ps acc
      else Some (acc, ps)
  end.

Definition sep_note : list N := [32; 124; 32]%N.

(* textRange: the range of a text that starts at a token position and stays on its line *)
Definition text_range (p : tpos) (text : list N) : rng :=
  mkRng (zpos p) (mkPos (Z.of_N (tp_line p)) (Z.of_N (tp_col p) + Z.of_N (u16n text)) (Z.of_N (tp_off p) + Z.of_nat (length text))).

Definition parse_transaction (fuel : nat) (ps : pstate) : option (option transaction * pstate) :=
  let start := zpos (tk_pos (cur ps)) in
  match parse_date ps with
  | (None, ps) => Some (None, skip_to_next_line ps)
  | (Some d, ps) =>
      let '(d2, ps) :=
        if is_ty (ctype ps) TEquals then parse_date (adv ps) else (None, ps) in
      let '(st, ps) := if is_ty (ctype ps) TStatus then parse_status ps else (StNone, ps) in
      let '(code, ps) := if is_ty (ctype ps) TCode then (tk_val (cur ps), adv ps) else ([], ps) in
      let '(desc, payee, note, prng, ps) :=
        if is_ty (ctype ps) TText then
          let d0 := tk_val (cur ps) in
          let prng := text_range (tk_pos (cur ps)) d0 in
          let ps := adv ps in
          if is_ty (ctype ps) TPipe then
            let payee := trim_space_u d0 in
            let ps := adv ps in
            let '(note, ps) := if is_ty (ctype ps) TText then (trim_space_u (tk_val (cur ps)), adv ps) else ([], ps) in
            ((match note with [] => payee | _ => payee ++ sep_note ++ note end), payee, note, prng, ps)
          else (d0, [], [], prng, ps)
        else ([], [], [], rng0, ps) in
      let '(cmts, ps) :=
        if is_ty (ctype ps) TComment then let '(c, ps) := parse_comment ps in ([c], ps) else ([], ps) in
      let ps := if is_ty (ctype ps) TNewline then adv ps else ps in
      match parse_postings fuel ps [] with
      | None => None
      | Some (posts, ps) =>
          Some (Some (mkTx d d2 st code desc payee note prng posts [] cmts (mkRng start (zpos (tk_pos (cur ps))))), ps)
      end
  end.

(* ---------- directives ---------- *)
Definition smap := list (list N * list N).
Definition smap_put (k v : list N) (m : smap) : smap := (k, v) :: filter (fun kv => negb (beq (fst kv) k)) m.

Definition stop_nl_eof (t : ttype) : bool := is_ty t TNewline || is_ty t TEOF.
Definition stop_nl_eof_cmt (t : ttype) : bool := is_ty t TNewline || is_ty t TEOF || is_ty t TComment.

(* concatenation of the values up to the stop; Number / Commodity / Text are followed by a blank *)
Fixpoint collect_values (stop : ttype -> bool) (spaced : bool) (l : list token) : list N :=
  match l with
  | [] => []
  | [t] => if stop (tk_type t) then [] else tk_val t   (* cannot happen: the last token is EOF *)
  | t :: r =>
      if stop (tk_type t) then []
      else tk_val t ++ (if spaced && (is_ty (tk_type t) TNumber || is_ty (tk_type t) TCommodity || is_ty (tk_type t) TText)
                        then [32%N] else []) ++ collect_values stop spaced r
  end.

Fixpoint parse_subdirs (fuel : nat) (ps : pstate) (m : smap) : option (smap * pstate) :=
  match fuel with
  | O => None
  | S f =>
      if negb (is_ty (ctype ps) TNewline) then Some (m, ps)
      else
        let ps := adv ps in
        if negb (is_ty (ctype ps) TIndent) then Some (m, ps)
        else
          let ps := adv ps in
          if is_ty (ctype ps) TComment then parse_subdirs f (adv ps) m
          else if is_ty (ctype ps) TNewline || is_ty (ctype ps) TEOF then parse_subdirs f ps m
          else if is_ty (ctype ps) TText then
            let line := tk_val (cur ps) in
            let ps := adv ps in
            match index_byte 32 line with
            | Some (S i) => parse_subdirs f ps (smap_put (firstn (S i) line) (trim_space_u (skipn (S (S i)) line)) m)
            | _ => parse_subdirs f ps (smap_put line [] m)
            end
          else if is_ty (ctype ps) TDirective then
            let name := tk_val (cur ps) in
            let ps := adv ps in
            let v := trim_space_u (collect_values stop_nl_eof_cmt true (toks ps)) in
            parse_subdirs f (skip_until stop_nl_eof_cmt ps) (smap_put name v m)
          else parse_subdirs f (skip_to_next_line ps) m
  end.

Definition smap_get (k : list N) (m : smap) : option (list N) := alookup k m.

Definition parse_account_directive (fuel : nat) (startPos : tpos) (ps : pstate) : option (option directive * pstate) :=
  if negb (is_ty (ctype ps) TAccount || is_ty (ctype ps) TText) then Some (None, skip_to_next_line (perr ps))
  else
    let name0 := tk_val (cur ps) in
    let npos := tk_pos (cur ps) in
    let nend0 := tk_end (cur ps) in
    let ps := adv ps in
    let '(name, nend, ps) :=
      if is_ty (ctype ps) TText
      then ((match tk_val (cur ps) with [] => name0 | v => name0 ++ [32%N] ++ v end),
            (match tk_val (cur ps) with [] => nend0 | _ => tk_end (cur ps) end), adv ps)
      else (name0, nend0, ps) in
    let '(cmt, tags, ps) :=
      if is_ty (ctype ps) TComment
      then (tk_val (cur ps), parse_tags (tk_val (cur ps)) (tk_pos (cur ps)), adv ps) else ([], [], ps) in
    let ps := skip_until stop_nl_eof ps in
    match parse_subdirs fuel ps [] with
    | None => None
    | Some (sub, ps) =>
        Some (Some (DAccount name (mkRng (zpos npos) (zpos nend)) tags cmt sub (mkRng (zpos startPos) (zpos (tk_pos (cur ps))))), ps)
    end.

Definition parse_commodity_directive (fuel : nat) (startPos : tpos) (ps : pstate) : option (option directive * pstate) :=
  let '(com, fmt, ps) :=
    if is_ty (ctype ps) TCommodity then
      let sym := tk_val (cur ps) in
      let c := mkCom sym true (mkRng (zpos (tk_pos (cur ps))) (zpos (tk_end (cur ps)))) in
      let ps := adv ps in
      if is_ty (ctype ps) TNumber then (c, sym ++ tk_val (cur ps), adv ps) else (c, [], ps)
    else if is_ty (ctype ps) TNumber then
      let number := tk_val (cur ps) in
      let ps := adv ps in
      if is_ty (ctype ps) TCommodity || is_ty (ctype ps) TText
      then (mkCom (tk_val (cur ps)) true (mkRng (zpos (tk_pos (cur ps))) (zpos (tk_end (cur ps)))), number ++ [32%N] ++ tk_val (cur ps), adv ps)
      else (com0, [], ps)
    else if is_ty (ctype ps) TText then
      (mkCom (tk_val (cur ps)) true (mkRng (zpos (tk_pos (cur ps))) (zpos (tk_end (cur ps)))), [], adv ps)
    else (com0, [], ps) in
  let ps := skip_until stop_nl_eof_cmt ps in
  let ps := if is_ty (ctype ps) TComment then adv ps else ps in
  match parse_subdirs fuel ps [] with
  | None => None
  | Some (sub, ps) =>
      let fmt := match smap_get (bs "format") sub with Some f => f | None => fmt end in
      let note := match smap_get (bs "note") sub with Some n => n | None => [] end in
      Some (Some (DCommodity com fmt note sub (mkRng (zpos startPos) (zpos (tk_pos (cur ps))))), ps)
  end.

Definition parse_include_directive (startPos : tpos) (ps : pstate) : option directive * pstate :=
  let path := trim_space_u (collect_values stop_nl_eof_cmt false (toks ps)) in
  let ps := skip_until stop_nl_eof_cmt ps in
  match path with
  | [] => (None, skip_to_next_line (perr ps))
  | _ => (Some (DInclude path (mkRng (zpos startPos) (zpos (tk_pos (cur ps))))), skip_to_next_line ps)
  end.

Definition parse_price_directive (startPos : tpos) (ps : pstate) : option directive * pstate :=
  match parse_date ps with
  | (None, ps) => (None, skip_to_next_line ps)
  | (Some d, ps) =>
      if is_ty (ctype ps) TCommodity || is_ty (ctype ps) TText then
        let c := mkCom (tk_val (cur ps)) true (mkRng (zpos (tk_pos (cur ps))) pos0) in
        let ps := adv ps in
        match parse_amount ps with
        | (None, ps) => (None, skip_to_next_line ps)
        | (Some a, ps) => (Some (DPrice d c a (mkRng (zpos startPos) (zpos (tk_pos (cur ps))))), skip_to_next_line ps)
        end
      else (None, skip_to_next_line (perr ps))
  end.

Definition parse_default_directive (startPos : tpos) (ps : pstate) : option directive * pstate :=
  let '(sym, fmt, ps) :=
    if is_ty (ctype ps) TCommodity then
      let sym := tk_val (cur ps) in
      let ps := adv ps in
      if is_ty (ctype ps) TNumber then (sym, sym ++ tk_val (cur ps), adv ps) else (sym, [], ps)
    else if is_ty (ctype ps) TNumber then
      let number := tk_val (cur ps) in
      let ps := adv ps in
      if is_ty (ctype ps) TCommodity || is_ty (ctype ps) TText
      then (tk_val (cur ps), number ++ [32%N] ++ tk_val (cur ps), adv ps) else ([], [], ps)
    else ([], [], ps) in
  (Some (DDefault sym fmt (mkRng (zpos startPos) (zpos (tk_pos (cur ps))))), skip_to_next_line ps).

Definition parse_year_directive (startPos : tpos) (ps : pstate) : option directive * pstate :=
  if negb (is_ty (ctype ps) TNumber) then (None, skip_to_next_line (perr ps))
  else match atoi (tk_val (cur ps)) with
       | Some y =>
           if (1 <=? y) && (y <=? 9999) then
             let ps := mkPS (toks ps) (perrs ps) y in
             let ps := adv ps in
             (Some (DYear y (mkRng (zpos startPos) (zpos (tk_pos (cur ps))))), skip_to_next_line ps)
           else (None, skip_to_next_line (perr ps))
       | None => (None, skip_to_next_line (perr ps))
       end.

Definition parse_directive (fuel : nat) (ps : pstate) : option (option directive * pstate) :=
  let name := tk_val (cur ps) in
  let p := tk_pos (cur ps) in
  let ps := adv ps in
  if beq name (bs "account") then parse_account_directive fuel p ps
  else if beq name (bs "commodity") then parse_commodity_directive fuel p ps
  else if beq name (bs "include") then Some (parse_include_directive p ps)
  else if beq name (bs "P") then Some (parse_price_directive p ps)
  else if beq name (bs "Y") || beq name (bs "year") then Some (parse_year_directive p ps)
  else if beq name (bs "D") then Some (parse_default_directive p ps)
  else Some (None, skip_to_next_line ps).

(* ---------- journal ---------- *)
Fixpoint parse_journal (fuel : nat) (ps : pstate) (j : journal) : option (journal * pstate) :=
  match fuel with
  | O => None
  | S f =>
      let t := ctype ps in
      if is_ty t TEOF then Some (j, ps)
      else if is_ty t TNewline then parse_journal f (adv ps) j
      else if is_ty t TComment then
        let '(c, ps) := parse_comment ps in
        parse_journal f ps (mkJournal (j_txs j) (j_dirs j) (j_comments j ++ [c]) (j_includes j))
      else if is_ty t TDate then
        match parse_transaction f ps with
        | None => None
        | Some (Some tx, ps) => parse_journal f ps (mkJournal (j_txs j ++ [tx]) (j_dirs j) (j_comments j) (j_includes j))
        | Some (None, ps) => parse_journal f ps j
        end
      else if is_ty t TDirective then
        match parse_directive f ps with
        | None => None
        | Some (Some (DInclude p r), ps) =>
            parse_journal f ps (mkJournal (j_txs j) (j_dirs j) (j_comments j) (j_includes j ++ [mkInc p r]))
        | Some (Some d, ps) => parse_journal f ps (mkJournal (j_txs j) (j_dirs j ++ [d]) (j_comments j) (j_includes j))
        | Some (None, ps) => parse_journal f ps j
        end
      else parse_journal f (skip_to_next_line (perr ps)) j
  end.

Definition parse (input : list N) : option (journal * list (N * N)) :=
  match lex input with
  | None => None
  | Some ts =>
      match parse_journal (length ts + 2) (mkPS ts [] 0) (mkJournal [] [] [] []) with
      | Some (j, ps) => Some (j, rev (perrs ps))
      | None => None
      end
  end.
