(* Model of internal/lsputil/mapper.go: NewPositionMapper (split on LF), LSPToByte,
   UTF16OffsetToByteOffset, ApplyChange.  Lines and characters are N (uint32 on the wire). *)
From HL Require Import Lib.Bytes Lib.Utf8.
Open Scope N_scope.

Definition LF : N := 10.
Definition CR : N := 13.

(* the part of t before the first LF (strings.Split element) *)
Fixpoint line_of (t : list N) : list N :=
  match t with
  | [] => []
  | c :: r => if c =? LF then [] else c :: line_of r
  end.

(* the line's text as LSPToByte measures it: up to the LF, without the CR that directly precedes that
   LF (strings.TrimSuffix(line, "\r") on every line but the last, /repo CRLF repair) *)
Fixpoint line_text (t : list N) : list N :=
  match t with
  | [] => []
  | c :: r => if c =? LF then []
              else if (c =? CR) && (match r with c' :: _ => c' =? LF | [] => false end) then []
              else c :: line_text r
  end.

(* the text starting at line l (0-based); None when the text has fewer lines:
   "line >= len(m.lines)" *)
Fixpoint skip_lines (t : list N) (l : N) : option (list N) :=
  if l =? 0 then Some t
  else match t with
       | [] => None
       | c :: r => skip_lines r (if c =? LF then l - 1 else l)
       end.

(* UTF16OffsetToByteOffset: `for _, r := range s { if utf16Count >= utf16Offset { break }; ... }`.
   Structural on the bytes: `skip` counts the remaining bytes of the rune just decoded. *)
Fixpoint u16_to_byte (s : list N) (skip : nat) (count target : N) : N :=
  match s with
  | [] => 0
  | _ :: r =>
      match skip with
      | S k => u16_to_byte r k count target
      | O =>
          if target <=? count then 0
          else let '(rn, n) := decode s in
               rune_len rn + u16_to_byte r (n - 1) (count + u16len rn) target
      end
  end.

Definition blen (t : list N) : N := N.of_nat (length t).

Definition lsp_to_byte (t : list N) (l c : N) : N :=
  match skip_lines t l with
  | None => blen t
  | Some rest =>
      let ln := line_text rest in
      (blen t - blen rest) + u16_to_byte ln 0 0 c
  end.

Record range := mkRange { sl : N; sc : N; el : N; ec : N }.

Definition apply_change (t : list N) (r : range) (text : list N) : list N :=
  let s := lsp_to_byte t (sl r) (sc r) in
  let e := lsp_to_byte t (el r) (ec r) in
  let '(s, e) := if e <? s then (e, s) else (s, e) in
  let n := blen t in
  let s := if n <? s then n else s in
  let e := if n <? e then n else e in
  firstn (N.to_nat s) t ++ text ++ skipn (N.to_nat e) t.
