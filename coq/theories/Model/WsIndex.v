(* Model of internal/workspace/index.go: the aggregated counters of WorkspaceIndex maintained
   incrementally by SetFileIndex / RemoveFile (addFileIndex, removeFileIndex, decrementBy) and
   the payee-template table (overwrite on add, delete by key on remove).
   All five usage-count maps, the date map and the tag-value map follow one pattern; a counter
   key is (kind byte :: name), so one aggregated association list models them all. *)
From HL Require Import Lib.Bytes.
Open Scope N_scope.

Definition cmap := list (list N * N).

Fixpoint cget (k : list N) (m : cmap) : N :=
  match m with
  | [] => 0
  | (k', v) :: r => if beq k k' then v else cget k r
  end.

(* counts[k] += c *)
Fixpoint cadd (k : list N) (c : N) (m : cmap) : cmap :=
  match m with
  | [] => [(k, c)]
  | (k', v) :: r => if beq k k' then (k', v + c) :: r else (k', v) :: cadd k c r
  end.

(* decrementBy: delete when counts[k] <= amount, else subtract *)
Fixpoint cdec (k : list N) (c : N) (m : cmap) : cmap :=
  match m with
  | [] => []
  | (k', v) :: r =>
      if beq k k' then (if v <=? c then r else (k', v - c) :: r) else (k', v) :: cdec k c r
  end.

Record findex := mkFI { fi_counts : cmap; fi_templates : list (list N) (* payees with a template *) }.

Record wsindex := mkWI {
  wi_files : list (list N * findex);        (* fileIndexes *)
  wi_counts : cmap;                         (* the aggregated counters *)
  wi_templates : list (list N)              (* keys of payeeTemplates *)
}.

Fixpoint file_get (p : list N) (fs : list (list N * findex)) : option findex :=
  match fs with
  | [] => None
  | (p', f) :: r => if beq p p' then Some f else file_get p r
  end.
Definition file_del (p : list N) (fs : list (list N * findex)) : list (list N * findex) :=
  filter (fun pf => negb (beq p (fst pf))) fs.

Definition tmpl_add (k : list N) (t : list (list N)) : list (list N) :=
  if existsb (beq k) t then t else t ++ [k].
Definition tmpl_del (k : list N) (t : list (list N)) : list (list N) := filter (fun x => negb (beq k x)) t.

Definition add_file (p : list N) (f : findex) (w : wsindex) : wsindex :=
  mkWI ((p, f) :: wi_files w)
       (fold_left (fun m kc => cadd (fst kc) (snd kc) m) (fi_counts f) (wi_counts w))
       (fold_left (fun t k => tmpl_add k t) (fi_templates f) (wi_templates w)).

Definition remove_file (p : list N) (f : findex) (w : wsindex) : wsindex :=
  mkWI (file_del p (wi_files w))
       (fold_left (fun m kc => cdec (fst kc) (snd kc) m) (fi_counts f) (wi_counts w))
       (fold_left (fun t k => tmpl_del k t) (fi_templates f) (wi_templates w)).

Inductive wop := WSet (p : list N) (f : findex) | WRemove (p : list N).

Definition wstep (w : wsindex) (o : wop) : wsindex :=
  match o with
  | WSet p f =>
      let w := match file_get p (wi_files w) with Some old => remove_file p old w | None => w end in
      add_file p f w
  | WRemove p =>
      match file_get p (wi_files w) with Some old => remove_file p old w | None => w end
  end.

Definition winit : wsindex := mkWI [] [] [].
Definition wrun (ops : list wop) : wsindex := fold_left wstep ops winit.

(* what a rebuild computes: the pointwise sum of the current files' contributions *)
Fixpoint csum (k : list N) (l : cmap) : N :=
  match l with
  | [] => 0
  | (k', c) :: r => (if beq k k' then c else 0) + csum k r
  end.
Fixpoint total (k : list N) (fs : list (list N * findex)) : N :=
  match fs with
  | [] => 0
  | (_, f) :: r => csum k (fi_counts f) + total k r
  end.
