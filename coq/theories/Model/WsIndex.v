(* Model of internal/workspace/index.go: the aggregated counters of WorkspaceIndex maintained
   incrementally by SetFileIndex / RemoveFile (addFileIndex, removeFileIndex, decrementBy) and
   the payee-template table, rebuilt by refreshDerived from the indexed files merged in sorted
   path order (buildPayeeTemplates; /repo 8a0a0e8).
   All five usage-count maps, the date map and the tag-value map follow one pattern; a counter
   key is (kind byte :: name), so one aggregated association list models them all. *)
From HL Require Import Lib.Bytes.
Open Scope N_scope.

Definition cmap := list (list N * N).

Fixpoint cget (k : list N) (m : cmap) : N :=
  match m with
  | [] => 0
  | (k', v) :: r => if beq k k' then v else cget k r
  end.

(* counts[k] += c *)
Fixpoint cadd (k : list N) (c : N) (m : cmap) : cmap :=
  match m with
  | [] => [(k, c)]
  | (k', v) :: r => if beq k k' then (k', v + c) :: r else (k', v) :: cadd k c r
  end.

(* decrementBy: delete when counts[k] <= amount, else subtract *)
Fixpoint cdec (k : list N) (c : N) (m : cmap) : cmap :=
  match m with
  | [] => []
  | (k', v) :: r =>
      if beq k k' then (if v <=? c then r else (k', v - c) :: r) else (k', v) :: cdec k c r
  end.

(* a template is represented by a fingerprint of its posting list *)
Definition tmap := list (list N * N).
Record findex := mkFI { fi_counts : cmap; fi_templates : tmap (* payee -> template *) }.

Record wsindex := mkWI {
  wi_files : list (list N * findex);        (* fileIndexes *)
  wi_counts : cmap;                         (* the aggregated counters *)
  wi_templates : tmap                       (* payeeTemplates *)
}.

Fixpoint file_get (p : list N) (fs : list (list N * findex)) : option findex :=
  match fs with
  | [] => None
  | (p', f) :: r => if beq p p' then Some f else file_get p r
  end.
Definition file_del (p : list N) (fs : list (list N * findex)) : list (list N * findex) :=
  filter (fun pf => negb (beq p (fst pf))) fs.

(* templates[payee] = postings *)
Fixpoint tput (k : list N) (v : N) (t : tmap) : tmap :=
  match t with
  | [] => [(k, v)]
  | (k', v') :: r => if beq k k' then (k', v) :: r else (k', v') :: tput k v r
  end.
(* sort.Strings(paths): insertion into a list ordered by path *)
Fixpoint insert_file (x : list N * findex) (l : list (list N * findex)) : list (list N * findex) :=
  match l with
  | [] => [x]
  | y :: r => if bltb (fst x) (fst y) then x :: y :: r else y :: insert_file x r
  end.
Definition sort_files (fs : list (list N * findex)) : list (list N * findex) := fold_right insert_file [] fs.
Definition merge_file (t : tmap) (pf : list N * findex) : tmap :=
  fold_left (fun t kv => tput (fst kv) (snd kv) t) (fi_templates (snd pf)) t.
(* buildPayeeTemplates *)
Definition build_templates (fs : list (list N * findex)) : tmap := fold_left merge_file (sort_files fs) [].

(* addFileIndex / removeFileIndex end with refreshDerived, which rebuilds the template table *)
Definition add_file (p : list N) (f : findex) (w : wsindex) : wsindex :=
  let fs := (p, f) :: wi_files w in
  mkWI fs
       (fold_left (fun m kc => cadd (fst kc) (snd kc) m) (fi_counts f) (wi_counts w))
       (build_templates fs).

Definition remove_file (p : list N) (f : findex) (w : wsindex) : wsindex :=
  let fs := file_del p (wi_files w) in
  mkWI fs
       (fold_left (fun m kc => cdec (fst kc) (snd kc) m) (fi_counts f) (wi_counts w))
       (build_templates fs).

Inductive wop := WSet (p : list N) (f : findex) | WRemove (p : list N).

Definition wstep (w : wsindex) (o : wop) : wsindex :=
  match o with
  | WSet p f =>
      let w := match file_get p (wi_files w) with Some old => remove_file p old w | None => w end in
      add_file p f w
  | WRemove p =>
      match file_get p (wi_files w) with Some old => remove_file p old w | None => w end
  end.

Definition winit : wsindex := mkWI [] [] [].
Definition wrun (ops : list wop) : wsindex := fold_left wstep ops winit.

(* what a rebuild computes: the pointwise sum of the current files' contributions *)
Fixpoint csum (k : list N) (l : cmap) : N :=
  match l with
  | [] => 0
  | (k', c) :: r => (if beq k k' then c else 0) + csum k r
  end.
Fixpoint total (k : list N) (fs : list (list N * findex)) : N :=
  match fs with
  | [] => 0
  | (_, f) :: r => csum k (fi_counts f) + total k r
  end.
