(* Model of the figures of internal/server/hover.go and internal/analyzer/account_balance.go:
   per-account per-commodity sums of explicitly posted amounts, posting / payee / tag counts,
   and the transaction source AllTransactions (internal/include/types.go). *)
From HL Require Import Lib.Bytes Model.Ast Lib.Dec Model.Balance.
Open Scope Z_scope.

(* CalculateAccountBalancesFromTransactions, restricted to one account *)
Definition acct_step (name : list N) (m : list (list N * dec)) (p : posting) : list (list N * dec) :=
  match po_amount p with
  | Some a => if beq (po_acct p) name then bal_add (c_sym (a_com a)) (a_qty a) m else m
  | None => m
  end.
Definition all_postings (txs : list transaction) : list posting := flat_map tx_postings txs.
Definition acct_balances (name : list N) (txs : list transaction) : list (list N * dec) :=
  fold_left (acct_step name) (all_postings txs) [].

Definition count_postings (name : list N) (txs : list transaction) : nat :=
  length (filter (fun p => beq (po_acct p) name) (all_postings txs)).

Definition count_payee (payee : list N) (txs : list transaction) : nat :=
  length (filter (fun t => beq (tx_payee t) payee || beq (tx_desc t) payee) txs).

(* forEachTag: tags of the transaction's comments, then of each posting *)
Definition tags_of (t : transaction) : list tag :=
  flat_map cm_tags (tx_comments t) ++ flat_map po_tags (tx_postings t).
Definition all_tags (txs : list transaction) : list tag := flat_map tags_of txs.
Definition count_tag (name : list N) (txs : list transaction) : nat :=
  length (filter (fun g => beq (tg_name g) name) (all_tags txs)).
Definition count_tag_value (name value : list N) (txs : list transaction) : nat :=
  length (filter (fun g => beq (tg_name g) name && beq (tg_value g) value) (all_tags txs)).

(* ResolvedJournal.AllTransactions: primary first, then every file of FileOrder *)
Definition all_transactions (primary : list transaction) (files : list (list transaction)) : list transaction :=
  primary ++ List.concat files.
