(* Mirror of internal/ast/types.go.  Go ints are Z; strings are byte lists; decimal.Decimal is
   (mantissa, exponent) as shopspring/decimal stores it. *)
From HL Require Import Lib.Bytes.
Open Scope Z_scope.

Record pos := mkPos { p_line : Z; p_col : Z; p_off : Z }.
Record rng := mkRng { r_start : pos; r_end : pos }.
Definition pos0 := mkPos 0 0 0.
Definition rng0 := mkRng pos0 pos0.

Record dec := mkDec { mant : Z; dexp : Z }.          (* value = mant * 10^dexp *)

Record commodity := mkCom { c_sym : list N; c_left : bool; c_rng : rng }.
Record amount := mkAmt { a_qty : dec; a_raw : list N; a_com : commodity; a_signbefore : bool; a_rng : rng }.
Record cost := mkCost { co_amt : amount; co_total : bool; co_rng : rng }.
Record assertion := mkAssert { as_amt : amount; as_strict : bool; as_incl : bool; as_rng : rng }.
Record tag := mkTag { tg_name : list N; tg_value : list N; tg_rng : rng }.

Inductive vkind := VNone | VBalanced | VUnbalanced.
Inductive status := StNone | StPending | StCleared.

Record posting := mkPosting {
  po_status : status; po_acct : list N; po_acct_rng : rng;
  po_amount : option amount; po_assert : option assertion; po_cost : option cost;
  po_comment : list N; po_tags : list tag; po_virtual : vkind; po_rng : rng }.

Record date := mkDate { d_year : Z; d_month : Z; d_day : Z; d_rng : rng }.
Record comment := mkComment { cm_text : list N; cm_tags : list tag; cm_rng : rng }.

Record transaction := mkTx {
  tx_date : date; tx_date2 : option date; tx_status : status; tx_code : list N;
  tx_desc : list N; tx_payee : list N; tx_note : list N;
  tx_prng : rng;    (* PayeeRange: where the payee (without one: the description) stands in the header *)
  tx_postings : list posting; tx_tags : list tag; tx_comments : list comment; tx_rng : rng }.

Inductive directive :=
| DAccount (name : list N) (name_rng : rng) (tags : list tag) (cmt : list N) (subdirs : list (list N * list N)) (r : rng)
| DCommodity (c : commodity) (format : list N) (note : list N) (subdirs : list (list N * list N)) (r : rng)
| DInclude (path : list N) (r : rng)
| DPrice (d : date) (c : commodity) (price : amount) (r : rng)
| DYear (y : Z) (r : rng)
| DDefault (sym : list N) (format : list N) (r : rng).

Record include := mkInc { inc_path : list N; inc_rng : rng }.

Record journal := mkJournal {
  j_txs : list transaction; j_dirs : list directive; j_comments : list comment; j_includes : list include }.
