(* Model of the range producers that sit on top of the AST: astRangeToProtocol, hover element
   ranges (hover.go findElementAtPosition / findTagAtPosition / estimatePayeeRange), prepareRename,
   document symbols (symbol.go), folding ranges (folding.go), document links (links.go) and the
   ranges of the diagnostics built in server.go.  Positions: Z; uint32 conversions wrap. *)
From HL Require Import Lib.Bytes Lib.Utf8 Model.Ast Model.Lexer Model.Parser Model.References Model.Balance Model.Undeclared Model.Settings.
Open Scope Z_scope.

(* ---- hover ---- *)
Inductive hkind := HDate | HPayee | HTag | HTagValue | HAccount | HAmount.

Fixpoint tag_at (tags : list tag) (pl pc : Z) : option (hkind * rng) :=
  match tags with
  | [] => None
  | g :: r =>
      if position_in_range pl pc (tg_rng g) then
        let colonCol := p_col (r_start (tg_rng g)) + u16len_bytes (tg_name g) 0 in
        if pc + 1 <=? colonCol then
          Some (HTag, mkRng (r_start (tg_rng g))
                            (mkPos (p_line (r_start (tg_rng g))) colonCol (p_off (r_start (tg_rng g)) + Z.of_nat (length (tg_name g)))))
        else
          Some (HTagValue, mkRng (mkPos (p_line (r_start (tg_rng g))) (colonCol + 1)
                                        (p_off (r_start (tg_rng g)) + Z.of_nat (length (tg_name g)) + 1))
                                 (r_end (tg_rng g)))
      else tag_at r pl pc
  end.

Fixpoint first_some {A B} (f : A -> option B) (l : list A) : option B :=
  match l with [] => None | x :: r => match f x with Some y => Some y | None => first_some f r end end.

Definition posting_element (p : posting) (pl pc : Z) : option (hkind * rng) :=
  if position_in_range pl pc (po_acct_rng p) then Some (HAccount, po_acct_rng p)
  else match po_amount p with
       | Some a => if position_in_range pl pc (a_rng a) then Some (HAmount, a_rng a) else tag_at (po_tags p) pl pc
       | None => tag_at (po_tags p) pl pc
       end.

Definition tx_element (t : transaction) (pl pc : Z) : option (hkind * rng) :=
  if position_in_range pl pc (d_rng (tx_date t)) then Some (HDate, d_rng (tx_date t))
  else
    let payee := payee_or_desc t in
    if negb (beq payee []) && position_in_range pl pc (payee_range t payee) then Some (HPayee, payee_range t payee)
    else match first_some (fun c => tag_at (cm_tags c) pl pc) (tx_comments t) with
         | Some e => Some e
         | None => first_some (fun p => posting_element p pl pc) (tx_postings t)
         end.

Definition hover_element (j : journal) (pl pc : Z) : option (hkind * prange) :=
  option_map (fun e => (fst e, to_proto (snd e))) (first_some (fun t => tx_element t pl pc) (j_txs j)).

(* ---- prepareRename: the symbol range of findDefinitionTarget ---- *)
Fixpoint target_range_postings (ps : list posting) (pl pc : Z) : option rng :=
  match ps with
  | [] => None
  | p :: r =>
      if position_in_range pl pc (po_acct_rng p) then Some (po_acct_rng p)
      else match po_amount p with
           | Some a => if negb (beq (c_sym (a_com a)) []) && position_in_range pl pc (c_rng (a_com a))
                       then Some (c_rng (a_com a)) else target_range_postings r pl pc
           | None => target_range_postings r pl pc
           end
  end.
Fixpoint target_range (txs : list transaction) (pl pc : Z) : option rng :=
  match txs with
  | [] => None
  | t :: r =>
      let payee := payee_or_desc t in
      if negb (beq payee []) && position_in_range pl pc (payee_range t payee) then Some (payee_range t payee)
      else match target_range_postings (tx_postings t) pl pc with
           | Some x => Some x
           | None => target_range r pl pc
           end
  end.
Definition prepare_rename (j : journal) (pl pc : Z) : option prange := option_map to_proto (target_range (j_txs j) pl pc).

(* ---- document symbols, links ---- *)
Definition dir_rng (d : directive) : rng :=
  match d with
  | DAccount _ _ _ _ _ r | DCommodity _ _ _ _ r | DInclude _ r | DPrice _ _ _ r | DYear _ r | DDefault _ _ r => r
  end.
Definition doc_symbols (j : journal) : list prange :=
  map (fun t => to_proto (tx_rng t)) (j_txs j) ++ map (fun d => to_proto (dir_rng d)) (j_dirs j) ++
  map (fun i => to_proto (inc_rng i)) (j_includes j).
Definition doc_links (j : journal) : list prange := map (fun i => to_proto (inc_rng i)) (j_includes j).

(* ---- folding ---- *)
Definition tx_folds (j : journal) : list (Z * Z) :=
  flat_map (fun t => match tx_postings t with
                     | [] => []
                     | _ => let s := u32 (p_line (r_start (tx_rng t)) - 1) in
                            let e0 := u32 (p_line (r_end (tx_rng t)) - 1) in
                            (* the range ends where the next token starts: at the beginning of a
                               line the transaction's last line is the one before (/repo fold repair) *)
                            let e := if (p_col (r_end (tx_rng t)) =? 1) && (s <? e0) then e0 - 1 else e0 in
                            if s <? e then [(s, e)] else []
                     end) (j_txs j).

Definition fold_directives : list (list N) :=
  map bs ["account "; "commodity "; "decimal-mark "; "include "; "alias "; "payee "; "P "; "D "; "Y "; "tag "]%string.
Definition is_sp_tab (c : N) : bool := ((c =? 32) || (c =? 9))%N.
Fixpoint trim_left_st (s : list N) : list N :=
  match s with c :: r => if is_sp_tab c then trim_left_st r else s | [] => [] end.
Definition is_directive_line (line : list N) : bool :=
  existsb (fun d => has_prefix_b d (trim_left_st line)) fold_directives.
Definition starts_blank (line : list N) : bool := match line with c :: _ => is_sp_tab c | [] => false end.

(* last continuation line with content, among the indented lines that follow *)
Fixpoint directive_fold_end (rest : list (list N)) (j : Z) (acc : Z) : Z :=
  match rest with
  | [] => acc
  | l :: r => if starts_blank l then directive_fold_end r (j + 1) (match trim_space_u l with [] => acc | _ => j end) else acc
  end.
Fixpoint directive_folds (lines : list (list N)) (i : Z) : list (Z * Z) :=
  match lines with
  | [] => []
  | l :: r =>
      (if is_directive_line l then let e := directive_fold_end r (i + 1) i in if i <? e then [(i, e)] else [] else []) ++
      directive_folds r (i + 1)
  end.

Definition is_comment_line (line : list N) : bool :=
  match trim_space_u line with c :: _ => ((c =? 59) || (c =? 35))%N | [] => false end.
(* comment blocks: maximal runs of comment lines of the same kind -- indented ones (an entry's own
   comments) or top-level ones, never mixed (the Go loop jumps to endLine + 1) *)
Definition close_run (run : option (Z * bool)) (i : Z) : list (Z * Z) :=
  match run with Some (s, _) => if s <? i - 1 then [(s, i - 1)] else [] | None => [] end.
Fixpoint comment_folds (lines : list (list N)) (i : Z) (run : option (Z * bool)) : list (Z * Z) :=
  match lines with
  | [] => close_run run i
  | l :: r =>
      if is_comment_line l then
        match run with
        | Some (s, ind) =>
            if Bool.eqb ind (starts_blank l) then comment_folds r (i + 1) run
            else close_run run i ++ comment_folds r (i + 1) (Some (i, starts_blank l))
        | None => comment_folds r (i + 1) (Some (i, starts_blank l))
        end
      else close_run run i ++ comment_folds r (i + 1) None
  end.

Definition folding_ranges (content : list N) (j : journal) : list (Z * Z) :=
  match content with
  | [] => []
  | _ => let lines := split_byte 10 content in
         tx_folds j ++ directive_folds lines 0 ++ comment_folds lines 0 None
  end.

(* ---- diagnostics built by Server.analyze: (range, code) ---- *)
Inductive dcode := DSyntax | DUnbalanced | DMultiple | DUndeclAccount | DUndeclCommodity.
Definition dcode_n (d : dcode) : N := match d with DSyntax => 0 | DUnbalanced => 1 | DMultiple => 2 | DUndeclAccount => 3 | DUndeclCommodity => 4 end%N.

Definition syntax_diags (errs : list (N * N)) : list (prange * dcode) :=
  map (fun e => let l := u32 (Z.of_N (fst e) - 1) in let c := u32 (Z.of_N (snd e) - 1) in (mkPR l c l c, DSyntax)) errs.

(* the first occurrence's range, as checkUndeclaredCommodities reports it *)
Fixpoint sym_range (ps : list posting) (s : list N) : rng :=
  match ps with
  | [] => rng0
  | p :: r =>
      let cands := (match po_amount p with Some a => [a_com a] | None => [] end) ++
                   (match po_cost p with Some c => [a_com (co_amt c)] | None => [] end) ++
                   (match po_assert p with Some b => [a_com (as_amt b)] | None => [] end) in
      match filter (fun c => beq (c_sym c) s) cands with
      | c :: _ => c_rng c
      | [] => sym_range r s
      end
  end.

Definition tx_diags (t : transaction) (dacc dcom : list (list N)) : list (prange * dcode) :=
  (match balance_verdict (tx_postings t) with
   | BOk => []
   | BUnbalanced _ => [(to_proto (tx_rng t), DUnbalanced)]
   | BMultiple => [(to_proto (tx_rng t), DMultiple)]
   end) ++
  (match dacc with [] => [] | _ => map (fun p => (to_proto (po_rng p), DUndeclAccount)) (undeclared_postings t dacc) end) ++
  (match dcom with [] => [] | _ => map (fun s => (to_proto (sym_range (tx_postings t) s), DUndeclCommodity)) (undeclared_commodities t dcom) end).

Definition diagnostics (j : journal) (errs : list (N * N)) : list (prange * dcode) :=
  syntax_diags errs ++ flat_map (fun t => tx_diags t (declared_accounts j) (declared_commodities j)) (j_txs j).
