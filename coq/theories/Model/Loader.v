(* Model of internal/include/loader.go at the level of the include graph.
   Files are numbered; a file system maps a file to (version, size, include directives);
   every directive carries its line and the list of files it resolves to (one for a plain
   include; the sorted matches minus the including file for a glob; path resolution and glob
   matching themselves are performed by the real code and checked through the tie).
   State threaded through one load: the inclusion stack, the visited set and the loader cache
   (file -> version and directives of the journal parsed at caching time).
   Follows the loader as repaired in /repo (01b2939: a cache hit follows the cached journal's
   includes; and the repair of C10: a file reached again off the inclusion path is skipped
   without error, the depth limit counts the files on the inclusion path and is reported on the
   directive). *)
From HL Require Import Lib.Bytes.
Open Scope N_scope.

(* plain include: d_glob = false, one target.  glob: d_glob = true and d_targets are the files whose
   NAME matches the pattern (sorted by path, the including file excluded); the ones that exist at
   load time are the matches, and no match at all is an error *)
Record directive := mkDir { d_line : N; d_targets : list N; d_glob : bool }.
Record file := mkFile { f_version : N; f_size : N; f_dirs : list directive }.
Definition fsys := list (N * file).

Fixpoint flookup {A} (k : N) (m : list (N * A)) : option A :=
  match m with
  | [] => None
  | (k', v) :: r => if k =? k' then Some v else flookup k r
  end.

Definition dir_items (fs : list (N * file)) (dirs : list directive) : list (N * option N) :=
  flat_map (fun d =>
    if d_glob d then
      match filter (fun q => isSome (flookup q fs)) (d_targets d) with
      | [] => [(d_line d, None)]
      | ts => map (fun q => (d_line d, Some q)) ts
      end
    else map (fun q => (d_line d, Some q)) (d_targets d)) dirs.

Fixpoint memN (x : N) (l : list N) : bool :=
  match l with [] => false | y :: r => (x =? y) || memN x r end.

Inductive ekind := ENotFound | ECycle | ETooLarge | ETooDeep.
Record lerr := mkErr { e_kind : ekind; e_target : N; e_line : N }.

Record limits := mkLim { max_size : N; max_depth : N }.

(* stack: the files whose includes are being followed (Go: visited[path] == true);
   visited: every file marked so far, on the stack or done (Go: the keys of the visited map) *)
Record lstate := mkLS { stack : list N; visited : list N; cache : list (N * file) }.

(* result of a load: FileOrder, Files (file -> version of the journal object) *)
Record lresult := mkRes { r_order : list N; r_files : list (N * N) }.

Definition files_put (k v : N) (m : list (N * N)) : list (N * N) :=
  (k, v) :: filter (fun kv => negb (fst kv =? k)) m.
(* maps.Copy dst src: src entries overwrite *)
Definition files_copy (dst src : list (N * N)) : list (N * N) :=
  fold_right (fun kv acc => files_put (fst kv) (snd kv) acc) dst src.

(* result.Files[q] = journal; FileOrder += q; maps.Copy(Files, sub.Files); FileOrder += sub.FileOrder *)
Definition merge_res (res : lresult) (q v : N) (sr : lresult) : lresult :=
  mkRes (r_order res ++ q :: r_order sr) (files_copy (files_put q v (r_files res)) (r_files sr)).

(* cache-hit events of a load, for the C11 classifiers: (file, cached journal has includes) *)
Definition hit := (N * bool)%type.

(* resolveIncludes always returns a result *)
Record wout := mkW { w_res : lresult; w_errs : list lerr; w_st : lstate; w_hits : list hit;
                     w_seen : list N (* every target examined, in order *) }.
Record lout := mkOut { o_res : option lresult; o_errs : list lerr; o_st : lstate; o_hits : list hit;
                       o_seen : list N }.

Definition nodirs (f : file) : bool := match f_dirs f with [] => true | _ => false end.

Definition recT := N -> list directive -> lstate -> option wout.

(* the loop of resolveIncludes over all (line, target) pairs in directive order, each handled by
   loadSingleInclude; `rec` follows the includes of one included file *)
Fixpoint go_items (rec : recT) (fs : fsys) (L : limits) (items : list (N * option N))
    (res : lresult) (errs : list lerr) (st : lstate) (hits : list hit) (seen : list N) : option wout :=
  match items with
  | [] => Some (mkW res errs st hits seen)
  | (line, None) :: rest =>
      (* a glob without match is one error *)
      go_items rec fs L rest res (errs ++ [mkErr ENotFound 999999 line]) st hits seen
  | (line, Some q) :: rest =>
      if memN q (stack st)
      then (* q is being included right now: a cycle *)
           go_items rec fs L rest res (errs ++ [mkErr ECycle q line]) st hits (seen ++ [q])
      else if memN q (visited st)
      then (* already loaded through another include: part of the result once, no error *)
           go_items rec fs L rest res errs st hits (seen ++ [q])
      else if max_depth L <=? N.of_nat (length (stack st))
      then go_items rec fs L rest res (errs ++ [mkErr ETooDeep q line]) st hits (seen ++ [q])
      else match flookup q (cache st) with
           | Some cf =>
               (* the cache saves reading and parsing; the cached journal's own includes are
                  followed like those of a file read from disk *)
               match rec q (f_dirs cf) st with
               | None => None
               | Some sub =>
                   go_items rec fs L rest (merge_res res q (f_version cf) (w_res sub))
                            (errs ++ w_errs sub) (w_st sub)
                            (hits ++ (q, negb (nodirs cf)) :: w_hits sub) (seen ++ q :: w_seen sub)
               end
           | None =>
               match flookup q fs with
               | None => go_items rec fs L rest res (errs ++ [mkErr ENotFound q line]) st hits (seen ++ [q])
               | Some f =>
                   if max_size L <? f_size f
                   then go_items rec fs L rest res (errs ++ [mkErr ETooLarge q line]) st hits (seen ++ [q])
                   else match rec q (f_dirs f) st with
                        | None => None
                        | Some sub =>
                            let st' := mkLS (stack (w_st sub)) (visited (w_st sub)) ((q, f) :: cache (w_st sub)) in
                            go_items rec fs L rest (merge_res res q (f_version f) (w_res sub))
                                     (errs ++ w_errs sub) st' (hits ++ w_hits sub) (seen ++ q :: w_seen sub)
                        end
               end
           end
  end.

(* resolveIncludes(path, journal, visited): mark the file as being included, follow its includes,
   un-mark it (deferred visited[path] = false: it stays in the map as done).  None = out of fuel. *)
Fixpoint load_wc (fuel : nat) (fs : fsys) (L : limits) (p : N) (dirs : list directive) (st : lstate)
  : option wout :=
  match fuel with
  | O => None
  | S fuel' =>
      match go_items (load_wc fuel' fs L) fs L (dir_items fs dirs) (mkRes [] []) []
                     (mkLS (p :: stack st) (p :: visited st) (cache st)) [] [] with
      | None => None
      | Some o => Some (mkW (w_res o) (w_errs o) (mkLS (stack st) (visited (w_st o)) (cache (w_st o)))
                            (w_hits o) (w_seen o))
      end
  end.

Definition fuel_for (fs : fsys) : nat := S (S (length fs)).

(* Loader.Load(path): stat, size check, read, loadWithContent with a fresh visited map.
   LoadFromContent(path, content) is the same with the content given (root_override).
   loadWithContent's own depth test sees an empty inclusion path here (limits are normalised to
   positive values by SetLimits, so it never fires). *)
Definition load_root (fs : fsys) (L : limits) (cache0 : list (N * file)) (root : N) (override : option file)
  : option lout :=
  let rf := match override with Some f => Some f | None => flookup root fs end in
  match rf with
  | None => Some (mkOut None [mkErr ENotFound root 0] (mkLS [] [] cache0) [] [])
  | Some f =>
      if max_size L <? f_size f
      then Some (mkOut None [mkErr ETooLarge root 0] (mkLS [] [] cache0) [] [])
      else if max_depth L <=? 0
      then Some (mkOut None [mkErr ETooDeep root 0] (mkLS [] [] cache0) [] [])
      else match load_wc (fuel_for fs) fs L root (f_dirs f) (mkLS [] [] cache0) with
           | None => None
           | Some o => Some (mkOut (Some (w_res o)) (w_errs o) (w_st o) (w_hits o) (w_seen o))
           end
  end.

(* ---- the loader as a state machine (C11): operations on one shared loader ---- *)
Inductive lop :=
| OLoad (root : N)
| OLoadContent (root : N) (f : file)
| OWrite (k : N) (f : option file)        (* file changed on disk (None = deleted) + InvalidateFile *)
| OClear.

Record lsys := mkSys { s_fs : fsys; s_cache : list (N * file) }.

Fixpoint fs_set (k : N) (f : option file) (fs : fsys) : fsys :=
  match fs with
  | [] => match f with Some v => [(k, v)] | None => [] end
  | (k', v') :: r =>
      if k =? k' then match f with Some v => (k, v) :: r | None => r end
      else (k', v') :: fs_set k f r
  end.

Definition cache_del (k : N) (c : list (N * file)) : list (N * file) :=
  filter (fun kv => negb (fst kv =? k)) c.

Definition lsys_step (L : limits) (s : lsys) (op : lop) : lsys * option lout :=
  match op with
  | OLoad root =>
      match load_root (s_fs s) L (s_cache s) root None with
      | Some o => (mkSys (s_fs s) (cache (o_st o)), Some o)
      | None => (s, None)
      end
  | OLoadContent root f =>
      match load_root (s_fs s) L (s_cache s) root (Some f) with
      | Some o => (mkSys (s_fs s) (cache (o_st o)), Some o)
      | None => (s, None)
      end
  | OWrite k f => (mkSys (fs_set k f (s_fs s)) (cache_del k (s_cache s)), None)
  | OClear => (mkSys (s_fs s) [], None)
  end.
