(* Model of internal/include/loader.go at the level of the include graph.
   Files are numbered; a file system maps a file to (version, size, include directives);
   every directive carries its line and the list of files it resolves to (one for a plain
   include; the sorted matches minus the including file for a glob; path resolution and glob
   matching themselves are performed by the real code and checked through the tie).
   State threaded through one load: the visited set (never un-marked) and the loader cache
   (file -> version and directives of the journal parsed at caching time). *)
From HL Require Import Lib.Bytes.
Open Scope N_scope.

(* plain include: d_glob = false, one target.  glob: d_glob = true and d_targets are the files whose
   NAME matches the pattern (sorted by path, the including file excluded); the ones that exist at
   load time are the matches, and no match at all is an error *)
Record directive := mkDir { d_line : N; d_targets : list N; d_glob : bool }.
Record file := mkFile { f_version : N; f_size : N; f_dirs : list directive }.
Definition fsys := list (N * file).

Fixpoint flookup {A} (k : N) (m : list (N * A)) : option A :=
  match m with
  | [] => None
  | (k', v) :: r => if k =? k' then Some v else flookup k r
  end.

Definition dir_items (fs : list (N * file)) (dirs : list directive) : list (N * option N) :=
  flat_map (fun d =>
    if d_glob d then
      match filter (fun q => isSome (flookup q fs)) (d_targets d) with
      | [] => [(d_line d, None)]
      | ts => map (fun q => (d_line d, Some q)) ts
      end
    else map (fun q => (d_line d, Some q)) (d_targets d)) dirs.

Fixpoint memN (x : N) (l : list N) : bool :=
  match l with [] => false | y :: r => (x =? y) || memN x r end.

Inductive ekind := ENotFound | ECycle | ETooLarge | ETooDeep.
Record lerr := mkErr { e_kind : ekind; e_target : N; e_line : N }.

Record limits := mkLim { max_size : N; max_depth : N }.

Record lstate := mkLS { visited : list N; cache : list (N * file) }.

(* result of a load: FileOrder, Files (file -> version of the journal object) *)
Record lresult := mkRes { r_order : list N; r_files : list (N * N) }.

Definition files_put (k v : N) (m : list (N * N)) : list (N * N) :=
  (k, v) :: filter (fun kv => negb (fst kv =? k)) m.
(* maps.Copy dst src: src entries overwrite *)
Definition files_copy (dst src : list (N * N)) : list (N * N) :=
  fold_right (fun kv acc => files_put (fst kv) (snd kv) acc) dst src.

(* cache-hit events of a load, for the C11 classifiers: (file, cached journal has includes) *)
Definition hit := (N * bool)%type.

Record lout := mkOut { o_res : option lresult; o_errs : list lerr; o_st : lstate; o_hits : list hit;
                       o_seen : list N (* every target examined, in order *) }.

Definition nodirs (f : file) : bool := match f_dirs f with [] => true | _ => false end.

Fixpoint load_wc (fuel : nat) (fs : fsys) (L : limits) (p : N) (dirs : list directive) (st : lstate)
  : option lout :=
  match fuel with
  | O => None
  | S fuel' =>
      if max_depth L <=? N.of_nat (length (visited st))
      then Some (mkOut None [mkErr ETooDeep p 0] st [] [])
      else
        let st := mkLS (p :: visited st) (cache st) in
        (* all (line, target) pairs in directive order; a glob without match is one error *)
        (fix go (items : list (N * option N)) (res : lresult) (errs : list lerr) (st : lstate)
                (hits : list hit) (seen : list N) {struct items} : option lout :=
           match items with
           | [] => Some (mkOut (Some res) errs st hits seen)
           | (line, None) :: rest =>
               go rest res (errs ++ [mkErr ENotFound 999999 line]) st hits seen
           | (line, Some q) :: rest =>
               if memN q (visited st)
               then go rest res (errs ++ [mkErr ECycle q line]) st hits (seen ++ [q])
               else match flookup q (cache st) with
                    | Some cf =>
                        (* the cache saves reading and parsing; the cached journal's own includes are
                           followed like those of a file read from disk (depth check, visited mark) *)
                        match load_wc fuel' fs L q (f_dirs cf) st with
                        | None => None
                        | Some sub =>
                            let hits' := hits ++ (q, negb (nodirs cf)) :: o_hits sub in
                            match o_res sub with
                            | Some sr =>
                                go rest
                                   (mkRes (r_order res ++ q :: r_order sr)
                                          (files_copy (files_put q (f_version cf) (r_files res)) (r_files sr)))
                                   (errs ++ o_errs sub) (o_st sub) hits' (seen ++ q :: o_seen sub)
                            | None => go rest res (errs ++ o_errs sub) (o_st sub) hits' (seen ++ q :: o_seen sub)
                            end
                        end
                    | None =>
                        match flookup q fs with
                        | None => go rest res (errs ++ [mkErr ENotFound q line]) st hits (seen ++ [q])
                        | Some f =>
                            if max_size L <? f_size f
                            then go rest res (errs ++ [mkErr ETooLarge q line]) st hits (seen ++ [q])
                            else match load_wc fuel' fs L q (f_dirs f) st with
                                 | None => None
                                 | Some sub =>
                                     match o_res sub with
                                     | Some sr =>
                                         let st' := mkLS (visited (o_st sub)) ((q, f) :: cache (o_st sub)) in
                                         go rest
                                            (mkRes (r_order res ++ q :: r_order sr)
                                                   (files_copy (files_put q (f_version f) (r_files res)) (r_files sr)))
                                            (errs ++ o_errs sub) st' (hits ++ o_hits sub) (seen ++ q :: o_seen sub)
                                     | None =>
                                         go rest res (errs ++ o_errs sub) (o_st sub) (hits ++ o_hits sub)
                                            (seen ++ q :: o_seen sub)
                                     end
                                 end
                        end
                    end
           end)
          (dir_items fs dirs)
          (mkRes [] []) [] st [] []
  end.

Definition fuel_for (fs : fsys) : nat := S (S (length fs)).

(* Loader.Load(path): stat, size check, read, loadWithContent with a fresh visited set.
   LoadFromContent(path, content) is the same with the content given (root_override). *)
Definition load_root (fs : fsys) (L : limits) (cache0 : list (N * file)) (root : N) (override : option file)
  : option lout :=
  let rf := match override with Some f => Some f | None => flookup root fs end in
  match rf with
  | None => Some (mkOut None [mkErr ENotFound root 0] (mkLS [] cache0) [] [])
  | Some f =>
      if max_size L <? f_size f
      then Some (mkOut None [mkErr ETooLarge root 0] (mkLS [] cache0) [] [])
      else load_wc (fuel_for fs) fs L root (f_dirs f) (mkLS [] cache0)
  end.

(* ---- the loader as a state machine (C11): operations on one shared loader ---- *)
Inductive lop :=
| OLoad (root : N)
| OLoadContent (root : N) (f : file)
| OWrite (k : N) (f : option file)        (* file changed on disk (None = deleted) + InvalidateFile *)
| OClear.

Record lsys := mkSys { s_fs : fsys; s_cache : list (N * file) }.

Fixpoint fs_set (k : N) (f : option file) (fs : fsys) : fsys :=
  match fs with
  | [] => match f with Some v => [(k, v)] | None => [] end
  | (k', v') :: r =>
      if k =? k' then match f with Some v => (k, v) :: r | None => r end
      else (k', v') :: fs_set k f r
  end.

Definition cache_del (k : N) (c : list (N * file)) : list (N * file) :=
  filter (fun kv => negb (fst kv =? k)) c.

Definition lsys_step (L : limits) (s : lsys) (op : lop) : lsys * option lout :=
  match op with
  | OLoad root =>
      match load_root (s_fs s) L (s_cache s) root None with
      | Some o => (mkSys (s_fs s) (cache (o_st o)), Some o)
      | None => (s, None)
      end
  | OLoadContent root f =>
      match load_root (s_fs s) L (s_cache s) root (Some f) with
      | Some o => (mkSys (s_fs s) (cache (o_st o)), Some o)
      | None => (s, None)
      end
  | OWrite k f => (mkSys (fs_set k f (s_fs s)) (cache_del k (s_cache s)), None)
  | OClear => (mkSys (s_fs s) [], None)
  end.
