(* Model of internal/server/references.go, definition.go (target finding, journal map) and
   rename.go, on ASTs.  Paths are numbers (the harness numbers the files of a workspace). *)
From HL Require Import Lib.Bytes Lib.Utf8 Model.Ast Proofs.OrderProofs.
From Coq Require Import Sorting.Permutation.
Open Scope Z_scope.

(* protocol.Range after astRangeToProtocol: uint32(x - 1) wraps for x = 0 *)
Definition u32 (z : Z) : Z := z mod 4294967296.
Record prange := mkPR { sl : Z; sc : Z; el : Z; ec : Z }.
Definition to_proto (r : rng) : prange :=
  mkPR (u32 (p_line (r_start r) - 1)) (u32 (p_col (r_start r) - 1)) (u32 (p_line (r_end r) - 1)) (u32 (p_col (r_end r) - 1)).

Record loc := mkLoc { l_path : N; l_rng : prange }.

Definition payee_or_desc (t : transaction) : list N := match tx_payee t with [] => tx_desc t | p => p end.

Fixpoint u16len_bytes (s : list N) (skip : nat) : Z :=
  match s with
  | [] => 0
  | _ :: r => match skip with
              | S k => u16len_bytes r k
              | O => let '(rn, n) := decode s in Z.of_N (u16len rn) + u16len_bytes r (n - 1)
              end
  end.

(* the payee range recorded by the parser (Transaction.PayeeRange; it used to be estimated from the
   date width: estimatePayeeRange) *)
Definition payee_range (t : transaction) (payee : list N) : rng := tx_prng t.

Inductive skind := KAccount | KCommodity | KPayee.

(* positionInRange (hover.go): LSP position against a 1-based AST range *)
Definition position_in_range (pl pc : Z) (r : rng) : bool :=
  let line := pl + 1 in let col := pc + 1 in
  if (line <? p_line (r_start r)) || (p_line (r_end r) <? line) then false
  else if (line =? p_line (r_start r)) && (col <? p_col (r_start r)) then false
  else if (line =? p_line (r_end r)) && (p_col (r_end r) <? col) then false
  else true.

(* findDefinitionTarget *)
Fixpoint target_in_postings (ps : list posting) (pl pc : Z) : option (skind * list N) :=
  match ps with
  | [] => None
  | p :: r =>
      if position_in_range pl pc (po_acct_rng p) then Some (KAccount, po_acct p)
      else match po_amount p with
           | Some a =>
               if negb (beq (c_sym (a_com a)) []) && position_in_range pl pc (c_rng (a_com a))
               then Some (KCommodity, c_sym (a_com a)) else target_in_postings r pl pc
           | None => target_in_postings r pl pc
           end
  end.

Fixpoint find_target (txs : list transaction) (pl pc : Z) : option (skind * list N) :=
  match txs with
  | [] => None
  | t :: r =>
      let payee := payee_or_desc t in
      if negb (beq payee []) && position_in_range pl pc (payee_range t payee) then Some (KPayee, payee)
      else match target_in_postings (tx_postings t) pl pc with
           | Some x => Some x
           | None => find_target r pl pc
           end
  end.

(* getResolvedAround + allJournalsWithPaths (/repo, after the repair of C09's finding): the resolved
   tree is seen from the requesting document.  When its primary was parsed from another file (the
   workspace's root journal, request made from an included file), the primary is listed under its
   OWN path and the requesting document's journal, as just parsed, takes the place of the
   tree's copy of that document; otherwise the primary is stored under the current path. *)
Definition jmap := list (N * journal).
Definition jput (p : N) (j : journal) (m : jmap) : jmap := (p, j) :: filter (fun x => negb (fst x =? p)%N) m.
Definition jdel (p : N) (m : jmap) : jmap := filter (fun x => negb (fst x =? p)%N) m.
Definition all_journals (files : jmap) (primary : option journal) (resolved_exists : bool)
                        (primary_path current : N) (cur_journal : journal) : jmap :=
  if resolved_exists then
    if (primary_path =? current)%N
    then match primary with Some pj => jput current pj files | None => files end
    else jput current cur_journal
              (match primary with Some pj => jput primary_path pj (jdel current files) | None => jdel current files end)
  else [(current, cur_journal)].

(* per-file hits in source order *)
Definition account_hits (name : list N) (incl : bool) (j : journal) : list prange :=
  (if incl then flat_map (fun d => match d with DAccount n r _ _ _ _ => if beq n name then [to_proto r] else [] | _ => [] end) (j_dirs j) else []) ++
  flat_map (fun t => flat_map (fun p => if beq (po_acct p) name then [to_proto (po_acct_rng p)] else []) (tx_postings t)) (j_txs j).
Definition commodity_hits (sym : list N) (incl : bool) (j : journal) : list prange :=
  (if incl then flat_map (fun d => match d with DCommodity c _ _ _ _ => if beq (c_sym c) sym then [to_proto (c_rng c)] else [] | _ => [] end) (j_dirs j) else []) ++
  flat_map (fun t => flat_map (fun p => match po_amount p with
                                        | Some a => if beq (c_sym (a_com a)) sym then [to_proto (c_rng (a_com a))] else []
                                        | None => [] end) (tx_postings t)) (j_txs j).
Definition payee_hits (payee : list N) (j : journal) : list prange :=
  flat_map (fun t => if beq (payee_or_desc t) payee then [to_proto (payee_range t payee)] else []) (j_txs j).

Definition hits (k : skind) (name : list N) (incl : bool) (j : journal) : list prange :=
  match k with KAccount => account_hits name incl j | KCommodity => commodity_hits name incl j | KPayee => payee_hits name j end.

(* sortAndDedup: sort by (uri, start line, start character), drop adjacent equal locations *)
Definition loc_key (l : loc) : N * N * N := (l_path l, Z.to_N (sl (l_rng l)), Z.to_N (sc (l_rng l))).
Definition key_ltb (a b : loc) : bool :=
  let '(p1, l1, c1) := loc_key a in let '(p2, l2, c2) := loc_key b in
  ((p1 <? p2) || ((p1 =? p2) && ((l1 <? l2) || ((l1 =? l2) && (c1 <? c2)))))%N.
Definition loc_eqb (a b : loc) : bool :=
  (l_path a =? l_path b)%N && (sl (l_rng a) =? sl (l_rng b)) && (sc (l_rng a) =? sc (l_rng b)) &&
  (el (l_rng a) =? el (l_rng b)) && (ec (l_rng a) =? ec (l_rng b)).
Fixpoint dedup_adjacent (l : list loc) : list loc :=
  match l with
  | a :: ((b :: _) as r) => if loc_eqb a b then dedup_adjacent r else a :: dedup_adjacent r
  | _ => l
  end.
Definition sort_dedup (l : list loc) : list loc := dedup_adjacent (isort _ key_ltb l).

Definition find_references (k : skind) (name : list N) (incl : bool) (m : jmap) : list loc :=
  sort_dedup (flat_map (fun pj => map (mkLoc (fst pj)) (hits k name incl (snd pj))) m).
