(* Model of internal/server/completion.go: completion context, candidate selection, query
   extraction, fuzzy / prefix filtering, ranking, truncation and the text-edit range.
   Inputs that come from the analyzer (name lists, by-prefix index, usage counts) are
   parameters; date items (clock dependent) are outside the model. *)
From HL Require Import Lib.Bytes Lib.Utf8 Lib.UnicodeTables Model.Mapper Model.Lexer Model.Parser Proofs.OrderProofs.
Open Scope Z_scope.

(* ---------- runes ---------- *)
Fixpoint runes_of (l : list N) (skip : nat) : list N :=
  match l with
  | [] => []
  | _ :: r =>
      match skip with
      | S k => runes_of r k
      | O => let '(rn, size) := decode l in rn :: runes_of r (size - 1)
      end
  end.
Definition lower_runes (s : list N) : list N := map to_lower_rune (runes_of s 0).

(* ---------- fuzzy score ---------- *)
(* the loop of fuzzyMatchScore over text runes; prev = previous text rune; pm = the previous
   index matched (true at i = 0 because lastMatchIdx starts at -1) *)
Fixpoint fms_loop (text pat : list N) (first : bool) (prev : N) (pm : bool) (cb score : Z) : Z * list N :=
  match text, pat with
  | _, [] => (score, [])
  | [], _ => (score, pat)
  | t :: text', p :: pat' =>
      if (t =? p)%N then
        let '(cb', score) := if pm then (cb + 5, score + 10 + (cb + 5)) else (0, score + 10) in
        let score := if first || (prev =? 58)%N then score + 15 else score in
        fms_loop text' pat' false t true cb' score
      else fms_loop text' pat false t false cb score
  end.

Definition fuzzy_score (text pattern : list N) : Z :=
  match pattern with
  | [] => 1000
  | _ =>
      let '(score, rest) := fms_loop (lower_runes text) (lower_runes pattern) true 0%N true 0 0 in
      match rest with [] => score | _ => 0 end
  end.

Definition fuzzy_score_segments (name pattern : list N) : Z :=
  match pattern with
  | [] => 1000
  | _ => fold_left (fun best seg => let s := fuzzy_score seg pattern in if best <? s then s else best)
                   (split_byte 58 name) 0
  end.

Definition trim_suffix_colon (q : list N) : list N :=
  match rev q with 58%N :: r => rev r | _ => q end.

Definition contains_byte (c : N) (s : list N) : bool := existsb (fun x => (x =? c)%N) s.

Fixpoint runes_prefix (p s : list N) : bool :=
  match p, s with
  | [], _ => true
  | x :: p', y :: s' => (x =? y)%N && runes_prefix p' s'
  | _ :: _, [] => false
  end.

(* filterAndScoreFuzzyMatch: (label, score) of the items kept, in candidate order *)
Definition filter_score (labels : list (list N)) (query : list N) (fuzzy : bool) : list (list N * Z) :=
  match query with
  | [] => map (fun l => (l, 1000)) labels
  | _ =>
      if negb fuzzy then
        flat_map (fun l => if runes_prefix (lower_runes query) (lower_runes l) then [(l, 1000)] else []) labels
      else
        let qseg := trim_suffix_colon query in
        flat_map (fun l =>
          let s1 := if contains_byte 58 l then fuzzy_score_segments l qseg else 0 in
          if 0 <? s1 then [(l, s1)]
          else let s2 := fuzzy_score l query in if 0 <? s2 then [(l, s2)] else []) labels
  end.

(* rankCompletionItemsByScore: score desc, usage count desc, label asc (a total order) *)
Definition count_of (counts : list (list N * Z)) (l : list N) : Z :=
  match alookup l counts with Some c => c | None => 0 end.

Definition rank (scored : list (list N * Z)) (counts : list (list N * Z)) : list (list N) :=
  map (fun x => snd x)
      (isort _ rank_ltb (map (fun ls => ((Z.to_N (snd ls), Z.to_N (count_of counts (fst ls))), fst ls)) scored)).

Definition complete_core (labels : list (list N)) (counts : list (list N * Z)) (query : list N) (fuzzy : bool) (maxr : Z)
  : list (list N) :=
  let ranked := rank (filter_score labels query fuzzy) counts in
  if (0 <? maxr) && (maxr <? Z.of_nat (length ranked)) then firstn (Z.to_nat maxr) ranked else ranked.

(* ---------- context ---------- *)
Inductive cctx := CUnknown | CAccount | CPayee | CCommodity | CTagName | CTagValue | CDate.

Definition nth_line (content : list N) (n : N) : option (list N) := nth_error (split_byte 10 content) (N.to_nat n).

(* UTF16OffsetToByteOffset (unclamped) *)
Definition u16b (line : list N) (ch : N) : Z := Z.of_N (u16_to_byte line 0 0 ch).

(* ByteOffsetToUTF16 *)
Fixpoint byte_to_u16 (s : list N) (skip : nat) (cur target : Z) : Z :=
  match s with
  | [] => 0
  | _ :: r =>
      match skip with
      | S k => byte_to_u16 r k cur target
      | O =>
          if target <=? cur then 0
          else let '(rn, n) := decode s in
               Z.of_N (u16len rn) + byte_to_u16 r (n - 1) (cur + Z.of_N (rune_len rn)) target
      end
  end.

Fixpoint last_index_byte_opt (c : N) (s : list N) (i : nat) (acc : option nat) : option nat :=
  match s with
  | [] => acc
  | x :: r => last_index_byte_opt c r (S i) (if (x =? c)%N then Some i else acc)
  end.
Definition last_index (c : N) (s : list N) : option nat := last_index_byte_opt c s 0 None.
Fixpoint last_index_any2 (c1 c2 : N) (s : list N) (i : nat) (acc : option nat) : option nat :=
  match s with
  | [] => acc
  | x :: r => last_index_any2 c1 c2 r (S i) (if ((x =? c1) || (x =? c2))%N then Some i else acc)
  end.

Fixpoint trim_left_set (p : N -> bool) (s : list N) : list N :=
  match s with
  | c :: r => if p c then trim_left_set p r else s
  | [] => []
  end.
Definition is_sp_tab (c : N) : bool := ((c =? 32) || (c =? 9))%N.
Definition is_sp (c : N) : bool := (c =? 32)%N.

Definition zfirstn (n : Z) (s : list N) : list N := firstn (Z.to_nat n) s.
Definition zlen (s : list N) : Z := Z.of_nat (length s).

Definition determine_tag_context (line : list N) (ch : N) : cctx :=
  match index_byte 59 line with
  | None => CUnknown
  | Some semi =>
      let bytePos := u16b line ch in
      if bytePos <=? Z.of_nat semi then CUnknown
      else
        let after := skipn (S semi) line in
        let cic := bytePos - Z.of_nat semi - 1 in
        let cic := if (cic <? 0) || (zlen after <? cic) then zlen after else cic in
        let before := zfirstn cic after in
        match last_index 58 before with
        | None => CTagName
        | Some lastColon =>
            match last_index 44 before with
            | Some lastComma =>
                if Nat.ltb lastColon lastComma then
                  (if contains_byte 58 (trim_space_u (skipn (S lastComma) before)) then CTagValue else CTagName)
                else CTagValue
            | None => CTagValue
            end
        end
  end.

Fixpoint find_doublespace (s : list N) (i : nat) : option nat :=
  match s with
  | 32%N :: 32%N :: _ => Some i
  | _ :: r => find_doublespace r (S i)
  | [] => None
  end.

Definition isDigitOrSign (c : N) : bool := (((48 <=? c) && (c <=? 57)) || (c =? 45) || (c =? 43))%N.

(* findAmountEnd, phase by phase *)
Definition find_amount_end (s : list N) : nat :=
  let n0 := match s with 40%N :: _ => 1%nat | _ => O end in
  let s1 := skipn n0 s in
  let n1 := match s1 with
            | c :: _ => if negb (isDigitOrSign c)
                        then span_while (fun c => negb (isDigitOrSign c) && negb (c =? 32)%N && negb (c =? 41)%N) s1 else O
            | [] => O
            end in
  let s2 := skipn n1 s1 in
  let n2 := span_while (fun c => ((c =? 45) || (c =? 43))%N) s2 in
  let s3 := skipn n2 s2 in
  let n3 := span_while (fun c => (((48 <=? c) && (c <=? 57)) || (c =? 46) || (c =? 44) || (c =? 95))%N) s3 in
  let s4 := skipn n3 s3 in
  let n4 := match s4 with 41%N :: _ => 1%nat | _ => O end in
  (n0 + n1 + n2 + n3 + n4)%nat.

Record pparts := mkPP { pp_indent : Z; pp_sep : option Z; pp_skip : Z; pp_amount_end : Z }.

Definition parse_posting_line (line : list N) : pparts :=
  let trimmed := trim_left_set is_sp_tab line in
  let indent := zlen line - zlen trimmed in
  match find_doublespace trimmed 0 with
  | None => mkPP indent None 0 0
  | Some sep =>
      let afterSep := skipn sep trimmed in
      let afterAcc := trim_left_set is_sp afterSep in
      mkPP indent (Some (Z.of_nat sep)) (zlen afterSep - zlen afterAcc) (Z.of_nat (find_amount_end afterAcc))
  end.

Definition determine_posting_context (line : list N) (ch : N) : cctx :=
  let byteCol := u16b line ch in
  let p := parse_posting_line line in
  let pic := byteCol - pp_indent p in
  if pic <? 0 then CAccount
  else match pp_sep p with
       | None => CAccount
       | Some sep =>
           if pic <=? sep then CAccount
           else if pic - sep - pp_skip p <=? pp_amount_end p then CAccount else CCommodity
       end.

Definition dir_account := bs "account ".
Definition dir_apply_account := bs "apply account ".
Definition dir_commodity := bs "commodity ".

(* trigger: 0 none, 58 ':', 64 '@', 61 '=' *)
Definition determine_context (content : list N) (ln ch : N) (trigger : N) : cctx :=
  match nth_line content ln with
  | None => CDate
  | Some line =>
      match determine_tag_context line ch with
      | CUnknown =>
          if (trigger =? 58)%N then CAccount
          else if ((trigger =? 64) || (trigger =? 61))%N then CCommodity
          else match line with
               | [] => CDate
               | c0 :: _ =>
                   (* a directive's argument starts behind the keyword (u16b is unclamped, as in the code) *)
                   if has_prefix_b dir_account line && (zlen dir_account <=? u16b line ch) then CAccount
                   else if has_prefix_b dir_commodity line && (zlen dir_commodity <=? u16b line ch) then CCommodity
                   else if has_prefix_b dir_apply_account line && (zlen dir_apply_account <=? u16b line ch) then CAccount
                   else if has_prefix_b (bs "    ") line || has_prefix_b [9%N] line then determine_posting_context line ch
                   else if ((48 <=? c0) && (c0 <=? 57))%N then CPayee
                   else CDate
               end
      | t => t
      end
  end.

Definition clamp_col (line : list N) (ch : N) : Z :=
  let b := u16b line ch in if zlen line <? b then zlen line else b.

Definition accounts_for_prefix (all : list (list N)) (byprefix : list (list N * list (list N))) (prefix : list N) : list (list N) :=
  match prefix with
  | [] => all
  | _ =>
      (* the index is consulted case-insensitively, like the filter that follows (strings.ToLower on
         both sides); the order of the union is that of the map iteration, the ranking sorts it *)
      let pl := lower_runes prefix in
      match flat_map (fun kv => if list_eqb N.eqb (lower_runes (fst kv)) pl then snd kv else []) byprefix with
      | [] => all
      | l => l
      end
  end.

Definition extract_current_tag_name (line : list N) (ch : N) : list N :=
  match index_byte 59 line with
  | None => []
  | Some semi =>
      let bytePos := u16b line ch in
      if bytePos <=? Z.of_nat semi then []
      else
        let after := skipn (S semi) line in
        let cic := bytePos - Z.of_nat semi - 1 in
        let cic := if (cic <? 0) || (zlen after <? cic) then zlen after else cic in
        let before := zfirstn cic after in
        match last_index 58 before with
        | None => []
        | Some lastColon =>
            let start := match last_index 44 (firstn lastColon before) with Some c => S c | None => O end in
            trim_space_u (skipn start (firstn lastColon before))
        end
  end.

Definition find_commodity_start (line : list N) (byteCol : Z) : Z :=
  let p := parse_posting_line line in
  match pp_sep p with
  | None => byteCol
  | Some sep =>
      let start := pp_indent p + sep + pp_skip p + pp_amount_end p in
      start + Z.of_nat (span_while is_sp (skipn (Z.to_nat start) line))
  end.

(* calculateTextEditRange: start character (UTF-16) on the cursor line; the end is the cursor *)
Definition edit_start (content : list N) (ln ch : N) (c : cctx) : option Z :=
  match nth_line content ln with
  | None => None
  | Some line =>
      let byteCol := clamp_col line ch in
      let startByte :=
        match c with
        | CAccount =>
            if has_prefix_b dir_account line then Some (zlen dir_account)
            else if has_prefix_b dir_apply_account line then Some (zlen dir_apply_account)
            else Some (byteCol - zlen (trim_left_set is_sp_tab (zfirstn byteCol line)))
        | CCommodity =>
            if has_prefix_b dir_commodity line then Some (zlen dir_commodity) else Some (find_commodity_start line byteCol)
        | CPayee =>
            match index_byte 32 (zfirstn byteCol line) with
            | None => Some byteCol          (* the cursor is still inside the date *)
            | Some sp =>
                let s0 := Z.of_nat (S sp) in
                let extra := span_while (fun x => ((x =? 32) || (x =? 42) || (x =? 33))%N)
                                        (zfirstn (byteCol - s0) (skipn (S sp) line)) in
                Some (s0 + Z.of_nat extra)
            end
        | _ => None
        end in
      (* the edit never starts behind the cursor *)
      option_map (fun sb => byte_to_u16 line 0 0 (Z.min sb byteCol)) startByte
  end.

Definition cut_prefix (p s : list N) : option (list N) := if has_prefix_b p s then Some (skipn (length p) s) else None.

Definition extract_query (content : list N) (ln ch : N) (c : cctx) : list N :=
  match nth_line content ln with
  | None => []
  | Some line =>
      let before := zfirstn (clamp_col line ch) line in
      match c with
      | CAccount =>
          match cut_prefix dir_account before with
          | Some a => a
          | None => match cut_prefix dir_apply_account before with
                    | Some a => a
                    | None => trim_left_set is_sp_tab before
                    end
          end
      | CPayee =>
          match index_byte 32 before with
          | None => []
          | Some sp => trim_left_set is_sp (skipn (S sp) before)
          end
      | CCommodity =>
          match cut_prefix dir_commodity before with
          | Some a => a
          | None =>
              let trimmed := trim_left_set is_sp_tab before in
              match find_doublespace trimmed 0 with
              | None => []
              | Some sep =>
                  let afterAcc := trim_left_set is_sp (skipn sep trimmed) in
                  let ae := find_amount_end afterAcc in
                  if Nat.leb (length afterAcc) ae then [] else trim_left_set is_sp (skipn ae afterAcc)
              end
          end
      | _ => []
      end
  end.

(* ---------- the request ---------- *)
Record analysis := mkAn {
  an_accounts : list (list N); an_byprefix : list (list N * list (list N));
  an_payees : list (list N); an_commodities : list (list N); an_tags : list (list N);
  an_tagvalues : list (list N * list (list N));
  an_acc_counts : list (list N * Z); an_payee_counts : list (list N * Z);
  an_com_counts : list (list N * Z); an_tag_counts : list (list N * Z) }.


(* extractAccountPrefix (/repo, repaired): what has been typed of the account name, up to its last
   colon; not cut at a blank (account names may contain single blanks) *)
Definition extract_account_prefix (content : list N) (ln ch : N) : list N :=
  let typed := extract_query content ln ch CAccount in
  match last_index 58 typed with
  | None => []
  | Some lastColon => firstn (S lastColon) typed
  end.
Definition candidates (c : cctx) (a : analysis) (content : list N) (ln ch : N) : list (list N) :=
  match c with
  | CAccount => accounts_for_prefix (an_accounts a) (an_byprefix a) (extract_account_prefix content ln ch)
  | CPayee => an_payees a
  | CCommodity => an_commodities a
  | CTagName => an_tags a
  | CTagValue =>
      match nth_line content ln with
      | Some line => match alookup (extract_current_tag_name line ch) (an_tagvalues a) with Some v => v | None => [] end
      | None => []
      end
  | CDate => []
  | CUnknown => an_accounts a
  end.

Definition counts_for (c : cctx) (a : analysis) : list (list N * Z) :=
  match c with
  | CAccount => an_acc_counts a | CPayee => an_payee_counts a | CCommodity => an_com_counts a
  | CTagName => an_tag_counts a | _ => []
  end.

(* labels in answer order and the start character of the text edit (None: no text edit) *)
Definition completion (a : analysis) (content : list N) (ln ch trigger : N) (fuzzy : bool) (maxr : Z)
  : cctx * list (list N) * option Z :=
  let c := determine_context content ln ch trigger in
  let labels := candidates c a content ln ch in
  let q := extract_query content ln ch c in
  (c, complete_core labels (counts_for c a) q fuzzy maxr, edit_start content ln ch c).
