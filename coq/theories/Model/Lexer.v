(* Model of internal/parser/lexer.go: a function-by-function transcription over byte lists.
   State: the remaining input, the consumed input reversed (followsAmountNumber looks back),
   offset / line / column and the atStart flag.  Every scanning loop is structural recursion
   on the remaining input (multi-byte runes are stepped over with a skip counter), so no fuel
   is needed inside a token; the driver [lex_all] takes fuel = number of bytes + 2. *)
From HL Require Import Lib.Bytes Lib.Utf8 Lib.UnicodeTables.
Open Scope N_scope.

Inductive ttype :=
| TEOF | TNewline | TIndent | TDate | TStatus | TCode | TText | TAccount | TNumber | TCommodity
| TComment | TDirective | TTag | TAt | TAtAt | TEquals | TDoubleEquals | TLParen | TRParen
| TLBracket | TRBracket | TPipe | TColon | TSemicolon | TSign.

Definition ttype_code (t : ttype) : N :=
  match t with
  | TEOF => 0 | TNewline => 1 | TIndent => 2 | TDate => 3 | TStatus => 4 | TCode => 5 | TText => 6
  | TAccount => 7 | TNumber => 8 | TCommodity => 9 | TComment => 10 | TDirective => 11 | TTag => 12
  | TAt => 13 | TAtAt => 14 | TEquals => 15 | TDoubleEquals => 16 | TLParen => 17 | TRParen => 18
  | TLBracket => 19 | TRBracket => 20 | TPipe => 21 | TColon => 22 | TSemicolon => 23 | TSign => 24
  end.

Record tpos := mkTP { tp_line : N; tp_col : N; tp_off : N }.
Record token := mkToken { tk_type : ttype; tk_val : list N; tk_pos : tpos; tk_end : tpos }.

Record lx := mkLx { rest : list N; before : list N; lpos : N; lline : N; lcol : N; at_start : bool }.

Definition lx_init (input : list N) : lx := mkLx input [] 0 1 1 true.
Definition position (s : lx) : tpos := mkTP (lline s) (lcol s) (lpos s).

(* move n bytes (cols columns) from rest to before *)
Definition consume (n : nat) (cols : N) (s : lx) : lx :=
  mkLx (skipn n (rest s)) (rev_append (firstn n (rest s)) (before s))
       (lpos s + N.of_nat n) (lline s) (lcol s + cols) (at_start s).

(* advance(): one rune; columns are counted in UTF-16 code units (utf16Width) *)
Definition advance (s : lx) : lx :=
  match rest s with
  | [] => s
  | _ => consume (snd (decode (rest s))) (u16len (fst (decode (rest s)))) s
  end.

Definition peek (s : lx) : N := match rest s with [] => 0 | c :: _ => c end.
Definition peek_rune (s : lx) : N := match rest s with [] => 0 | _ => fst (decode (rest s)) end.

(* character classes (bytes) *)
Definition isWhitespaceB (c : N) : bool := (c =? 32) || (c =? 9) || (c =? 10) || (c =? 13).
Definition isDigitB (c : N) : bool := (48 <=? c) && (c <=? 57).
Definition isLetterB (c : N) : bool := ((97 <=? c) && (c <=? 122)) || ((65 <=? c) && (c <=? 90)).
Definition isUpperB (c : N) : bool := (65 <=? c) && (c <=? 90).
Definition isCurrencySymbol (r : N) : bool :=
  (r =? 36) || (r =? 8364) || (r =? 163) || (r =? 165) || (r =? 8381) || (r =? 8372).
Definition isAccountTerminator (r : N) : bool :=
  (r =? 9) || (r =? 10) || (r =? 13) || (r =? 59) || (r =? 64) || (r =? 61) ||
  (r =? 40) || (r =? 41) || (r =? 91) || (r =? 93).

(* bytes consumed while a byte predicate holds (ASCII classes: one byte = one rune) *)
Fixpoint span_while (p : N -> bool) (l : list N) : nat :=
  match l with
  | c :: r => if p c then S (span_while p r) else O
  | [] => O
  end.

(* rune-wise advance until the FIRST BYTE of a rune satisfies stop: (bytes, columns) *)
Fixpoint span_until (stop : N -> bool) (l : list N) (skip : nat) : nat * N :=
  match l with
  | [] => (O, 0)
  | c :: r =>
      match skip with
      | S k => let '(n, cols) := span_until stop r k in (S n, cols)
      | O =>
          if stop c then (O, 0)
          else let '(n, cols) := span_until stop r (snd (decode l) - 1) in (S n, cols + u16len (fst (decode l)))
      end
  end.

Definition tok (ty : ttype) (v : list N) (p e : tpos) : token := mkToken ty v p e.

Definition makeToken (ty : ttype) (v : list N) (s : lx) : token := tok ty v (position s) (position s).

(* ---- scanners ---- *)
Definition scanDate (s : lx) : token * lx :=
  let n := span_while (fun c => isDigitB c || (c =? 45) || (c =? 47) || (c =? 46)) (rest s) in
  let s' := consume n (N.of_nat n) s in
  (tok TDate (firstn n (rest s)) (position s) (position s'), s').

Definition scanStatus (s : lx) : token * lx :=
  let s' := advance s in (tok TStatus [peek s] (position s) (position s'), s').

Definition scanCode (s : lx) : token * lx :=
  let s1 := advance s in
  let '(n, cols) := span_until (fun c => (c =? 41) || (c =? 10)) (rest s1) 0 in
  let s2 := consume n cols s1 in
  let s3 := if (peek s2 =? 41) && negb (match rest s2 with [] => true | _ => false end) then advance s2 else s2 in
  (tok TCode (firstn n (rest s1)) (position s) (position s3), s3).

Definition scanComment (s : lx) : token * lx :=
  let s1 := advance s in
  let '(n, cols) := span_until (fun c => c =? 10) (rest s1) 0 in
  let s2 := consume n cols s1 in
  (tok TComment (firstn n (rest s1)) (position s) (position s2), s2).

Definition scanIndent (s : lx) : token * lx :=
  let n := span_while (fun c => isWhitespaceB c && negb (c =? 10)) (rest s) in
  let s' := consume n (N.of_nat n) s in
  (tok TIndent (firstn n (rest s)) (position s) (position s'), s').

Definition scanNewline (s : lx) : token * lx :=
  let s1 := advance s in
  let s2 := mkLx (rest s1) (before s1) (lpos s1) (lline s1 + 1) 1 true in
  (tok TNewline [10] (position s) (position s2), s2).

(* scanAccount: (bytes consumed, columns, bytes up to the last non-space rune) *)
Fixpoint account_span (l : list N) (skip : nat) : nat * N * nat :=
  match l with
  | [] => (O, 0, O)
  | c :: r =>
      match skip with
      | S k => let '(n, cols, last) := account_span r k in (S n, cols, S last)
      | O =>
          let '(rn, size) := decode l in
          if rn =? 32 then
            match r with
            | 32 :: _ => (O, 0, O)
            | _ => let '(n, cols, last) := account_span r 0 in
                   (S n, cols + 1, match last with O => O | _ => S last end)
            end
          else if isAccountTerminator rn then (O, 0, O)
          else let '(n, cols, last) := account_span r (size - 1) in
               (S n, cols + u16len rn, match last with O => size | _ => S last end)
      end
  end.

Definition scanAccount (s : lx) : token * lx :=
  let '(n, cols, last) := account_span (rest s) 0 in
  let s' := consume n cols s in
  (tok TAccount (firstn last (rest s)) (position s) (position s'), s').

(* scanNumber *)
Fixpoint number_span (l : list N) (hasDigits : bool) : nat :=
  match l with
  | [] => O
  | c :: r =>
      if isDigitB c then S (number_span r true)
      else if (c =? 46) || (c =? 44) then S (number_span r hasDigits)
      else if (c =? 32) && match r with d :: _ => isDigitB d | [] => false end then S (number_span r hasDigits)
      else if ((c =? 69) || (c =? 101)) && hasDigits then
        match r with
        | sg :: r' =>
            if (sg =? 43) || (sg =? 45) then
              match r' with
              | d :: _ => if isDigitB d then S (S (number_span r' hasDigits)) else O
              | [] => O
              end
            else if isDigitB sg then S (number_span r hasDigits) else O
        | [] => O
        end
      else O
  end.

Definition scanNumber (s : lx) : token * lx :=
  let n := number_span (rest s) false in
  let s' := consume n (N.of_nat n) s in
  (tok TNumber (firstn n (rest s)) (position s) (position s'), s').

Definition scanCurrencySymbol (s : lx) : token * lx :=
  let size := snd (decode (rest s)) in
  let s' := consume size (u16len (fst (decode (rest s)))) s in
  (tok TCommodity (firstn size (rest s)) (position s) (position s'), s').

Definition scanQuotedCommodity (s : lx) : token * lx :=
  let s1 := advance s in
  let '(n, cols) := span_until (fun c => (c =? 34) || (c =? 10)) (rest s1) 0 in
  let s2 := consume n cols s1 in
  let s3 := if (peek s2 =? 34) && negb (match rest s2 with [] => true | _ => false end) then advance s2 else s2 in
  (tok TCommodity (firstn n (rest s1)) (position s) (position s3), s3).

Definition scanAt (s : lx) : token * lx :=
  let s1 := advance s in
  match rest s1 with
  | 64 :: _ => let s2 := advance s1 in (tok TAtAt [64; 64] (position s) (position s2), s2)
  | _ => (tok TAt [64] (position s) (position s1), s1)
  end.

Definition scanEquals (s : lx) : token * lx :=
  let s1 := advance s in
  match rest s1 with
  | 61 :: _ => let s2 := advance s1 in (tok TDoubleEquals [61; 61] (position s) (position s2), s2)
  | _ => (tok TEquals [61] (position s) (position s1), s1)
  end.

(* a one-character token (parentheses, brackets, the pipe): it starts before the character *)
Definition scanSingle (ty : ttype) (v : list N) (s : lx) : token * lx :=
  let s' := advance s in (tok ty v (position s) (position s'), s').

Definition scanSign (s : lx) : token * lx :=
  let s' := advance s in (tok TSign [peek s] (position s) (position s'), s').

(* strings.TrimSpace: ASCII white space and the multi-byte Unicode White_Space characters *)
Definition ws_prefix_len (l : list N) : nat :=
  match l with
  | c :: r =>
      if ((9 <=? c) && (c <=? 13)) || (c =? 32) then 1%nat
      else match c, r with
           | 194, 133 :: _ => 2%nat | 194, 160 :: _ => 2%nat
           | 225, 154 :: 128 :: _ => 3%nat
           | 226, 128 :: x :: _ => if ((128 <=? x) && (x <=? 138)) || (x =? 168) || (x =? 169) || (x =? 175) then 3%nat else 0%nat
           | 226, 129 :: 159 :: _ => 3%nat
           | 227, 128 :: 128 :: _ => 3%nat
           | _, _ => 0%nat
           end
  | [] => 0%nat
  end.
Definition ws_suffix_len (rl : list N) : nat :=   (* on the reversed string *)
  match rl with
  | c :: r =>
      if ((9 <=? c) && (c <=? 13)) || (c =? 32) then 1%nat
      else match c, r with
           | 133, 194 :: _ => 2%nat | 160, 194 :: _ => 2%nat
           | 128, 154 :: 225 :: _ => 3%nat
           | x, 128 :: 226 :: _ => if ((128 <=? x) && (x <=? 138)) || (x =? 168) || (x =? 169) || (x =? 175) then 3%nat else 0%nat
           | 159, 129 :: 226 :: _ => 3%nat
           | 128, 128 :: 227 :: _ => 3%nat
           | _, _ => 0%nat
           end
  | [] => 0%nat
  end.
Fixpoint trim_ws_left (fuel : nat) (l : list N) : list N :=
  match fuel with
  | O => l
  | S f => match ws_prefix_len l with O => l | n => trim_ws_left f (skipn n l) end
  end.
Fixpoint trim_ws_right (fuel : nat) (rl : list N) : list N :=
  match fuel with
  | O => rl
  | S f => match ws_suffix_len rl with O => rl | n => trim_ws_right f (skipn n rl) end
  end.
Definition trim_space_u (l : list N) : list N :=
  let l1 := trim_ws_left (length l) l in rev (trim_ws_right (length l1) (rev l1)).

Definition scanText (s : lx) : token * lx :=
  let '(n, cols) := span_until (fun c => (c =? 10) || (c =? 59) || (c =? 124)) (rest s) 0 in
  let s' := consume n cols s in
  (tok TText (trim_space_u (firstn n (rest s))) (position s) (position s'), s').

(* ---- look-aheads ---- *)
Fixpoint looksLikeVirtualAccount_from (l : list N) : bool :=
  match l with
  | [] => false
  | c :: r => if (c =? 41) || (c =? 10) then false else if c =? 58 then true else looksLikeVirtualAccount_from r
  end.
Definition looksLikeVirtualAccount (s : lx) : bool := looksLikeVirtualAccount_from (tl (rest s)).

Definition nthb (l : list N) (i : nat) : N := nth i l 0.
Definition looksLikeDate (s : lx) : bool :=
  let l := rest s in
  match skipn 7 l with
  | [] => false
  | _ =>
      isDigitB (nthb l 0) && isDigitB (nthb l 1) && isDigitB (nthb l 2) && isDigitB (nthb l 3) &&
      (let sep := nthb l 4 in
       ((sep =? 45) || (sep =? 47) || (sep =? 46)) && isDigitB (nthb l 5) &&
       (let second := if isDigitB (nthb l 6) then 7%nat else 6%nat in
        match skipn second l with
        | [] => false
        | c :: _ => c =? sep
        end))
  end.

Fixpoint looksLikeAccount_from (l : list N) (skip : nat) (hasColon : bool) : bool :=
  match l with
  | [] => hasColon
  | c :: r =>
      match skip with
      | S k => looksLikeAccount_from r k hasColon
      | O =>
          let '(rn, size) := decode l in
          if rn =? 58 then looksLikeAccount_from r 0 true
          else if rn =? 32 then match r with 32 :: _ => hasColon | _ => looksLikeAccount_from r 0 hasColon end
          else if isAccountTerminator rn then hasColon
          else looksLikeAccount_from r (size - 1) hasColon
      end
  end.
Definition looksLikeAccount (s : lx) : bool := looksLikeAccount_from (rest s) 0 false.

Definition nextIsCurrencySymbol (s : lx) : bool :=
  match tl (rest s) with [] => false | l => isCurrencySymbol (fst (decode l)) end.
Definition nextIsDigit (s : lx) : bool :=
  match tl (rest s) with [] => false | c :: _ => isDigitB c end.
Definition nextIsLetterCommodity (s : lx) : bool :=
  let l := tl (rest s) in
  match l with
  | [] => false
  | c :: _ =>
      if negb (isLetterB c) then false
      else match skipn (span_while isLetterB l) l with
           | [] => false
           | ch :: r => isDigitB ch || (((ch =? 45) || (ch =? 43)) && match r with d :: _ => isDigitB d | [] => false end)
           end
  end.

Fixpoint followsAmount_from (b : list N) : bool :=
  match b with
  | [] => false
  | c :: r => if c =? 32 then followsAmount_from r else isDigitB c
  end.
Definition followsAmountNumber (s : lx) : bool := followsAmount_from (before s).

Definition directives : list (list N) :=
  map bs ["account"; "alias"; "apply"; "assert"; "bucket"; "capture"; "check"; "comment"; "commodity"; "D";
          "decimal-mark"; "def"; "define"; "end"; "eval"; "expr"; "include"; "payee"; "P"; "tag"; "test";
          "Y"; "year"]%string.
Definition isDirective (w : list N) : bool := existsb (beq w) directives.

Definition scanDirectiveOrAccount (s : lx) : token * lx :=
  let n := span_while isLetterB (rest s) in
  let word := firstn n (rest s) in
  if isDirective word then
    let s' := consume n (N.of_nat n) s in (tok TDirective word (position s) (position s'), s')
  else if looksLikeAccount s then scanAccount s else scanText s.

Definition looksLikeCommodity (v : list N) : bool :=
  match v with [] => false | _ => forallb (fun c => isUpperB c || isDigitB c) v end.

Definition scanCommodityOrText (s : lx) : token * lx :=
  let follows := followsAmountNumber s in
  let n1 := span_while isLetterB (rest s) in
  let after1 := skipn n1 (rest s) in
  let letterPart := firstn n1 (rest s) in
  let early :=
    match n1, after1 with
    | S _, ch :: r =>
        negb follows && forallb isUpperB letterPart &&
        (isDigitB ch || (((ch =? 45) || (ch =? 43)) && match r with d :: _ => isDigitB d | [] => false end))
    | _, _ => false
    end in
  if early then
    let s' := consume n1 (N.of_nat n1) s in (tok TCommodity letterPart (position s) (position s'), s')
  else
    let n2 := span_while (fun c => isLetterB c || isDigitB c) after1 in
    let n := (n1 + n2)%nat in
    let value := firstn n (rest s) in
    if looksLikeCommodity value then
      let s' := consume n (N.of_nat n) s in (tok TCommodity value (position s) (position s'), s')
    else scanText s.

Fixpoint skip_spaces_n (l : list N) : nat :=
  match l with 32 :: r => S (skip_spaces_n r) | _ => O end.

Definition scanInLine (s0 : lx) : token * lx :=
  let k := skip_spaces_n (rest s0) in
  let s := consume k (N.of_nat k) s0 in
  match rest s with
  | [] => (makeToken TEOF [] s, s)
  | ch :: _ =>
      let r := peek_rune s in
      if ch =? 10 then scanNewline s
      else if ch =? 59 then scanComment s
      else if ch =? 40 then
        (if looksLikeVirtualAccount s then scanSingle TLParen [40] s else scanCode s)
      else if ch =? 41 then scanSingle TRParen [41] s
      else if ch =? 91 then scanSingle TLBracket [91] s
      else if ch =? 93 then scanSingle TRBracket [93] s
      else if ch =? 124 then scanSingle TPipe [124] s
      else if ch =? 64 then scanAt s
      else if ch =? 61 then scanEquals s
      else if (ch =? 42) || (ch =? 33) then scanStatus s
      else if isCurrencySymbol r then scanCurrencySymbol s
      else if ch =? 34 then scanQuotedCommodity s
      else if (ch =? 45) || (ch =? 43) then
        (if nextIsCurrencySymbol s || nextIsLetterCommodity s || nextIsDigit s then scanSign s else scanText s)
      else if isDigitB ch then (if looksLikeDate s then scanDate s else scanNumber s)
      else if isLetterB ch || is_letter_rune r then
        (if looksLikeAccount s then scanAccount s else scanCommodityOrText s)
      else scanText s
  end.

Definition set_at_start (b : bool) (s : lx) : lx := mkLx (rest s) (before s) (lpos s) (lline s) (lcol s) b.

Definition scanLineStart (s0 : lx) : token * lx :=
  let s := set_at_start false s0 in
  let c := peek s in
  if c =? 59 then scanComment s
  else if isWhitespaceB c && negb (c =? 10) then scanIndent s
  else if isDigitB c then scanDate s
  else if isLetterB c then scanDirectiveOrAccount s
  else scanInLine s.

Definition next (s : lx) : token * lx :=
  match rest s with
  | [] => (makeToken TEOF [] s, s)
  | _ => if at_start s && (lcol s =? 1) then scanLineStart s else scanInLine s
  end.

(* the token stream up to and including EOF; None = out of fuel (excluded by lex_fuel_enough) *)
Fixpoint lex_all (fuel : nat) (s : lx) : option (list token) :=
  match fuel with
  | O => None
  | S f =>
      let '(t, s') := next s in
      match tk_type t with
      | TEOF => Some [t]
      | _ => match lex_all f s' with Some l => Some (t :: l) | None => None end
      end
  end.

Definition lex (input : list N) : option (list token) := lex_all (length input + 2) (lx_init input).
