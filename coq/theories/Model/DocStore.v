(* Model of the document store in internal/server/server.go: DidOpen / DidChange / DidClose,
   isFullChange, and the wire decoding of a content change (an absent range decodes to the
   zero Range because protocol.TextDocumentContentChangeEvent.Range is not a pointer). *)
From HL Require Import Lib.Bytes Lib.Utf8 Model.Mapper.
Open Scope N_scope.

Record change := mkChange { ch_range : option range; ch_text : list N }.

Inductive event :=
| Open (uri : N) (text : list N)
| Change (uri : N) (chs : list change)
| Close (uri : N).

Definition docs := list (N * list N).     (* open documents, uri -> text *)

Fixpoint dlookup (u : N) (d : docs) : option (list N) :=
  match d with
  | [] => None
  | (u', t) :: r => if u =? u' then Some t else dlookup u r
  end.

Fixpoint dremove (u : N) (d : docs) : docs :=
  match d with
  | [] => []
  | (u', t) :: r => if u =? u' then dremove u r else (u', t) :: dremove u r
  end.

Definition dstore (u : N) (t : list N) (d : docs) : docs := (u, t) :: dremove u d.

Definition zero_range : range := mkRange 0 0 0 0.
Definition wire_range (c : change) : range :=
  match ch_range c with Some r => r | None => zero_range end.

Definition is_full_change (r : range) : bool :=
  (sl r =? 0) && (sc r =? 0) && (el r =? 0) && (ec r =? 0).

Definition srv_apply (t : list N) (c : change) : list N :=
  let r := wire_range c in
  if is_full_change r then ch_text c else apply_change t r (ch_text c).

Definition srv_step (d : docs) (e : event) : docs :=
  match e with
  | Open u t => dstore u t d
  | Change u chs =>
      match dlookup u d with
      | Some t => dstore u (fold_left srv_apply chs t) d
      | None => d
      end
  | Close u => dremove u d
  end.

Definition srv_run (h : list event) : docs := fold_left srv_step h [].
