(* Transcription of tokenizeForSemantics, extractTagTokensFromComment, isValidTagName and mapTokenType
   (internal/server/semantic.go) on top of the lexer model: the semantic tokens of a document are a
   function of its bytes.  uint32 conversions are not modelled (no wrap below 2^32 lines / columns). *)
From HL Require Import Lib.Bytes Lib.Utf8 Lib.UnicodeTables Model.Lexer Model.Parser Model.Semantic.
Open Scope N_scope.

(* mapTokenType *)
Definition map_token_type (t : ttype) : option N :=
  match t with
  | TDate => Some 3 | TAccount => Some 0 | TNumber => Some 4 | TCommodity => Some 1 | TComment => Some 9
  | TAt | TAtAt | TEquals | TDoubleEquals | TPipe => Some 11
  | TText => Some 10 | TCode => Some 7 | TStatus => Some 8 | TDirective => Some 6 | TTag => Some 5
  | _ => None
  end.

(* `for _, r := range name`: every rune of the name (an invalid byte is RuneError, which is no letter) *)
Fixpoint all_runes (p : N -> bool) (fuel : nat) (s : list N) : bool :=
  match fuel with
  | O => true
  | S f => match s with
           | [] => true
           | _ => let '(r, n) := Utf8.decode s in p r && all_runes p f (skipn (Nat.max n 1) s)
           end
  end.

(* isValidTagName: letters of any script, digits, '_' and '-' *)
Definition sem_valid_tag_name (name : list N) : bool :=
  negb (beq name []) &&
  all_runes (fun r => is_letter_rune r || is_digit_rune r || (r =? 95) || (r =? 45)) (length name) name.

(* the loop of extractTagTokensFromComment over the comma-separated parts *)
Fixpoint tag_tokens_parts (parts : list (list N)) (text : list N) (bl bc : N) (searchStart : nat) : list tok :=
  match parts with
  | [] => []
  | part :: rest =>
      let trimmed := trim_space_u part in
      match index_byte 58 trimmed with
      | None => tag_tokens_parts rest text bl bc searchStart
      | Some colonIdx =>
          let name := trim_space_u (firstn colonIdx trimmed) in
          if beq name [] || negb (sem_valid_tag_name name) then tag_tokens_parts rest text bl bc searchStart
          else
            match index_sub (name ++ [58]) (skipn searchStart text) with
            | None => tag_tokens_parts rest text bl bc searchStart
            | Some ts =>
                let tagStart := (ts + searchStart)%nat in
                let t1 := mkTok bl (bc + 1 + u16n (firstn tagStart text)) (u16n name + 1) 5 0 in
                let value := trim_space_u (skipn (S colonIdx) trimmed) in
                let tagNameEnd := (tagStart + length name + 1)%nat in
                match value with
                | [] => t1 :: tag_tokens_parts rest text bl bc tagNameEnd
                | _ =>
                    match index_sub value (skipn tagNameEnd text) with
                    | Some vs =>
                        t1 :: mkTok bl (bc + 1 + u16n (firstn (tagNameEnd + vs) text)) (u16n value) 12 0
                           :: tag_tokens_parts rest text bl bc (tagNameEnd + vs + length value)
                    | None => t1 :: tag_tokens_parts rest text bl bc tagNameEnd
                    end
                end
            end
      end
  end.

(* extractTagTokensFromComment *)
Definition tag_tokens (t : token) : list tok :=
  match index_byte 58 (tk_val t) with
  | None => []
  | Some _ => tag_tokens_parts (split_byte 44 (tk_val t)) (tk_val t)
                               (tp_line (tk_pos t) - 1) (tp_col (tk_pos t) - 1) O
  end.

Record tzstate := mkTZ { z_dir : bool; z_dtype : list N; z_payee : bool; z_line : N }.

Definition is_decl_dir (d : list N) : bool := beq d (bs "account") || beq d (bs "commodity").

(* one turn of the loop of tokenizeForSemantics: the state after the token and the tokens it adds *)
Definition sem_step (st : tzstate) (t : token) : tzstate * list tok :=
  let line := tp_line (tk_pos t) in
  let st1 :=
    if line =? z_line st then st
    else match tk_type t with
         | TDirective => mkTZ true (tk_val t) (z_payee st) line
         | TDate => mkTZ false [] true line
         | TIndent | TNewline => mkTZ (z_dir st) (z_dtype st) (z_payee st) line
         | _ => mkTZ false [] (z_payee st) line
         end in
  match map_token_type (tk_type t) with
  | None => (st1, [])
  | Some ty0 =>
      let md := if z_dir st1 && is_decl_dir (z_dtype st1) &&
                   (is_ty (tk_type t) TAccount || is_ty (tk_type t) TCommodity || is_ty (tk_type t) TText)
                then 1 else 0 in
      let '(ty, st2) :=
        if is_ty (tk_type t) TText && z_payee st1
        then (2, mkTZ (z_dir st1) (z_dtype st1) false (z_line st1)) else (ty0, st1) in
      let tags := if is_ty (tk_type t) TComment then tag_tokens t else [] in
      match tags with
      | _ :: _ => (st2, tags)
      | [] =>
          let len0 := u16n (tk_val t) in
          let len :=
            if is_ty (tk_type t) TComment then len0 + 1
            else if is_ty (tk_type t) TCode || is_ty (tk_type t) TCommodity then
              if (tp_line (tk_end t) =? line) && (tp_col (tk_pos t) <? tp_col (tk_end t))
              then tp_col (tk_end t) - tp_col (tk_pos t) else len0
            else len0 in
          if len =? 0 then (st2, [])
          else (st2, [mkTok (line - 1) (tp_col (tk_pos t) - 1) len ty md])
      end
  end.

Fixpoint sem_loop (st : tzstate) (l : list token) : list tok :=
  match l with
  | [] => []
  | t :: r =>
      if is_ty (tk_type t) TEOF then []
      else let '(st', out) := sem_step st t in out ++ sem_loop st' r
  end.

(* tokenizeForSemantics *)
Definition sem_tokens (text : list N) : list tok :=
  match lex text with
  | Some l => sem_loop (mkTZ false [] false 0) l
  | None => []
  end.
