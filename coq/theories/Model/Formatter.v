(* Model of internal/formatter/formatter.go: FormatDocumentWithOptions and everything under it,
   plus the format tables Server.Format passes in (Workspace.GetCommodityFormats or, when there
   is no resolved workspace, extractCommodityFormats of the file itself).
   Go ints are Z (lines and columns are never negative in a parsed AST, so the uint32
   conversions of the edits are the identity); strings are byte lists; maps are association
   lists with the newest binding first. *)
From HL Require Import Lib.Bytes Lib.Utf8 Model.Ast Model.Lexer Model.NumberFormat.
Open Scope Z_scope.

Record fopts := mkFO { fo_indent : Z; fo_align : bool; fo_mincol : Z }.
Definition fmap := list (list N * nf).

(* ---- strings ---- *)
Fixpoint split_lf (t : list N) : list (list N) :=
  match t with
  | [] => [[]]
  | c :: r =>
      let ls := split_lf r in
      if (c =? 10)%N then [] :: ls
      else match ls with l :: rest => (c :: l) :: rest | [] => [[c]] end
  end.

Fixpoint join_lf (ls : list (list N)) : list N :=
  match ls with
  | [] => []
  | [l] => l
  | l :: rest => l ++ 10%N :: join_lf rest
  end.

(* utf8.RuneCountInString *)
Fixpoint rune_count (s : list N) (skip : nat) : Z :=
  match s with
  | [] => 0
  | _ :: r =>
      match skip with
      | S k => rune_count r k
      | O => let '(_, n) := decode s in 1 + rune_count r (n - 1)
      end
  end.
Definition rcount (s : list N) : Z := rune_count s 0.

(* lsputil.UTF16Len *)
Fixpoint u16_units (s : list N) (skip : nat) : Z :=
  match s with
  | [] => 0
  | _ :: r =>
      match skip with
      | S k => u16_units r k
      | O => let '(rn, n) := decode s in Z.of_N (u16len rn) + u16_units r (n - 1)
      end
  end.
Definition u16 (s : list N) : Z := u16_units s 0.

Definition spaces (n : Z) : list N := repeat 32%N (Z.to_nat n).

(* strings.TrimRight(line, " \t") *)
Fixpoint drop_blank (l : list N) : list N :=
  match l with c :: r => if ((c =? 32) || (c =? 9))%N then drop_blank r else l | [] => [] end.
Definition trim_right (l : list N) : list N := rev (drop_blank (rev l)).

(* ---- format tables ---- *)
Definition nonempty (l : list N) : bool := match l with [] => false | _ => true end.

(* extractCommodityFormats: the file's own commodity and D directives; the D format is also
   the default (key "") and is written last *)
Fixpoint extract_loop (ds : list directive) (m : fmap) (dflt : option nf) : fmap * option nf :=
  match ds with
  | [] => (m, dflt)
  | DCommodity c f _ _ _ :: r =>
      if nonempty f then extract_loop r ((c_sym c, parse_number_format f) :: m) dflt
      else extract_loop r m dflt
  | DDefault sym f _ :: r =>
      if nonempty f then
        let n := parse_number_format f in
        extract_loop r (if nonempty sym then (sym, n) :: m else m) (Some n)
      else extract_loop r m dflt
  | _ :: r => extract_loop r m dflt
  end.
Definition extract_formats (j : journal) : fmap :=
  let '(m, d) := extract_loop (j_dirs j) [] None in
  match d with Some n => ([], n) :: m | None => m end.

(* Workspace.GetCommodityFormats: commodity directives of the resolved tree only *)
Fixpoint ws_formats_loop (ds : list directive) (m : fmap) : fmap :=
  match ds with
  | [] => m
  | DCommodity c f _ _ _ :: r =>
      if nonempty f then ws_formats_loop r ((c_sym c, parse_number_format f) :: m) else ws_formats_loop r m
  | _ :: r => ws_formats_loop r m
  end.
Definition ws_formats (ds : list directive) : fmap := ws_formats_loop ds [].

(* ---- amounts ---- *)
(* keepPrecision: the display format never shows fewer decimals than the amount was written with *)
Definition keep_precision (f : nf) (a : amount) : nf :=
  let places := - dexp (a_qty a) in
  if (0 <? places) && (negb (nf_hasdec f) || (nf_places f <? places))
  then mkNF (nf_mark f) (nf_sep f) places true else f.

Definition format_qty (a : amount) (fm : fmap) : list N :=
  match alookup (c_sym (a_com a)) fm with
  | Some f => format_number (a_qty a) (keep_precision f a)
  | None =>
      match alookup [] fm with
      | Some f => format_number (a_qty a) (keep_precision f a)
      | None => if nonempty (a_raw a) then a_raw a else dec_string (a_qty a)
      end
  end.

(* quoteCommodity: strings.ContainsAny(symbol, " \t0123456789-+.,@*;=(){}[]") and no double quote *)
Definition quote_chars : list N := [32; 9; 48; 49; 50; 51; 52; 53; 54; 55; 56; 57; 45; 43; 46; 44; 64; 42; 59; 61; 40; 41; 123; 125; 91; 93]%N.
Definition quote_commodity (sym : list N) : list N :=
  if existsb (fun c => existsb (N.eqb c) quote_chars) sym && negb (existsb (N.eqb 34%N) sym)
  then 34%N :: sym ++ [34%N] else sym.

Definition write_amount (a : amount) (fm : fmap) : list N :=
  let qty := format_qty a fm in
  let sym := quote_commodity (c_sym (a_com a)) in
  if c_left (a_com a) then
    match qty with
    | c :: rest => if a_signbefore a && ((c =? 45) || (c =? 43))%N then c :: sym ++ rest else sym ++ qty
    | [] => sym ++ qty
    end
  else qty ++ (if nonempty sym then 32%N :: sym else []).

Definition amount_len (a : amount) (fm : fmap) : Z :=
  (if c_left (a_com a) then rcount (quote_commodity (c_sym (a_com a))) else 0) +
  rcount (format_qty a fm) +
  (if c_left (a_com a) then 0 else 1 + rcount (quote_commodity (c_sym (a_com a)))).

Definition amount_cost_len (p : posting) (fm : fmap) : Z :=
  match po_amount p with
  | None => 0
  | Some a =>
      amount_len a fm +
      match po_cost p with
      | None => 0
      | Some c => (if co_total c then 4 else 3) + amount_len (co_amt c) fm
      end
  end.

(* ---- alignment ---- *)
Definition acct_display_len (p : posting) : Z :=
  rcount (po_acct p) + match po_virtual p with VNone => 0 | _ => 2 end.

Definition max_acct_len (ps : list posting) : Z := fold_left (fun m p => Z.max m (acct_display_len p)) ps 0.
Definition all_postings (txs : list transaction) : list posting := flat_map tx_postings txs.

Definition global_col (txs : list transaction) (o : fopts) : Z :=
  if fo_align o then
    let g := fo_indent o + max_acct_len (all_postings txs) + 2 in
    if (0 <? fo_mincol o) && (g <? fo_mincol o) then fo_mincol o else g
  else 0.

Definition has_assert (ps : list posting) : bool := existsb (fun p => isSome (po_assert p)) ps.
Definition max_amount_len (ps : list posting) (fm : fmap) : Z :=
  fold_left (fun m p => match po_amount p with Some _ => Z.max m (amount_cost_len p fm) | None => m end) ps 0.

(* (AccountCol, BalanceAssertionCol) *)
Definition alignment (ps : list posting) (fm : fmap) (o : fopts) (gcol : Z) : Z * Z :=
  if fo_align o then
    if has_assert ps then (gcol, gcol + max_amount_len ps fm + 2) else (gcol, 0)
  else (0, 0).

(* ---- formatPostingWithOpts ---- *)
Definition status_text (s : status) : list N :=
  match s with StCleared => [42; 32]%N | StPending => [33; 32]%N | StNone => [] end.
Definition v_open (v : vkind) : list N := match v with VUnbalanced => [40]%N | VBalanced => [91]%N | VNone => [] end.
Definition v_close (v : vkind) : list N := match v with VUnbalanced => [41]%N | VBalanced => [93]%N | VNone => [] end.

Definition posting_head (p : posting) (o : fopts) : list N :=
  spaces (fo_indent o) ++ status_text (po_status p) ++ v_open (po_virtual p) ++ po_acct p ++ v_close (po_virtual p).

Definition format_posting (p : posting) (al : Z * Z) (fm : fmap) (o : fopts) : list N :=
  let s0 := posting_head p o in
  let s1 := match po_amount p with
            | None => s0
            | Some a =>
                let sp := if fo_align o && (0 <? fst al) then Z.max (fst al - rcount s0) 2 else 2 in
                s0 ++ spaces sp ++ write_amount a fm
            end in
  let s2 := match po_cost p with
            | None => s1
            | Some c => s1 ++ (if co_total c then [32; 64; 64; 32]%N else [32; 64; 32]%N) ++ write_amount (co_amt c) fm
            end in
  let s3 := match po_assert p with
            | None => s2
            | Some a =>
                let sp := if fo_align o && (0 <? snd al) then Z.max (snd al - rcount s2) 2 else 2 in
                s2 ++ spaces sp ++ (if as_strict a then [61; 61; 32]%N else [61; 32]%N) ++ write_amount (as_amt a) fm
            end in
  if nonempty (po_comment p) then s3 ++ [32; 32; 59; 32]%N ++ trim_space_u (po_comment p) else s3.

(* ---- edits ---- *)
Record fedit := mkFE { fe_sl : Z; fe_sc : Z; fe_el : Z; fe_ec : Z; fe_new : list N }.

Definition line_u16 (lines : list (list N)) (l : Z) : Z :=
  if l <? 0 then 0 else match nth_error lines (Z.to_nat l) with Some s => u16 s | None => 0 end.

Definition posting_line (p : posting) : Z := p_line (r_start (po_rng p)) - 1.

Definition format_tx (t : transaction) (lines : list (list N)) (fm : fmap) (gcol : Z) (o : fopts) : list fedit :=
  let al := alignment (tx_postings t) fm o gcol in
  map (fun p => let l := posting_line p in
                mkFE l 0 l (line_u16 lines l) (format_posting p al fm o)) (tx_postings t).

Definition mem_z (x : Z) (l : list Z) : bool := existsb (Z.eqb x) l.

Fixpoint trim_edits (lines : list (list N)) (i : Z) (plines : list Z) : list fedit :=
  match lines with
  | [] => []
  | s :: r =>
      let rest := trim_edits r (i + 1) plines in
      if mem_z i plines then rest
      else let t := trim_right s in
           if (length t =? length s)%nat then rest
           else mkFE i (u16 t) i (u16 s) [] :: rest
  end.

Definition norm_opts (o : fopts) : fopts :=
  if fo_indent o <=? 0 then mkFO 4 (fo_align o) (fo_mincol o) else o.

Definition format_document (j : journal) (content : list N) (fmts : option fmap) (o : fopts) : list fedit :=
  let fm := match fmts with Some m => m | None => extract_formats j end in
  let o := norm_opts o in
  let lines := split_lf content in
  let gcol := global_col (j_txs j) o in
  let pe := flat_map (fun t => format_tx t lines fm gcol o) (j_txs j) in
  let pl := map posting_line (all_postings (j_txs j)) in
  pe ++ trim_edits lines 0 pl.

(* Server.Format: edits on lines where the parser reported an error are dropped *)
Definition server_format (j : journal) (errs : list (N * N)) (content : list N) (fmts : option fmap) (o : fopts) : list fedit :=
  let es := format_document j content fmts o in
  match errs with
  | [] => es
  | _ => filter (fun e => negb (existsb (fun er => fe_sl e =? Z.of_N (fst er) - 1) errs)) es
  end.
