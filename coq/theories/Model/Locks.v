(* C14: an interleaving machine for threads that acquire / release reader-writer locks and read /
   write shared locations, and the access table extracted from the Go source.

   Threads: ONE dispatcher (jsonrpc2 handles requests and notifications serially) and any number
   of background threads (publishDiagnostics, refreshConfiguration).  Kinds are numbers; which
   kinds may coexist is a parameter `conc`. *)
From HL Require Import Lib.Bytes.
Open Scope N_scope.

Inductive mode := MR | MW.
Definition mode_eqb (a b : mode) : bool := match a, b with MR, MR | MW, MW => true | _, _ => false end.

Inductive instr :=
| Acq (l : N) (m : mode)
| Rel (l : N)
| Acc (x : N) (w : bool).          (* w = true: write *)

Definition held := list (N * mode).

Fixpoint release (l : N) (h : held) : held :=
  match h with
  | [] => []
  | (l', m) :: r => if l' =? l then r else (l', m) :: release l r
  end.

Definition hstep (h : held) (i : instr) : held :=
  match i with
  | Acq l m => (l, m) :: h
  | Rel l => release l h
  | Acc _ _ => h
  end.

Record thread := mkThread { t_kind : N; t_held : held; t_todo : list instr }.

Definition holds (l : N) (h : held) : bool := existsb (fun lm => fst lm =? l) h.
Definition holds_w (l : N) (h : held) : bool := existsb (fun lm => (fst lm =? l) && mode_eqb (snd lm) MW) h.

(* may thread number i take its next step? (sync.RWMutex: a writer excludes everybody, a reader
   excludes writers) *)
Fixpoint others_ok_from (ts : list thread) (k i : nat) (ok : held -> bool) : bool :=
  match ts with
  | [] => true
  | t :: r => (Nat.eqb k i || ok (t_held t)) && others_ok_from r (S k) i ok
  end.
Definition others_ok (ts : list thread) (i : nat) (ok : held -> bool) : bool := others_ok_from ts 0 i ok.

Definition enabled (ts : list thread) (i : nat) : bool :=
  match nth_error ts i with
  | Some t =>
      match t_todo t with
      | Acq l MW :: _ => others_ok ts i (fun h => negb (holds l h))
      | Acq l MR :: _ => others_ok ts i (fun h => negb (holds_w l h))
      | _ :: _ => true
      | [] => false
      end
  | None => false
  end.

Definition advance (t : thread) : thread :=
  match t_todo t with
  | i :: r => mkThread (t_kind t) (hstep (t_held t) i) r
  | [] => t
  end.

Fixpoint update {A} (l : list A) (i : nat) (x : A) : list A :=
  match l, i with
  | [], _ => []
  | _ :: r, O => x :: r
  | y :: r, S k => y :: update r k x
  end.

Inductive step : list thread -> list thread -> Prop :=
| step_thread ts i t : nth_error ts i = Some t -> enabled ts i = true -> step ts (update ts i (advance t)).

Inductive reachable (init : list thread) : list thread -> Prop :=
| reach_init : reachable init init
| reach_step ts ts' : reachable init ts -> step ts ts' -> reachable init ts'.

(* a data race: two different threads are both about to access the same location, one writing *)
Definition race (ts : list thread) : Prop :=
  exists i j ti tj x w1 w2 r1 r2,
    i <> j /\ nth_error ts i = Some ti /\ nth_error ts j = Some tj /\
    t_todo ti = Acc x w1 :: r1 /\ t_todo tj = Acc x w2 :: r2 /\ (w1 || w2) = true.

(* ---------- the access table ---------- *)
Record row := mkRow { r_kind : N; r_loc : N; r_write : bool; r_locks : held }.

Definition sub_held (a b : held) : bool :=
  forallb (fun lm => existsb (fun lm' => (fst lm =? fst lm') && mode_eqb (snd lm) (snd lm')) b) a.

(* every access of the program, with the locks held when it is reached, is a row of the table *)
Fixpoint covered (table : list row) (k : N) (h : held) (p : list instr) : Prop :=
  match p with
  | [] => True
  | i :: r =>
      match i with
      | Acc x w => exists rw, In rw table /\ r_kind rw = k /\ r_loc rw = x /\ r_write rw = w /\ sub_held (r_locks rw) h = true
      | _ => True
      end /\ covered table k (hstep h i) r
  end.

(* two rows are compatible when they cannot race: a common lock, held for writing on one side *)
Definition protects (a b : held) : bool :=
  existsb (fun lm => mode_eqb (snd lm) MW && holds (fst lm) b) a ||
  existsb (fun lm => mode_eqb (snd lm) MW && holds (fst lm) a) b.

Definition compatible (conc : N -> N -> bool) (a b : row) : bool :=
  negb (conc (r_kind a) (r_kind b)) || negb (r_loc a =? r_loc b) || negb (r_write a || r_write b) ||
  protects (r_locks a) (r_locks b).

Definition disciplined (conc : N -> N -> bool) (table : list row) : bool :=
  forallb (fun a => forallb (compatible conc a) table) table.

(* the pairs that break the discipline (what the check reports) *)
Definition offenders (conc : N -> N -> bool) (table : list row) : list (row * row) :=
  flat_map (fun a => map (fun b => (a, b)) (filter (fun b => negb (compatible conc a b)) table)) table.

(* ---------- blocking calls: a request to the client that waits for its answer ---------- *)
Record brow := mkBRow { b_kind : N; b_call : N; b_locks : held }.
Definition no_lock_across_blocking (bt : list brow) : bool := forallb (fun b => match b_locks b with [] => true | _ => false end) bt.

(* ---------- lock order ---------- *)
(* (outer, inner): lock `inner` is acquired while `outer` is held *)
Definition order_ok (edges : list (N * N)) : bool :=
  forallb (fun e => (fst e <? snd e)) edges.
