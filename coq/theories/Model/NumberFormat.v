(* Model of internal/formatter/number_format.go (ParseNumberFormat, extractNumberPart,
   FormatNumber) and of the shopspring/decimal v1.4.0 printing the formatter uses (Round,
   StringFixed, String, rescale) on (mantissa, exponent).  Go ints are Z. *)
From HL Require Import Lib.Bytes Lib.Utf8 Lib.UnicodeTables Model.Ast.
Open Scope N_scope.

(* ---- big.Int.String ---- *)
Fixpoint digits_fuel (fuel : nat) (n : N) (acc : list N) : list N :=
  match fuel with
  | O => acc
  | S f => let acc' := (48 + n mod 10) :: acc in
           if n / 10 =? 0 then acc' else digits_fuel f (n / 10) acc'
  end.
Definition digits (n : N) : list N := digits_fuel (S (N.to_nat (N.log2 n))) n [].
Definition zstring (z : Z) : list N :=
  if (z <? 0)%Z then 45 :: digits (Z.abs_N z) else digits (Z.abs_N z).

(* ---- decimal: rescale / Round / string ---- *)
Definition rescale (d : dec) (e : Z) : dec :=
  if (dexp d =? e)%Z then d
  else if (dexp d <? e)%Z then mkDec (Z.quot (mant d) (10 ^ (e - dexp d))) e
  else mkDec (mant d * 10 ^ (dexp d - e)) e.

(* Round(places): half away from zero; a value already at that exponent is returned as is *)
Definition dround (d : dec) (places : Z) : dec :=
  if (dexp d =? - places)%Z then d
  else let r := rescale d (- places - 1) in
       let v := if (mant r <? 0)%Z then (mant r - 5)%Z else (mant r + 5)%Z in
       mkDec (Z.quot v 10) (- places).

Fixpoint strip_zeros_rev (l : list N) : list N :=
  match l with
  | c :: r => if c =? 48 then strip_zeros_rev r else l
  | [] => []
  end.
Definition strip_trailing_zeros (l : list N) : list N := rev (strip_zeros_rev (rev l)).

Definition dstring (d : dec) (trim : bool) : list N :=
  if (0 <=? dexp d)%Z then zstring (mant d * 10 ^ dexp d)
  else
    let str := digits (Z.abs_N (mant d)) in
    let k := Z.to_nat (- dexp d) in
    let n := length str in
    let '(ip, fp) := if (k <? n)%nat then (firstn (n - k) str, skipn (n - k) str)
                     else ([48], repeat 48 (k - n)%nat ++ str) in
    let fp := if trim then strip_trailing_zeros fp else fp in
    let number := ip ++ match fp with [] => [] | _ => 46 :: fp end in
    if (mant d <? 0)%Z then 45 :: number else number.

Definition string_fixed (d : dec) (places : Z) : list N := dstring (dround d places) false.
Definition dec_string (d : dec) : list N := dstring d true.

(* ---- NumberFormat ---- *)
Record nf := mkNF { nf_mark : N; nf_sep : list N; nf_places : Z; nf_hasdec : bool }.
Definition nf0 := mkNF 46 [] 0 false.

Definition is_numchar (r : N) : bool := is_digit_rune r || (r =? 46) || (r =? 44) || (r =? 32).

(* the `for i, r := range formatStr` loop of extractNumberPart; skip = bytes of the rune in
   progress.  State: inNumber, start, end, a digit was seen. *)
Fixpoint enp (s : list N) (skip : nat) (i : Z) (inN : bool) (st en : Z) (dig : bool) : bool * Z * Z * bool :=
  match s with
  | [] => (inN, st, en, dig)
  | _ :: r =>
      match skip with
      | S k => enp r k (i + 1)%Z inN st en dig
      | O =>
          let '(rn, n) := decode s in
          if is_numchar rn then
            enp r (n - 1) (i + 1)%Z true (if inN then st else i) (i + Z.of_N (rune_len rn))%Z (dig || is_digit_rune rn)
          else if inN then (inN, st, en, dig)
          else enp r (n - 1) (i + 1)%Z inN st en dig
      end
  end.

Fixpoint drop_sp (l : list N) : list N :=
  match l with c :: r => if c =? 32 then drop_sp r else l | [] => [] end.
Definition trim_sp (l : list N) : list N := rev (drop_sp (rev (drop_sp l))).

Definition extract_number_part (f : list N) : list N :=
  let '(inN, st, en, dig) := enp f 0 0%Z false 0%Z 0%Z false in
  if negb inN || negb dig then []
  else trim_sp (firstn (Z.to_nat (en - st)) (skipn (Z.to_nat st) f)).

(* strings.LastIndex of a byte; -1 when absent *)
Fixpoint last_idx (c : N) (s : list N) (i acc : Z) : Z :=
  match s with
  | [] => acc
  | x :: r => last_idx c r (i + 1)%Z (if x =? c then i else acc)
  end.
Definition has_byte (c : N) (s : list N) : bool := existsb (N.eqb c) s.

Definition parse_number_format (f : list N) : nf :=
  let np := extract_number_part f in
  match np with
  | [] => nf0
  | _ =>
      let ld := last_idx 46 np 0%Z (-1)%Z in
      let lc := last_idx 44 np 0%Z (-1)%Z in
      let len := Z.of_nat (length np) in
      if (lc <? ld)%Z then
        mkNF 46 (if (0 <=? lc)%Z then [44] else if has_byte 32 (firstn (Z.to_nat ld) np) then [32] else [])
             (len - ld - 1)%Z true
      else if (ld <? lc)%Z then
        mkNF 44 (if (0 <=? ld)%Z then [46] else if has_byte 32 (firstn (Z.to_nat lc) np) then [32] else [])
             (len - lc - 1)%Z true
      else mkNF 46 (if has_byte 32 np then [32] else []) 0%Z false
  end.

(* ---- FormatNumber ---- *)
Fixpoint split_dot (s : list N) : list N * option (list N) :=
  match s with
  | [] => ([], None)
  | c :: r => if c =? 46 then ([], Some r)
              else let '(a, b) := split_dot r in (c :: a, b)
  end.
(* parts[1] of strings.Split(str, "."): up to the next dot (there is none in a decimal string) *)
Definition dec_part (o : option (list N)) : list N :=
  match o with Some r => fst (split_dot r) | None => [] end.

Fixpoint group_rev (l : list N) (cnt : nat) (sep_rev : list N) : list N :=
  match l with
  | [] => []
  | x :: r =>
      match r with
      | [] => [x]
      | _ => if Nat.eqb cnt 2 then x :: sep_rev ++ group_rev r 0 sep_rev
             else x :: group_rev r (S cnt) sep_rev
      end
  end.
Definition group3 (s sep : list N) : list N := rev (group_rev (rev s) 0 (rev sep)).

Definition format_number (q : dec) (f : nf) : list N :=
  let str := if nf_hasdec f then string_fixed q (nf_places f) else dec_string (dround q 0) in
  let '(ip, rest) := split_dot str in
  let dp := dec_part rest in
  let '(neg, ip) := match ip with c :: r => if c =? 45 then (true, r) else (false, ip) | [] => (false, ip) end in
  let ip := match nf_sep f with
            | [] => ip
            | sep => if (3 <? length ip)%nat then group3 ip sep else ip
            end in
  (if neg then [45] else []) ++ ip ++
  (if nf_hasdec f && (0 <? nf_places f)%Z then nf_mark f :: dp else []).
