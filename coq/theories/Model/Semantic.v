(* Model of the semantic-token transport layer in internal/server/semantic.go:
   encodeTokens (uint32 deltas), filterTokensByRange, computeSemanticTokensEdits and the
   process-global result cache with SemanticTokensFull / Range / FullDelta and DidClose.
   The tokenizer itself is a parameter here (toks); it is modelled with the lexer. *)
From HL Require Import Lib.Bytes.
Open Scope N_scope.

Record tok := mkTok { t_line : N; t_col : N; t_len : N; t_type : N; t_mod : N }.

Definition two32 : N := 4294967296.
Definition sub32 (a b : N) : N := (a + two32 - b mod two32) mod two32.   (* uint32 subtraction *)

Fixpoint encode_from (lastLine lastCol : N) (l : list tok) : list N :=
  match l with
  | [] => []
  | t :: r =>
      let dl := sub32 (t_line t) lastLine in
      let dc := if dl =? 0 then sub32 (t_col t) lastCol else t_col t in
      dl :: dc :: t_len t :: t_type t :: t_mod t :: encode_from (t_line t) (t_col t) r
  end.
Definition encode (l : list tok) : list N := encode_from 0 0 l.

(* the client's decoding of the relative format *)
Fixpoint decode_from (line col : N) (d : list N) : list tok :=
  match d with
  | dl :: dc :: len :: ty :: md :: r =>
      let line' := line + dl in
      let col' := if dl =? 0 then col + dc else dc in
      mkTok line' col' len ty md :: decode_from line' col' r
  | _ => []
  end.
Definition decode (d : list N) : list tok := decode_from 0 0 d.

Definition filter_range (l : list tok) (sl el : N) : list tok :=
  filter (fun t => (sl <=? t_line t) && (t_line t <=? el)) l.

Record edit := mkEdit { e_start : N; e_delete : N; e_data : list N }.

Definition compute_edits (old new : list N) : list edit :=
  if list_eqb N.eqb old new then [] else [mkEdit 0 (N.of_nat (length old)) new].

(* ---- the server side ---- *)
Section Machine.
Variable toks : N -> list tok.              (* tokenizeForSemantics of a content *)
Variable empty : N -> bool.                 (* the content is the empty string *)

Inductive sreq :=
| SOpen (u c : N) | SEdit (u c : N) | SClose (u : N)
| SFull (u : N) | SDelta (u prev : N) | SRange (u sl el : N).

Inductive sresp :=
| RNone
| RData (id : option N) (data : list N)     (* SemanticTokens *)
| RDelta (id : N) (edits : list edit).      (* SemanticTokensDelta *)

Record sstate := mkS { sdocs : list (N * N); snext : N; scache : list (N * (N * list N)) }.

Fixpoint slookup {A} (u : N) (m : list (N * A)) : option A :=
  match m with [] => None | (u', v) :: r => if u =? u' then Some v else slookup u r end.
Definition sremove {A} (u : N) (m : list (N * A)) : list (N * A) :=
  filter (fun kv => negb (fst kv =? u)) m.
Definition sput {A} (u : N) (v : A) (m : list (N * A)) : list (N * A) := (u, v) :: sremove u m.

Definition sstep (s : sstate) (r : sreq) : sstate * sresp :=
  match r with
  | SOpen u c | SEdit u c => (mkS (sput u c (sdocs s)) (snext s) (scache s), RNone)
  | SClose u => (mkS (sremove u (sdocs s)) (snext s) (sremove u (scache s)), RNone)
  | SFull u =>
      match slookup u (sdocs s) with
      | None => (s, RData None [])
      | Some c =>
          if empty c then (s, RData None [])
          else let d := encode (toks c) in
               let id := snext s + 1 in
               (mkS (sdocs s) id (sput u (id, d) (scache s)), RData (Some id) d)
      end
  | SRange u sl el =>
      match slookup u (sdocs s) with
      | None => (s, RData None [])
      | Some c => if empty c then (s, RData None [])
                  else (s, RData None (encode (filter_range (toks c) sl el)))
      end
  | SDelta u prev =>
      match slookup u (sdocs s) with
      | None => (s, RData None [])
      | Some c =>
          if empty c then (s, RData None [])
          else let d := encode (toks c) in
               let id := snext s + 1 in
               let s' := mkS (sdocs s) id (sput u (id, d) (scache s)) in
               match slookup u (scache s) with
               | Some (cid, old) =>
                   if cid =? prev then (s', RDelta id (compute_edits old d)) else (s', RData (Some id) d)
               | None => (s', RData (Some id) d)
               end
      end
  end.

(* ---- the client side (specification): remembers the data received under each result id
   and applies delta edits to the data of the id it quoted ---- *)
Definition apply_edit (d : list N) (e : edit) : list N :=
  firstn (N.to_nat (e_start e)) d ++ e_data e ++ skipn (N.to_nat (e_start e + e_delete e)) d.

Definition client := list (N * list N).

Definition cstep (cl : client) (r : sreq) (resp : sresp) : client :=
  match resp with
  | RData (Some id) d => sput id d cl
  | RDelta id edits =>
      match r with
      | SDelta _ prev =>
          match slookup prev cl with
          | Some old => sput id (fold_left apply_edit edits old) cl
          | None => cl                       (* a delta for an id the client never held *)
          end
      | _ => cl
      end
  | _ => cl
  end.

(* what the client believes the tokens of u are after a full/delta answer carrying an id *)
Definition believed (cl : client) (resp : sresp) : option (list N) :=
  match resp with
  | RData (Some id) _ | RDelta id _ => slookup id cl
  | _ => None
  end.

Fixpoint run (s : sstate) (cl : client) (h : list sreq) : sstate * client :=
  match h with
  | [] => (s, cl)
  | r :: rest => let '(s', resp) := sstep s r in run s' (cstep cl r resp) rest
  end.

End Machine.

Definition sinit : sstate := mkS [] 0 [].
