(* Model of internal/server/settings.go: parseSettingsFromRaw, applySettingsMap,
   toInt/toInt64/toBool/toString, normalizeServerSettings.  Hand transcription;
   tied to the code by the C19 correspondence run (Tie/C19.v).                    *)
From HL Require Import Lib.Bytes.
Open Scope Z_scope.

(* ---- JSON as decoded by encoding/json into interface{} ---- *)
Inductive json :=
| JNull
| JBool (v : bool)
| JNum (num : Z) (den : positive)      (* the float64 value num/den; generator keeps it exactly representable *)
| JStr (s : list N)
| JArr (l : list json)
| JObj (l : list (list N * json)).     (* duplicate keys: the last one wins, as in a Go map *)

(* ---- the settings record (serverSettings) ---- *)
Record settings := mkSettings {
  f_hover : bool; f_completion : bool; f_formatting : bool; f_diagnostics : bool;
  f_semantic : bool; f_codeactions : bool; f_folding : bool; f_links : bool;
  f_wssymbol : bool; f_inline : bool;
  c_max : Z; c_fuzzy : bool; c_counts : bool;
  d_accounts : bool; d_commodities : bool; d_unbalanced : bool;
  fmt_indent : Z; fmt_align : bool; fmt_mincol : Z;
  cli_enabled : bool; cli_path : list N; cli_timeout : Z;   (* nanoseconds *)
  lim_size : Z; lim_depth : Z
}.

Definition hledger_path : list N := [104;108;101;100;103;101;114]%N. (* "hledger" *)

Definition default_settings : settings :=
  mkSettings true true true true true true true true true true
             50 true true
             true true true
             4 true 0
             true hledger_path 30000000000
             (10 * 1024 * 1024) 50.

Inductive field :=
| FHover | FCompletion | FFormatting | FDiagnostics | FSemantic | FCodeActions | FFolding
| FLinks | FWsSymbol | FInline
| CMax | CFuzzy | CCounts
| DAccounts | DCommodities | DUnbalanced
| FmtIndent | FmtAlign | FmtMinCol
| CliEnabled | CliPath | CliTimeout
| LimSize | LimDepth.

Definition all_fields : list field :=
  [FHover; FCompletion; FFormatting; FDiagnostics; FSemantic; FCodeActions; FFolding;
   FLinks; FWsSymbol; FInline; CMax; CFuzzy; CCounts; DAccounts; DCommodities; DUnbalanced;
   FmtIndent; FmtAlign; FmtMinCol; CliEnabled; CliPath; CliTimeout; LimSize; LimDepth].

Definition field_eqb (a b : field) : bool :=
  match a, b with
  | FHover, FHover | FCompletion, FCompletion | FFormatting, FFormatting
  | FDiagnostics, FDiagnostics | FSemantic, FSemantic | FCodeActions, FCodeActions
  | FFolding, FFolding | FLinks, FLinks | FWsSymbol, FWsSymbol | FInline, FInline
  | CMax, CMax | CFuzzy, CFuzzy | CCounts, CCounts
  | DAccounts, DAccounts | DCommodities, DCommodities | DUnbalanced, DUnbalanced
  | FmtIndent, FmtIndent | FmtAlign, FmtAlign | FmtMinCol, FmtMinCol
  | CliEnabled, CliEnabled | CliPath, CliPath | CliTimeout, CliTimeout
  | LimSize, LimSize | LimDepth, LimDepth => true
  | _, _ => false
  end.

Inductive sval := VB (v : bool) | VZ (z : Z) | VS (s : list N).

Definition sval_eqb (a b : sval) : bool :=
  match a, b with
  | VB x, VB y => Bool.eqb x y
  | VZ x, VZ y => (x =? y)
  | VS x, VS y => beq x y
  | _, _ => false
  end.

Definition get (f : field) (s : settings) : sval :=
  match f with
  | FHover => VB (f_hover s) | FCompletion => VB (f_completion s)
  | FFormatting => VB (f_formatting s) | FDiagnostics => VB (f_diagnostics s)
  | FSemantic => VB (f_semantic s) | FCodeActions => VB (f_codeactions s)
  | FFolding => VB (f_folding s) | FLinks => VB (f_links s)
  | FWsSymbol => VB (f_wssymbol s) | FInline => VB (f_inline s)
  | CMax => VZ (c_max s) | CFuzzy => VB (c_fuzzy s) | CCounts => VB (c_counts s)
  | DAccounts => VB (d_accounts s) | DCommodities => VB (d_commodities s)
  | DUnbalanced => VB (d_unbalanced s)
  | FmtIndent => VZ (fmt_indent s) | FmtAlign => VB (fmt_align s) | FmtMinCol => VZ (fmt_mincol s)
  | CliEnabled => VB (cli_enabled s) | CliPath => VS (cli_path s) | CliTimeout => VZ (cli_timeout s)
  | LimSize => VZ (lim_size s) | LimDepth => VZ (lim_depth s)
  end.

Definition asB (v : sval) (d : bool) := match v with VB x => x | _ => d end.
Definition asZ (v : sval) (d : Z) := match v with VZ x => x | _ => d end.
Definition asS (v : sval) (d : list N) := match v with VS x => x | _ => d end.

(* assignment "settings.X = value"; an ill-kinded value (never produced by conv) leaves the field *)
Definition set (f : field) (v : sval) (s : settings) : settings :=
  let '(mkSettings a1 a2 a3 a4 a5 a6 a7 a8 a9 a10 b1 b2 b3 c1 c2 c3 d1 d2 d3 e1 e2 e3 g1 g2) := s in
  match f with
  | FHover => mkSettings (asB v a1) a2 a3 a4 a5 a6 a7 a8 a9 a10 b1 b2 b3 c1 c2 c3 d1 d2 d3 e1 e2 e3 g1 g2
  | FCompletion => mkSettings a1 (asB v a2) a3 a4 a5 a6 a7 a8 a9 a10 b1 b2 b3 c1 c2 c3 d1 d2 d3 e1 e2 e3 g1 g2
  | FFormatting => mkSettings a1 a2 (asB v a3) a4 a5 a6 a7 a8 a9 a10 b1 b2 b3 c1 c2 c3 d1 d2 d3 e1 e2 e3 g1 g2
  | FDiagnostics => mkSettings a1 a2 a3 (asB v a4) a5 a6 a7 a8 a9 a10 b1 b2 b3 c1 c2 c3 d1 d2 d3 e1 e2 e3 g1 g2
  | FSemantic => mkSettings a1 a2 a3 a4 (asB v a5) a6 a7 a8 a9 a10 b1 b2 b3 c1 c2 c3 d1 d2 d3 e1 e2 e3 g1 g2
  | FCodeActions => mkSettings a1 a2 a3 a4 a5 (asB v a6) a7 a8 a9 a10 b1 b2 b3 c1 c2 c3 d1 d2 d3 e1 e2 e3 g1 g2
  | FFolding => mkSettings a1 a2 a3 a4 a5 a6 (asB v a7) a8 a9 a10 b1 b2 b3 c1 c2 c3 d1 d2 d3 e1 e2 e3 g1 g2
  | FLinks => mkSettings a1 a2 a3 a4 a5 a6 a7 (asB v a8) a9 a10 b1 b2 b3 c1 c2 c3 d1 d2 d3 e1 e2 e3 g1 g2
  | FWsSymbol => mkSettings a1 a2 a3 a4 a5 a6 a7 a8 (asB v a9) a10 b1 b2 b3 c1 c2 c3 d1 d2 d3 e1 e2 e3 g1 g2
  | FInline => mkSettings a1 a2 a3 a4 a5 a6 a7 a8 a9 (asB v a10) b1 b2 b3 c1 c2 c3 d1 d2 d3 e1 e2 e3 g1 g2
  | CMax => mkSettings a1 a2 a3 a4 a5 a6 a7 a8 a9 a10 (asZ v b1) b2 b3 c1 c2 c3 d1 d2 d3 e1 e2 e3 g1 g2
  | CFuzzy => mkSettings a1 a2 a3 a4 a5 a6 a7 a8 a9 a10 b1 (asB v b2) b3 c1 c2 c3 d1 d2 d3 e1 e2 e3 g1 g2
  | CCounts => mkSettings a1 a2 a3 a4 a5 a6 a7 a8 a9 a10 b1 b2 (asB v b3) c1 c2 c3 d1 d2 d3 e1 e2 e3 g1 g2
  | DAccounts => mkSettings a1 a2 a3 a4 a5 a6 a7 a8 a9 a10 b1 b2 b3 (asB v c1) c2 c3 d1 d2 d3 e1 e2 e3 g1 g2
  | DCommodities => mkSettings a1 a2 a3 a4 a5 a6 a7 a8 a9 a10 b1 b2 b3 c1 (asB v c2) c3 d1 d2 d3 e1 e2 e3 g1 g2
  | DUnbalanced => mkSettings a1 a2 a3 a4 a5 a6 a7 a8 a9 a10 b1 b2 b3 c1 c2 (asB v c3) d1 d2 d3 e1 e2 e3 g1 g2
  | FmtIndent => mkSettings a1 a2 a3 a4 a5 a6 a7 a8 a9 a10 b1 b2 b3 c1 c2 c3 (asZ v d1) d2 d3 e1 e2 e3 g1 g2
  | FmtAlign => mkSettings a1 a2 a3 a4 a5 a6 a7 a8 a9 a10 b1 b2 b3 c1 c2 c3 d1 (asB v d2) d3 e1 e2 e3 g1 g2
  | FmtMinCol => mkSettings a1 a2 a3 a4 a5 a6 a7 a8 a9 a10 b1 b2 b3 c1 c2 c3 d1 d2 (asZ v d3) e1 e2 e3 g1 g2
  | CliEnabled => mkSettings a1 a2 a3 a4 a5 a6 a7 a8 a9 a10 b1 b2 b3 c1 c2 c3 d1 d2 d3 (asB v e1) e2 e3 g1 g2
  | CliPath => mkSettings a1 a2 a3 a4 a5 a6 a7 a8 a9 a10 b1 b2 b3 c1 c2 c3 d1 d2 d3 e1 (asS v e2) e3 g1 g2
  | CliTimeout => mkSettings a1 a2 a3 a4 a5 a6 a7 a8 a9 a10 b1 b2 b3 c1 c2 c3 d1 d2 d3 e1 e2 (asZ v e3) g1 g2
  | LimSize => mkSettings a1 a2 a3 a4 a5 a6 a7 a8 a9 a10 b1 b2 b3 c1 c2 c3 d1 d2 d3 e1 e2 e3 (asZ v g1) g2
  | LimDepth => mkSettings a1 a2 a3 a4 a5 a6 a7 a8 a9 a10 b1 b2 b3 c1 c2 c3 d1 d2 d3 e1 e2 e3 g1 (asZ v g2)
  end.

Definition settings_eqb (a b : settings) : bool :=
  forallb (fun f => sval_eqb (get f a) (get f b)) all_fields.

(* ---- conversions ---- *)
Definition is_ascii_space (c : N) : bool :=
  ((9 <=? c) && (c <=? 13))%N || (c =? 32)%N.

Fixpoint trim_left (s : list N) : list N :=
  match s with
  | c :: r => if is_ascii_space c then trim_left r else s
  | [] => []
  end.
(* strings.TrimSpace restricted to ASCII white space (the generator emits no non-ASCII
   white space; stated in DESIGN.md) *)
Definition trim_space (s : list N) : list N := rev (trim_left (rev (trim_left s))).

Definition lower_byte (c : N) : N := if ((65 <=? c) && (c <=? 90))%N then (c + 32)%N else c.
Definition to_lower (s : list N) : list N := map lower_byte s.

Definition s_true : list N := [116;114;117;101]%N.
Definition s_false : list N := [102;97;108;115;101]%N.

Definition to_bool (j : json) : option bool :=
  match j with
  | JBool v => Some v
  | JStr s =>
      let v := trim_space (to_lower s) in
      if beq v s_true then Some true else if beq v s_false then Some false else None
  | _ => None
  end.

Definition is_digit (c : N) : bool := ((48 <=? c) && (c <=? 57))%N.

Fixpoint digits_val (s : list N) (acc : Z) : option Z :=
  match s with
  | [] => Some acc
  | c :: r => if is_digit c then digits_val r (acc * 10 + Z.of_N (c - 48)) else None
  end.

Definition int64_min : Z := - 2 ^ 63.
Definition int64_max : Z := 2 ^ 63 - 1.

(* strconv.Atoi / ParseInt(s, 10, 64): optional sign, at least one digit, range checked *)
Definition atoi (s : list N) : option Z :=
  let '(neg, ds) :=
    match s with
    | 43%N :: r => (false, r)
    | 45%N :: r => (true, r)
    | _ => (false, s)
    end in
  match ds with
  | [] => None
  | _ =>
      match digits_val ds 0 with
      | Some v =>
          let z := if (neg : bool) then - v else v in
          if (int64_min <=? z) && (z <=? int64_max) then Some z else None
      | None => None
      end
  end.

(* int(v) for a float64 v: truncation toward zero (|v| < 2^63; outside it Go is
   implementation-defined and the generator stays inside) *)
Definition to_int (j : json) : option Z :=
  match j with
  | JNum n d => Some (Z.quot n (Zpos d))
  | JStr s =>
      let v := trim_space s in
      match v with
      | [] => None
      | _ => atoi v
      end
  | _ => None
  end.

Definition to_string (j : json) : option (list N) :=
  match j with JStr s => Some s | _ => None end.

Definition wrap64 (z : Z) : Z := (z + 2 ^ 63) mod 2 ^ 64 - 2 ^ 63.

Inductive kind := KBool | KInt | KStr | KDur.

Definition conv (k : kind) (j : json) : option sval :=
  match k with
  | KBool => option_map VB (to_bool j)
  | KInt => option_map VZ (to_int j)
  | KStr => option_map VS (to_string j)
  | KDur => option_map (fun v => VZ (wrap64 (v * 1000000))) (to_int j)
  end.

(* ---- the assignment table, in the order applySettingsMap executes it ---- *)
Inductive source :=
| Nested (section name : list N)        (* raw[section].(map)[name] *)
| Dotted (key : list N).                (* raw["section.name"] *)

Definition jget (k : list N) (o : list (list N * json)) : json :=
  match alookup_last k o with Some v => v | None => JNull end.

Definition read_source (src : source) (raw : list (list N * json)) : json :=
  match src with
  | Nested sec name =>
      match jget sec raw with
      | JObj o => jget name o
      | _ => JNull
      end
  | Dotted key => jget key raw
  end.

Definition dot (a c : list N) : list N := a ++ [46%N] ++ c.

Definition entry := (source * kind * field)%type.

Definition section_entries (sec : list N) (names : list (list N * kind * field)) : list entry :=
  map (fun '(n, k, f) => (Nested sec n, k, f)) names ++
  map (fun '(n, k, f) => (Dotted (dot sec n), k, f)) names.

Definition table : list entry :=
  section_entries (bs "features")
    [ (bs "hover", KBool, FHover); (bs "completion", KBool, FCompletion);
      (bs "formatting", KBool, FFormatting); (bs "diagnostics", KBool, FDiagnostics);
      (bs "semanticTokens", KBool, FSemantic); (bs "codeActions", KBool, FCodeActions);
      (bs "foldingRanges", KBool, FFolding); (bs "documentLinks", KBool, FLinks);
      (bs "workspaceSymbol", KBool, FWsSymbol); (bs "inlineCompletion", KBool, FInline) ] ++
  section_entries (bs "completion")
    [ (bs "maxResults", KInt, CMax); (bs "fuzzyMatching", KBool, CFuzzy); (bs "showCounts", KBool, CCounts) ] ++
  section_entries (bs "diagnostics")
    [ (bs "undeclaredAccounts", KBool, DAccounts); (bs "undeclaredCommodities", KBool, DCommodities);
      (bs "unbalancedTransactions", KBool, DUnbalanced) ] ++
  section_entries (bs "formatting")
    [ (bs "indentSize", KInt, FmtIndent); (bs "alignAmounts", KBool, FmtAlign);
      (bs "minAlignmentColumn", KInt, FmtMinCol) ] ++
  section_entries (bs "cli")
    [ (bs "enabled", KBool, CliEnabled); (bs "path", KStr, CliPath); (bs "timeout", KDur, CliTimeout) ] ++
  section_entries (bs "limits")
    [ (bs "maxFileSizeBytes", KInt, LimSize); (bs "maxFileSize", KInt, LimSize);
      (bs "maxIncludeDepth", KInt, LimDepth) ].

Definition apply_entry (raw : list (list N * json)) (s : settings) (e : entry) : settings :=
  let '(src, k, f) := e in
  match conv k (read_source src raw) with
  | Some v => set f v s
  | None => s
  end.

Definition apply_settings_map (s : settings) (raw : list (list N * json)) : settings :=
  fold_left (apply_entry raw) table s.

Definition normalize (s : settings) : settings :=
  let s := if c_max s <=? 0 then set CMax (VZ (c_max default_settings)) s else s in
  let s := if fmt_indent s <=? 0 then set FmtIndent (VZ (fmt_indent default_settings)) s else s in
  let s := match cli_path s with [] => set CliPath (VS (cli_path default_settings)) s | _ => s end in
  let s := if cli_timeout s <=? 0 then set CliTimeout (VZ (cli_timeout default_settings)) s else s in
  let s := if lim_size s <=? 0 then set LimSize (VZ (lim_size default_settings)) s else s in
  let s := if lim_depth s <=? 0 then set LimDepth (VZ (lim_depth default_settings)) s else s in
  s.

(* parseSettingsFromRaw: recursion on the "hledger" wrapper.  Structural on the json value
   would need a nested fixpoint; the depth of the value bounds it, so fuel = depth. *)
Fixpoint parse_fuel (fuel : nat) (base : settings) (raw : json) : option settings :=
  match raw with
  | JObj o =>
      match alookup_last (bs "hledger") o with
      | Some nested =>
          match fuel with
          | O => None                      (* out of fuel; excluded by parse_fuel_enough *)
          | S f => parse_fuel f base nested
          end
      | None => Some (normalize (apply_settings_map base o))
      end
  | _ => Some (normalize base)
  end.

Fixpoint jdepth (j : json) : nat :=
  match j with
  | JObj o => S (fold_right (fun kv acc => Nat.max (jdepth (snd kv)) acc) O o)
  | JArr l => S (fold_right (fun v acc => Nat.max (jdepth v) acc) O l)
  | _ => O
  end.

Definition parse_settings (base : settings) (raw : json) : settings :=
  match parse_fuel (jdepth raw) base raw with Some s => s | None => base end.

(* the server: NewServer sets normalize defaults; Initialize and every completed
   refreshConfiguration replace settings by parse (current) payload; setSettings normalises again *)
Definition init_settings : settings := normalize default_settings.
Definition cfg_step (s : settings) (payload : json) : settings :=
  normalize (parse_settings s payload).
Definition cfg_run (payloads : list json) : settings := fold_left cfg_step payloads init_settings.
