(* Model of internal/analyzer/balance.go (CheckBalance and helpers) and of the verdict part of
   createBalanceDiagnostic in analyzer.go. *)
From HL Require Import Lib.Bytes Model.Ast Lib.Dec.
Open Scope Z_scope.

Definition is_real (p : posting) : bool :=
  match po_virtual p with VUnbalanced => false | _ => true end.
Definition real_postings (ps : list posting) : list posting := filter is_real ps.

(* countInferredPostings: (count, index of the last one) *)
Fixpoint count_inferred_from (i : Z) (ps : list posting) (cnt last : Z) : Z * Z :=
  match ps with
  | [] => (cnt, last)
  | p :: r =>
      match po_amount p with
      | None => count_inferred_from (i + 1) r (cnt + 1) i
      | Some _ => count_inferred_from (i + 1) r cnt last
      end
  end.
Definition count_inferred (ps : list posting) : Z * Z := count_inferred_from 0 ps 0 (-1).

(* what one posting adds to the per-commodity sums *)
Definition effective (p : posting) : option (list N * dec) :=
  match po_amount p with
  | None => None
  | Some a =>
      match po_cost p with
      | Some c =>
          let q := if co_total c then a_qty (co_amt c) else dmul (a_qty (co_amt c)) (dabs (a_qty a)) in
          let q := if dis_neg (a_qty a) then dneg q else q in
          Some (c_sym (a_com (co_amt c)), q)
      | None => Some (c_sym (a_com a), a_qty a)
      end
  end.

(* balances[k] = balances[k].Add(q) on an association list (insertion order kept) *)
Fixpoint bal_add (k : list N) (q : dec) (m : list (list N * dec)) : list (list N * dec) :=
  match m with
  | [] => [(k, dadd dzero q)]
  | (k', v) :: r => if beq k k' then (k', dadd v q) :: r else (k', v) :: bal_add k q r
  end.

Definition sum_step (m : list (list N * dec)) (p : posting) : list (list N * dec) :=
  match effective p with Some (k, q) => bal_add k q m | None => m end.
Definition sum_by_commodity (ps : list posting) : list (list N * dec) := fold_left sum_step ps [].

Record bresult := mkB { balanced : bool; inferred_idx : Z; differences : list (list N * dec) }.

Definition check_balance (ps : list posting) : bresult :=
  let real := real_postings ps in
  let '(cnt, idx) := count_inferred real in
  if 1 <? cnt then mkB false (-1) []
  else if cnt =? 1 then mkB true idx []
  else
    let diffs := flat_map (fun kv => if dis_zero (snd kv) then [] else [(fst kv, dabs (snd kv))])
                          (sum_by_commodity real) in
    mkB (match diffs with [] => true | _ => false end) idx diffs.

Inductive bverdict := BOk | BUnbalanced (parts : list (list N * dec)) | BMultiple.

(* analyzeInternal + createBalanceDiagnostic: which diagnostic a transaction gets *)
Definition balance_verdict (ps : list posting) : bverdict :=
  let r := check_balance ps in
  if balanced r then BOk
  else if (inferred_idx r =? -1) && match differences r with [] => true | _ => false end then BMultiple
  else BUnbalanced (differences r).
