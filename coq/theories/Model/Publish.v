(* Model of background diagnostics publishing in internal/server/server.go:
   DidOpen/DidChange store the text and start a task (uri, snapshot); a task that reaches its
   publish point takes the publish lock and publishes diag(snapshot) unless the stored text
   is no longer its snapshot (publishIfCurrent).  Granularity: the publish point.
   Texts and diagnostics are abstract (N identifiers; diag is a parameter). *)
From HL Require Import Lib.Bytes.
Open Scope N_scope.

Section Publish.
Variable diag : N -> N.                    (* diagnostics of a content *)

Inductive pevent :=
| PChange (uri : N) (content : N)          (* didOpen or didChange: new text, new task *)
| PComplete (i : nat)                      (* the i-th pending task reaches its publish point *)
| PClose (uri : N).

Record pstate := mkP {
  pdocs : list (N * N);                    (* open documents: uri -> content *)
  pending : list (N * N);                  (* tasks in arrival order: (uri, snapshot) *)
  published : list (N * N)                 (* publishDiagnostics calls, oldest first: (uri, diagnostics) *)
}.

Fixpoint plookup (u : N) (d : list (N * N)) : option N :=
  match d with
  | [] => None
  | (u', c) :: r => if u =? u' then Some c else plookup u r
  end.

Fixpoint premove (u : N) (d : list (N * N)) : list (N * N) :=
  match d with
  | [] => []
  | (u', c) :: r => if u =? u' then premove u r else (u', c) :: premove u r
  end.

Fixpoint remove_nth {A} (i : nat) (l : list A) : list A :=
  match l, i with
  | [], _ => []
  | _ :: r, O => r
  | x :: r, S j => x :: remove_nth j r
  end.

Definition is_current (st : pstate) (u c : N) : bool :=
  match plookup u (pdocs st) with Some c' => c =? c' | None => false end.

(* guarded = the code after the fix; unguarded = the code before it (kept for the refutation) *)
Definition pstep (guarded : bool) (st : pstate) (e : pevent) : pstate :=
  match e with
  | PChange u c => mkP ((u, c) :: premove u (pdocs st)) (pending st ++ [(u, c)]) (published st)
  | PComplete i =>
      match nth_error (pending st) i with
      | None => st
      | Some (u, c) =>
          let pend := remove_nth i (pending st) in
          if negb guarded || is_current st u c
          then mkP (pdocs st) pend (published st ++ [(u, diag c)])
          else mkP (pdocs st) pend (published st)
      end
  | PClose u => mkP (premove u (pdocs st)) (pending st) (published st)
  end.

Definition pinit : pstate := mkP [] [] [].
Definition prun (guarded : bool) (tr : list pevent) : pstate := fold_left (pstep guarded) tr pinit.

(* last diagnostics published for u *)
Fixpoint last_pub (u : N) (l : list (N * N)) : option N :=
  match l with
  | [] => None
  | (u', d) :: r =>
      match last_pub u r with
      | Some d' => Some d'
      | None => if u =? u' then Some d else None
      end
  end.

Definition quiescent (st : pstate) : Prop := pending st = [].

(* C13: at quiescence the last diagnostics published for every open document are those of
   its current content *)
Definition converged (st : pstate) : Prop :=
  forall u c, plookup u (pdocs st) = Some c -> last_pub u (published st) = Some (diag c).

End Publish.
