(* Model of the undeclared-account / undeclared-commodity checks of internal/analyzer/analyzer.go
   (isAccountDeclared, checkUndeclaredAccounts, checkUndeclaredCommodities, the merge of
   external declarations in analyzeInternal) and of shouldIncludeDiagnostic in server.go. *)
From HL Require Import Lib.Bytes Model.Ast Model.Settings.
Open Scope N_scope.

Definition COLON : N := 58.

Fixpoint take_until_colon (s : list N) : list N :=
  match s with
  | [] => []
  | c :: r => if c =? COLON then [] else c :: take_until_colon r
  end.

Definition predefined : list (list N) :=
  [bs "assets"; bs "liabilities"; bs "equity"; bs "expenses"; bs "revenues"; bs "income"].

Fixpoint has_prefix (p s : list N) : bool :=
  match p, s with
  | [], _ => true
  | x :: p', y :: s' => (x =? y) && has_prefix p' s'
  | _ :: _, [] => false
  end.

Definition mem_bytes (x : list N) (l : list (list N)) : bool := existsb (beq x) l.

Definition is_account_declared (name : list N) (declared : list (list N)) : bool :=
  mem_bytes (take_until_colon (to_lower name)) predefined ||
  mem_bytes name declared ||
  existsb (fun d => has_prefix (d ++ [COLON]) name) declared.

Definition declared_accounts (j : journal) : list (list N) :=
  flat_map (fun d => match d with DAccount n _ _ _ _ _ => [n] | _ => [] end) (j_dirs j).
Definition declared_commodities (j : journal) : list (list N) :=
  flat_map (fun d => match d with DCommodity c _ _ _ _ => [c_sym c] | _ => [] end) (j_dirs j).

(* the postings of a transaction that get an UNDECLARED_ACCOUNT warning *)
Definition undeclared_postings (tx : transaction) (declared : list (list N)) : list posting :=
  filter (fun p => negb (is_account_declared (po_acct p) declared)) (tx_postings tx).

(* symbols in the order checkUndeclaredCommodities visits them *)
Definition tx_symbols (tx : transaction) : list (list N) :=
  flat_map (fun p =>
    (match po_amount p with Some a => [c_sym (a_com a)] | None => [] end) ++
    (match po_cost p with Some c => [c_sym (a_com (co_amt c))] | None => [] end) ++
    (match po_assert p with Some b => [c_sym (a_com (as_amt b))] | None => [] end)) (tx_postings tx).

Fixpoint warn_symbols (syms : list (list N)) (declared seen : list (list N)) : list (list N) :=
  match syms with
  | [] => []
  | s :: r =>
      if negb (beq s []) && negb (mem_bytes s declared) && negb (mem_bytes s seen)
      then s :: warn_symbols r declared (s :: seen)
      else warn_symbols r declared seen
  end.
Definition undeclared_commodities (tx : transaction) (declared : list (list N)) : list (list N) :=
  warn_symbols (tx_symbols tx) declared [].

(* analyzeInternal: the check runs only when the (merged) declared set is non-empty *)
Inductive wdiag := WAccount (tx_index : nat) (acct : list N) | WCommodity (tx_index : nat) (sym : list N).

Definition warnings_tx (i : nat) (tx : transaction) (dacc dcom : list (list N)) : list wdiag :=
  (match dacc with [] => [] | _ => map (fun p => WAccount i (po_acct p)) (undeclared_postings tx dacc) end) ++
  (match dcom with [] => [] | _ => map (WCommodity i) (undeclared_commodities tx dcom) end).

Fixpoint warnings_from (i : nat) (txs : list transaction) (dacc dcom : list (list N)) : list wdiag :=
  match txs with
  | [] => []
  | tx :: r => warnings_tx i tx dacc dcom ++ warnings_from (S i) r dacc dcom
  end.

(* Server.analyze: own declarations merged with the workspace's (when a workspace exists);
   then shouldIncludeDiagnostic *)
Definition analyze_warnings (j : journal) (ext_acc ext_com : list (list N)) (s : settings) : list wdiag :=
  filter (fun w => match w with WAccount _ _ => d_accounts s | WCommodity _ _ => d_commodities s end)
         (warnings_from 0 (j_txs j) (declared_accounts j ++ ext_acc) (declared_commodities j ++ ext_com)).
