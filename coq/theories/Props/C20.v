(* C20  Hover figures are exact aggregates. *)
From Coq Require Import QArith.
From HL Require Import Lib.Bytes Model.Ast Lib.Dec Model.Balance Model.Hover Proofs.BalanceProofs Proofs.HoverProofs.

(* per (account, commodity) the figure is the exact rational sum of the amounts explicitly
   posted to that account, for every transaction list *)
Theorem C20_sum : forall name sym txs,
  lookup_val sym (acct_balances name txs) == qposted name sym (all_postings txs).
Proof. exact hover_sum_exact. Qed.
Print Assumptions C20_sum.

(* aggregation over primary file + included files is additive: each file contributes exactly
   its own sum, once per occurrence in FileOrder *)
Theorem C20_tree_additive : forall name sym primary files,
  lookup_val sym (acct_balances name (all_transactions primary files)) ==
  (qposted name sym (all_postings primary) + qposted name sym (all_postings (List.concat files)))%Q.
Proof. exact hover_sum_tree. Qed.
Print Assumptions C20_tree_additive.

Theorem C20_counts_postings : forall name a b,
  count_postings name (a ++ b) = (count_postings name a + count_postings name b)%nat.
Proof. exact count_postings_app. Qed.
Print Assumptions C20_counts_postings.

Theorem C20_counts_payee : forall payee a b,
  count_payee payee (a ++ b) = (count_payee payee a + count_payee payee b)%nat.
Proof. exact count_payee_app. Qed.
Print Assumptions C20_counts_payee.

Theorem C20_counts_tag : forall name a b, count_tag name (a ++ b) = (count_tag name a + count_tag name b)%nat.
Proof. exact count_tag_app. Qed.
Print Assumptions C20_counts_tag.

(* Consequence used by the known finding: a file that occurs twice in FileOrder is summed
   twice, a file missing from it is not summed: the figure is exact for the list, so the
   tree clause stands or falls with the loader (C10/C11). *)
