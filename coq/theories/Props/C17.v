(* C17  Semantic tokens: deltas reconstruct the full result; a range answer is the full
   answer restricted to the lines.  (The geometry of individual tokens depends on the lexer;
   see the level note.) *)
From HL Require Import Lib.Bytes Model.Lexer Model.Parser Model.Semantic Model.SemTokens Proofs.LexerColumns Proofs.SemanticProofs Proofs.SemTokensProofs.
Open Scope N_scope.

(* For every tokenizer, every history of opens, edits, closes, full / range / delta requests
   on any number of documents, and a final full or delta request quoting ANY previous id
   (current, stale, another document's, unknown): the client ends up holding exactly the
   encoded tokens of the current text. *)
Theorem C17_delta : forall toks empty h r u,
  (r = SFull u \/ exists p, r = SDelta u p) ->
  let '(s, cl) := run toks empty sinit [] h in
  forall c, slookup u (sdocs s) = Some c -> empty c = false ->
    let '(s', resp) := sstep toks empty s r in
    believed (cstep cl r resp) resp = Some (encode (toks c)).
Proof. exact delta_reconstructs. Qed.
Print Assumptions C17_delta.

(* the cache invariant holds in every reachable state *)
Theorem C17_cache_invariant : forall toks empty h,
  dinv (fst (run toks empty sinit [] h)) (snd (run toks empty sinit [] h)).
Proof. intros. apply run_inv. apply dinv_init. Qed.
Print Assumptions C17_cache_invariant.

(* decoding what the server encodes gives back the tokens, for every position-sorted list *)
Theorem C17_decode_encode : forall l, sorted_from 0 0 l -> decode (encode l) = l.
Proof. exact decode_encode. Qed.
Print Assumptions C17_decode_encode.

Theorem C17_range : forall l sl el, sorted_from 0 0 l ->
  decode (encode (filter_range l sl el)) = filter_range (decode (encode l)) sl el.
Proof. exact range_is_filtered_full. Qed.
Print Assumptions C17_range.

(* The tokenizer itself (tokenizeForSemantics with its tag extraction, transcribed on top of the lexer
   model and tied to the implementation's full answer on every content of every run): for EVERY byte
   string, every token it produces has a type of the 13-entry legend and a non-zero length. *)
Theorem C17_every_token_in_legend_and_nonempty : forall text,
  Forall (fun t => t_type t < 13 /\ 0 < t_len t) (sem_tokens text).
Proof. exact sem_tokens_fine. Qed.
Print Assumptions C17_every_token_in_legend_and_nonempty.

(* ... and for EVERY byte string every token that is not a tag / tag-value token (those are cut out of a
   comment by text search) starts exactly where a token of the lexer starts: at a place of the text
   whose line, UTF-16 column and byte offset agree, on a rune boundary (tok_ok, C08) -- a semantic
   token never starts inside a surrogate pair or past the end of its line. *)
Theorem C17_tokens_start_at_lexemes : forall text toks, lex text = Some toks ->
  Forall (fun x => (t_type x = 5 \/ t_type x = 12) \/
                   exists k, In k toks /\ tok_ok text k /\
                             t_line x = tp_line (tk_pos k) - 1 /\ t_col x = tp_col (tk_pos k) - 1)
         (sem_tokens text).
Proof. exact sem_tokens_start_at_lexer_tokens. Qed.
Print Assumptions C17_tokens_start_at_lexemes.

(* ... and for EVERY byte string EVERY token sits on the line of a token of the lexer whose start is a
   place of the text: at that start, or -- the tag and tag-value tokens cut out of a comment -- on the
   comment's line behind its semicolon.  No semantic token is on a line the text does not have. *)
Theorem C17_every_token_is_placed : forall text toks, lex text = Some toks ->
  Forall (fun x => exists k, In k toks /\ tok_ok text k /\
            ((t_line x = tp_line (tk_pos k) - 1 /\ t_col x = tp_col (tk_pos k) - 1) \/
             (is_ty (tk_type k) TComment = true /\ t_line x = tp_line (tk_pos k) - 1 /\ tp_col (tk_pos k) - 1 < t_col x)))
         (sem_tokens text).
Proof. exact sem_tokens_place. Qed.
Print Assumptions C17_every_token_is_placed.

(* non-vacuity: a header with a comment whose tag name is Cyrillic; the tag token has the UTF-16
   length of the name plus the colon (4), the value token starts right behind it *)
Example C17_tokenizer_sample :
  encode (sem_tokens (hx "323032342d30312d3031207820203b20d182d0b5d0b33ad0b70a")) =
  [0;0;10;3;0; 0;11;1;2;0; 0;5;4;5;0; 0;4;1;12;0].
Proof. vm_compute. reflexivity. Qed.

(* non-vacuity *)
Example C17_example :
  let l := [mkTok 0 0 10 1 0; mkTok 0 11 5 3 0; mkTok 2 4 7 2 1] in
  sorted_from 0 0 l /\ encode l = [0;0;10;1;0; 0;11;5;3;0; 2;4;7;2;1] /\
  filter_range l 1 2 = [mkTok 2 4 7 2 1].
Proof. unfold two32. cbn. repeat split; try lia; auto. Qed.
