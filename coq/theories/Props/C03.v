(* C03  Supported journals parse silently and faithfully.
   Full statement (DESIGN.md 5): for every journal of G and every layout, parsing its text
   yields no syntax error and the structure it was printed from.  It is false of the parser
   model (which equals the real parser on every generated input of the tie, full AST and error
   positions); one machine-checked witness per known class. *)
From HL Require Import Lib.Bytes Model.Ast Lib.Dec Model.Lexer Model.Parser Spec.Grammar Proofs.C03Proofs Proofs.LexerProofs.
From HL Require Import Proofs.ParserProofs.
Open Scope N_scope.

Theorem C03_baseline_is_faithful :
  faithful (bs "2024-01-01 grocery store" ++ nl ++ body) (one_tx (tx_with "grocery store" two)) = true.
Proof. exact baseline_ok. Qed.
Print Assumptions C03_baseline_is_faithful.

Theorem C03_refuted_desc_first_word_upper : faithful (bs "2024-01-01 ATM" ++ nl ++ body) (one_tx (tx_with "ATM" two)) = false.
Proof. exact desc_upper. Qed.
Print Assumptions C03_refuted_desc_first_word_upper.
Theorem C03_refuted_desc_leading_digit : faithful (bs "2024-01-01 7eleven" ++ nl ++ body) (one_tx (tx_with "7eleven" two)) = false.
Proof. exact desc_digit. Qed.
Print Assumptions C03_refuted_desc_leading_digit.
Theorem C03_refuted_desc_colon_word : faithful (bs "2024-01-01 foo: bar" ++ nl ++ body) (one_tx (tx_with "foo: bar" two)) = false.
Proof. exact desc_colon. Qed.
Print Assumptions C03_refuted_desc_colon_word.
Theorem C03_refuted_desc_leading_sigil : faithful (bs "2024-01-01 $5 lunch" ++ nl ++ body) (one_tx (tx_with "$5 lunch" two)) = false.
Proof. exact desc_sigil. Qed.
Print Assumptions C03_refuted_desc_leading_sigil.
Theorem C03_refuted_crlf :
  faithful (bs "2024-01-01 shop" ++ [13; 10] ++ bs "    a:b  1 USD" ++ [13; 10] ++ bs "    c:d  -1 USD" ++ [13; 10])
           (one_tx (tx_with "shop" two)) = false.
Proof. exact crlf. Qed.
Print Assumptions C03_refuted_crlf.
Theorem C03_refuted_tab_separator :
  faithful (bs "2024-01-01 shop" ++ nl ++ bs "    a:b" ++ [9] ++ bs "1 USD" ++ nl ++ bs "    c:d  -1 USD" ++ nl)
           (one_tx (tx_with "shop" two)) = false.
Proof. exact tab_separator. Qed.
Print Assumptions C03_refuted_tab_separator.
Theorem C03_refuted_tx_comment_line :
  faithful (bs "2024-01-01 shop" ++ nl ++ bs "    ; b:2" ++ nl ++ body)
           (one_tx (mkIT (2024, 1, 1)%Z None StNone [] (bs "shop") [] [] [bs "b:2"] two)) = false.
Proof. exact tx_comment_line. Qed.
Print Assumptions C03_refuted_tx_comment_line.
Theorem C03_refuted_code_with_colon :
  faithful (bs "2024-01-01 (a:1) shop" ++ nl ++ body)
           (one_tx (mkIT (2024, 1, 1)%Z None StNone (bs "a:1") (bs "shop") [] [] [] two)) = false.
Proof. exact code_colon. Qed.
Print Assumptions C03_refuted_code_with_colon.

(* what holds for every input: lexing terminates (C06) hence parsing is only ever short of
   parser fuel, which the tie never observed; a number without marks is read as written *)
Theorem C03_lex_total : forall input : list N, lex input <> None.
Proof. exact lex_total. Qed.
Print Assumptions C03_lex_total.
Theorem C03_plain_numbers_kept : forall s, count_byte 46 s = O -> count_byte 44 s = O -> normalize_number s = s.
Proof. exact normalize_plain. Qed.
Print Assumptions C03_plain_numbers_kept.

(* every text, supported or not, is parsed to some journal: the parser never runs out of fuel *)
Theorem C03_parse_total : forall input : list N, parse input <> None.
Proof. exact parse_total. Qed.
Print Assumptions C03_parse_total.
