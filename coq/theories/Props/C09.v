(* C09  References and rename hit exactly the symbol's occurrences, in the right files. *)
From HL Require Import Lib.Bytes Model.Ast Model.References Proofs.ReferencesProofs.
Open Scope Z_scope.

(* For every set of consulted journals, every symbol kind and name: the answer is exactly the
   set of occurrences (declarations when asked), each attributed to the path its journal is
   filed under; sorting and de-duplication lose and invent nothing. *)
Theorem C09_references_exact : forall k name incl m x,
  In x (find_references k name incl m) <->
  exists p j, In (p, j) m /\ In (l_rng x) (hits k name incl j) /\ l_path x = p.
Proof. exact references_exact. Qed.
Print Assumptions C09_references_exact.

Theorem C09_sort_dedup_is_identity_on_sets : forall x l, In x (sort_dedup l) <-> In x l.
Proof. exact sort_dedup_in. Qed.
Print Assumptions C09_sort_dedup_is_identity_on_sets.

(* Which journals are consulted, and under which path ("each attributed to the file that contains
   it, whichever file of the tree the request is made from"): given the resolved tree -- its primary
   parsed from file pp, the other files in `files` -- every pair consulted is the requesting
   document, the primary under pp, or a file of the tree under its own path ... *)
Theorem C09_consulted_journals_own_paths : forall files pj pp current cj p j,
  In (p, j) (all_journals files (Some pj) true pp current cj) ->
  (p = current /\ (j = cj \/ (pp = current /\ j = pj))) \/ (p = pp /\ j = pj) \/ In (p, j) files.
Proof. exact consulted_journals_own_paths. Qed.
Print Assumptions C09_consulted_journals_own_paths.

(* ... and every file of the tree other than the requesting document is consulted *)
Theorem C09_tree_files_are_consulted : forall files pj pp current cj p j,
  (p = pp /\ j = pj) \/ In (p, j) files -> p <> current ->
  (pp <> current -> ~ In pp (map fst files)) ->
  In (p, j) (all_journals files (Some pj) true pp current cj).
Proof. exact tree_files_are_consulted. Qed.
Print Assumptions C09_tree_files_are_consulted.

(* exact characterisations of the two situations *)
Theorem C09_journals_request_from_primary : forall files pj current cj p j,
  In (p, j) (all_journals files (Some pj) true current current cj) <->
  (p = current /\ j = pj) \/ (p <> current /\ In (p, j) files).
Proof. exact all_journals_from_primary. Qed.
Print Assumptions C09_journals_request_from_primary.

Theorem C09_journals_request_from_include : forall files pj pp current cj p j, pp <> current ->
  In (p, j) (all_journals files (Some pj) true pp current cj) <->
  (p = current /\ j = cj) \/ (p = pp /\ j = pj) \/ (p <> current /\ p <> pp /\ In (p, j) files).
Proof. exact all_journals_from_elsewhere. Qed.
Print Assumptions C09_journals_request_from_include.

(* non-vacuity, and the history that used to fail (the root's occurrence was filed under the
   requesting file's path and that file's own occurrence was lost): main (path 3) includes sub
   (path 1), both post to a:b, references requested from sub *)
Theorem C09_sample_request_from_include :
  find_references KAccount (bs "a:b") true (all_journals [(1%N, sub_ast)] (Some root_ast) true 3%N 1%N sub_ast)
  = [mkLoc 1 (mkPR 1 4 1 7); mkLoc 3 (mkPR 2 4 2 7)].
Proof. exact from_include_sample. Qed.
Print Assumptions C09_sample_request_from_include.
