(* C09  References and rename hit exactly the symbol's occurrences, in the right files. *)
From HL Require Import Lib.Bytes Model.Ast Model.References Proofs.ReferencesProofs.
Open Scope Z_scope.

(* For every set of consulted journals, every symbol kind and name: the answer is exactly the
   set of occurrences (declarations when asked), each attributed to the path its journal is
   filed under; sorting and de-duplication lose and invent nothing. *)
Theorem C09_references_exact : forall k name incl m x,
  In x (find_references k name incl m) <->
  exists p j, In (p, j) m /\ In (l_rng x) (hits k name incl j) /\ l_path x = p.
Proof. exact references_exact. Qed.
Print Assumptions C09_references_exact.

Theorem C09_sort_dedup_is_identity_on_sets : forall x l, In x (sort_dedup l) <-> In x l.
Proof. exact sort_dedup_in. Qed.
Print Assumptions C09_sort_dedup_is_identity_on_sets.

(* C09_partial: when the resolved journal's primary is the requesting document itself (requests
   from the root, or without a workspace), every file is consulted under its own path *)
Theorem C09_partial_journals_own_paths : forall files pj current cj p j,
  In (p, j) (all_journals files (Some pj) true current cj) <->
  (p = current /\ j = pj) \/ (p <> current /\ In (p, j) files).
Proof. exact all_journals_from_primary. Qed.
Print Assumptions C09_partial_journals_own_paths.

(* the full statement ("whichever file of the tree the request is made from") is false: in
   workspace mode a request from an included file files the ROOT's AST under the requesting
   file's path and loses that file's own occurrences *)
Theorem C09_refuted_request_from_include :
  find_references KAccount (bs "a:b") true (all_journals [(1%N, sub_ast)] (Some root_ast) true 1%N sub_ast)
  = [mkLoc 1 (mkPR 2 4 2 7)]
  /\ find_references KAccount (bs "a:b") true [(1%N, sub_ast); (3%N, root_ast)]
     = [mkLoc 1 (mkPR 1 4 1 7); mkLoc 3 (mkPR 2 4 2 7)].
Proof. exact from_include_refuted. Qed.
Print Assumptions C09_refuted_request_from_include.
