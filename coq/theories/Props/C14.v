(* C14  Background work never races with, blocks or corrupts later requests.
   Partly a run-time property (Go scheduler, memory model): what is proved is the logic --
   an interleaving machine of threads with reader-writer locks, and the soundness of the lockset
   discipline on it.  The access table the discipline is decided on is regenerated from the Go
   source on every run (harness/c14extract.go) and decided per location by vm_compute in the case
   shards (Tie/C14.v: disciplined conc rows); the race-detector stress is search. *)
From HL Require Import Lib.Bytes Model.Locks Proofs.LocksProofs Proofs.LocksOrder Tie.C14 Proofs.LocksSamples.
Open Scope N_scope.

(* no data race in any reachable state of any set of threads, under any schedule, when the table
   is disciplined, covers every thread's accesses, and only kinds that may coexist do coexist *)
Theorem C14_lockset_race_free : forall conc table init,
  disciplined conc table = true -> initial init -> kinds_ok conc init -> all_covered table init ->
  forall ts, reachable init ts -> ~ race ts.
Proof. exact lockset_race_free. Qed.
Print Assumptions C14_lockset_race_free.

(* a lock held for writing by one thread is held by no other thread, in every reachable state *)
Theorem C14_mutual_exclusion : forall init ts, initial init -> reachable init ts -> exclusion ts.
Proof. exact exclusion_reachable. Qed.
Print Assumptions C14_mutual_exclusion.

(* the kinds the table distinguishes: initialisation coexists with nothing, the dispatcher with
   everything but itself, background goroutines with everything but initialisation *)
Theorem C14_kinds : conc 0 2 = false /\ conc 1 1 = false /\ conc 1 2 = true /\ conc 2 2 = true /\ conc 2 3 = true.
Proof. exact conc_table. Qed.
Print Assumptions C14_kinds.

(* non-vacuity: a dispatcher that writes under the write lock while two background threads read
   under the read lock is covered by a disciplined table; without the lock on one side it is not *)
Theorem C14_sample : disciplined conc sample_table = true /\ all_covered sample_table sample_threads /\
  kinds_ok conc sample_threads /\ initial sample_threads /\ disciplined conc sample_bad_table = false.
Proof. exact sample_ok. Qed.
Print Assumptions C14_sample.

(* the discipline is not only sufficient: a thread set whose table breaks it can reach a race *)
Theorem C14_undisciplined_races : exists ts, reachable sample_bad_threads ts /\ race ts.
Proof. exact bad_races. Qed.
Print Assumptions C14_undisciplined_races.

(* no deadlock: when every thread takes its locks in increasing order of the numbering and returns
   holding none (what OrderCase and LeakCase decide on the translated table), then in every
   reachable state in which some thread has something left to do, some thread can take a step *)
Theorem C14_no_deadlock : forall init ts,
  all_ordered init -> reachable init ts ->
  (exists i t, nth_error ts i = Some t /\ t_todo t <> []) -> exists k, enabled ts k = true.
Proof. exact reachable_no_deadlock. Qed.
Print Assumptions C14_no_deadlock.

Theorem C14_sample_ordered : all_ordered sample_threads.
Proof. exact sample_ordered. Qed.
Print Assumptions C14_sample_ordered.
