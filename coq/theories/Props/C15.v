(* C15  Responses are a function of workspace state (determinism).
   Every place where the server ranges over a Go map before emitting takes, in the model, the
   iteration order as a permutation; the theorems say the emitted list does not depend on it. *)
From Coq Require Import Sorting.Permutation.
From HL Require Import Lib.Bytes Proofs.OrderProofs.
Open Scope N_scope.

(* generic: sorting with a strict total order forgets the input order *)
Theorem C15_sorted_output_is_order_independent :
  forall (A : Type) (ltb : A -> A -> bool),
    (forall x, ltb x x = false) ->
    (forall x y z, ltb x y = true -> ltb y z = true -> ltb x z = true) ->
    (forall x y, x <> y -> ltb x y = true \/ ltb y x = true) ->
    forall l1 l2, NoDup l1 -> Permutation l1 l2 -> isort A ltb l1 = isort A ltb l2.
Proof. exact isort_order_independent. Qed.
Print Assumptions C15_sorted_output_is_order_independent.

(* the UNBALANCED message (commodities sorted by name), workspace symbols (documents by URI),
   sortedKeys of the workspace index: byte strings under Go's string order *)
Theorem C15_message_order : forall l1 l2 : list (list N),
  NoDup l1 -> Permutation l1 l2 -> isort _ bltb l1 = isort _ bltb l2.
Proof. exact message_order_independent. Qed.
Print Assumptions C15_message_order.

(* completion ranking: (score desc, usage count desc, label asc) is a strict total order on
   candidates with distinct labels, so the ranked list is independent of the order in which
   the candidates were collected from maps *)
Theorem C15_completion_ranking : forall l1 l2 : list (N * N * list N),
  NoDup l1 -> Permutation l1 l2 -> isort _ rank_ltb l1 = isort _ rank_ltb l2.
Proof. exact ranking_order_independent. Qed.
Print Assumptions C15_completion_ranking.

(* the comparator before the fix (no label tie-break) does depend on the collection order *)
Theorem C15_old_ranking_refuted :
  let x := (5, 1, bs "a") in let y := (5, 1, bs "b") in
  isort _ rank_ltb_old [x; y] <> isort _ rank_ltb_old [y; x].
Proof. exact old_ranking_order_dependent. Qed.
Print Assumptions C15_old_ranking_refuted.
