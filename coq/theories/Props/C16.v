(* C16  Completion is sound, complete for prefixes, bounded and frequency-ranked.
   Theorems about the filtering / ranking / truncation core of the completion model, for every
   candidate list, usage-count table, typed fragment, matching mode and limit. *)
From Coq Require Import Sorting.Sorted.
From HL Require Import Lib.Bytes Model.Parser Model.Completion Proofs.CompletionProofs.
Open Scope Z_scope.

(* only existing names that match the fragment: prefix (fuzzy off) or case-insensitive
   subsequence of the name or of one of its colon segments (fuzzy on) *)
Theorem C16_sound : forall labels counts q fuzzy maxr l,
  In l (complete_core labels counts q fuzzy maxr) -> In l labels /\ matches fuzzy q l.
Proof. exact core_sound. Qed.
Print Assumptions C16_sound.

(* every existing name that starts with the fragment is in the list before truncation ... *)
Theorem C16_prefix_complete : forall labels counts q fuzzy l,
  In l labels -> runes_prefix (lower_runes q) (lower_runes l) = true ->
  In l (rank (filter_score labels q fuzzy) counts).
Proof. exact core_prefix_complete. Qed.
Print Assumptions C16_prefix_complete.

(* ... and in the answer when the limit does not cut it *)
Theorem C16_prefix_complete_when_limit_allows : forall labels counts q fuzzy maxr l,
  Z.of_nat (length (rank (filter_score labels q fuzzy) counts)) <= maxr ->
  In l labels -> runes_prefix (lower_runes q) (lower_runes l) = true ->
  In l (complete_core labels counts q fuzzy maxr).
Proof. exact core_prefix_complete_untruncated. Qed.
Print Assumptions C16_prefix_complete_when_limit_allows.

Theorem C16_bounded : forall labels counts q fuzzy maxr,
  0 < maxr -> Z.of_nat (length (complete_core labels counts q fuzzy maxr)) <= maxr.
Proof. exact core_bounded. Qed.
Print Assumptions C16_bounded.

(* a smaller maximum returns a prefix of the list returned for a larger one *)
Theorem C16_monotone : forall labels counts q fuzzy m m',
  0 < m -> m <= m' ->
  complete_core labels counts q fuzzy m = firstn (Z.to_nat m) (complete_core labels counts q fuzzy m').
Proof. exact core_monotone. Qed.
Print Assumptions C16_monotone.

(* with nothing typed, more frequently used names come first *)
Theorem C16_ranked : forall labels counts fuzzy,
  NoDup labels ->
  StronglySorted (fun a b => (Z.to_N (count_of counts b) <= Z.to_N (count_of counts a))%N)
                 (rank (filter_score labels [] fuzzy) counts).
Proof. exact core_ranked. Qed.
Print Assumptions C16_ranked.

(* the candidate narrowing (repaired in /repo): the prefix is what has been typed of the account name
   up to its last colon, so a name with a blank in it is narrowed by its own prefix (it used to be cut
   at the last blank: "bank:", which hid the real candidates behind another account's prefix) *)
Example C16_prefix_key_keeps_blanks :
  let all := [bs "assets:my bank:savings"; bs "bank:fees"] in
  let byp := [(bs "assets:", [bs "assets:my bank:savings"]); (bs "assets:my bank:", [bs "assets:my bank:savings"]);
              (bs "bank:", [bs "bank:fees"])] in
  let content := bs "    assets:my bank:sav" in
  extract_account_prefix content 0 22 = bs "assets:my bank:" /\
  accounts_for_prefix all byp (extract_account_prefix content 0 22) = [bs "assets:my bank:savings"].
Proof. vm_compute. split; reflexivity. Qed.

(* the edit range (repaired in /repo): while the cursor is inside a directive keyword the context is
   not that of the directive's argument and no edit is computed; behind the keyword the edit starts at
   the argument; in payee context inside the date nothing is replaced *)
Example C16_no_argument_context_inside_keyword :
  determine_context (bs "commodity U") 0 4 0 = CDate /\
  edit_start (bs "commodity U") 0 4 (determine_context (bs "commodity U") 0 4 0) = None /\
  determine_context (bs "commodity U") 0 11 0 = CCommodity /\
  edit_start (bs "commodity U") 0 11 CCommodity = Some 10.
Proof. vm_compute. repeat split; reflexivity. Qed.

Example C16_payee_edit_inside_date_is_empty :
  edit_start (bs "2024-05-05 ") 0 6 CPayee = Some 6.
Proof. vm_compute. reflexivity. Qed.
