(* C07  A syntax error stays contained in its own entry.
   Proved for EVERY token list (what precedes may be intact, damaged or unreadable): one turn of the
   journal loop never consumes past an entry boundary (a line break followed by a token that is
   neither an indent nor another line break), and the loop gets to stand exactly on the first token
   after every boundary -- so the parse of the following entries is the loop started there; and what
   the loop builds from there on (the trees AND the diagnostics it adds) does not depend on the
   diagnostics recorded or the entries recognised before: it is what a fresh run on the remaining
   tokens builds (C07_rest_of_file_is_independent).  That the remaining tokens of the damaged text are
   those of the intact text up to the line shift (the lexer carries no state across a line break) and
   that no error lands outside the damaged lines is decided per run on (J, damaged J) pairs against
   the real parser. *)
From HL Require Import Lib.Bytes Model.Ast Model.Lexer Model.Parser Proofs.C07Proofs Proofs.LexerProofs Proofs.ParserProofs
  Proofs.ParserContainment Proofs.ParserFrame.

(* containment of consumption, one turn: K = every line break consumed, except possibly as the last
   token, is followed by an indent or another line break *)
Theorem C07_one_turn_stays_in_its_entry : forall fuel ps j, wf ps -> (len ps <= fuel)%nat -> is_ty (ctype ps) TEOF = false ->
  exists ps1 j1, parse_journal (S fuel) ps j = parse_journal fuel ps1 j1 /\ kk ps1 ps /\ wf ps1 /\ (len ps1 < len ps)%nat.
Proof. exact journal_step_kk. Qed.
Print Assumptions C07_one_turn_stays_in_its_entry.

Theorem C07_never_past_a_boundary : forall ps' ps pre nl t rest,
  kk ps' ps -> toks ps = pre ++ nl :: t :: rest -> isNL nl = true -> cont_tok t = false ->
  exists pre', toks ps' = pre' ++ t :: rest.
Proof. exact kk_stops_at_boundary. Qed.
Print Assumptions C07_never_past_a_boundary.

(* resynchronisation: whatever lies before a boundary, the loop continues from exactly the first
   token after it *)
Theorem C07_resynchronises_at_every_boundary : forall n fuel ps j pre nl t rest,
  (len ps <= n)%nat -> wf ps -> (len ps <= fuel)%nat ->
  toks ps = pre ++ nl :: t :: rest -> isNL nl = true -> cont_tok t = false -> noEOF (pre ++ [nl]) = true ->
  exists fuel' ps' j', parse_journal (S fuel) ps j = parse_journal (S fuel') ps' j' /\
                       toks ps' = t :: rest /\ wf ps' /\ (len ps' <= fuel')%nat.
Proof. exact journal_reaches_boundary. Qed.
Print Assumptions C07_resynchronises_at_every_boundary.

(* non-vacuity: a damaged transaction followed by an intact one *)
Definition c07_sample : list N :=
  bytes_of_string "2024-01-01 a" ++ [10%N] ++ bytes_of_string "    x:y  1 @@ ==" ++ [10%N] ++
  bytes_of_string "2024-01-02 b" ++ [10%N] ++ bytes_of_string "    x:y  1" ++ [10%N].
Theorem C07_sample :
  match lex c07_sample with
  | Some ts => match parse_journal (length ts + 2) (mkPS ts [] 0%Z) (mkJournal [] [] [] []) with
               | Some (j, ps) => length (j_txs j) = 2%nat /\ perrs ps <> []
               | None => False
               end
  | None => False
  end.
Proof. vm_compute. split; [reflexivity|discriminate]. Qed.
Print Assumptions C07_sample.

(* the recovery step itself, for every token list *)
Theorem C07_recovery_resynchronises : forall pre t rest,
  forallb (fun x => negb (is_nl x) && negb (is_eof x)) pre = true -> is_nl t = true -> rest <> [] ->
  skip_line_toks (pre ++ t :: rest) = rest.
Proof. exact skip_line_resync. Qed.
Print Assumptions C07_recovery_resynchronises.

Theorem C07_recovery_drops_a_prefix : forall l, exists k, skip_line_toks l = skipn k l.
Proof. exact skip_line_suffix. Qed.
Print Assumptions C07_recovery_drops_a_prefix.

(* the lexer cannot be derailed by damage: it makes progress on arbitrary bytes *)
Theorem C07_lexer_progress : forall s : lx, rest s <> [] -> (length (rest (snd (next s))) < length (rest s))%nat.
Proof. exact next_progress. Qed.
Print Assumptions C07_lexer_progress.

(* the parser's understanding of the rest of the file is a function of the remaining tokens and the
   default year alone: started on tokens toks0 with ANY diagnostics errs0 already recorded and ANY
   journal j0 already built, the loop returns j0 extended by exactly what a fresh run on toks0 builds,
   and its diagnostics are the fresh run's followed by errs0 (the list is kept newest first) *)
Theorem C07_rest_of_file_is_independent : forall fuel toks0 errs0 year j0,
  parse_journal fuel (mkPS toks0 errs0 year) j0 =
  match parse_journal fuel (mkPS toks0 [] year) jempty with
  | Some (j', p) => Some (japp j0 j', mkPS (toks p) (perrs p ++ errs0) (dyear p))
  | None => None
  end.
Proof. exact rest_of_file_is_independent. Qed.
Print Assumptions C07_rest_of_file_is_independent.

(* every parsing function commutes with older diagnostics; the entry parsers in particular *)
Theorem C07_transaction_independent_of_earlier_errors : forall fuel e ps,
  parse_transaction fuel (rebase e ps) =
  match parse_transaction fuel ps with Some (r, p) => Some (r, rebase e p) | None => None end.
Proof. exact parse_transaction_c. Qed.
Print Assumptions C07_transaction_independent_of_earlier_errors.

Theorem C07_directive_independent_of_earlier_errors : forall fuel e ps,
  parse_directive fuel (rebase e ps) =
  match parse_directive fuel ps with Some (r, p) => Some (r, rebase e p) | None => None end.
Proof. exact parse_directive_c. Qed.
Print Assumptions C07_directive_independent_of_earlier_errors.
