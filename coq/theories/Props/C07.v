(* C07  A syntax error stays contained in its own entry.
   Proved (for every token list): the recovery step used after every syntax error stops right
   after the first Newline token and only ever drops a prefix.  The containment statement itself
   (other entries unchanged up to a line shift, errors only on the damaged lines) is decided per
   run on (J, damaged J) pairs against the real parser; see the level note. *)
From HL Require Import Lib.Bytes Model.Lexer Model.Parser Proofs.C07Proofs Proofs.LexerProofs.

Theorem C07_recovery_resynchronises : forall pre t rest,
  forallb (fun x => negb (is_nl x) && negb (is_eof x)) pre = true -> is_nl t = true -> rest <> [] ->
  skip_line_toks (pre ++ t :: rest) = rest.
Proof. exact skip_line_resync. Qed.
Print Assumptions C07_recovery_resynchronises.

Theorem C07_recovery_drops_a_prefix : forall l, exists k, skip_line_toks l = skipn k l.
Proof. exact skip_line_suffix. Qed.
Print Assumptions C07_recovery_drops_a_prefix.

(* the lexer cannot be derailed by damage: it makes progress on arbitrary bytes *)
Theorem C07_lexer_progress : forall s : lx, rest s <> [] -> (length (rest (snd (next s))) < length (rest s))%nat.
Proof. exact next_progress. Qed.
Print Assumptions C07_lexer_progress.
