(* C11  Include loading is independent of cache history.
   Against the pinned tree this statement was refuted (a cache hit returned the cached journal
   without following its own includes and without marking it visited); the defect was repaired in
   /repo (fix 01b2939; the traversal itself was repaired again for C10) and the model follows the repaired code.  For the repaired loader the FULL
   statement is a theorem. *)
From HL Require Import Lib.Bytes Model.Loader Spec.LoaderSpec Tie.C10 Tie.C11 Proofs.LoaderProofs
  Proofs.LoaderTraversal Proofs.LoaderHistory.
Open Scope N_scope.

(* along EVERY operation sequence on one loader (loads of any root via Load / LoadFromContent,
   rewrites and deletions of files with InvalidateFile, ClearCache), every load returns the result
   and the errors a fresh loader returns on the files as they are at that moment *)
Theorem C11_holds : C11_statement.
Proof. exact C11_holds. Qed.
Print Assumptions C11_holds.

(* the invariant behind it: every cache entry is the file as the file system holds it now *)
Theorem C11_cache_stays_coherent : forall L s op, sys_ok L s -> sys_ok L (fst (lsys_step L s op)).
Proof. exact sys_ok_step. Qed.
Print Assumptions C11_cache_stays_coherent.

(* and the core: within one load, the result does not depend on which coherent cache it starts with *)
Theorem C11_result_independent_of_cache : forall fs L fuel p dirs S V c1 c2 o1,
  coherent fs L c1 -> coherent fs L c2 ->
  load_wc fuel fs L p dirs (mkLS S V c1) = Some o1 ->
  exists o2, load_wc fuel fs L p dirs (mkLS S V c2) = Some o2 /\ agree o1 o2 /\
             coherent fs L (cache (w_st o1)) /\ coherent fs L (cache (w_st o2)).
Proof. exact load_wc_cache_indep. Qed.
Print Assumptions C11_result_independent_of_cache.

Theorem C11_clear_then_fresh : forall L s root,
  let s' := fst (lsys_step L s OClear) in
  snd (lsys_step L s' (OLoad root)) = fresh_of s L (OLoad root).
Proof. exact clear_then_load_is_fresh. Qed.
Print Assumptions C11_clear_then_fresh.

Theorem C11_write_invalidates : forall L s k f,
  flookup k (s_cache (fst (lsys_step L s (OWrite k f)))) = None.
Proof. exact write_invalidates. Qed.
Print Assumptions C11_write_invalidates.

(* non-vacuity: the diamond that used to be truncated on its second load *)
Theorem C11_sample_second_load :
  let s0 := mkSys diamond [] in
  let '(s1, o1) := lsys_step big s0 (OLoad 0) in
  let '(s2, o2) := lsys_step big s1 (OLoad 0) in
  option_map (fun o => option_map r_order (o_res o)) o2 = option_map (fun o => option_map r_order (o_res o)) o1 /\
  s_cache s1 <> [].
Proof. exact sample_second_load. Qed.
Print Assumptions C11_sample_second_load.
