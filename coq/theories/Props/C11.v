(* C11  Include loading is independent of cache history. *)
From HL Require Import Lib.Bytes Model.Loader Spec.LoaderSpec Tie.C10 Tie.C11 Proofs.LoaderProofs.
Open Scope N_scope.

(* Full statement: along every operation sequence on one loader, every load returns what a
   fresh loader returns on the files as they are at that moment.  False of the model: *)
Theorem C11_refuted : ~ C11_statement.
Proof. exact C11_refuted. Qed.
Print Assumptions C11_refuted.

Theorem C11_refuted_second_load_truncates :
  let s0 := mkSys diamond [] in
  let '(s1, o1) := lsys_step big s0 (OLoad 0) in
  let '(s2, o2) := lsys_step big s1 (OLoad 0) in
  option_map (fun o => option_map r_order (o_res o)) o1 = Some (Some [1; 3; 2]) /\
  option_map (fun o => option_map r_order (o_res o)) o2 = Some (Some [1; 2]) /\
  option_map o_errs o2 = Some [] /\
  option_map (fun o => option_map r_order (o_res o)) (fresh_of s1 big (OLoad 0)) = Some (Some [1; 3; 2]).
Proof. exact second_load_truncates. Qed.
Print Assumptions C11_refuted_second_load_truncates.

(* what does hold in every state: after ClearCache the next load is a fresh load ... *)
Theorem C11_partial_clear_then_fresh : forall L s root,
  let s' := fst (lsys_step L s OClear) in
  snd (lsys_step L s' (OLoad root)) = fresh_of s L (OLoad root).
Proof. exact clear_then_load_is_fresh. Qed.
Print Assumptions C11_partial_clear_then_fresh.

(* ... and a rewritten-and-invalidated file is never served from the cache *)
Theorem C11_partial_write_invalidates : forall L s k f,
  flookup k (s_cache (fst (lsys_step L s (OWrite k f)))) = None.
Proof. exact write_invalidates. Qed.
Print Assumptions C11_partial_write_invalidates.
