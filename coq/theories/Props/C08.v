(* C08  Every reported range is well-formed, UTF-16 correct and on target.
   The full statement is false of the composed model (text -> lexer -> parser -> producers), which
   equals the implementation on every generated document; witnesses below, one per recorded
   finding class that the model covers.  What the validator demands is made explicit. *)
From HL Require Import Lib.Bytes Model.References Model.Ranges Spec.RangeSpec Proofs.RangesProofs.
Open Scope Z_scope.

Theorem C08_validator_range : forall lines r, range_ok lines r = true ->
  pos_ok lines (sl r) (sc r) = true /\ pos_ok lines (el r) (ec r) = true /\
  (sl r < el r \/ (sl r = el r /\ sc r <= ec r)).
Proof. exact range_ok_sound. Qed.
Print Assumptions C08_validator_range.

Theorem C08_validator_position : forall lines l c, pos_ok lines l c = true ->
  0 <= l < Z.of_nat (length lines) /\ 0 <= c <= zsum (widths (nth (Z.to_nat l) lines []) 0) /\
  on_boundary (widths (nth (Z.to_nat l) lines []) 0) c = true.
Proof. exact pos_ok_sound. Qed.
Print Assumptions C08_validator_position.

Theorem C08_baseline_ascii_account :
  match hover_of t_ascii 1 5 with
  | Some (HAccount, r) => range_ok (doc_lines t_ascii) r && covers (doc_lines t_ascii) r (bs "assets:cash") = true
  | _ => False
  end.
Proof. exact ascii_account_ok. Qed.
Print Assumptions C08_baseline_ascii_account.

Theorem C08_refuted_nonbmp_rune_columns :
  match hover_of t_emoji 1 5 with
  | Some (HAccount, r) => covers (doc_lines t_emoji) r (bs "expenses:" ++ hx "f09f9880" ++ bs "fun") = false /\ ec r = 17
  | _ => False
  end.
Proof. exact nonbmp_account_short. Qed.
Print Assumptions C08_refuted_nonbmp_rune_columns.

Theorem C08_refuted_payee_estimate :
  match hover_of t_code 0 14 with
  | Some (HPayee, r) => covers (doc_lines t_code) r (bs "monthly rent") = false
  | _ => False
  end.
Proof. exact payee_estimate_wrong. Qed.
Print Assumptions C08_refuted_payee_estimate.

Theorem C08_refuted_fold_overlap :
  match ranges_of t_adjacent with
  | Some (_, fs) => fs = [(0, 2); (2, 5)] /\ folds_laminar fs = false
  | None => False
  end.
Proof. exact folds_overlap. Qed.
Print Assumptions C08_refuted_fold_overlap.
