(* C08  Every reported range is well-formed, UTF-16 correct and on target.
   The full statement is false of the composed model (text -> lexer -> parser -> producers), which
   equals the implementation on every generated document; a witness below for the recorded
   finding class that the model covers (the document link spans the keyword; the other witnesses of
   the pinned tree -- rune columns, payee estimate, overlapping folds -- were repaired in /repo and
   are positive samples now).  What the validator
   demands is made explicit.  For EVERY byte string the positions of the token stream, which all
   reported ranges are built from, are proved consistent (C08_token_positions_consistent), and so are the date, account and commodity
   ranges of the AST, which are token ranges (C08_ast_ranges_are_token_ranges). *)
From HL Require Import Lib.Bytes Model.Ast Model.Lexer Model.Parser Model.References Model.Ranges Spec.RangeSpec Spec.FormatSpec Model.Formatter
  Proofs.RangesProofs Proofs.LexerLines Proofs.LexerColumns Proofs.LexerOrder Proofs.ParserLines Proofs.ParserErrors Proofs.ParserPositions Proofs.ReportedRanges.
Open Scope Z_scope.

Theorem C08_validator_range : forall lines r, range_ok lines r = true ->
  pos_ok lines (sl r) (sc r) = true /\ pos_ok lines (el r) (ec r) = true /\
  (sl r < el r \/ (sl r = el r /\ sc r <= ec r)).
Proof. exact range_ok_sound. Qed.
Print Assumptions C08_validator_range.

Theorem C08_validator_position : forall lines l c, pos_ok lines l c = true ->
  0 <= l < Z.of_nat (length lines) /\ 0 <= c <= zsum (widths (nth (Z.to_nat l) lines []) 0) /\
  on_boundary (widths (nth (Z.to_nat l) lines []) 0) c = true.
Proof. exact pos_ok_sound. Qed.
Print Assumptions C08_validator_position.

Theorem C08_baseline_ascii_account :
  match hover_of t_ascii 1 5 with
  | Some (HAccount, r) => range_ok (doc_lines t_ascii) r && covers (doc_lines t_ascii) r (bs "assets:cash") = true
  | _ => False
  end.
Proof. exact ascii_account_ok. Qed.
Print Assumptions C08_baseline_ascii_account.

(* (the first witness of the pinned tree -- columns counted in runes, so that this range ended one
   UTF-16 unit short -- was repaired in /repo: the lexer counts columns in UTF-16 code units) *)
Theorem C08_sample_nonbmp_account :
  match hover_of t_emoji 1 5 with
  | Some (HAccount, r) =>
      range_ok (doc_lines t_emoji) r && covers (doc_lines t_emoji) r (bs "expenses:" ++ hx "f09f9880" ++ bs "fun") = true /\ ec r = 18
  | _ => False
  end.
Proof. exact nonbmp_account_covered. Qed.
Print Assumptions C08_sample_nonbmp_account.

(* (the second witness of the pinned tree -- the payee range estimated from the date width -- was
   repaired in /repo: the parser records the payee range) *)
Theorem C08_sample_payee_range :
  match hover_of t_code 0 24 with
  | Some (HPayee, r) => range_ok (doc_lines t_code) r && covers (doc_lines t_code) r (bs "monthly rent") = true
  | _ => False
  end.
Proof. exact payee_range_recorded. Qed.
Print Assumptions C08_sample_payee_range.

(* (the third witness of the pinned tree, overlapping folds of adjacent transactions -- [(0, 2); (2, 5)]
   on this text -- was repaired in /repo: each fold now ends on its transaction's last line) *)
Theorem C08_refuted_link_range :
  match parse t_include with
  | Some (j, _) => doc_links j = [mkPR 0 0 0 21] /\ covers (doc_lines t_include) (mkPR 0 0 0 21) (bs "other.journal") = false
  | None => False
  end.
Proof. exact link_range_includes_keyword. Qed.
Print Assumptions C08_refuted_link_range.

Theorem C08_sample_adjacent_folds :
  match ranges_of t_adjacent with
  | Some (_, fs) => fs = [(0, 1); (2, 4)] /\ folds_laminar fs = true
  | None => False
  end.
Proof. exact folds_adjacent. Qed.
Print Assumptions C08_sample_adjacent_folds.

(* partial well-formedness, every input: the line of every token the lexer produces lies inside the
   document (between 1 and 1 + the number of line feeds), lines never decrease along the stream and
   the indent tokens sit on strictly increasing lines *)
Theorem C08_token_lines_inside : forall input ts, lex input = Some ts ->
  Forall (fun t => (1 <= tline t <= 1 + count10 input)%N) ts.
Proof. exact lex_line_bounds. Qed.
Print Assumptions C08_token_lines_inside.

Theorem C08_token_stream_shape : forall input ts, lex input = Some ts -> stream_ok (lx_init input) ts.
Proof. exact lex_stream. Qed.
Print Assumptions C08_token_stream_shape.

(* every posting of every parsed journal starts on a line of the document, no two on the same *)
Theorem C08_posting_lines_inside : forall input j errs, parse input = Some (j, errs) ->
  post_lines_ok j (split_lf input) = true.
Proof. exact parse_post_lines_ok. Qed.
Print Assumptions C08_posting_lines_inside.

(* every syntax error (the range of every syntax-error diagnostic) is the start position of a token
   of the stream, for every input; so its line lies inside the document *)
Theorem C08_syntax_errors_at_token_positions : forall input j errs, parse input = Some (j, errs) ->
  exists ts, lex input = Some ts /\ forall e, In e errs -> exists t, In t ts /\ e = tpos_of t.
Proof. exact parse_errors_at_tokens. Qed.
Print Assumptions C08_syntax_errors_at_token_positions.

Theorem C08_syntax_error_lines_inside : forall input j errs, parse input = Some (j, errs) ->
  forall l c, In (l, c) errs -> (1 <= l <= 1 + count10 input)%N.
Proof. exact parse_error_lines_inside. Qed.
Print Assumptions C08_syntax_error_lines_inside.

(* For EVERY byte string: the start and the end of every token carry the line (counted by line
   feeds, from 1), the column (UTF-16 code units since the last line feed, from 1) and the byte
   offset of one and the same place of the text, that place is inside the text and on a rune
   boundary of the reference walk -- so a column never points into a surrogate pair and never
   past the end of its line.  `walk` is the reference: it consumes the text rune by rune. *)
Theorem C08_token_positions_consistent : forall text toks, lex text = Some toks ->
  Forall (tok_ok text) toks.
Proof. exact lex_positions. Qed.
Print Assumptions C08_token_positions_consistent.

(* ... and for EVERY byte string the tokens follow one another in document order: the first starts at
   or behind 1:1, every token ends at or behind its start, and the next one starts at or behind that
   end -- in byte offset, in line, and in column when on the same line.  Two ranges taken from two
   different tokens therefore never overlap partially. *)
Theorem C08_tokens_in_document_order : forall text toks, lex text = Some toks ->
  chain (mkTP 1 1 0) toks.
Proof. exact lex_document_order. Qed.
Print Assumptions C08_tokens_in_document_order.

(* ... and for EVERY byte string the ranges that hover, references, rename, definition, symbols and
   the undeclared-name diagnostics are built from -- the date of every transaction, the account of
   every posting, every commodity that has a symbol (amount, cost, balance assertion) -- are the
   (start, end) pair of ONE token: both ends are places of the text in the sense above and the start
   is not behind the end (tok_ok).  What is reported is this range with 1 subtracted from lines and
   columns. *)
Theorem C08_ast_ranges_are_token_ranges : forall text j errs, parse text = Some (j, errs) ->
  forall tx, In tx (j_txs j) ->
    rng_in_text text (d_rng (tx_date tx)) /\
    forall p, In p (tx_postings tx) ->
      rng_in_text text (po_acct_rng p) /\
      (forall a, po_amount p = Some a -> com_in_text text (a_com a)) /\
      (forall c, po_cost p = Some c -> com_in_text text (a_com (co_amt c))) /\
      (forall b, po_assert p = Some b -> com_in_text text (a_com (as_amt b))).
Proof. exact parse_ranges_in_text. Qed.
Print Assumptions C08_ast_ranges_are_token_ranges.

(* ... and both ends of the range of every transaction, directive and include (what document symbols,
   folds and links are built from) and of the declared name of every account / commodity directive
   (references with declarations, rename, workspace symbols) are places of the text *)
Theorem C08_entry_ranges_in_text : forall text j errs, parse text = Some (j, errs) ->
  (forall tx, In tx (j_txs j) -> pos_in_text text (r_start (tx_rng tx)) /\ pos_in_text text (r_end (tx_rng tx))) /\
  (forall i, In i (j_includes j) -> pos_in_text text (r_start (inc_rng i)) /\ pos_in_text text (r_end (inc_rng i))) /\
  (forall d, In d (j_dirs j) ->
     match d with
     | DAccount _ nr _ _ _ r =>
         (pos_in_text text (r_start nr) /\ pos_in_text text (r_end nr)) /\ (pos_in_text text (r_start r) /\ pos_in_text text (r_end r))
     | DCommodity c _ _ _ r => com_in_text text c /\ (pos_in_text text (r_start r) /\ pos_in_text text (r_end r))
     | DInclude _ r | DPrice _ _ _ r | DYear _ r | DDefault _ _ r => pos_in_text text (r_start r) /\ pos_in_text text (r_end r)
     end).
Proof. exact parse_entry_ranges_in_text. Qed.
Print Assumptions C08_entry_ranges_in_text.

(* ... and, one step further, what is REPORTED: every range of the document-symbol and document-link
   answers is a pair of LSP positions (zero-based line and UTF-16 character) of places of the text *)
Theorem C08_symbol_and_link_ranges_are_places : forall text j errs, parse text = Some (j, errs) ->
  (forall r, In r (doc_symbols j) -> prange_places text r) /\ (forall r, In r (doc_links j) -> prange_places text r).
Proof. exact symbols_and_links_are_places. Qed.
Print Assumptions C08_symbol_and_link_ranges_are_places.

(* the range a hover answer reports for an account or a date is, for EVERY byte string and every
   cursor position, the range of ONE token of the text (minus one on lines and characters) *)
Theorem C08_hover_account_and_date_ranges : forall text j errs pl pc k r, parse text = Some (j, errs) ->
  hover_element j pl pc = Some (k, r) -> k = HAccount \/ k = HDate ->
  exists rr, rng_in_text text rr /\ r = to_proto rr.
Proof. exact hover_account_and_date_ranges. Qed.
Print Assumptions C08_hover_account_and_date_ranges.

(* every occurrence that references / rename report for an account or a commodity of the document
   (declarations included when asked) is a pair of LSP positions of places of the text *)
Theorem C08_reference_ranges_are_places : forall text j errs, parse text = Some (j, errs) ->
  (forall name incl r, In r (account_hits name incl j) -> prange_places text r) /\
  (forall sym incl r, sym <> [] -> In r (commodity_hits sym incl j) -> prange_places text r).
Proof. exact account_and_commodity_hits_are_places. Qed.
Print Assumptions C08_reference_ranges_are_places.

(* the payee range of every transaction (hover, definition, references, rename, workspace symbols on a
   payee) starts where a text token of the stream starts -- a place of the text -- and extends over
   that token's value on the same line; rng0 when the header has no description *)
Theorem C08_payee_ranges : forall text j errs, parse text = Some (j, errs) ->
  forall tx, In tx (j_txs j) ->
    tx_prng tx = rng0 \/
    exists t, tok_ok text t /\ tx_prng tx = text_range (tk_pos t) (tk_val t).
Proof. exact parse_payee_ranges. Qed.
Print Assumptions C08_payee_ranges.

(* every syntax-error diagnostic is reported at a place of the text *)
Theorem C08_syntax_errors_in_text : forall text j errs, parse text = Some (j, errs) ->
  forall l c, In (l, c) errs ->
    exists off, (off <= length text)%nat /\ walk text off 0 1%N 1%N = Some (l, c).
Proof. exact parse_errors_in_text. Qed.
Print Assumptions C08_syntax_errors_in_text.

(* what the reference walk computes, unfolded once: nothing consumed is line 1, column 1; a line feed
   starts the next line at column 1; any other rune adds its UTF-16 width (2 outside the BMP) *)
Theorem C08_reference_walk_steps :
  (forall l ln c, walk l 0 0 ln c = Some (ln, c)) /\
  (forall r n ln c, walk (10%N :: r) (S n) 0 ln c = walk r n 0 (ln + 1)%N 1%N) /\
  (forall c0 r ln c, c0 <> 10%N ->
     walk (c0 :: r) (snd (Utf8.decode (c0 :: r))) 0 ln c = Some (ln, (c + Utf8.u16len (fst (Utf8.decode (c0 :: r))))%N)).
Proof. split; [reflexivity|]. split; [reflexivity|]. exact walk_rune. Qed.
Print Assumptions C08_reference_walk_steps.

(* non-vacuity: the position after "a😀" (a non-BMP character) on the second line *)
Theorem C08_sample_walk : walk (bs "x" ++ [10%N] ++ bs "a" ++ hx "f09f9880" ++ bs "b") 7 0 1 1 = Some (2%N, 4%N).
Proof. vm_compute. reflexivity. Qed.
Print Assumptions C08_sample_walk.
