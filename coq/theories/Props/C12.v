(* C12  Incrementally maintained workspace view equals a rebuild. *)
From HL Require Import Lib.Bytes Model.WsIndex Proofs.WsIndexProofs Proofs.WsTemplates.
Open Scope N_scope.

(* After ANY sequence of SetFileIndex / RemoveFile operations (any number of files, any
   contributions), every aggregated usage counter (accounts, payees, commodities, tags, tag
   values, dates) equals the pointwise sum of the contributions of the files currently
   indexed, i.e. what a rebuild from those files computes. *)
Theorem C12_counters : forall ops k,
  cget k (wi_counts (wrun ops)) = total k (wi_files (wrun ops)).
Proof. exact counters_equal_rebuild. Qed.
Print Assumptions C12_counters.

(* one file's contribution is removed exactly (decrementBy never over- or under-shoots) *)
Theorem C12_decrement_exact : forall k l m, NoDup (keys m) ->
  (forall x, csum x l <= cget x m) ->
  cget k (fold_left (fun m kc => cdec (fst kc) (snd kc) m) l m) = cget k m - csum k l.
Proof. exact fold_cdec. Qed.
Print Assumptions C12_decrement_exact.

(* The payee-template table is rebuilt from the indexed files after every operation ... *)
Theorem C12_templates_are_rebuilt : forall ops,
  wi_templates (wrun ops) = build_templates (wi_files (wrun ops)).
Proof. exact templates_are_rebuilt. Qed.
Print Assumptions C12_templates_are_rebuilt.

(* ... and the rebuild does not depend on the order in which the files are enumerated: two
   enumerations of the same file map give the same table *)
Theorem C12_templates_function_of_files : forall fs1 fs2,
  NoDup (map fst fs1) -> NoDup (map fst fs2) ->
  (forall p, file_get p fs1 = file_get p fs2) -> build_templates fs1 = build_templates fs2.
Proof. exact build_templates_function_of_files. Qed.
Print Assumptions C12_templates_function_of_files.

(* a payee has a template exactly when one of the indexed files provides one (what the index
   used to get wrong: a shared payee lost its template when ONE file dropped it) *)
Theorem C12_template_present_iff : forall fs k, NoDup (map fst fs) ->
  (alookup k (build_templates fs) <> None <->
   exists p f, file_get p fs = Some f /\ alookup k (fi_templates f) <> None).
Proof. exact template_present_iff. Qed.
Print Assumptions C12_template_present_iff.

(* The statement of C12 for the index: ANY two histories (in particular an incremental one and
   a fresh build, in any file order) that end with the same files have the same template table
   and the same value of every aggregated counter. *)
Theorem C12_view_function_of_files : forall ops1 ops2,
  (forall p, file_get p (wi_files (wrun ops1)) = file_get p (wi_files (wrun ops2))) ->
  wi_templates (wrun ops1) = wi_templates (wrun ops2) /\
  forall k, cget k (wi_counts (wrun ops1)) = cget k (wi_counts (wrun ops2)).
Proof. exact view_function_of_files. Qed.
Print Assumptions C12_view_function_of_files.

(* non-vacuity, and the history that used to fail: root and sub share payee 'shop', sub drops
   it; the payee is still counted once and root's template is still there *)
Theorem C12_shared_payee_keeps_template :
  let w := wrun shared_payee_history in
  cget (bs "Pshop") (wi_counts w) = 1 /\ wi_templates w = [(bs "shop", 7)].
Proof. exact shared_payee_keeps_template. Qed.
Print Assumptions C12_shared_payee_keeps_template.
