(* C12  Incrementally maintained workspace view equals a rebuild. *)
From HL Require Import Lib.Bytes Model.WsIndex Proofs.WsIndexProofs.
Open Scope N_scope.

(* After ANY sequence of SetFileIndex / RemoveFile operations (any number of files, any
   contributions), every aggregated usage counter (accounts, payees, commodities, tags, tag
   values, dates) equals the pointwise sum of the contributions of the files currently
   indexed, i.e. what a rebuild from those files computes. *)
Theorem C12_counters : forall ops k,
  cget k (wi_counts (wrun ops)) = total k (wi_files (wrun ops)).
Proof. exact counters_equal_rebuild. Qed.
Print Assumptions C12_counters.

(* one file's contribution is removed exactly (decrementBy never over- or under-shoots) *)
Theorem C12_decrement_exact : forall k l m, NoDup (keys m) ->
  (forall x, csum x l <= cget x m) ->
  cget k (fold_left (fun m kc => cdec (fst kc) (snd kc) m) l m) = cget k m - csum k l.
Proof. exact fold_cdec. Qed.
Print Assumptions C12_decrement_exact.

(* The payee-template table is NOT a function of the current files: two files share a payee,
   one drops it, the template disappears although the other file still provides it. *)
Theorem C12_templates_refuted :
  let w := wrun shared_payee_witness in
  cget (bs "Pshop") (wi_counts w) = 1 /\ wi_templates w = [] /\
  (exists f, file_get (bs "root") (wi_files w) = Some f /\ fi_templates f = [bs "shop"]).
Proof. exact templates_refuted. Qed.
Print Assumptions C12_templates_refuted.
