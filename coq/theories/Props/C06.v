(* C06  Tokenisation and parsing are total and always make progress (all byte strings, no size bound).
   The crash / wall-time clauses for the handlers are runtime behaviour: they are searched by
   the harness (recover + time budget on every request), not proved; see the level note. *)
From HL Require Import Lib.Bytes Lib.Utf8 Model.Lexer Model.Parser Proofs.LexerProofs Proofs.ParserProofs.

(* on ANY lexer state with input left, one call of Next consumes at least one byte: invalid
   UTF-8, NUL bytes, unterminated quotes / codes / brackets, stray operators included *)
Theorem C06_next_progress : forall s : lx,
  rest s <> [] -> (length (rest (snd (next s))) < length (rest s))%nat.
Proof. exact next_progress. Qed.
Print Assumptions C06_next_progress.

(* on exhausted input Next answers EOF *)
Theorem C06_eof_at_end : forall s : lx, rest s = [] -> tk_type (fst (next s)) = TEOF.
Proof. exact next_eof. Qed.
Print Assumptions C06_eof_at_end.

(* hence tokenising any input terminates with EOF after at most |input| + 1 tokens: the
   driver's fuel is never exhausted *)
Theorem C06_lex_total : forall input : list N, lex input <> None.
Proof. exact lex_total. Qed.
Print Assumptions C06_lex_total.

(* the parser terminates too: its three fuelled loops (journal, postings, sub-directives) never run
   dry, on any byte string -- every function keeps the EOF-terminated shape of the token list and
   the ones the loops rely on consume at least one token *)
Theorem C06_parse_total : forall input : list N, parse input <> None.
Proof. exact parse_total. Qed.
Print Assumptions C06_parse_total.

Theorem C06_postings_loop_total : forall fuel ps acc, wf ps -> (len ps < fuel)%nat ->
  exists r ps', parse_postings fuel ps acc = Some (r, ps') /\ wf ps' /\ (len ps' <= len ps)%nat.
Proof. exact parse_postings_total. Qed.
Print Assumptions C06_postings_loop_total.

Theorem C06_error_recovery_progress : forall ps, is_ty (ctype ps) TEOF = false -> lt (skip_to_next_line ps) ps.
Proof. exact skip_to_next_line_lt. Qed.
Print Assumptions C06_error_recovery_progress.

(* non-vacuity: hostile input still lexes to an EOF-terminated stream *)
Example C06_example :
  match lex (hx "ff2228c328000a3b") with
  | Some ts => match rev ts with t :: _ => tk_type t = TEOF | [] => False end
  | None => False
  end.
Proof. vm_compute. reflexivity. Qed.
