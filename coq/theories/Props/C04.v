From HL Require Import Tie.Fmt.
