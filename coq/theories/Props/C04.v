(* C04  Formatting never changes what the journal says.
   Model: text -> Lexer.v -> Parser.v -> Formatter.v (Server.Format) -> reference applier.
   The full statement is refuted on the model by a display format whose output the parser's number
   reader takes for another quantity (recorded finding); what is proved for ALL syntax trees,
   texts, format tables and configurations is stated below it. *)
From HL Require Import Lib.Bytes Model.Ast Lib.Dec Model.Lexer Model.Parser Model.NumberFormat Model.Formatter
  Spec.FormatSpec Spec.FormatRun Proofs.FormatterProofs Proofs.ParserProofs Proofs.ParserLines Proofs.FormatPipeline.
Open Scope Z_scope.

Definition C04_statement : Prop :=
  forall t o t1, fmt_text t o = Some t1 -> same_meaning (jof t) (jof t1) = true.

Theorem C04_refuted_three_decimal_format : ~ C04_statement.
Proof. exact meaning_refuted. Qed.
Print Assumptions C04_refuted_three_decimal_format.

(* second clause, every input: the edits apply under the reference applier, and each line that
   holds no posting of the syntax tree loses trailing blanks at most (posting lines on distinct
   lines inside the text is what the parser guarantees and what the tie checks on every case) *)
Theorem C04_frame : forall j errs content fm o,
  post_lines_ok j (split_lf content) = true ->
  exists out, apply_edits content (server_format j errs content (Some fm) o) = Some (join_lf out) /\
              frame_ok (split_lf content) out 0 (plines j) = true.
Proof. exact server_format_frame. Qed.
Print Assumptions C04_frame.

(* the same on the whole pipeline, with no premise: for EVERY byte string, format table (the file's
   own when None) and configuration, the parser returns a journal, the edits Server.Format computes
   from it apply under the reference applier, and every line that holds no posting loses trailing
   blanks at most *)
Theorem C04_frame_every_document : forall input fmts o,
  exists j errs out, parse input = Some (j, errs) /\
    apply_edits input (server_format j errs input fmts o) = Some (join_lf out) /\
    frame_ok (split_lf input) out 0 (plines j) = true.
Proof. exact pipeline_frame. Qed.
Print Assumptions C04_frame_every_document.

(* the premise is a theorem about the parser: postings lie on pairwise different lines of the text *)
Theorem C04_postings_on_distinct_lines : forall input j errs,
  parse input = Some (j, errs) -> post_lines_ok j (split_lf input) = true.
Proof. exact parse_post_lines_ok. Qed.
Print Assumptions C04_postings_on_distinct_lines.

(* "including formats with fewer decimals than an amount carries": under every display format the
   decimal that is printed for an amount has exactly the amount's value *)
Theorem C04_format_never_rounds : forall a f, 0 <= nf_places f -> deqv (printed a f) (a_qty a) = true.
Proof. exact format_never_rounds. Qed.
Print Assumptions C04_format_never_rounds.

Theorem C04_rounding_is_exact_at_enough_places : forall q places, - dexp q <= places -> deqv (dround q places) q = true.
Proof. exact dround_exact. Qed.
Print Assumptions C04_rounding_is_exact_at_enough_places.

(* third clause, for the model: a line on which the parser reported an error receives no edit *)
Theorem C04_error_lines_untouched : forall j errs content fm o e l c,
  In (l, c) errs -> In e (server_format j errs content fm o) -> fe_sl e <> Z.of_N l - 1.
Proof. exact error_lines_untouched. Qed.
Print Assumptions C04_error_lines_untouched.

(* non-vacuity: a journal with trailing blanks, odd comment spacing, a quoted commodity, a cost, an
   assertion, surplus decimals and a non-ASCII account meets the hypotheses and keeps its meaning *)
Theorem C04_sample_holds :
  post_lines_ok (jof w_sample) (split_lf w_sample) = true /\
  match fmt_text w_sample o4 with
  | Some t1 => same_meaning (jof w_sample) (jof t1) = true /\ t1 <> w_sample
  | None => False
  end.
Proof. exact sample_meaning. Qed.
Print Assumptions C04_sample_holds.
