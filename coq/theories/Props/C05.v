(* C05  Formatting is idempotent, aligned and returns well-formed edits.
   Same composed model as C04.  Well-formedness and alignment are proved for every syntax tree,
   text, format table and configuration; idempotence is refuted by the recorded finding and holds
   on the sample. *)
From HL Require Import Lib.Bytes Model.Ast Lib.Dec Model.Lexer Model.Parser Model.NumberFormat Model.Formatter
  Spec.FormatSpec Spec.FormatRun Proofs.FormatterProofs Proofs.ParserProofs Proofs.ParserLines Proofs.FormatPipeline.
Open Scope Z_scope.

(* first sentence: every range inside the document, start <= end, no two edits overlap *)
Theorem C05_edits_wf : forall j errs content fm o,
  post_lines_ok j (split_lf content) = true ->
  edits_wf (split_lf content) (server_format j errs content (Some fm) o) = true.
Proof. exact server_format_wf. Qed.
Print Assumptions C05_edits_wf.

(* the same on the whole pipeline, with no premise: for EVERY byte string, format table and
   configuration the edit list computed from the parser's journal is well-formed *)
Theorem C05_edits_wf_every_document : forall input fmts o,
  exists j errs, parse input = Some (j, errs) /\
                 edits_wf (split_lf input) (server_format j errs input fmts o) = true.
Proof. exact pipeline_edits_wf. Qed.
Print Assumptions C05_edits_wf_every_document.

(* third sentence: the amount of every posting without status mark starts in ONE column, the
   same for the whole document ... *)
Theorem C05_amount_column : forall txs fm o p a t,
  fo_align o = true -> 0 < fo_indent o ->
  In t txs -> In p (tx_postings t) -> po_amount p = Some a -> po_status p = StNone -> amount_text_ok a fm = true ->
  amount_col (fo_indent o) p (format_posting p (alignment (tx_postings t) fm o (global_col txs o)) fm o)
  = Some (global_col txs o).
Proof. exact amount_column. Qed.
Print Assumptions C05_amount_column.

(* ... which lies at least two blanks to the right of every account, width in characters *)
Theorem C05_column_clears_every_account : forall txs o p,
  fo_align o = true -> In p (Formatter.all_postings txs) -> fo_indent o + acct_display_len p + 2 <= global_col txs o.
Proof. exact global_col_bound. Qed.
Print Assumptions C05_column_clears_every_account.

Theorem C05_width_in_characters : forall indent p, 0 <= indent ->
  rcount (plain_head indent p) = indent + acct_display_len p.
Proof. exact plain_head_width. Qed.
Print Assumptions C05_width_in_characters.

(* every rewritten posting line starts with exactly the configured indent *)
Theorem C05_indent : forall p al fm o, 0 <= fo_indent o -> starts_visible p = true ->
  indent_ok (fo_indent o) (format_posting p al fm o) = true.
Proof. exact posting_indent. Qed.
Print Assumptions C05_indent.

Theorem C05_indent_is_positive : forall o, 0 < fo_indent (norm_opts o).
Proof. exact norm_indent_pos. Qed.
Print Assumptions C05_indent_is_positive.

(* second sentence *)
Definition C05_idempotent : Prop := forall t o t1, fmt_text t o = Some t1 -> fmt_text t1 o = Some t1.

Theorem C05_idempotence_refuted_three_decimal_format : ~ C05_idempotent.
Proof. exact idempotence_refuted. Qed.
Print Assumptions C05_idempotence_refuted_three_decimal_format.

Theorem C05_sample_holds :
  match fmt_text w_sample o4 with
  | Some t1 => fmt_text t1 o4 = Some t1 /\ t1 <> w_sample /\
               edits_wf (split_lf w_sample) (match parse w_sample with Some (j, errs) => server_format j errs w_sample None o4 | None => [] end) = true
  | None => False
  end.
Proof. exact sample_idempotent. Qed.
Print Assumptions C05_sample_holds.
