(* C19  Configuration is total, validated and effective.
   Statements only; every proof is `exact` of a lemma from Proofs/SettingsProofs.v. *)
From HL Require Import Lib.Bytes Model.Settings Spec.SettingsSpec Proofs.SettingsProofs.
Open Scope Z_scope.

(* Any payload whatsoever is accepted: the wrapper recursion never runs out of fuel and
   the record produced is normalised. *)
Theorem C19_total : forall base raw,
  exists s, parse_fuel (jdepth raw) base raw = Some s /\ normalized s.
Proof. exact total_normalized. Qed.
Print Assumptions C19_total.

(* A recognised, well-typed value takes effect: the last well-typed spelling offered for a
   field (nested before dotted; see C19_addressing) is the value read back, normalised. *)
Theorem C19_effective : forall s o f v,
  alookup_last (bs "hledger") o = None -> offered f o = Some v ->
  get f (cfg_step s (JObj o)) = norm_field f v.
Proof. exact effective. Qed.
Print Assumptions C19_effective.

(* Absent, unrecognised or ill-typed entries leave the previous value; nothing else is touched. *)
Theorem C19_frame : forall s o f,
  normalized s -> alookup_last (bs "hledger") o = None -> offered f o = None ->
  get f (cfg_step s (JObj o)) = get f s.
Proof. exact frame. Qed.
Print Assumptions C19_frame.

Theorem C19_frame_nonobject : forall s raw,
  normalized s -> is_object raw = false -> cfg_step s raw = s.
Proof. exact frame_nonobject. Qed.
Print Assumptions C19_frame_nonobject.

(* The "hledger" wrapper: the wrapped value is the payload (siblings are ignored). *)
Theorem C19_wrapper : forall s o nested,
  alookup_last (bs "hledger") o = Some nested -> cfg_step s (JObj o) = cfg_step s nested.
Proof. exact wrapper. Qed.
Print Assumptions C19_wrapper.

(* Non-positive numbers fall back to the defaults, positive ones are kept. *)
Theorem C19_defaults : forall f z,
  In f positive_fields -> z <= 0 -> norm_field f (VZ z) = get f default_settings.
Proof. exact defaults. Qed.
Print Assumptions C19_defaults.

Theorem C19_positive_kept : forall f z, 0 < z -> norm_field f (VZ z) = VZ z.
Proof. exact positive_kept. Qed.
Print Assumptions C19_positive_kept.

(* Sequences: the state after a sequence is the fold, and every reachable state is normalised. *)
Theorem C19_sequence : forall ps p, cfg_run (ps ++ [p]) = cfg_step (cfg_run ps) p.
Proof. exact cfg_run_snoc. Qed.
Print Assumptions C19_sequence.

Theorem C19_reachable_normalized : forall ps, normalized (cfg_run ps).
Proof. exact cfg_run_normalized. Qed.
Print Assumptions C19_reachable_normalized.

(* The step is exactly the per-field specification, for every payload. *)
Theorem C19_step_spec : forall f s raw, get f (cfg_step s raw) = spec_payload f s raw.
Proof. exact cfg_step_spec. Qed.
Print Assumptions C19_step_spec.

Theorem C19_addressing : forall f, f <> LimSize ->
  exists sec name k, candidates f = [(Nested sec name, k, f); (Dotted (dot sec name), k, f)].
Proof. exact candidates_shape. Qed.
Print Assumptions C19_addressing.

(* Non-vacuity: a concrete payload meeting the hypotheses of C19_effective / C19_frame. *)
Example C19_example :
  let o := [ (bs "completion", JObj [(bs "maxResults", JNum 7 1)]);
             (bs "completion.maxResults", JStr (bs " 12 "));
             (bs "formatting.indentSize", JNum (-3) 1);
             (bs "features", JObj [(bs "hover", JStr (bs "nope"))]) ] in
  alookup_last (bs "hledger") o = None /\
  offered CMax o = Some (VZ 12) /\ offered FHover o = None /\
  get CMax (cfg_step init_settings (JObj o)) = VZ 12 /\
  get FmtIndent (cfg_step init_settings (JObj o)) = VZ 4 /\
  get FHover (cfg_step init_settings (JObj o)) = VB true.
Proof. vm_compute. repeat split; reflexivity. Qed.
