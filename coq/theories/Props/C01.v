(* C01  Document mirror fidelity under any edit history.
   Statements only; proofs are `exact` of lemmas from Proofs/C01Proofs.v. *)
From HL Require Import Lib.Bytes Lib.Utf8 Model.Mapper Model.DocStore Spec.RefClient Tie.C01 Proofs.C01Proofs.
Open Scope N_scope.

(* The full statement (kept visible):
     C01_statement := forall h, wf_history h = true -> srv_run h = ref_run h
   where wf_history demands what a conforming client sends: documents made of well-formed
   code points, LF or CRLF line ends, start <= end, no position inside a surrogate pair.
   It is FALSE of the faithful model: a ranged change with the empty range 0:0-0:0 cannot be told
   from a range-less one (the protocol library decodes both into the same value).  (A second
   witness of the pinned tree, clamping after the CR of a CRLF line end, was repaired in /repo.) *)
Theorem C01_refuted : ~ C01_statement.
Proof. exact statement_refuted. Qed.
Print Assumptions C01_refuted.

Theorem C01_refuted_zero_range_insert :
  wf_history witness_zero_insert = true /\ srv_run witness_zero_insert <> ref_run witness_zero_insert.
Proof. exact refuted_zero_insert. Qed.
Print Assumptions C01_refuted_zero_range_insert.

Theorem C01_sample_crlf_past_eol :
  wf_history witness_crlf = true /\ has_zero_insert witness_crlf = false /\
  dlookup 0 (srv_run witness_crlf) = Some (bs "abX" ++ [CR; LF] ++ bs "cd") /\
  srv_run witness_crlf = ref_run witness_crlf.
Proof. exact crlf_past_eol_sample. Qed.
Print Assumptions C01_sample_crlf_past_eol.

(* The same statement outside the one refuted class, for ALL histories (any length, any
   number of documents, any UTF-8 text with LF or CRLF line ends, any positions incl. past line
   end / document end, several changes per notification, close and re-open): *)
Theorem C01_partial : forall h,
  wf_history h = true -> has_zero_insert h = false ->
  srv_run h = ref_run h.
Proof. exact partial. Qed.
Print Assumptions C01_partial.

(* position resolution itself: on well-formed text, the server's byte offset of any
   (line, UTF-16 column) is the reference client's *)
Theorem C01_positions : forall t l c k,
  cps_ok t 0 = true -> ref_off t l c = Some k ->
  lsp_to_byte t l c = k.
Proof. intros t l c k H. exact (off_agree t 0 l c k H (fun _ => eq_refl)). Qed.
Print Assumptions C01_positions.

(* answers that depend on the stored text only are those of the client's text *)
Theorem C01_fresh_doc_only : forall (f : option (list N) -> list N) h u,
  wf_history h = true -> has_zero_insert h = false ->
  f (dlookup u (srv_run h)) = f (dlookup u (ref_run h)).
Proof. exact fresh_doc_only. Qed.
Print Assumptions C01_fresh_doc_only.
