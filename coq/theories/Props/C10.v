(* C10  Include resolution equals graph reachability, with exact cycle verdicts.
   Against the pinned tree the cycle clause and the depth clause were refuted (a file reached again
   off the inclusion path was reported as a cycle; the depth limit counted the files seen so far and
   its error carried no directive); both were repaired in /repo and the model follows the repaired
   loader.  All statements below are for ALL file systems, include graphs (cyclic ones, diamonds,
   globs, self includes, dangling targets), limits, and coherent caches (every cache entry is the
   file as the file system holds it: an invariant of every history, C11). *)
From HL Require Import Lib.Bytes Model.Loader Spec.LoaderSpec Tie.C10 Proofs.LoaderGraph Proofs.LoaderProofs Proofs.LoaderTraversal.
Open Scope N_scope.

(* The loader IS the stack-based reference traversal (a cycle is an include of a file currently
   being included; a file reached again otherwise is skipped silently; missing, oversized and
   too-deep includes are refused one by one): same order, same diagnostics in the same order,
   same set of loaded files -- whatever the cache holds. *)
Theorem C10_loader_is_the_reference_traversal : forall fs L cache0 root override,
  coherent fs L cache0 ->
  root_refines fs L (load_root fs L cache0 root override) (ref_root fs L root override).
Proof. exact load_root_refines. Qed.
Print Assumptions C10_loader_is_the_reference_traversal.

(* resolution terminates: the driver's fuel |files| + 2 is never exhausted, because every
   recursive call marks a file that was not marked before *)
Theorem C10_terminates : forall fs L cache0 root override,
  coherent fs L cache0 -> load_root fs L cache0 root override <> None.
Proof. exact load_root_total. Qed.
Print Assumptions C10_terminates.

(* each file once *)
Theorem C10_each_file_once : forall fs L cache0 root override f out res,
  coherent fs L cache0 -> root_file fs L root override f ->
  load_root fs L cache0 root override = Some out -> o_res out = Some res ->
  NoDup (r_order res) /\ ~ In root (r_order res).
Proof. exact load_root_each_once. Qed.
Print Assumptions C10_each_file_once.

(* only reachable (and existing) files are loaded; every diagnostic sits on a directive, in the
   root or in a file reachable from it, that names the diagnostic's target (a glob without match is
   reported with the sentinel target); and a cycle diagnostic names a file that is reachable from
   itself: the root through its own directives, or a file through the directives it has on disk *)
Theorem C10_resolved_files_are_reachable_and_diagnostics_attached : forall fs L cache0 root override f out,
  coherent fs L cache0 -> root_file fs L root override f ->
  load_root fs L cache0 root override = Some out ->
  (forall res x, o_res out = Some res -> In x (r_order res) -> reach fs (f_dirs f) x /\ exists g, flookup x fs = Some g) /\
  (forall e, In e (o_errs out) ->
     (e_kind e = ENotFound /\ e_target e = 999999) \/
     (attached fs (f_dirs f) (e_target e) (e_line e) /\
      (e_kind e = ECycle -> e_target e = root \/ exists g, flookup (e_target e) fs = Some g /\ reach fs (f_dirs g) (e_target e)))).
Proof. exact load_root_sound. Qed.
Print Assumptions C10_resolved_files_are_reachable_and_diagnostics_attached.

(* "a file reached twice along different acyclic paths is not an error": if no reachable file
   (nor the root) can reach itself, there is no cycle diagnostic at all *)
Theorem C10_no_cycle_diagnostic_without_a_cycle : forall fs L cache0 root override f out,
  coherent fs L cache0 -> root_file fs L root override f ->
  load_root fs L cache0 root override = Some out ->
  ~ reach fs (f_dirs f) root ->
  (forall x g, reach fs (f_dirs f) x -> flookup x fs = Some g -> ~ reach fs (f_dirs g) x) ->
  forall e, In e (o_errs out) -> e_kind e <> ECycle.
Proof. exact load_root_no_spurious_cycle. Qed.
Print Assumptions C10_no_cycle_diagnostic_without_a_cycle.

(* "a missing, oversized or too-deep include ... does not stop the remaining includes from
   loading": every include of the root and of every loaded file is loaded, or carries a diagnostic
   of its own kind on its own line (a glob without match: a not-found diagnostic on its line) *)
Theorem C10_every_include_is_loaded_or_diagnosed : forall fs L cache0 root override f out res,
  coherent fs L cache0 -> root_file fs L root override f ->
  load_root fs L cache0 root override = Some out -> o_res out = Some res ->
  items_closed (dir_items fs (f_dirs f)) (visited (o_st out)) (o_errs out) /\
  (forall x, In x (r_order res) -> exists g, flookup x fs = Some g /\
     items_closed (dir_items fs (f_dirs g)) (visited (o_st out)) (o_errs out)).
Proof. exact load_root_closed. Qed.
Print Assumptions C10_every_include_is_loaded_or_diagnosed.

(* hence reachability both ways: when nothing is refused for being missing, too large or too deep
   (cycle diagnostics are allowed), exactly the reachable files are loaded.  (The root's directives
   are those of the text being loaded; the side condition says that the file system's copy of the
   root, if some include leads back to it, has the same includes.) *)
Theorem C10_reachable_files_are_loaded : forall fs L cache0 root override f out res,
  coherent fs L cache0 -> root_file fs L root override f ->
  load_root fs L cache0 root override = Some out -> o_res out = Some res ->
  (forall g, flookup root fs = Some g -> dir_items fs (f_dirs g) = dir_items fs (f_dirs f)) ->
  (forall e, In e (o_errs out) -> e_kind e = ECycle) ->
  forall x, reach fs (f_dirs f) x -> x = root \/ In x (r_order res).
Proof. exact load_root_complete. Qed.
Print Assumptions C10_reachable_files_are_loaded.

(* root-level verdicts hold for every file system, limit and cache *)
Theorem C10_root_missing : forall fs L c root,
  flookup root fs = None ->
  load_root fs L c root None = Some (mkOut None [mkErr ENotFound root 0] (mkLS [] [] c) [] []).
Proof. exact root_missing. Qed.
Print Assumptions C10_root_missing.

Theorem C10_root_too_large : forall fs L c root f,
  flookup root fs = Some f -> (max_size L <? f_size f) = true ->
  load_root fs L c root None = Some (mkOut None [mkErr ETooLarge root 0] (mkLS [] [] c) [] []).
Proof. exact root_too_large. Qed.
Print Assumptions C10_root_too_large.

Theorem C10_fresh_loader_is_coherent : forall fs L, coherent fs L [].
Proof. exact coherent_nil. Qed.
Print Assumptions C10_fresh_loader_is_coherent.

(* non-vacuity, on the graphs that used to be refutation witnesses: *)
(* the diamond 0 -> 1, 2 ; 1 -> 3 ; 2 -> 3 loads 1, 3, 2 and reports nothing *)
Theorem C10_sample_diamond :
  exists m, load_root diamond big [] 0 None = Some m /\ o_errs m = [] /\
    option_map r_order (o_res m) = Some [1; 3; 2].
Proof. exact diamond_is_not_a_cycle. Qed.
Print Assumptions C10_sample_diamond.

Theorem C10_sample_double_include :
  exists m, load_root double_inc big [] 0 None = Some m /\ o_errs m = [] /\
    option_map r_order (o_res m) = Some [1].
Proof. exact double_include_loads_once. Qed.
Print Assumptions C10_sample_double_include.

(* two siblings at depth 1 under a limit of 2 are both loaded ... *)
Theorem C10_sample_depth_limit_siblings :
  exists m, load_root siblings (mkLim 10485760 2) [] 0 None = Some m /\ o_errs m = [] /\
    option_map r_order (o_res m) = Some [1; 2].
Proof. exact depth_is_a_path_length. Qed.
Print Assumptions C10_sample_depth_limit_siblings.

(* ... a grandchild is refused on the directive that names it (line 12 of file 1), and the root's
   next include is still loaded *)
Theorem C10_sample_too_deep :
  exists m, load_root chain (mkLim 10485760 2) [] 0 None = Some m /\ o_errs m = [mkErr ETooDeep 2 12] /\
    option_map r_order (o_res m) = Some [1; 3].
Proof. exact too_deep_on_its_directive. Qed.
Print Assumptions C10_sample_too_deep.

(* a real cycle 0 -> 1 -> 2 -> 1 is reported on the directive that closes it *)
Theorem C10_sample_cycle :
  exists m, load_root looped big [] 0 None = Some m /\ o_errs m = [mkErr ECycle 1 22] /\
    option_map r_order (o_res m) = Some [1; 2].
Proof. exact cycle_is_reported_where_it_closes. Qed.
Print Assumptions C10_sample_cycle.
