(* C10  Include resolution equals graph reachability, with exact cycle verdicts. *)
From HL Require Import Lib.Bytes Model.Loader Spec.LoaderSpec Tie.C10 Proofs.LoaderProofs Proofs.LoaderTraversal.
Open Scope N_scope.

(* "A cycle diagnostic is attached to an include exactly when following it re-enters a file
   currently being included; a file reached twice along different acyclic paths is not an
   error" — as a statement about the loader model and the stack-based reference traversal: *)
Theorem C10_cycles_exact_refuted : ~ C10_cycles_exact_statement.
Proof. exact cycles_exact_refuted. Qed.
Print Assumptions C10_cycles_exact_refuted.

(* witness 1 (diamond): a spurious cycle on the second path; the loaded set still equals the
   reachable set, each file once *)
Theorem C10_refuted_diamond :
  exists m r, load_root diamond big [] 0 None = Some m /\ ref_root diamond big 0 None = Some r /\
    ro_deep r = false /\ o_errs m = [mkErr ECycle 3 22] /\ ro_errs r = [] /\
    option_map r_order (o_res m) = Some [1; 3; 2] /\ ro_order r = [1; 3; 2].
Proof. exact diamond_reports_cycle. Qed.
Print Assumptions C10_refuted_diamond.

(* witness 2: the same file included twice from one file *)
Theorem C10_refuted_double_include :
  exists m, load_root double_inc big [] 0 None = Some m /\ o_errs m = [mkErr ECycle 1 3].
Proof. exact double_include_reports_cycle. Qed.
Print Assumptions C10_refuted_double_include.

(* witness 3: "too deep" is a count of files seen, reported without the directive's line, and
   it drops a sibling that is only at depth 1 *)
Theorem C10_refuted_depth_limit :
  exists m r, load_root siblings (mkLim 10485760 2) [] 0 None = Some m /\
    ref_root siblings (mkLim 10485760 2) 0 None = Some r /\
    o_errs m = [mkErr ETooDeep 2 0] /\ ro_errs r = [] /\ ro_order r = [1; 2] /\
    option_map r_order (o_res m) = Some [1].
Proof. exact depth_is_a_count. Qed.
Print Assumptions C10_refuted_depth_limit.

(* root-level verdicts hold for every file system, limit and cache *)
Theorem C10_root_missing : forall fs L c root,
  flookup root fs = None ->
  load_root fs L c root None = Some (mkOut None [mkErr ENotFound root 0] (mkLS [] c) [] []).
Proof. exact root_missing. Qed.
Print Assumptions C10_root_missing.

Theorem C10_root_too_large : forall fs L c root f,
  flookup root fs = Some f -> (max_size L <? f_size f) = true ->
  load_root fs L c root None = Some (mkOut None [mkErr ETooLarge root 0] (mkLS [] c) [] []).
Proof. exact root_too_large. Qed.
Print Assumptions C10_root_too_large.

(* for ALL file systems, include graphs (cyclic ones, globs, self includes), limits and coherent caches
   (every cache entry is the file as the file system holds it: an invariant of every history, C11):
   resolution terminates -- the driver's fuel |files| + 2 is never exhausted, because every
   recursive call marks a file that was not marked before ... *)
Theorem C10_terminates : forall fs L cache0 root override,
  coherent fs L cache0 -> load_root fs L cache0 root override <> None.
Proof. exact load_root_total. Qed.
Print Assumptions C10_terminates.

(* ... and it is sound with respect to graph reachability: every file in the resolved order is
   reachable from the journal being loaded through include directives (of files as read from the
   file system), whatever the (coherent) cache holds and whatever the limits are.  The converse (every
   reachable file is loaded) is what the refutations above and C11's findings are about. *)
Theorem C10_resolved_files_are_reachable : forall fs L cache0 root override out r f,
  coherent fs L cache0 ->
  match override with Some g => Some g | None => flookup root fs end = Some f ->
  load_root fs L cache0 root override = Some out -> o_res out = Some r ->
  forall x, In x (r_order r) -> reach fs (f_dirs f) x.
Proof. exact load_root_sound. Qed.
Print Assumptions C10_resolved_files_are_reachable.

Theorem C10_fresh_loader_is_coherent : forall fs L, coherent fs L [].
Proof. exact coherent_nil. Qed.
Print Assumptions C10_fresh_loader_is_coherent.
