(* C02  Unbalanced-transaction verdicts are exact (AST level; the text level is tied per case). *)
From Coq Require Import QArith Qabs.
From HL Require Import Lib.Bytes Model.Ast Lib.Dec Model.Balance Spec.Rational Proofs.BalanceProofs.

(* For EVERY posting list (any number of postings, any kinds, any decimals with unbounded
   mantissas and exponents, any costs): the verdict the analyzer reaches is the one the
   exact-rational rule prescribes, and the parts it names are the non-zero residuals. *)
Theorem C02_ast : forall ps,
  let real := real_postings ps in
  match balance_verdict ps with
  | BMultiple => (2 <= n_missing real)%nat
  | BOk => n_missing real = 1%nat \/ (n_missing real = 0%nat /\ forall k, qsum k real == 0%Q)
  | BUnbalanced parts =>
      n_missing real = 0%nat /\ parts <> [] /\
      (forall k d, In (k, d) parts -> ~ qsum k real == 0%Q /\ dval d == Qabs (qsum k real)) /\
      (forall k, ~ qsum k real == 0%Q -> exists d, In (k, d) parts)
  end.
Proof. exact verdict_exact. Qed.
Print Assumptions C02_ast.

(* the per-commodity totals the code accumulates are the exact rational sums *)
Theorem C02_sums_exact : forall k ps, lookup_val k (sum_by_commodity ps) == qsum k ps.
Proof. exact sums_exact. Qed.
Print Assumptions C02_sums_exact.

(* decimal arithmetic as used is exact *)
Theorem C02_decimal_add : forall a b, dval (dadd a b) == (dval a + dval b)%Q.
Proof. exact dval_add. Qed.
Print Assumptions C02_decimal_add.
Theorem C02_decimal_mul : forall a b, dval (dmul a b) == (dval a * dval b)%Q.
Proof. exact dval_mul. Qed.
Print Assumptions C02_decimal_mul.

(* non-vacuity: an unbalanced two-commodity transaction with a unit cost *)
Example C02_example :
  let usd := mkCom (bs "USD") false rng0 in let eur := mkCom (bs "EUR") false rng0 in
  let amt q c := mkAmt q [] c false rng0 in
  let p1 := mkPosting StNone (bs "a:b") rng0 (Some (amt (mkDec (-10) 0) eur)) None
                      (Some (mkCost (amt (mkDec 11 (-1)) usd) false rng0)) [] [] VNone rng0 in
  let p2 := mkPosting StNone (bs "c:d") rng0 (Some (amt (mkDec 1050 (-2)) usd)) None None [] [] VNone rng0 in
  match balance_verdict [p1; p2] with
  | BUnbalanced [(k, d)] => beq k (bs "USD") = true /\ deqv d (mkDec 5 (-1)) = true
  | _ => False
  end.
Proof. vm_compute. split; reflexivity. Qed.
