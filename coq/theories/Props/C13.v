(* C13  Published diagnostics converge to the latest content under any timing. *)
From HL Require Import Lib.Bytes Model.Publish Proofs.C13Proofs.
Open Scope N_scope.

(* Full statement, for every diagnostics function, every trace (any number of documents,
   changes, closes, and ANY order in which background analyses reach their publish point): *)
Theorem C13_statement : forall (diag : N -> N) (tr : list pevent),
  quiescent (prun diag true tr) -> converged diag (prun diag true tr).
Proof. exact guarded_converges. Qed.
Print Assumptions C13_statement.

(* the invariant behind it holds in every reachable state, not only at quiescence *)
Theorem C13_invariant : forall (diag : N -> N) (tr : list pevent), inv diag (prun diag true tr).
Proof. exact inv_run. Qed.
Print Assumptions C13_invariant.

(* Without the staleness guard (the code before commit "fix: do not publish diagnostics computed
   from a superseded document version") the statement is false: *)
Theorem C13_unguarded_refuted :
  quiescent (prun id_diag false stale_trace) /\ ~ converged id_diag (prun id_diag false stale_trace).
Proof. exact unguarded_refuted. Qed.
Print Assumptions C13_unguarded_refuted.

(* non-vacuity: the guarded machine on the same trace is quiescent and converged on content 2 *)
Example C13_example :
  quiescent (prun id_diag true stale_trace) /\
  last_pub 0 (published (prun id_diag true stale_trace)) = Some 2.
Proof. split; reflexivity. Qed.
