(* C18  Undeclared-account and undeclared-commodity warnings are exact. *)
From HL Require Import Lib.Bytes Model.Ast Model.Settings Model.Undeclared Proofs.UndeclaredProofs.
Open Scope N_scope.

(* accounts: a posting is warned about iff its account is neither under a standard category
   (case-insensitively), nor declared, nor strictly below a declared account *)
Theorem C18_account_rule : forall tx declared p,
  In p (undeclared_postings tx declared) <->
  In p (tx_postings tx) /\
  ~ (standard_category (po_acct p) \/ In (po_acct p) declared \/ below_declared (po_acct p) declared).
Proof. exact undeclared_postings_exact. Qed.
Print Assumptions C18_account_rule.

(* commodities: exactly the non-empty undeclared symbols used in amounts, costs and assertions ... *)
Theorem C18_commodity_rule : forall tx declared s,
  In s (undeclared_commodities tx declared) <-> In s (tx_symbols tx) /\ s <> [] /\ ~ In s declared.
Proof. exact commodities_exact. Qed.
Print Assumptions C18_commodity_rule.

(* ... each once per transaction *)
Theorem C18_commodity_once : forall tx declared, NoDup (undeclared_commodities tx declared).
Proof. exact commodities_once. Qed.
Print Assumptions C18_commodity_once.

(* settings: each switch removes exactly its own kind of warning and leaves the other alone *)
Theorem C18_settings : forall j ea ec s,
  let all := warnings_from 0 (j_txs j) (declared_accounts j ++ ea) (declared_commodities j ++ ec) in
  filter is_acc (analyze_warnings j ea ec s) = (if d_accounts s then filter is_acc all else []) /\
  filter (fun w => negb (is_acc w)) (analyze_warnings j ea ec s) =
    (if d_commodities s then filter (fun w => negb (is_acc w)) all else []).
Proof. exact settings_filter. Qed.
Print Assumptions C18_settings.

(* scope: the declared set the server hands to the analysis is  include tree ++ workspace
   (Server.externalDeclarations, repaired in /repo by fix 2b08bc6; before it the include tree was
   left out).  The rule is sensitive to that set, which is why the scope matters: *)
Definition scope_witness : journal :=
  mkJournal [mkTx (mkDate 2024 1 1 rng0) None StNone [] (bs "x") [] [] rng0
                  [mkPosting StNone (bs "other:acct") rng0 None None None [] [] VNone rng0] [] [] rng0] [] [] [].
Theorem C18_scope_matters :
  analyze_warnings scope_witness [] [] default_settings = [] /\
  analyze_warnings scope_witness [bs "my:acct"] [] default_settings = [WAccount 0 (bs "other:acct")].
Proof. split; vm_compute; reflexivity. Qed.
Print Assumptions C18_scope_matters.
