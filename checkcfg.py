"""Per-property configuration of ./check (sizes, trusted base, notes)."""

TRUSTED_COMMON = [
    "Coq 8.16.1 kernel and its bytecode VM (vm_compute used in cases_*.v shards, refutation witnesses and finite decisions); native_compute not used",
    "hand-written Gallina model tied to /repo's working tree by the correspondence run of this check (Go harness built with -tags verif, Gallina literals evaluated by coqc)",
    "Go harness /verif/harness (case generation, client stub, Gallina printing) and /verif/check (verdict logic)",
]

# axioms the standard library itself declares and that a theorem may depend on; anything else is rejected
ALLOWED_AXIOMS = {
    "functional_extensionality_dep", "FunctionalExtensionality.functional_extensionality_dep",
    "proof_irrelevance", "classic", "Eqdep.Eq_rect_eq.eq_rect_eq", "JMeq_eq",
}

PROPS = {
    "C04": {
        "n": {"quick": 400, "thorough": 10000},
        "shards": 16,
        "known_bitmask": True,
        "trusted": [
            "formatter model (Model/Formatter.v, Model/NumberFormat.v): FormatDocumentWithOptions, the alignment computations, formatPostingWithOpts, writeAmountWithSign, formatAmountQuantity, trimTrailingSpacesEdits, extractCommodityFormats, Workspace.GetCommodityFormats, ParseNumberFormat, FormatNumber, and the decimal printing of shopspring/decimal (Round, StringFixed, String) -- composed with the lexer and parser models, so the model's edits are computed from the TEXT and the configuration alone",
            "diagnostics before / after formatting are the real server's (observed, not modelled)",
            "reference edit applier: Spec/FormatSpec.v apply_edits (single-line edits, UTF-16 columns, CR before LF belongs to the line ending); the harness's byte-offset applier is compared with it on every case",
        ],
        "assumptions": ["exponents of generated amounts are small (exponents beyond +-255 are syntax errors since the C06 repair)", "the included file is formats.journal next to the root journal; other workspace shapes are C10/C18's subject"],
        "explanation": "theorems on the formatter model (Props/C04.v); tie: model edits = real edits on both rounds, reference applier = harness applier, parse errors; oracle: same meaning after re-parsing, same diagnostics, frame of non-posting lines, unread text kept",
    },
    "C05": {
        "n": {"quick": 400, "thorough": 10000},
        "shards": 16,
        "known_bitmask": True,
        "trusted": [
            "same models and applier as C04",
        ],
        "assumptions": ["same input space as C04"],
        "explanation": "theorems on the formatter model (Props/C05.v); tie as C04; oracle: both edit lists well-formed, second formatting changes nothing, rewritten posting lines aligned",
    },
    "C14": {
        "n": {"quick": 8, "thorough": 48},
        "shards": 4,
        "known_bitmask": True,
        "harness_timeout": 2400,
        "trusted": [
            "translator harness/c14extract.go (go/parser + go/types over internal/server, internal/workspace, internal/include of /repo's working tree, re-run on every check): tracked structs = structs with a sync.Mutex / sync.RWMutex field; locations = their fields (fields of sync / atomic types are skipped as internally synchronised) and, separately, what a field points to ('deep'); lock scopes are syntactic (Lock/RLock .. Unlock/RUnlock in statement order, deferred unlocks last to the end of the function, a branch that falls through leaves the intersection of its lock sets); callers' locks are propagated along static call edges to a fixed point; thread kinds by reachability from the exported Server methods (dispatcher), Initialize / SetClient / NewServer (initialisation) and the callees of go statements (background); pointers handed out by accessor methods and local copies of them are followed; NOT seen: function values, interface dispatch, pointers stored into other structs, the analyzer / parser / cli packages' own state",
            "Model/Locks.v: interleaving machine with reader-writer locks at access granularity; the Go memory model below 'access with lock set' is not modelled; one instance per tracked struct and ONE dispatcher thread (jsonrpc2 serves requests and notifications serially) are assumptions read off the code, as is 'initialize is handled before any background goroutine exists'",
            "race-detector stress (a -race build of the harness run as child processes) is search, not proof: it supports the translator's table and looks for a failing schedule",
        ],
        "assumptions": ["configuration answers of the stress client change only cli.path and maxIncludeDepth (40..44), which do not influence the compared responses", "schedules are those the Go scheduler produces on 16 cores under the race detector with client delays of 0..3 ms"],
        "explanation": "lockset soundness theorem on the interleaving machine (Props/C14.v); per location Coq decides the discipline on the rows the translator extracted from the current source; no lock across a blocking client request; lock nesting acyclic; stress batches: no race report, hang, crash, or response that differs from the sequential replay",
    },
    "C08": {
        "n": {"quick": 600, "thorough": 15000},
        "shards": 16,
        "known_bitmask": True,
        "trusted": [
            "range producers modelled on the AST (hover element ranges, prepareRename, document symbols, links, folding, diagnostics ranges with the balance / undeclared models); composed with the lexer and parser models, so the model's ranges are computed from the TEXT alone and compared with the implementation's",
            "references / definition / workspace-symbol / completion / load-error ranges are validated on the implementation's output only (their models live in C09 / C16)",
        ],
        "assumptions": ["request positions are the first or second UTF-16 unit of each element; cursor positions inside a surrogate pair are not generated"],
        "explanation": "validator theorems (Props/C08.v); tie: symbols, links, folds, diagnostics, hover and prepareRename ranges from text through the composed models; oracle: every collected range is a well-formed in-document UTF-16 range, covers its element's text where claimed, symbols and folds are laminar",
    },
    "C09": {
        "n": {"quick": 600, "thorough": 15000},
        "shards": 16,
        "trusted": [
            "references model on ASTs: findDefinitionTarget, allJournalsWithPaths, the three find*References, sortAndDedup, astRangeToProtocol (uint32 wrap); inputs are the ASTs of the resolved journal the server consults (read through exported API) and of the open document",
            "rename is checked by the harness: the returned edits are applied (UTF-16 aware) to the texts of the scope and compared with the texts in which exactly the occurrences are renamed",
        ],
        "assumptions": ["occurrences are compared by (file, start line, start character); payees by (file, line): range ends and payee columns are C08's subject"],
        "explanation": "C09_references_exact for all journal sets; own-path theorems for requests from any file of the tree; tie on locations and rename edits; oracle: occurrence set over the scope the property names + applied rename",
    },
    "C16": {
        "n": {"quick": 600, "thorough": 15000},
        "shards": 16,
        "trusted": [
            "completion model: transcription of completion.go (context determination, candidate narrowing, query extraction, fuzzy scoring on runes with unicode.ToLower from a generated table, prefix filter, ranking, truncation, text-edit start); the analyzer's name lists, by-prefix index and usage counts are inputs obtained through the exported analyzer API on the journal the server resolved",
            "date items (clock) are excluded from the comparison",
        ],
        "assumptions": ["labels of one candidate list are distinct", "the typed fragment of the oracle is the model's extractQueryText (tied to the implementation on every request)"],
        "explanation": "theorems on the filtering / ranking / truncation core (Props/C16.v); tie on labels in order, on two maxResults values and on the edit start for every request; oracle: six clauses of the property on the implementation's answers",
    },
    "C07": {
        "n": {"quick": 2500, "thorough": 60000},
        "shards": 16,
        "trusted": [
            "lexer and parser models as in C03 (tie: full AST and error positions of the damaged text)",
            "the containment statement is evaluated on the real parser's output for (J, damaged J) pairs; it is not proved for all damages (ceiling: line-locality of the lexer + parser resynchronisation invariant)",
        ],
        "assumptions": [
            "entries are separated by blank lines and the damaged text does not begin with an indented line unless the original did (such lines are continuation lines of the previous transaction by the format's own rule, DESIGN.md 5 C07 (ii))",
            "others' content is compared as structure (positions forgotten) plus start line; balance / undeclared diagnostics of other entries are functions of that content (C02, C18)",
        ],
        "explanation": "recovery lemmas for all token lists; tie on damaged texts; oracle: every other transaction / directive / include keeps its content and its line (shifted), syntax errors only on the damaged entry's lines",
    },
    "C03": {
        "n": {"quick": 1600, "thorough": 40000},
        "shards": 16,
        "trusted": [
            "lexer and parser models: function-by-function transcriptions of lexer.go and parser.go (decimal.NewFromString, strconv.Atoi, strings.Split/Index/TrimSpace modelled); tied by comparing the FULL AST (every field and range) and every error position with parser.Parse on each generated input, including arbitrary bytes",
            "the G generator / printer lives in the Go harness (harness/gen.go): the structure a text was printed from is trusted as printed",
        ],
        "assumptions": ["comment texts are compared after trimming surrounding blanks"],
        "explanation": "10 refutation witnesses through the models (vm_compute), baseline non-vacuity, lexer totality; tie: full AST + error positions; oracle: no syntax error and extract(AST) = the structure the text was printed from",
    },
    "C06": {
        "n": {"quick": 1200, "thorough": 40000},
        "shards": 16,
        "trusted": [
            "lexer model: function-by-function transcription of internal/parser/lexer.go (Go UTF-8 decoding modelled in Lib/Utf8.v, unicode.IsLetter from a table generated from the toolchain's unicode package, strings.TrimSpace as explicit White_Space patterns); tied by comparing the full token stream (type, value, line/column/offset of Pos and End) on every generated input",
            "crash / hang / time clauses for parser, analyzer, formatter and the handlers are NOT modelled: the harness runs every handler under recover() and a wall-clock budget of 250 ms + 100 us per byte (a request over budget is re-measured once before it counts)",
        ],
        "assumptions": ["wall-clock budgets assume the check is not starved of CPU"],
        "explanation": "C06_next_progress / C06_lex_total for all byte strings; tie on token streams; oracle: coverage of the observed token stream, no panic, no hang, time budget per request",
    },
    "C12": {
        "n": {"quick": 800, "thorough": 20000},
        "shards": 16,
        "trusted": [
            "index level: per-file contributions (FileIndex, built by the real BuildFileIndexFromContent) are inputs of the model; the model covers SetFileIndex / RemoveFile / decrementBy / payee-template bookkeeping",
            "workspace level (UpdateFile, include-tree refresh fix-point, caches) is not modelled: it is checked by the rebuild oracle only (incremental workspace vs fresh workspace with a fresh loader on the files on disk)",
        ],
        "assumptions": ["a template is represented in the model by a 64-bit FNV fingerprint of its JSON form; at workspace level the whole template table is compared"],
        "explanation": "C12_counters and C12_view_function_of_files for all operation sequences; template table a function of the file set; tie on WorkspaceIndex operation sequences; oracle: six view components after every update vs a fresh workspace",
    },
    "C15": {
        "n": {"quick": 60, "thorough": 1500},
        "shards": 16,
        "harness_timeout": 2400,
        "trusted": [
            "Go's map iteration order cannot be chosen by the harness: determinism of the implementation is searched by repetition (24 fresh in-process servers + 2 fresh processes per case, with and without workspace root), not proved of the Go code",
            "the theorems are about the sorting steps of the model (message parts, completion ranking, URI order); that every emitting site does sort is what the repetition run checks",
        ],
        "assumptions": ["completion labels within one list are distinct; usage counts are < 2^64"],
        "explanation": "order-independence theorems for sorted outputs (generic + 3 instances), refutation of the pre-fix comparator; oracle: all repetitions of every response fall into one class",
    },
    "C20": {
        "n": {"quick": 500, "thorough": 8000},
        "shards": 16,
        "trusted": [
            "the model's input is the transaction list the server aggregates over (ResolvedJournal.AllTransactions, read through exported API) as produced by the real parser; the oracle's scope (current text + every file of its tree or workspace, each once) is computed by the harness and parsed by the real parser",
            "hover markdown is parsed back into figures by the harness; decimals are compared by value",
        ],
        "assumptions": ["hover positions are on ASCII account names / payees / tag names (range questions are C08's subject)"],
        "explanation": "C20_sum for all transaction lists, additivity over the include tree and of all counts; tie+oracle on generated multi-file directories with hovers before and after edits",
    },
    "C18": {
        "n": {"quick": 2000, "thorough": 40000},
        "shards": 16,
        "trusted": [
            "the model's input is the AST the real parser produced for the open document and the declaration lists the harness reads (with the real parser) from the workspace root's tree; strings.ToLower restricted to ASCII",
        ],
        "assumptions": ["the workspace root journal is main.journal; its tree is main + sub (the harness's directory shape)"],
        "explanation": "C18_account_rule, C18_commodity_rule, C18_commodity_once, C18_settings for all inputs; C18_scope_matters (witness); tie+oracle through Initialize(options) / didOpen / publishDiagnostics on generated 3-file directories x 8 settings x root/no root",
    },
    "C02": {
        "n": {"quick": 2500, "thorough": 60000},
        "shards": 16,
        "trusted": [
            "modelled, not verified: shopspring/decimal Add/Mul/Neg/Abs/IsZero/IsNegative on (mantissa, exponent) (Lib/Dec.v, each with a proved rational-value lemma)",
            "the text level (lexer/parser) is not part of the C02 theorems: per case the oracle evaluates the exact-rational rule on the structure the text was generated from (Go generator/printer for G, trusted for what it prints) and the tie evaluates the analyzer model on the AST the real parser produced",
            "the message is compared as a set of (commodity, difference) parts by decimal value; part order is C15's subject",
        ],
        "assumptions": ["transactions on which hledger's rule and the exact-sum rule agree: a residual in one commodity only (no implicit price inference), residuals at the written precision"],
        "explanation": "C02_ast for all posting lists and all decimals; tie+oracle on generated documents through didOpen/publishDiagnostics with every number notation of G",
    },
    "C17": {
        "n": {"quick": 2000, "thorough": 40000},
        "shards": 16,
        "trusted": [
            "the tokenizer (tokenizeForSemantics) is a parameter of the model at this level: the harness gives the model the full answer of a fresh request for every content; what is modelled and proved is encoding, range filtering, edit computation and the result cache",
            "the process-global result id counter is observed relative to a probe request at the start of each case",
        ],
        "assumptions": ["requests are handled serially (jsonrpc2 dispatch); the cache is process-global, cases run one after another"],
        "explanation": "tokenizer transcribed on the lexer model and tied to the full answer of every content; C17_every_token_in_legend_and_nonempty for every byte string; C17_delta for all tokenizers and all histories (any quoted id), C17_range / C17_decode_encode for all position-sorted token lists; tie on request histories over up to 3 documents; oracle: client reconstruction from the implementation's answers, range = filtered full, geometry (order, no overlap, inside line, legend, non-zero length) and lexeme coverage (code, quoted commodity, operator) of every full answer",
    },
    "C10": {
        "n": {"quick": 2500, "thorough": 30000},
        "shards": 16,
        "trusted": [
            "graph-level model: path resolution (filepath.Join/Clean, ~ expansion) and glob matching are executed by the real code on real temp directories; the model receives, per directive, the file(s) it names (for a glob: the files whose name matches, filtered by existence at load time)",
            "os file access is a finite map in the model",
        ],
        "assumptions": ["files parse without syntax errors (parse-error load errors are not compared)"],
        "explanation": "for all file systems / graphs / limits / coherent caches: the loader model IS the stack-based reference traversal (refinement), terminates, loads each file once, loads only reachable files, attaches every diagnostic to a directive naming its target, reports a cycle only for a file reachable from itself, refuses includes one by one (every include is loaded or diagnosed), and loads every reachable file when nothing is refused; tie: all 512 digraphs on 3 files + random directories of 1..5 files with every include form; oracle: reference traversal (loaded set = reference set, each once, identical diagnostics)",
    },
    "C11": {
        "n": {"quick": 2500, "thorough": 30000},
        "shards": 16,
        "trusted": ["same graph-level model as C10; edits are write+InvalidateFile as the property quantifies", "the syntax errors of the loaded files are not modelled (files are not parsed in the loader model): they are compared between the shared and the fresh loader by the oracle only"],
        "assumptions": ["default depth limit (C10 covers the limit)"],
        "explanation": "C11_holds: the full statement for all operation sequences on the repaired loader (coherent-cache invariant, cache independence of one load); theorems for ClearCache and invalidate in every state; tie+oracle: after every load of a random operation sequence the shared loader's result (order, files, diagnostics, syntax errors of files with broken lines) is compared with a fresh loader's on the same files; server-level histories with and without workspace root",
    },
    "C13": {
        "n": {"quick": 600, "thorough": 8000},
        "shards": 16,
        "trusted": [
            "hook verifPublishPoint (one inserted call in publishIfCurrent, no-op without -tags verif) lets the harness choose the order in which analyses reach the publish point",
            "granularity: the publish point; interleavings inside publishIfCurrent are serialised by publishMu (read from the code), the Go scheduler and memory model are not modelled",
        ],
        "assumptions": [
            "diagnostics are a function of the content (contents with map-order dependent messages are excluded from this check; that is C15)",
        ],
        "explanation": "C13_statement proved for all traces and all diagnostics functions on the guarded machine; refutation of the unguarded machine kept; tie: every assignment of bursts of 2..4 changes to two documents x every release permutation (440 cases, exhaustive) plus random interleaved traces",
    },
    "C01": {
        "n": {"quick": 2500, "thorough": 60000},
        "shards": 16,
        "trusted": [
            "modelled, not verified: Go's UTF-8 decoding (Lib/Utf8.v decode, rune_len), strings.Split on LF, go.lsp.dev JSON decoding of didChange params (the harness decodes real wire JSON with the protocol types)",
        ],
        "assumptions": [
            "a conforming client sends valid UTF-8 with LF or CRLF line ends (no lone CR), start <= end, and no position inside a surrogate pair (wf_history); other histories are only checked for the tie and for answer freshness",
            "background analyses are allowed to finish after every notification (orders of completion are C13's subject)",
        ],
        "explanation": "C01_refuted (1 witness: empty range at 0:0), C01_partial for all histories outside that class (CRLF included), C01_positions; correspondence on generated histories decoded from wire JSON; freshness of 8 handlers' answers compared with a fresh server on the final text",
    },
    "C19": {
        "n": {"quick": 3000, "thorough": 60000},
        "shards": 16,
        "trusted": [
            "modelled, not verified: encoding/json decoding into interface{} (numbers are given to the model as the exact rational of the decoded float64), strings.TrimSpace/ToLower restricted to ASCII white space and letters, strconv.Atoi, float64->int truncation inside +-2^63",
            "read-only hook internal/server/verif_hooks.go (VerifGetSettings) exposes the settings record",
        ],
        "assumptions": [
            "configuration refreshes are applied one at a time (the harness waits for each refresh goroutine to finish); overlapping refreshes are C14's subject",
            "payload strings contain no non-ASCII white space",
        ],
        "explanation": "11 theorems over all JSON payloads and all sequences (Props/C19.v); correspondence on generated payload sequences through Initialize / workspace/configuration",
    },
}
