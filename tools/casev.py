#!/usr/bin/env python3
# usage: casev.py <rundir> <PROP> <id> [casetype]  -- prints a .v prelude defining `c` as the given case (debug aid)
import sys
d,prop,cid=sys.argv[1],sys.argv[2],int(sys.argv[3])
ct=sys.argv[4] if len(sys.argv)>4 else 'fcase'
import glob
for f in sorted(glob.glob(f'{d}/cases_{prop}_*.v')):
    for l in open(f):
        if l.startswith(' (%d, '%cid):
            term=l.rstrip('\n').rstrip(';')[len(' (%d, '%cid):-1]
            print('From HL Require Import Tie.%s.\nLocal Open Scope N_scope.\nDefinition c : %s := %s.'%(prop,ct,term))
            sys.exit(0)
sys.exit(1)
