#!/bin/sh
# usage: tools/run_seeds.sh [ids...]   -- runs every seeded change against its property's check (and extra checks
# named in seeded/<id>/also), one at a time, reverting /repo after each; prints one line per run
cd /verif/seeded || exit 1
ids="$@"; [ -z "$ids" ] && ids=$(ls -d C??-? | sort)
for s in $ids; do
  p=${s%-*}
  props="$p"; [ -f "$s/also" ] && props="$p $(cat $s/also)"
  for q in $props; do
    out=$(/verif/tools/try_seed.sh $q /verif/seeded/$s 2>&1)
    if echo "$out" | grep -q "patch does not apply"; then res="PATCH-DOES-NOT-APPLY"
    elif echo "$out" | grep -q "harness does not build"; then res="PATCH-DOES-NOT-BUILD(re-port the seed)"
    elif echo "$out" | grep -q "VIOLATION.*no-failing-input-found"; then res="DETECTED(no-failing-input-found)"
    elif echo "$out" | grep -q "VIOLATION"; then res="DETECTED(with replay)"
    else res="NOT-DETECTED"; fi
    echo "$s check=$q $res | $(echo "$out" | grep '^\[' | head -1)"
  done
done
