#!/usr/bin/env python3
# usage: fmtshow.py <rundir> <PROP> id...   -- show the formatting session of the given cases (debug aid)
import sys,json,subprocess,difflib,os,tempfile
rd,prop=sys.argv[1],sys.argv[2]; ids=set(int(x) for x in sys.argv[3:])
tmp=tempfile.mkdtemp()
with open(tmp+'/r.jsonl','w') as out:
    for l in open(f'{rd}/cases_{prop}.jsonl'):
        d=json.loads(l)
        if d['id'] in ids: out.write(l)
o=subprocess.run([os.environ.get('HLIMPL','/tmp/hlimpl'),'-prop','dbgfmt','-replay',tmp+'/r.jsonl','-out',tmp],capture_output=True,text=True).stdout
for blk in o.split('---- text\n')[1:]:
    t,rest=blk.split('\n---- after 1st',1)
    hdr1,rest=rest.split('\n',1)
    a1,rest=rest.split('\n---- after 2nd',1)
    hdr2,rest=rest.split('\n',1)
    a2,tail=rest.split('\nerrs0',1)
    print('=========== case')
    print('\n'.join(difflib.unified_diff(t.split('\n'),a1.split('\n'),'orig','fmt1',lineterm='',n=1)))
    if a1!=a2:
        print('\n'.join(difflib.unified_diff(a1.split('\n'),a2.split('\n'),'fmt1','fmt2',lineterm='',n=0)))
    print('errs0'+tail)
