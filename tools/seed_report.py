#!/usr/bin/env python3
"""usage: tools/seed_report.py <output of tools/run_seeds.sh>
Records the outcome of a seeded-change run: seeded/RESULTS.txt, the `detection` field of every
seeded/<id>/meta.json, and the table of DESIGN.md section 0.5 (between the table header and the
first blank line after it)."""
import json, os, re, subprocess, sys

runs = sys.argv[1]
root = os.path.dirname(os.path.dirname(os.path.abspath(__file__)))
head = subprocess.run(["git", "-C", "/repo", "rev-parse", "--short", "HEAD"], capture_output=True, text=True).stdout.strip()
res = {}
lines = [l.rstrip("\n") for l in open(runs, errors="replace") if re.match(r"^C\d\d-\w ", l)]
for l in lines:
    m = re.match(r"^(C\d\d-\w) check=(C\d\d) (\S+)", l)
    res.setdefault(m.group(1), {})[m.group(2)] = m.group(3)
open(os.path.join(root, "seeded", "RESULTS.txt"), "w").write(
    "# tools/run_seeds.sh against /repo HEAD %s (quick tier, seed 1)\n" % head + "\n".join(lines) + "\n")
rows = []
for sid in sorted(os.listdir(os.path.join(root, "seeded"))):
    mp = os.path.join(root, "seeded", sid, "meta.json")
    if not os.path.isfile(mp):
        continue
    meta = json.load(open(mp))
    if sid in res:
        meta["detection"] = {"by_check": res[sid], "checked_against": "/repo HEAD %s (tools/run_seeds.sh, quick tier, seed 1)" % head}
        json.dump(meta, open(mp, "w"), indent=1)
    det = meta.get("detection", {}).get("by_check", {})
    own = sid[:3]
    first = re.split(r"(?<=[a-z0-9\)])\. ", meta.get("summary", ""))[0].replace("|", "/").replace("\n", " ")[:150]
    ownres = det.get(own, "not run")
    owncol = "yes" if ownres.startswith("DETECTED(with") else ("yes (no failing input found)" if ownres.startswith("DETECTED") else "**no**" if ownres.startswith("NOT") else ownres)
    also = ", ".join(k for k, v in det.items() if k != own and v.startswith("DETECTED"))
    rows.append("| %s | %s | %s | %s |" % (sid, first, owncol, also))
dp = os.path.join(root, "DESIGN.md")
d = open(dp).read().split("\n")
i = next(k for k, l in enumerate(d) if l.startswith("| seed | change"))
j = i + 2
while j < len(d) and d[j].startswith("|"):
    j += 1
d[i + 2:j] = rows
open(dp, "w").write("\n".join(d))
n = len(rows)
own_ok = sum(1 for r in rows if r.split("|")[3].strip().startswith("yes"))
print("%d seeds, %d caught by their own check; not caught by own: %s" % (
    n, own_ok, ", ".join(r.split("|")[1].strip() for r in rows if not r.split("|")[3].strip().startswith("yes"))))
