#!/bin/sh
# usage: shardres.sh <rundir> <PROP>   -- prints "id tie oracle known" for every case of a kept run directory
cd "$1" || exit 1
for f in cases_$2_*.v; do
  sh -c "ulimit -s unlimited; coqc -R /verif/coq/theories HL $f" 2>&1 | tr -d '\n' | grep -o '([0-9]*, *(\(true\|false\), *\(true\|false\), *[0-9]*))' | tr -d '(),' 
done | sort -n
