#!/bin/sh
# usage: tools/adopt_seed2.sh <property> <A|B> <new-letter> [race]
# Confirms /tmp/seed2-<property>/<letter> in a scratch worktree (suite passes with the change, the
# demonstration fails with it and passes without it) and, if confirmed, keeps it as seeded/<property>-<new-letter>.
P=$1; L=$2; N=$3; RACE=$4
rm -rf /tmp/seed-$P; mkdir -p /tmp/seed-$P; cp -r /tmp/seed2-$P/$L /tmp/seed-$P/$L
if [ "$RACE" = race ]; then
  out=$(sed 's/go test -vet=off -count=1 -run/go test -race -vet=off -count=1 -run/' /verif/tools/confirm_seed.sh | sh -s $P $L)
else
  out=$(/verif/tools/confirm_seed.sh $P $L)
fi
echo "$out"
case "$out" in
  *"suite-ok demo-with-mutant=fail demo-without=pass"*)
    d=/verif/seeded/$P-$N; rm -rf $d; mkdir -p $d; cp /tmp/seed-$P/$L/patch.diff /tmp/seed-$P/$L/verif_demo_test.go /tmp/seed-$P/$L/meta.json $d/
    python3 - "$d" "$out" <<'PY'
import json,sys,os
d,out=sys.argv[1],sys.argv[2]
m=json.load(open(d+'/meta.json'))
m['confirmed']={'against':'/repo HEAD '+os.popen('git -C /repo rev-parse --short HEAD').read().strip()+' in a scratch worktree (tools/adopt_seed2.sh)','result':out.split(' ',1)[1]}
m['round']=2
json.dump(m,open(d+'/meta.json','w'),indent=1)
PY
    echo "kept as $d";;
  *) echo "NOT kept";;
esac
