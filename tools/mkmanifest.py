#!/usr/bin/env python3
"""Regenerates /verif/MANIFEST.json from the claims table below (kept next to the checks)."""
import json, os, sys
sys.path.insert(0, os.path.join(os.path.dirname(__file__), ".."))
from checkcfg import PROPS

CLAIMS = {
 "C01": ("Document store + position mapping modelled in Gallina; reference LSP client buffer as specification. The full statement is refuted (2 machine-checked witnesses, both recorded as known findings); C01_partial proves it for ALL histories outside the two refuted classes; every run compares model, reference client and implementation on generated histories decoded from wire JSON, and the answers of 8 handlers with a fresh server on the final text.",
         "Trusted: Coq kernel+VM; Go UTF-8 decoding is modelled (Lib/Utf8.v); the transcription is checked by correspondence only; background analyses are awaited after each notification.",
         "Coq proof (refutation + partial theorem by induction on histories) + differential correspondence", "5 C01"),
 "C02": ("CheckBalance / createBalanceDiagnostic modelled on the AST with decimals as (mantissa, exponent); C02_ast proves for EVERY posting list (unbounded decimals, any kinds, unit and total costs) that the verdict and the named differences are those of the exact rational sums. Every run opens generated documents (all number notations of G, balanced / off by exact residuals / missing amounts) on the real server and checks the published verdict against the rational rule evaluated on the structure the text was generated from, and the analyzer model against the parser's AST.",
         "Trusted: Coq kernel+VM; decimal library modelled; the lexer/parser step is checked per case, not proved (three notation classes are recorded known findings); G generator/printer in Go.",
         "Coq proof (rational-sum homomorphism, all posting lists) + end-to-end differential oracle", "5 C02"),
 "C20": ("Account-balance aggregation and the posting / payee / tag counts are modelled; C20_sum proves, for every transaction list, that the figure per (account, commodity) is the exact rational sum of the explicitly posted amounts, and that sums and counts are additive over primary + included files (each file counted once per occurrence in FileOrder). Every run hovers every account, payee and tag of generated multi-file directories before and after edits and compares the displayed figures with exact aggregates over the scope the property names.",
         "Trusted: Coq kernel+VM; parser output and the server's resolved transaction list are inputs of the model; markdown parsing in the harness; known finding tree_truncated_after_reload (root cause C11).",
         "Coq proof of exact sums for all transaction lists + end-to-end differential oracle over include trees", "5 C20"),
 "C03": ("Lexer and parser are transcribed function by function into Gallina (tokens, AST with every range, error positions) and the models equal the real parser on every generated input (full AST equality). The full statement is refuted: nine machine-checked witnesses, one per class of G spellings that the parser misreads (all recorded known findings); the baseline journal is proved faithful. Every run prints journals from G structures with layout variation, parses them with the real parser and requires no syntax error and extract(AST) = the structure, with exactly one risky class enabled in 30% of the cases.",
         "Trusted: Coq kernel+VM; the transcription (checked by the full-AST tie only); G generator/printer in Go. A universal round-trip theorem on the unrefuted fragment G- is NOT proved (ceiling): outside the witnesses, fidelity on G- rests on the tie and oracle.",
         "Coq refutation witnesses through transcribed lexer+parser + full-AST correspondence + structure round-trip oracle", "5 C03"),
 "C06": ("The lexer is transcribed function by function into Gallina; C06_next_progress proves for EVERY lexer state with input left (arbitrary bytes: invalid UTF-8, NUL, unterminated constructs) that one call of Next consumes at least one byte, and C06_lex_total that tokenising any input terminates with EOF within |input|+1 tokens. Every run compares the model's token stream (types, values, positions) with the implementation's on damaged journals, fragment soups, raw bytes and long repetitions, checks coverage of the observed stream, and runs every handler at sampled positions under recover() and a per-request time budget.",
         "PARTIAL for the crash/time clause: panics, hangs and wall time of parser, analyzer, formatter and handlers are searched by the harness, not proved (runtime behaviour); proved part: tokenisation progress/totality on the transcribed lexer. Known finding huge_exponent.",
         "Coq proof of lexer progress/totality over all byte strings + token-stream correspondence + crash/time search on every handler", "5 C06"),
 "C07": ("On the transcribed parser: for every token list the recovery step (skipToNextLine) stops right after the first Newline token and only drops a prefix, and the lexer makes progress on arbitrary damage. The containment statement is decided per run: journals from G with one entry damaged in eight ways (random bytes, truncation, deleted / duplicated / reordered lines, unbalanced quotes or brackets, stray operators, junk) are parsed by the real parser, and every other entry must keep its content and (shifted) line while syntax errors stay on the damaged lines; the parser model must equal the real parser on the damaged text (full AST).",
         "PARTIAL: the universal containment theorem is not proved; proved parts are the recovery lemmas and lexer progress. Trusted: transcription (full-AST tie), G generator in Go.",
         "Coq recovery lemmas on the transcribed parser + full-AST correspondence on damaged texts + containment oracle", "5 C07"),
 "C08": ("The range producers are modelled on the AST and composed with the transcribed lexer and parser, so the model computes document symbols, links, folding ranges, diagnostics ranges, hover and prepareRename ranges from the TEXT alone; it equals the implementation on every generated document. A validator (in-document, start <= end, UTF-16 code-point boundaries, covers-its-text, laminar folds/symbols) is specified and its meaning proved; the full statement is refuted by machine-checked witnesses through the composed model (non-BMP rune columns, payee estimate, fold overlap), recorded with four more classes as known findings. Every run validates every range of 10 features at every element of generated journals.",
         "PARTIAL: no universal well-formedness theorem yet (ceiling: lexer position invariant => ranges on BMP-only lines are well-formed); references/definition/workspace-symbol/completion ranges are validated on implementation output only. Trusted: transcriptions (tied), G generator.",
         "Coq refutation witnesses through composed text->range model + validator oracle on every feature's ranges", "5 C08"),
 "C09": ("references.go / definition.go / rename.go are modelled on ASTs; C09_references_exact proves for every set of consulted journals that the answer is exactly the symbol's occurrences (declarations when asked), attributed to the path each journal is filed under, and that sorting/de-duplication neither lose nor invent locations; with the requesting document as primary every file is consulted under its own path (partial). The full statement is refuted for requests from included files in workspace mode (known finding). Every run requests references (with/without declarations) and rename on every account, commodity and payee of generated multi-file workspaces, from root and included files, with and without root and unsaved edits, applies the rename edits and compares with the occurrence set of the scope.",
         "Trusted: Coq kernel+VM; ASTs and the resolved journal are inputs (real parser/loader); rename application and expected texts are computed by the harness. Known findings: workspace_request_from_include, directive_range_end_unset, no_root_edit_truncates_tree.",
         "Coq proof of exact reference sets on the AST model + occurrence-set and applied-rename oracle", "5 C09"),
 "C10": ("Include loader modelled at include-graph level (visited set, cache, both limits); the exact-cycle clause is refuted by three machine-checked witnesses (diamond, double include, count-based depth limit: recorded known findings); root-level verdicts proved for all file systems. Every run compares model, a stack-based reference traversal and the real loader on all 512 digraphs on 3 files plus random directories using every include form (relative, ./, absolute, ~/, dot-dot, glob).",
         "Trusted: Coq kernel+VM; graph-level abstraction (path and glob resolution run in the real code, results given to the model); termination/soundness of the traversal for all graphs is checked by the tie and oracle, not yet proved (ceiling).",
         "Coq refutation theorems + reference-traversal oracle + exhaustive small-graph correspondence", "5 C10"),
 "C11": ("Loader as a state machine over load / write+invalidate / clear; full statement refuted by a machine-checked witness (cache hit returns a journal without its nested includes: known finding); partial theorems: ClearCache then load = fresh load, and an invalidated file is never served from cache, in every state. Every run compares the shared loader with a fresh loader after each load of random operation sequences.",
         "Trusted: as C10.", "Coq refutation + partial theorems + shared-vs-fresh differential correspondence", "5 C11"),
 "C12": ("WorkspaceIndex bookkeeping modelled (all usage-count maps through one keyed counter map, decrementBy, payee templates); C12_counters proves for EVERY sequence of set/remove operations that each aggregated counter equals the pointwise sum over the files currently indexed (what a rebuild computes); the payee-template table is refuted (known finding). Every run drives WorkspaceIndex operation sequences against the model and, at workspace level, compares six view components (members, counters and lists, transaction index, template keys, declared sets, commodity formats) with a freshly initialised workspace after every update.",
         "Trusted: Coq kernel+VM; UpdateFile / include-tree refresh are covered by the rebuild oracle only, not modelled; known findings shared_payee_template and commodity_format_order.",
         "Coq invariant proof over all operation sequences + incremental-vs-rebuild differential oracle", "5 C12"),
 "C13": ("Publish machine at publish-point granularity; C13_statement proved for all traces, all completion orders and all diagnostics functions on the guarded machine (the code after the fix commit); the unguarded machine is refuted. The tie enumerates every release permutation of bursts of 2..4 changes on two documents and random interleaved traces through a publish-point hook.",
         "Trusted: Coq kernel+VM; the hook; serialisation by publishMu read from the code; Go scheduler/memory model not modelled (orders finer than the publish point).",
         "Coq invariant proof over all traces + exhaustive small-burst schedule enumeration against the implementation", "5 C13"),
 "C15": ("Map-iteration orders are permutations in the model; theorems: any output produced by sorting with a strict total order is independent of the iteration order (generic), instantiated for the UNBALANCED message (commodities sorted), workspace symbols (URI order) and completion ranking (score, count, label); the pre-fix comparator is refuted. Three nondeterminism defects found by the check were repaired (fix commits). Every run repeats every response of generated multi-file workspaces on 24 fresh servers and 2 fresh processes and requires a single answer class.",
         "Trusted: Coq kernel+VM; repetition is search, not proof, for the Go code (map order cannot be controlled); theorems cover the sorting steps only.",
         "Coq order-independence proofs + repetition oracle (in-process and fresh processes)", "5 C15"),
 "C16": ("completion.go is transcribed (context, candidate narrowing, query, fuzzy score on runes, prefix filter, ranking, truncation, edit start) and equals the implementation on every generated request (labels in order on two maxResults values, edit start). Theorems for every candidate list, count table, fragment, mode and limit: soundness (only existing names that match: prefix / case-insensitive subsequence), prefix completeness before truncation and whenever the limit allows, bound, monotonicity in the limit, and non-increasing usage counts with nothing typed. Candidate narrowing and the edit range are refuted (known findings prefix_key_after_blank, edit_start_after_cursor, payee_edit_covers_date). The oracle checks all six clauses on the implementation's answers with usage counts recomputed by the harness.",
         "Trusted: Coq kernel+VM; transcription (tied per request); analyzer name lists / counts are inputs; unicode.ToLower table generated from the toolchain; date items excluded.",
         "Coq proofs on the transcribed filtering/ranking core + per-request correspondence + six-clause oracle", "5 C16"),
 "C17": ("Semantic-token transport modelled (uint32 delta encoding, range filter, edit computation, process-global result cache); C17_delta proved for every tokenizer and every history with deltas quoting current, stale, foreign or unknown ids; C17_range/decode-encode proved for all position-sorted token lists. Every run replays request histories on up to 3 documents against the implementation, reconstructs the client's array from its answers and checks token geometry (order, overlap, inside line, legend, non-zero length) with line lengths in UTF-16 units.",
         "Trusted: Coq kernel+VM; the tokenizer is a parameter at this level (lexeme-exact coverage of each token kind is not yet modelled: geometry is checked on the implementation's output only); known finding nonascii_columns_and_lengths; zero-length tokens were repaired.",
         "Coq invariant proof over all request histories + client-reconstruction oracle on the implementation", "5 C17"),
 "C18": ("isAccountDeclared / checkUndeclaredAccounts / checkUndeclaredCommodities / settings filter modelled; theorems for all inputs: a posting is warned about iff its account is neither declared, nor strictly below a declared account, nor under a standard category (case-insensitive); commodities exactly the undeclared non-empty symbols of amounts, costs and assertions, each once; each switch removes exactly its own code. The scope clause is refuted (no workspace root: include-tree declarations ignored; known finding). Every run drives the real server over 3-file directories x 8 settings x with/without root.",
         "Trusted: Coq kernel+VM; parser output is an input of the model at this level; ASCII ToLower.",
         "Coq proofs of the rule (reflection lemmas) + end-to-end differential oracle over declaration scopes", "5 C18"),
 "C19": ("Settings parsing/normalisation is modelled in Gallina; 11 theorems (totality, effectiveness, frame, wrapper, defaults, sequences) are proved for all JSON payloads and all sequences; the model is tied to the code by running both on generated payload sequences through Initialize and workspace/configuration.",
         "Trusted: Coq kernel+VM, the hand transcription (checked by correspondence only), encoding/json, ASCII-only TrimSpace/ToLower model, read-only hook VerifGetSettings; refreshes applied serially.",
         "Coq proof over Gallina model + differential correspondence (vm_compute)", "5 C19"),
}
EXTRA = {}
try:
    from claims_extra import CLAIMS as MORE
    CLAIMS.update(MORE)
except ImportError:
    pass

hooks = [l.strip() for l in open(os.path.join(os.path.dirname(__file__), "..", "HOOK_COMMITS")).read().split() if l.strip()]
m = {
 "version": 1,
 "setup_cmd": "./setup.sh",
 "hooks": {"guard": "verif",
           "enable": "go build -tags verif (the harness in /verif/harness imports /repo through a replace directive and is built with -tags verif)",
           "baseline_off_cmd": "cd /repo && GOFLAGS=-mod=mod GOPROXY=off go test -vet=off -count=1 ./...",
           "source_commits": hooks, "add_only": True},
 "engines": [{"name": "coq-proof+correspondence", "path": "/verif/check", "serves_properties": sorted(CLAIMS),
              "kind_free_text": "Coq 8.16 theorems over a hand-written Gallina model; correspondence: Go harness runs the implementation, emits Gallina literals, coqc evaluates model+oracle by vm_compute"}],
 "checks": [], "not_applicable": [],
 "notes": "see DESIGN.md; known findings in KNOWN_FINDINGS.jsonl",
}
for pid in sorted(CLAIMS):
    text, note, tech, ref = CLAIMS[pid]
    assert pid in PROPS, pid
    m["checks"].append({"property_id": pid, "quick_cmd": "./check %s --tier quick" % pid, "thorough_cmd": "./check %s --tier thorough" % pid,
                        "evidence_file": "/verif/evidence/%s.json" % pid, "replay_cmd_template": "./check %s --replay {path}" % pid,
                        "engine": "coq-proof+correspondence",
                        "level_claimed": {"category": "proof", "text": text, "design_ref": "DESIGN.md section " + ref},
                        "level_note": note, "technique": tech})
for i in range(1, 21):
    pid = "C%02d" % i
    if pid not in CLAIMS:
        m["not_applicable"].append({"property_id": pid, "reason": "not yet built in this round (work in progress; claimed once its model, theorems and correspondence are in place)"})
json.dump(m, open(os.path.join(os.path.dirname(__file__), "..", "MANIFEST.json"), "w"), indent=1)
print("claimed:", sorted(CLAIMS))
