#!/bin/sh
# usage: tools/try_seed.sh <property> <dir with patch.diff> [extra check args]
# applies the patch to /repo, runs ./check <property>, and always reverts /repo afterwards.
P=$1; D=$2; shift 2
cd /repo || exit 2
if ! git apply --check "$D/patch.diff" 2>/dev/null; then echo "patch does not apply"; exit 2; fi
git apply "$D/patch.diff"
trap 'git -C /repo checkout -- . ' EXIT
cd /verif && ./check "$P" "$@" 2>&1 | grep -E "^\[|VIOLATION|KNOWN|note:" | cut -c1-400
