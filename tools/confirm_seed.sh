#!/bin/sh
# usage: tools/confirm_seed.sh <property> <A|B>   (seed dir /tmp/seed-<property>/<letter>)
# Confirms in a scratch worktree of /repo HEAD: patch applies, existing suite passes with it,
# demo fails with it and passes without it. Prints one summary line.
P=$1; L=$2; D=/tmp/seed-$P/$L; WT=/tmp/confirm-wt-$P-$L
export GOFLAGS=-mod=mod GOPROXY=off
git -C /repo worktree add -q --detach $WT HEAD 2>/dev/null || { echo "$P/$L worktree-failed"; exit 2; }
cleanup() { git -C /repo worktree remove --force $WT 2>/dev/null; }
trap cleanup EXIT
cd $WT
DEMODIR=$(head -1 $D/verif_demo_test.go | sed -n 's,^// dir: *,,p')
[ -z "$DEMODIR" ] && DEMODIR=$(python3 -c "import json;print(json.load(open('$D/meta.json'))['demo_dir'])")
if ! git apply --check $D/patch.diff 2>/dev/null; then echo "$P/$L patch-does-not-apply"; exit 1; fi
git apply $D/patch.diff
if ! timeout 600 go build ./... >/dev/null 2>&1; then echo "$P/$L mutant-does-not-build"; exit 1; fi
if ! timeout 900 go test -vet=off -count=1 ./... >/tmp/confirm-$P-$L.suite 2>&1; then echo "$P/$L suite-FAILS-with-mutant"; exit 1; fi
cp $D/verif_demo_test.go $DEMODIR/verif_demo_test.go
if timeout 600 go test -vet=off -count=1 -run 'VerifDemo|Verif' ./$DEMODIR >/tmp/confirm-$P-$L.with 2>&1; then W=pass; else W=fail; fi
git apply -R $D/patch.diff
if timeout 600 go test -vet=off -count=1 -run 'VerifDemo|Verif' ./$DEMODIR >/tmp/confirm-$P-$L.without 2>&1; then O=pass; else O=fail; fi
echo "$P/$L suite-ok demo-with-mutant=$W demo-without=$O"
