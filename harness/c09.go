package main

import (
	"context"
	"encoding/json"
	"fmt"
	"os"
	"path/filepath"
	"sort"
	"strings"
	"unicode/utf16"

	"go.lsp.dev/protocol"

	"github.com/juev/hledger-lsp/internal/ast"
	"github.com/juev/hledger-lsp/internal/include"
	"github.com/juev/hledger-lsp/internal/parser"
)

func init() { runners["C09"] = runC09 }

type c09Case struct {
	Files   map[string]string `json:"files"` // name -> content on disk; "main" is the root journal
	Current string            `json:"current"`
	HasRoot bool              `json:"has_root"`
	Unsaved string            `json:"unsaved,omitempty"` // text appended to the open document only (not on disk)
}

var c09Names = []string{"a", "b", "c", "main"} // numbered in URI order (locations are sorted by URI)

func c09Journal(r *rng, st *stats, incs []string) string {
	var sb strings.Builder
	for _, i := range incs {
		sb.WriteString("include " + i + ".journal\n")
	}
	if r.chance(25) {
		sb.WriteString("account " + pick(r, c20Accts) + "\n")
		st.count("decl:account")
	}
	if r.chance(20) {
		sb.WriteString("commodity " + pick(r, []string{"USD", "EUR"}) + "\n")
		st.count("decl:commodity")
	}
	n := r.rangeInt(1, 4)
	for i := 0; i < n; i++ {
		sb.WriteString(fmt.Sprintf("2024-%02d-%02d %s%s\n", r.rangeInt(1, 3), r.rangeInt(1, 9), pick(r, []string{"", "* "}), pick(r, c12Payees[:6])))
		a, b := pick(r, c20Accts), pick(r, c20Accts)
		sb.WriteString(fmt.Sprintf("    %s  %d %s\n    %s\n\n", a, r.rangeInt(1, 50), pick(r, []string{"USD", "EUR", "GBP"}), b))
	}
	return sb.String()
}

func c09Gen(r *rng, st *stats) c09Case {
	c := c09Case{Files: map[string]string{}, HasRoot: r.chance(55)}
	shape := pickW(r, []string{"single", "flat", "chain", "siblings", "detached"}, []int{12, 25, 25, 20, 18})
	inc := map[string][]string{}
	switch shape {
	case "flat":
		inc["main"] = []string{"a", "b"}
	case "chain":
		inc["main"] = []string{"a"}
		inc["a"] = []string{"b"}
	case "siblings":
		inc["main"] = []string{"a", "b"}
		inc["a"] = []string{"c"}
	}
	st.count("shape:" + shape)
	detached := shape == "detached" // a -> b exist on disk but nothing includes a until the unsaved edit does
	if detached {
		inc["a"] = []string{"b"}
	}
	names := map[string]bool{"main": true}
	if detached {
		names["a"] = true
	}
	for _, l := range inc {
		for _, n := range l {
			names[n] = true
		}
	}
	var ns []string
	for n := range names {
		ns = append(ns, n)
		c.Files[n] = c09Journal(r, st, inc[n])
	}
	sort.Strings(ns)
	c.Current = pick(r, ns)
	if r.chance(50) {
		c.Current = "main"
	}
	if detached {
		c.Current = "main"
		c.Unsaved = "include a.journal\n"
		st.count("unsaved-edit:adds-include")
	} else if r.chance(40) {
		c.Unsaved = fmt.Sprintf("2024-03-10 %s\n    %s  7 USD\n    %s\n", pick(r, c12Payees[:6]), pick(r, c20Accts), pick(r, c20Accts))
		st.count("unsaved-edit")
	}
	if c.HasRoot {
		st.count("root:yes")
	} else {
		st.count("root:no")
	}
	if c.Current != "main" {
		st.count("request-from:included")
	} else {
		st.count("request-from:root")
	}
	return c
}

func c09ID(name string) int {
	for i, n := range c09Names {
		if n == name {
			return i
		}
	}
	return 99
}
func c09IDOfPath(p string) int { return c09ID(strings.TrimSuffix(filepath.Base(p), ".journal")) }
func c09IDOfURI(u protocol.DocumentURI) int {
	return c09IDOfPath(strings.TrimPrefix(string(u), "file://"))
}

func gLoc(id int, r protocol.Range) string {
	return fmt.Sprintf("(mkLoc %d %s)", id, gPR(r))
}

// applyEdits applies LSP text edits (UTF-16 positions) to a text; false if an edit is out of range or edits overlap
func applyEdits(text string, edits []protocol.TextEdit) (string, bool) {
	lines := strings.Split(text, "\n")
	off := func(p protocol.Position) (int, bool) {
		if int(p.Line) >= len(lines) {
			return 0, false
		}
		o := 0
		for i := 0; i < int(p.Line); i++ {
			o += len(lines[i]) + 1
		}
		u := utf16.Encode([]rune(lines[p.Line]))
		if int(p.Character) > len(u) {
			return 0, false
		}
		return o + len(string(utf16.Decode(u[:p.Character]))), true
	}
	type span struct{ a, b int; t string }
	var sp []span
	for _, e := range edits {
		a, ok1 := off(e.Range.Start)
		b, ok2 := off(e.Range.End)
		if !ok1 || !ok2 || a > b {
			return "", false
		}
		sp = append(sp, span{a, b, e.NewText})
	}
	sort.Slice(sp, func(i, j int) bool { return sp[i].a < sp[j].a })
	var sb strings.Builder
	prev := 0
	for _, s := range sp {
		if s.a < prev {
			return "", false
		}
		sb.WriteString(text[prev:s.a] + s.t)
		prev = s.b
	}
	sb.WriteString(text[prev:])
	return sb.String(), true
}

// expected text after renaming: every occurrence (per the file's own AST) replaced
func c09Expected(text string, kind string, name, newName string) string {
	j, _ := parser.Parse(text)
	var edits []protocol.TextEdit
	mk := func(line, col, n int) {
		edits = append(edits, protocol.TextEdit{Range: protocol.Range{Start: protocol.Position{Line: uint32(line - 1), Character: uint32(col - 1)}, End: protocol.Position{Line: uint32(line - 1), Character: uint32(col - 1 + n)}}, NewText: newName})
	}
	switch kind {
	case "account":
		for _, d := range j.Directives {
			if ad, ok := d.(ast.AccountDirective); ok && ad.Account.Name == name {
				mk(ad.Account.Range.Start.Line, ad.Account.Range.Start.Column, utf16Len(name))
			}
		}
		for _, t := range j.Transactions {
			for _, p := range t.Postings {
				if p.Account.Name == name {
					mk(p.Account.Range.Start.Line, p.Account.Range.Start.Column, utf16Len(name))
				}
			}
		}
	case "commodity":
		for _, d := range j.Directives {
			if cd, ok := d.(ast.CommodityDirective); ok && cd.Commodity.Symbol == name {
				mk(cd.Commodity.Range.Start.Line, cd.Commodity.Range.Start.Column, utf16Len(name))
			}
		}
		for _, t := range j.Transactions {
			for _, p := range t.Postings {
				if p.Amount != nil && p.Amount.Commodity.Symbol == name {
					mk(p.Amount.Commodity.Range.Start.Line, p.Amount.Commodity.Range.Start.Column, utf16Len(name))
				}
			}
		}
	case "payee":
		lines := strings.Split(text, "\n")
		for _, t := range j.Transactions {
			pd := t.Payee
			if pd == "" {
				pd = t.Description
			}
			if pd == name {
				ln := lines[t.Range.Start.Line-1]
				if i := strings.Index(ln, name); i >= 0 {
					mk(t.Range.Start.Line, utf16Len(ln[:i])+1, utf16Len(name))
				}
			}
		}
	}
	out, _ := applyEdits(text, edits)
	return out
}

func gJMap(m map[int]*ast.Journal) string {
	var ids []int
	for id := range m {
		ids = append(ids, id)
	}
	sort.Ints(ids)
	var items []string
	for _, id := range ids {
		items = append(items, fmt.Sprintf("(%d, %s)", id, gJournal(m[id])))
	}
	return gList(items)
}

func c09Run(c c09Case) (string, error) {
	fm := map[string]string{}
	for n, t := range c.Files {
		fm[n+".journal"] = t
	}
	dir, err := tempWorkspace(fm)
	if err != nil {
		return "", err
	}
	defer os.RemoveAll(dir)
	root := ""
	if c.HasRoot {
		root = dir
	}
	srv, _, base := newServerAt(root, nil)
	ctx := context.Background()
	curPath := filepath.Join(dir, c.Current+".journal")
	u := fileURI(curPath)
	text := c.Files[c.Current] + c.Unsaved
	_ = srv.DidOpen(ctx, &protocol.DidOpenTextDocumentParams{TextDocument: protocol.TextDocumentItem{URI: u, Text: c.Files[c.Current]}})
	if !quiesce(base) {
		return "", fmt.Errorf("analysis did not finish")
	}
	if c.Unsaved != "" {
		_ = srv.DidChange(ctx, &protocol.DidChangeTextDocumentParams{
			TextDocument:   protocol.VersionedTextDocumentIdentifier{TextDocumentIdentifier: protocol.TextDocumentIdentifier{URI: u}, Version: 2},
			ContentChanges: []protocol.TextDocumentContentChangeEvent{{Text: text}}})
		if !quiesce(base) {
			return "", fmt.Errorf("analysis did not finish")
		}
	}
	cur, _ := parser.Parse(text)
	// the resolved journal the handlers consult
	var res *include.ResolvedJournal
	primaryID := c09ID(c.Current) // the file the resolved journal's primary was parsed from
	if ws := srv.Workspace(); ws != nil && ws.GetResolved() != nil {
		res = ws.GetResolved()
		if rp := ws.RootJournalPath(); rp != "" {
			primaryID = c09IDOfPath(rp)
		}
	} else {
		res = srv.GetResolved(u)
	}
	resFiles := map[int]*ast.Journal{}
	prim := "None"
	if res != nil {
		for p, j := range res.Files {
			resFiles[c09IDOfPath(p)] = j
		}
		if res.Primary != nil {
			prim = "(Some " + gJournal(res.Primary) + ")"
		}
	}
	// scope per the property: the root's tree in workspace mode (plus the current file), else the current file's tree
	curText := map[string]string{c.Current: text}
	var scopeNames []string
	if c.HasRoot {
		scopeNames = treeOnce(c.Files, "main", curText)
		in := false
		for _, n := range scopeNames {
			if n == c.Current {
				in = true
			}
		}
		if !in {
			scopeNames = append(scopeNames, treeOnce(c.Files, c.Current, curText)...)
		}
	} else {
		scopeNames = treeOnce(c.Files, c.Current, curText)
	}
	scope := map[int]*ast.Journal{}
	scopeText := map[string]string{}
	for _, n := range scopeNames {
		t := c.Files[n]
		if n == c.Current {
			t = text
		}
		scopeText[n] = t
		j, _ := parser.Parse(t)
		scope[c09ID(n)] = j
	}
	// requests: every account / commodity / payee occurrence of the open document
	type target struct {
		kind, name string
		pos        protocol.Position
	}
	var targets []target
	seen := map[string]bool{}
	lines := strings.Split(text, "\n")
	for _, t := range cur.Transactions {
		pd := t.Payee
		if pd == "" {
			pd = t.Description
		}
		if pd != "" && !seen["p"+pd] {
			seen["p"+pd] = true
			col := 11
			if t.Status != ast.StatusNone {
				col = 13
			}
			if t.Range.Start.Line-1 < len(lines) {
				targets = append(targets, target{"payee", pd, protocol.Position{Line: uint32(t.Range.Start.Line - 1), Character: uint32(col + 1)}})
			}
		}
		for _, p := range t.Postings {
			if !seen["a"+p.Account.Name] {
				seen["a"+p.Account.Name] = true
				targets = append(targets, target{"account", p.Account.Name, protocol.Position{Line: uint32(p.Account.Range.Start.Line - 1), Character: uint32(p.Account.Range.Start.Column)}})
			}
			if p.Amount != nil && p.Amount.Commodity.Symbol != "" && !seen["c"+p.Amount.Commodity.Symbol] {
				seen["c"+p.Amount.Commodity.Symbol] = true
				targets = append(targets, target{"commodity", p.Amount.Commodity.Symbol, protocol.Position{Line: uint32(p.Amount.Commodity.Range.Start.Line - 1), Character: uint32(p.Amount.Commodity.Range.Start.Column - 1)}})
			}
		}
	}
	var reqs []string
	for _, tg := range targets {
		for _, incl := range []bool{true, false} {
			pos := protocol.TextDocumentPositionParams{TextDocument: protocol.TextDocumentIdentifier{URI: u}, Position: tg.pos}
			refs, err := srv.References(ctx, &protocol.ReferenceParams{TextDocumentPositionParams: pos, Context: protocol.ReferenceContext{IncludeDeclaration: incl}})
			if err != nil {
				return "", err
			}
			var rl []string
			for _, l := range refs {
				rl = append(rl, gLoc(c09IDOfURI(l.URI), l.Range))
			}
			newName := map[string]string{"account": "renamed:acct", "commodity": "XYZ", "payee": "new payee"}[tg.kind]
			we, err := srv.Rename(ctx, &protocol.RenameParams{TextDocumentPositionParams: pos, NewName: newName})
			if err != nil {
				return "", err
			}
			var el []string
			applies := true
			if we != nil {
				var uris []string
				for uu := range we.Changes {
					uris = append(uris, string(uu))
				}
				sort.Strings(uris)
				touched := map[string]bool{}
				for _, uu := range uris {
					edits := we.Changes[protocol.DocumentURI(uu)]
					sort.Slice(edits, func(i, j int) bool {
						if edits[i].Range.Start.Line != edits[j].Range.Start.Line {
							return edits[i].Range.Start.Line < edits[j].Range.Start.Line
						}
						return edits[i].Range.Start.Character < edits[j].Range.Start.Character
					})
					for _, e := range edits {
						el = append(el, gLoc(c09IDOfURI(protocol.DocumentURI(uu)), e.Range))
					}
					name := strings.TrimSuffix(filepath.Base(strings.TrimPrefix(uu, "file://")), ".journal")
					touched[name] = true
					orig, ok := scopeText[name]
					if !ok {
						applies = false
						continue
					}
					got, ok := applyEdits(orig, edits)
					if !ok || got != c09Expected(orig, tg.kind, tg.name, newName) {
						applies = false
					}
				}
				for n, t := range scopeText {
					if !touched[n] && c09Expected(t, tg.kind, tg.name, newName) != t {
						applies = false // a file with occurrences got no edit
					}
				}
			}
			reqs = append(reqs, fmt.Sprintf("(mkRq %s %s %s %s %s %s)", gZ(int64(tg.pos.Line)), gZ(int64(tg.pos.Character)), gBool(incl), gList(rl), gList(el), gBool(applies)))
		}
	}
	_ = srv.DidClose(ctx, &protocol.DidCloseTextDocumentParams{TextDocument: protocol.TextDocumentIdentifier{URI: u}})
	return fmt.Sprintf("(mkCase %s %s %s %d %d %s %s %s %s %s)", gJMap(resFiles), prim, gBool(res != nil), primaryID, c09ID(c.Current), gJournal(cur), gJMap(scope), gBool(c.HasRoot), gBool(c.Unsaved != ""), gList(reqs)), nil
}

func runC09(o opts) error {
	st := newStats("C09", o.seed, "case = a directory of 1..4 journals (single, flat, chain, siblings) sharing accounts, commodities and payees, with account / commodity declarations; a document is opened from the root or from an included file, with or without workspace root, optionally with an unsaved edit; references (with and without declarations) and rename are requested on every distinct account, commodity and payee of the open document; non-trivial = at least two files and one request; distinct by hash")
	return runGeneric(o, st, "case", func(raw json.RawMessage) (string, bool, string, error) {
		var c c09Case
		if err := json.Unmarshal(raw, &c); err != nil {
			return "", false, "", err
		}
		t, err := c09Run(c)
		return t, true, string(raw), err
	}, func(r *rng, i int) (interface{}, string, bool, error) {
		c := c09Gen(r, st)
		st.count("source:generated")
		t, err := c09Run(c)
		return c, t, len(c.Files) > 1, err
	})
}
