package main

import (
	"context"
	"encoding/json"
	"fmt"
	"os"
	"path/filepath"
	"regexp"
	"sort"
	"strings"

	"go.lsp.dev/protocol"

	"github.com/juev/hledger-lsp/internal/ast"
	"github.com/juev/hledger-lsp/internal/parser"
)

func init() { runners["C18"] = runC18 }

type c18Case struct {
	Main, Sub, Sib string // file contents; main includes sub.journal
	Current        string // main | sub | sib
	HasRoot        bool
	SwAcc, SwCom   bool
	SwBal          bool
	Prior          string // a document opened (and analysed) before the current one: "" | main | sub | sib
	Edit           string `json:",omitempty"` // current = main only: "drop" | "add" -- the include line is removed / typed in by a full-text change after the first analysis
}

// parents outside the standard categories together with declared sub-accounts that sort between a parent and
// the sub-accounts used in postings (bank < bank:aaa < bank:fees; my:acct < my:acct:a < my:acct:sub; x < x:a < x:y)
var c18DeclAcc = []string{"my:acct", "bank", "foo:bar baz", "Активы:банк", "x", "bank:aaa", "my:acct:a", "x:a", "my", "foo:bar baz:a"}
var c18DeclCom = []string{"USD", "EUR", "apples", "$"}

func c18Decls(r *rng, st *stats, where string) string {
	var sb strings.Builder
	if r.chance(55) {
		n := r.rangeInt(1, 3)
		for i := 0; i < n; i++ {
			sb.WriteString("account " + pick(r, c18DeclAcc) + "\n")
		}
		st.count("decl:account-in-" + where)
	}
	if r.chance(45) {
		sb.WriteString("commodity " + pick(r, c18DeclCom) + "\n")
		st.count("decl:commodity-in-" + where)
	}
	return sb.String()
}

func c18Txs(r *rng, st *stats) string {
	accts := []string{"my:acct", "my:acct:sub", "my:acct2", "my", "bank:fees", "bankrupt:x", "assets:cash", "Assets:Cash", "EXPENSES:food",
		"income", "revenues:job", "foo:bar baz:q", "foo:bar", "other:acct", "x:y", "Активы:банк:счёт", "liabilities", "equity:open", "xx:y"}
	var sb strings.Builder
	n := r.rangeInt(1, 3)
	for i := 0; i < n; i++ {
		sb.WriteString(fmt.Sprintf("2024-01-%02d tx %d\n", i+1, i))
		k := r.rangeInt(1, 4)
		for j := 0; j < k; j++ {
			sym := pick(r, []string{"USD", "EUR", "apples", "GBP"})
			line := fmt.Sprintf("    %s  %d %s", pick(r, accts), r.rangeInt(1, 50), sym)
			if r.chance(20) {
				line += " @ 2 " + pick(r, []string{"USD", "CHF"})
				st.count("posting:cost")
			}
			if r.chance(15) {
				line += " = 10 " + pick(r, []string{"USD", "JPY"})
				st.count("posting:assertion")
			}
			sb.WriteString(line + "\n")
		}
		if r.chance(60) {
			sb.WriteString("    " + pick(r, accts) + "\n")
		}
		sb.WriteString("\n")
	}
	return sb.String()
}

func c18Gen(r *rng, st *stats) c18Case {
	c := c18Case{HasRoot: r.chance(60), SwAcc: r.chance(75), SwCom: r.chance(75), SwBal: r.chance(50)}
	c.Current = pickW(r, []string{"main", "sub", "sib"}, []int{50, 30, 20})
	c.Main = "include sub.journal\n" + c18Decls(r, st, "main")
	c.Sub = c18Decls(r, st, "sub")
	c.Sib = c18Decls(r, st, "sib")
	txs := c18Txs(r, st)
	switch c.Current {
	case "main":
		c.Main += txs
	case "sub":
		c.Sub += txs
	default:
		c.Sib += txs
	}
	if r.chance(45) {
		for {
			c.Prior = pick(r, []string{"main", "sub", "sib"})
			if c.Prior != c.Current {
				break
			}
		}
		st.count("prior-open:" + c.Prior)
	}
	if c.Current == "main" && r.chance(40) {
		c.Edit = pick(r, []string{"drop", "add"})
		st.count("edit:" + c.Edit + "-include")
	}
	st.count("current:" + c.Current)
	if c.HasRoot {
		st.count("root:yes")
	} else {
		st.count("root:no")
	}
	return c
}

func declsOf(j *ast.Journal) (acc, com []string) {
	for _, d := range j.Directives {
		switch v := d.(type) {
		case ast.AccountDirective:
			acc = append(acc, v.Account.Name)
		case ast.CommodityDirective:
			com = append(com, v.Commodity.Symbol)
		}
	}
	return
}

func gBytesList(l []string) string {
	var items []string
	for _, s := range l {
		items = append(items, gBytes(s))
	}
	return gList(items)
}

var reAcc = regexp.MustCompile(`^account '(.*)' is not declared$`)
var reCom = regexp.MustCompile(`^commodity '(.*)' has no directive$`)

func c18Run(c c18Case) (string, error) {
	// an editing history of the root: the include line is removed ("drop") or typed in ("add") after the
	// first analysis has filled the workspace's declaration caches; the verdict is that of the final text
	mainFirst, mainFinal := c.Main, c.Main
	if c.Current == "main" {
		switch c.Edit {
		case "drop":
			mainFinal = strings.Replace(c.Main, "include sub.journal\n", "", 1)
		case "add":
			mainFirst = strings.Replace(c.Main, "include sub.journal\n", "", 1)
		}
	}
	edited := mainFirst != mainFinal
	c.Main = mainFinal
	dir, err := tempWorkspace(map[string]string{"main.journal": mainFirst, "sub.journal": c.Sub, "sib.journal": c.Sib})
	if err != nil {
		return "", err
	}
	defer os.RemoveAll(dir)
	opts := map[string]interface{}{"diagnostics": map[string]interface{}{
		"undeclaredAccounts": c.SwAcc, "undeclaredCommodities": c.SwCom, "unbalancedTransactions": c.SwBal}}
	root := ""
	if c.HasRoot {
		root = dir
	}
	srv, stub, base := newServerAt(root, opts)
	text := map[string]string{"main": c.Main, "sub": c.Sub, "sib": c.Sib}[c.Current]
	u := fileURI(filepath.Join(dir, c.Current+".journal"))
	ctx := context.Background()
	if c.Prior != "" {
		pt := map[string]string{"main": c.Main, "sub": c.Sub, "sib": c.Sib}[c.Prior]
		_ = srv.DidOpen(ctx, &protocol.DidOpenTextDocumentParams{TextDocument: protocol.TextDocumentItem{URI: fileURI(filepath.Join(dir, c.Prior+".journal")), Text: pt}})
		if !quiesce(base) {
			return "", fmt.Errorf("analysis did not finish")
		}
	}
	first := text
	if edited {
		first = mainFirst
	}
	_ = srv.DidOpen(ctx, &protocol.DidOpenTextDocumentParams{TextDocument: protocol.TextDocumentItem{URI: u, Text: first, Version: 1}})
	if !quiesce(base) {
		return "", fmt.Errorf("analysis did not finish")
	}
	if edited {
		_ = srv.DidChange(ctx, &protocol.DidChangeTextDocumentParams{
			TextDocument:   protocol.VersionedTextDocumentIdentifier{TextDocumentIdentifier: protocol.TextDocumentIdentifier{URI: u}, Version: 2},
			ContentChanges: []protocol.TextDocumentContentChangeEvent{{Text: text}}})
		if !quiesce(base) {
			return "", fmt.Errorf("analysis did not finish")
		}
	}
	pub, ok := stub.lastPublished(u)
	if !ok {
		return "", fmt.Errorf("nothing published")
	}
	cur, _ := parser.Parse(text)
	mainJ, _ := parser.Parse(c.Main)
	subJ, _ := parser.Parse(c.Sub)
	var wsAcc, wsCom, treeAcc, treeCom []string
	if c.HasRoot {
		a1, c1 := declsOf(mainJ)
		wsAcc, wsCom = a1, c1
		if strings.Contains(c.Main, "include sub.journal\n") { // the root's tree as the final text of the root has it
			a2, c2 := declsOf(subJ)
			wsAcc, wsCom = append(a1, a2...), append(c1, c2...)
		}
	}
	if c.Current == "main" && strings.Contains(c.Main, "include sub.journal\n") { // include tree of the open document (beyond itself)
		treeAcc, treeCom = declsOf(subJ)
	}
	// transaction index of a diagnostic line
	txOf := func(line int) int {
		idx := -1
		for i, t := range cur.Transactions {
			if t.Range.Start.Line-1 <= line {
				idx = i
			}
		}
		return idx
	}
	var obs []string
	diags := append([]protocol.Diagnostic(nil), pub.Diagnostics...)
	_ = sort.SliceStable
	for _, d := range diags {
		code, _ := d.Code.(string)
		switch code {
		case "UNDECLARED_ACCOUNT":
			m := reAcc.FindStringSubmatch(d.Message)
			if m == nil {
				return "", fmt.Errorf("unexpected message %q", d.Message)
			}
			obs = append(obs, fmt.Sprintf("(WAccount %d%%nat %s)", txOf(int(d.Range.Start.Line)), gBytes(m[1])))
		case "UNDECLARED_COMMODITY":
			m := reCom.FindStringSubmatch(d.Message)
			if m == nil {
				return "", fmt.Errorf("unexpected message %q", d.Message)
			}
			obs = append(obs, fmt.Sprintf("(WCommodity %d%%nat %s)", txOf(int(d.Range.Start.Line)), gBytes(m[1])))
		}
	}
	_ = srv.DidClose(ctx, &protocol.DidCloseTextDocumentParams{TextDocument: protocol.TextDocumentIdentifier{URI: u}})
	return fmt.Sprintf("(mkCase %s %s %s %s %s %s %s %s %s)", gJournal(cur), gBytesList(wsAcc), gBytesList(wsCom),
		gBytesList(treeAcc), gBytesList(treeCom), gBool(c.HasRoot), gBool(c.SwAcc), gBool(c.SwCom), gList(obs)), nil
}

func runC18(o opts) error {
	st := newStats("C18", o.seed, "case = a directory main.journal (includes sub.journal), sub.journal, sib.journal with account / commodity declarations placed in any of them or nowhere, 1..3 transactions in the open document using declared, sub-account, similar-prefix, standard-category (any case) and undeclared accounts and commodities in amounts, costs and assertions, x the 8 settings combinations, with and without a workspace root; non-trivial = some file declares something; distinct by hash")
	return runGeneric(o, st, "case", func(raw json.RawMessage) (string, bool, string, error) {
		var c c18Case
		if err := json.Unmarshal(raw, &c); err != nil {
			return "", false, "", err
		}
		t, err := c18Run(c)
		return t, true, string(raw), err
	}, func(r *rng, i int) (interface{}, string, bool, error) {
		c := c18Gen(r, st)
		st.count("source:generated")
		t, err := c18Run(c)
		nt := strings.Contains(c.Main+c.Sub+c.Sib, "account ") || strings.Contains(c.Main+c.Sub+c.Sib, "commodity ")
		return c, t, nt, err
	})
}
