package main

import (
	"context"
	"encoding/json"
	"fmt"
	"os"
	"path/filepath"
	"sort"
	"strings"

	"go.lsp.dev/protocol"

	"github.com/juev/hledger-lsp/internal/include"
)

func init() { runners["C10"] = runC10; runners["C11"] = runC11 }

type incDir struct {
	Form   string `json:"form"`   // rel | dot | abs | home | updown | glob
	Target int    `json:"target"` // file id (may not exist)
	Glob   string `json:"glob,omitempty"`
}
type incFile struct {
	ID      int      `json:"id"`
	Sub     bool     `json:"sub"` // placed in sub/
	Version int      `json:"version"`
	Pad     int      `json:"pad"` // extra bytes of comment
	Dirs    []incDir `json:"dirs"`
	Bad     int      `json:"bad,omitempty"` // lines with a syntax error at the end of the file
}
type c10Case struct {
	Files    []incFile `json:"files"`
	MaxDepth int       `json:"max_depth"`
	MaxSize  int       `json:"max_size"`
	Root     int       `json:"root"`
	Override *incFile  `json:"override,omitempty"` // LoadFromContent with this content for the root
}
type c11Op struct {
	Op       string   `json:"op"` // load | loadcontent | write | delete | clear
	Root     int      `json:"root,omitempty"`
	File     *incFile `json:"file,omitempty"`
	ID       int      `json:"id,omitempty"`
}
type c11Case struct {
	Files    []incFile `json:"files"`
	MaxDepth int       `json:"max_depth"`
	MaxSize  int       `json:"max_size"`
	Ops      []c11Op   `json:"ops"`
	// server level: the same kind of history through the server's notifications (the loader is the
	// server's own); ops: change (buffer only), save (write the buffer + didSave), extwrite (write a
	// file that is not open + didSave), rootload (re-analyse the root document)
	Server bool      `json:"server,omitempty"`
	SOps   []c11SOp  `json:"sops,omitempty"`
	Open   []int     `json:"open,omitempty"`
	NoRoot bool      `json:"no_root,omitempty"` // server level: the client announces no workspace folder
}
type c11SOp struct {
	Op   string   `json:"op"`
	File *incFile `json:"file,omitempty"`
	ID   int      `json:"id,omitempty"`
}

func incPath(dir string, id int, sub bool) string {
	if sub {
		return filepath.Join(dir, "sub", fmt.Sprintf("f%d.journal", id))
	}
	return filepath.Join(dir, fmt.Sprintf("f%d.journal", id))
}

// layout: which ids live in sub/ (fixed per case by the files' Sub flag; unknown ids: root dir)
type incLayout struct {
	dir string
	sub map[int]bool
}

func (l incLayout) path(id int) string { return incPath(l.dir, id, l.sub[id]) }

func (l incLayout) dirText(from incFile, d incDir) string {
	fromDir := filepath.Dir(l.path(from.ID))
	target := l.path(d.Target)
	rel, _ := filepath.Rel(fromDir, target)
	switch d.Form {
	case "dot":
		if !strings.HasPrefix(rel, "..") {
			return "./" + rel
		}
		return rel
	case "abs":
		return target
	case "absdirty": // absolute but not normalised: must denote the same file
		return filepath.Dir(target) + "/./x/..//" + filepath.Base(target)
	case "home":
		r, _ := filepath.Rel(l.dir, target)
		return "~/" + r
	case "updown":
		return "x/../" + rel
	case "glob":
		return d.Glob
	default:
		return rel
	}
}

const incLineBase = 10

func (l incLayout) content(f incFile) string {
	var sb strings.Builder
	for i := 0; i < incLineBase*f.ID+1; i++ {
		sb.WriteString("; pad\n")
	}
	for _, d := range f.Dirs {
		sb.WriteString("include " + l.dirText(f, d) + "\n")
	}
	sb.WriteString(fmt.Sprintf("\n2024-01-01 f%d v%d\n    a:b  1 USD\n    c:d\n", f.ID, f.Version))
	if f.Pad > 0 {
		sb.WriteString("; " + strings.Repeat("x", f.Pad) + "\n")
	}
	for i := 0; i < f.Bad; i++ {
		sb.WriteString("@@ broken\n")
	}
	return sb.String()
}

// expected glob expansion: files of the including file's directory whose base name matches,
// sorted by path, minus the including file
func (l incLayout) globTargets(from incFile, pattern string, exists map[int]bool) []int {
	fromDir := filepath.Dir(l.path(from.ID))
	type pm struct {
		p  string
		id int
	}
	var ms []pm
	for id := range exists {
		p := l.path(id)
		if filepath.Dir(p) != fromDir || id == from.ID {
			continue
		}
		if ok, _ := filepath.Match(pattern, filepath.Base(p)); ok {
			ms = append(ms, pm{p, id})
		}
	}
	sort.Slice(ms, func(i, j int) bool { return ms[i].p < ms[j].p })
	var out []int
	for _, m := range ms {
		out = append(out, m.id)
	}
	return out
}

func (l incLayout) gFile(f incFile, exists map[int]bool) string {
	var dirs []string
	for j, d := range f.Dirs {
		line := incLineBase*f.ID + 2 + j
		if d.Form == "glob" {
			all := map[int]bool{}
			for id := 0; id < 8; id++ {
				all[id] = true
			}
			ts := l.globTargets(f, d.Glob, all)
			var tt []string
			for _, t := range ts {
				tt = append(tt, fmt.Sprint(t))
			}
			dirs = append(dirs, fmt.Sprintf("(mkDir %d %s true)", line, gList(tt)))
		} else {
			dirs = append(dirs, fmt.Sprintf("(mkDir %d [%d] false)", line, d.Target))
		}
	}
	return fmt.Sprintf("(mkFile %d %d %s)", f.Version, len(l.content(f)), gList(dirs))
}

func (l incLayout) gFs(files map[int]incFile) string {
	exists := map[int]bool{}
	var ids []int
	for id := range files {
		exists[id] = true
		ids = append(ids, id)
	}
	sort.Ints(ids)
	var items []string
	for _, id := range ids {
		items = append(items, fmt.Sprintf("(%d, %s)", id, l.gFile(files[id], exists)))
	}
	return gList(items)
}

func (l incLayout) idOf(p string) int {
	base := filepath.Base(p)
	var id int
	if _, err := fmt.Sscanf(base, "f%d.journal", &id); err != nil {
		return 999999
	}
	if filepath.Clean(p) != l.path(id) {
		return 999998 // a path that is not the canonical name of the file
	}
	return id
}

func (l incLayout) gObs(res *include.ResolvedJournal, errs []include.LoadError) string {
	var order, files, es, pes []string
	if res != nil {
		for _, p := range res.FileOrder {
			order = append(order, fmt.Sprint(l.idOf(p)))
		}
		var keys []string
		for p := range res.Files {
			keys = append(keys, p)
		}
		sort.Strings(keys)
		for _, p := range keys {
			v := 777777
			j := res.Files[p]
			if j != nil && len(j.Transactions) > 0 {
				var fid, ver int
				if _, err := fmt.Sscanf(j.Transactions[0].Description, "f%d v%d", &fid, &ver); err == nil {
					v = ver
				}
			}
			files = append(files, fmt.Sprintf("(%d, %d)", l.idOf(p), v))
		}
	}
	for _, e := range errs {
		kind := ""
		switch e.Kind {
		case include.ErrorFileNotFound:
			kind = "ENotFound"
		case include.ErrorCycleDetected:
			if strings.Contains(e.Message, "depth limit") {
				kind = "ETooDeep"
			} else {
				kind = "ECycle"
			}
		case include.ErrorFileTooLarge:
			kind = "ETooLarge"
		case include.ErrorParseError:
			// the syntax errors of the loaded files are part of the result too (not modelled: the
			// C11 oracle compares them between the shared and the fresh loader)
			pes = append(pes, fmt.Sprintf("(%d, %d)", l.idOf(e.Path), e.Range.Start.Line))
			continue
		default:
			kind = "ENotFound"
		}
		es = append(es, fmt.Sprintf("(mkErr %s %d %d)", kind, l.idOf(e.Path), e.Range.Start.Line))
	}
	return fmt.Sprintf("(mkObs %s %s %s %s %s)", gBool(res == nil), gList(order), gList(files), gList(es), gList(pes))
}

func (l incLayout) write(f incFile) error {
	p := l.path(f.ID)
	if err := os.MkdirAll(filepath.Dir(p), 0o755); err != nil {
		return err
	}
	return os.WriteFile(p, []byte(l.content(f)), 0o644)
}

func newLayout(files []incFile) (incLayout, error) {
	dir, err := os.MkdirTemp("", "verif-inc-")
	if err != nil {
		return incLayout{}, err
	}
	dir, _ = filepath.EvalSymlinks(dir)
	l := incLayout{dir: dir, sub: map[int]bool{}}
	for _, f := range files {
		l.sub[f.ID] = f.Sub
	}
	_ = os.MkdirAll(filepath.Join(dir, "sub"), 0o755)
	os.Setenv("HOME", dir)
	return l, nil
}

func genIncFile(r *rng, id, nfiles int, st *stats, sub bool) incFile {
	f := incFile{ID: id, Sub: sub, Version: 1}
	if r.chance(12) {
		f.Pad = 400
		st.count("file:big")
	}
	if r.chance(20) {
		f.Bad = r.rangeInt(1, 2)
		st.count("file:syntax-errors")
	}
	nd := pickW(r, []int{0, 1, 2, 3, 4}, []int{25, 35, 25, 10, 5})
	for j := 0; j < nd; j++ {
		d := incDir{Form: pickW(r, []string{"rel", "dot", "abs", "home", "updown", "glob", "absdirty"}, []int{40, 8, 10, 8, 8, 16, 10})}
		d.Target = r.intn(nfiles + 1) // nfiles = a dangling id
		if d.Target == id {
			st.count("edge:self")
		}
		if d.Form == "glob" {
			d.Glob = pick(r, []string{"*.journal", "f[0-2].journal", "f?.journal", "nomatch*.journal", "f[13].journal"})
			st.count("edge:glob")
		} else {
			st.count("edge:" + d.Form)
		}
		f.Dirs = append(f.Dirs, d)
	}
	return f
}

func genIncFiles(r *rng, st *stats) []incFile {
	n := r.rangeInt(1, 5)
	var fs []incFile
	for id := 0; id < n; id++ {
		fs = append(fs, genIncFile(r, id, n, st, r.chance(20)))
	}
	return fs
}

func c10Gen(r *rng, st *stats) c10Case {
	c := c10Case{Files: genIncFiles(r, st)}
	c.MaxDepth = pickW(r, []int{50, 1, 2, 3, 4, 5}, []int{70, 4, 6, 8, 6, 6})
	c.MaxSize = pickW(r, []int{10 << 20, 500}, []int{80, 20})
	c.Root = r.intn(len(c.Files))
	if r.chance(3) {
		c.Root = len(c.Files) // missing root
	}
	if r.chance(25) {
		ov := genIncFile(r, c.Root, len(c.Files), st, false)
		for _, f := range c.Files {
			if f.ID == c.Root {
				ov.Sub = f.Sub
			}
		}
		ov.Version = 9
		c.Override = &ov
		st.count("root:from-content")
	}
	return c
}

func loaderFor(maxDepth, maxSize int) *include.Loader {
	l := include.NewLoader()
	l.SetLimits(include.Limits{MaxFileSizeBytes: int64(maxSize), MaxIncludeDepth: maxDepth})
	return l
}

func c10Nontrivial(files []incFile) bool {
	// a cycle, a diamond/double include or a dangling edge: count in-degree >= 2 or target >= len or self/back edge
	indeg := map[int]int{}
	for _, f := range files {
		for _, d := range f.Dirs {
			if d.Form == "glob" {
				return true
			}
			indeg[d.Target]++
			if d.Target >= len(files) || d.Target <= f.ID {
				return true
			}
		}
	}
	for _, n := range indeg {
		if n >= 2 {
			return true
		}
	}
	return false
}

func c10Run(c c10Case) (string, error) {
	l, err := newLayout(c.Files)
	if err != nil {
		return "", err
	}
	defer os.RemoveAll(l.dir)
	files := map[int]incFile{}
	for _, f := range c.Files {
		files[f.ID] = f
		if err := l.write(f); err != nil {
			return "", err
		}
	}
	ld := loaderFor(c.MaxDepth, c.MaxSize)
	var res *include.ResolvedJournal
	var errs []include.LoadError
	ov := "None"
	if c.Override != nil {
		res, errs = ld.LoadFromContent(l.path(c.Root), l.content(*c.Override))
		exists := map[int]bool{}
		for id := range files {
			exists[id] = true
		}
		ov = "(Some " + l.gFile(*c.Override, exists) + ")"
	} else {
		res, errs = ld.Load(l.path(c.Root))
	}
	return fmt.Sprintf("(mkCase %s (mkLim %d %d) %d %s %s)", l.gFs(files), c.MaxSize, c.MaxDepth, c.Root, ov, l.gObs(res, errs)), nil
}

// all directed graphs on n files given as adjacency bit masks (thorough / exhaustive part)
func c10Exhaustive(n int, mask uint64) c10Case {
	var c c10Case
	bit := 0
	for i := 0; i < n; i++ {
		f := incFile{ID: i, Version: 1}
		for j := 0; j < n; j++ {
			if mask&(1<<uint(bit)) != 0 {
				f.Dirs = append(f.Dirs, incDir{Form: "rel", Target: j})
			}
			bit++
		}
		c.Files = append(c.Files, f)
	}
	c.MaxDepth, c.MaxSize = 50, 10<<20
	return c
}

func runC10(o opts) error {
	st := newStats("C10", o.seed, "case = a directory of 1..5 journal files with 0..4 include directives each (relative, ./, absolute, ~/, x/../, glob forms; self loops, cycles, diamonds, dangling targets, oversized files) loaded once by a fresh loader via Load or LoadFromContent under a depth limit 1..5/50; exhaustive part: all 512 directed graphs on 3 files; non-trivial = the graph has a cycle, a file with in-degree >= 2, a dangling edge or a glob; distinct by hash")
	return runGeneric(o, st, "case", func(raw json.RawMessage) (string, bool, string, error) {
		var c c10Case
		if err := json.Unmarshal(raw, &c); err != nil {
			return "", false, "", err
		}
		t, err := c10Run(c)
		return t, true, string(raw), err
	}, func(r *rng, i int) (interface{}, string, bool, error) {
		var c c10Case
		if i < 512 {
			c = c10Exhaustive(3, uint64(i))
			c.Root = 0
			st.count("source:exhaustive-3")
		} else if o.thorough && i < 512+8192 {
			c = c10Exhaustive(4, r.next()&0xffff)
			c.Root = r.intn(4)
			st.count("source:sampled-4")
		} else {
			c = c10Gen(r, st)
			st.count("source:generated")
		}
		t, err := c10Run(c)
		return c, t, c10Nontrivial(c.Files), err
	})
}

// ---- C11 ----
func c11GenServer(r *rng, st *stats) c11Case {
	// root 0 includes every other file by a plain relative include; the others include nothing
	n := r.rangeInt(2, 4)
	c := c11Case{MaxDepth: 50, MaxSize: 10 << 20, Server: true, NoRoot: r.chance(40)}
	if c.NoRoot {
		st.count("server:no-root")
	} else {
		st.count("server:root")
	}
	root := incFile{ID: 0, Version: 1}
	for id := 1; id < n; id++ {
		root.Dirs = append(root.Dirs, incDir{Form: "rel", Target: id})
		c.Files = append(c.Files, incFile{ID: id, Version: 1})
	}
	c.Files = append([]incFile{root}, c.Files...)
	c.Open = []int{0}
	for id := 1; id < n; id++ {
		if r.chance(70) {
			c.Open = append(c.Open, id)
		}
	}
	version := 1
	isOpen := func(id int) bool {
		for _, o := range c.Open {
			if o == id {
				return true
			}
		}
		return false
	}
	for i, nops := 0, r.rangeInt(3, 8); i < nops; i++ {
		id := r.rangeInt(1, n-1)
		k := r.intn(100)
		switch {
		case k < 35:
			c.SOps = append(c.SOps, c11SOp{Op: "rootload"})
		case k < 60 && isOpen(id):
			version++
			c.SOps = append(c.SOps, c11SOp{Op: "change", File: &incFile{ID: id, Version: version}})
		case k < 85 && isOpen(id):
			c.SOps = append(c.SOps, c11SOp{Op: "save", ID: id})
		default:
			if !isOpen(id) {
				version++
				c.SOps = append(c.SOps, c11SOp{Op: "extwrite", File: &incFile{ID: id, Version: version}})
			} else {
				c.SOps = append(c.SOps, c11SOp{Op: "rootload"})
			}
		}
	}
	c.SOps = append(c.SOps, c11SOp{Op: "rootload"})
	st.count("level:server")
	return c
}

func c11Gen(r *rng, st *stats) c11Case {
	if r.chance(25) {
		return c11GenServer(r, st)
	}
	st.count("level:loader")
	c := c11Case{Files: genIncFiles(r, st), MaxDepth: 50, MaxSize: pickW(r, []int{10 << 20, 500}, []int{85, 15})}
	n := len(c.Files)
	version := 1
	nops := r.rangeInt(2, 6)
	for i := 0; i < nops; i++ {
		k := r.intn(100)
		switch {
		case k < 55 || i == 0:
			c.Ops = append(c.Ops, c11Op{Op: "load", Root: r.intn(n)})
			st.count("op:load")
		case k < 65:
			version++
			f := genIncFile(r, r.intn(n), n, st, false)
			f.Version = version
			for _, g := range c.Files {
				if g.ID == f.ID {
					f.Sub = g.Sub
				}
			}
			c.Ops = append(c.Ops, c11Op{Op: "loadcontent", Root: f.ID, File: &f})
			st.count("op:loadcontent")
		case k < 88:
			version++
			f := genIncFile(r, r.intn(n), n, st, false)
			f.Version = version
			for _, g := range c.Files {
				if g.ID == f.ID {
					f.Sub = g.Sub
				}
			}
			c.Ops = append(c.Ops, c11Op{Op: "write", File: &f})
			st.count("op:write+invalidate")
		case k < 93:
			c.Ops = append(c.Ops, c11Op{Op: "delete", ID: r.intn(n)})
			st.count("op:delete+invalidate")
		default:
			c.Ops = append(c.Ops, c11Op{Op: "clear"})
			st.count("op:clear")
		}
	}
	if c.Ops[len(c.Ops)-1].Op != "load" {
		c.Ops = append(c.Ops, c11Op{Op: "load", Root: r.intn(n)})
	}
	return c
}

// versions of the files of a resolved tree, by file id
func (l incLayout) versions(res *include.ResolvedJournal) map[int]int {
	out := map[int]int{}
	if res == nil {
		return out
	}
	for p, j := range res.Files {
		v := 777777
		if j != nil && len(j.Transactions) > 0 {
			var fid, ver int
			if _, err := fmt.Sscanf(j.Transactions[0].Description, "f%d v%d", &fid, &ver); err == nil {
				v = ver
			}
		}
		out[l.idOf(p)] = v
	}
	return out
}

func c11RunServer(c c11Case) (string, error) {
	l, err := newLayout(c.Files)
	if err != nil {
		return "", err
	}
	defer os.RemoveAll(l.dir)
	files := map[int]incFile{}
	for _, f := range c.Files {
		files[f.ID] = f
		if err := l.write(f); err != nil {
			return "", err
		}
	}
	rootDir := l.dir
	if c.NoRoot {
		rootDir = ""
	}
	srv, _, base := newServerAt(rootDir, nil)
	ctx := context.Background()
	buffers := map[int]incFile{}
	uri := func(id int) protocol.DocumentURI { return fileURI(l.path(id)) }
	for _, id := range c.Open {
		buffers[id] = files[id]
		_ = srv.DidOpen(ctx, &protocol.DidOpenTextDocumentParams{TextDocument: protocol.TextDocumentItem{URI: uri(id), Text: l.content(files[id])}})
		quiesce(base)
	}
	version := int32(1)
	change := func(id int, f incFile) {
		version++
		_ = srv.DidChange(ctx, &protocol.DidChangeTextDocumentParams{
			TextDocument:   protocol.VersionedTextDocumentIdentifier{TextDocumentIdentifier: protocol.TextDocumentIdentifier{URI: uri(id)}, Version: version},
			ContentChanges: []protocol.TextDocumentContentChangeEvent{{Text: l.content(f)}}})
		quiesce(base)
	}
	var triples []string
	for _, op := range c.SOps {
		switch op.Op {
		case "change":
			f := *op.File
			f.Sub = files[f.ID].Sub
			buffers[f.ID] = f
			change(f.ID, f)
		case "save":
			f := buffers[op.ID]
			files[op.ID] = f
			if err := l.write(f); err != nil {
				return "", err
			}
			_ = srv.DidSave(ctx, &protocol.DidSaveTextDocumentParams{TextDocument: protocol.TextDocumentIdentifier{URI: uri(op.ID)}})
		case "extwrite":
			f := *op.File
			f.Sub = files[f.ID].Sub
			files[f.ID] = f
			if err := l.write(f); err != nil {
				return "", err
			}
			_ = srv.DidSave(ctx, &protocol.DidSaveTextDocumentParams{TextDocument: protocol.TextDocumentIdentifier{URI: uri(f.ID)}})
		case "rootload":
			change(0, buffers[0])
			shared := l.versions(srv.GetResolved(uri(0)))
			fres, _ := loaderFor(c.MaxDepth, c.MaxSize).LoadFromContent(l.path(0), l.content(buffers[0]))
			fresh := l.versions(fres)
			var ids []int
			for id := range fresh {
				ids = append(ids, id)
			}
			sort.Ints(ids)
			for _, id := range ids {
				sv, ok := shared[id]
				if !ok {
					sv = 888888 // the server's tree lacks the file
				}
				triples = append(triples, fmt.Sprintf("(%d, %d, %d)", id, sv, fresh[id]))
			}
		}
	}
	return fmt.Sprintf("(mkCase11 [] (mkLim %d %d) [] %s)", c.MaxSize, c.MaxDepth, gList(triples)), nil
}

func c11Run(c c11Case) (string, error) {
	if c.Server {
		return c11RunServer(c)
	}
	l, err := newLayout(c.Files)
	if err != nil {
		return "", err
	}
	defer os.RemoveAll(l.dir)
	files := map[int]incFile{}
	for _, f := range c.Files {
		files[f.ID] = f
		if err := l.write(f); err != nil {
			return "", err
		}
	}
	fs0 := l.gFs(files)
	shared := loaderFor(c.MaxDepth, c.MaxSize)
	var steps []string
	exists := func() map[int]bool {
		m := map[int]bool{}
		for id := range files {
			m[id] = true
		}
		return m
	}
	for _, op := range c.Ops {
		switch op.Op {
		case "load":
			res, errs := shared.Load(l.path(op.Root))
			fres, ferrs := loaderFor(c.MaxDepth, c.MaxSize).Load(l.path(op.Root))
			steps = append(steps, fmt.Sprintf("(mkStep (OLoad %d) (Some %s) (Some %s))", op.Root, l.gObs(res, errs), l.gObs(fres, ferrs)))
		case "loadcontent":
			content := l.content(*op.File)
			res, errs := shared.LoadFromContent(l.path(op.Root), content)
			fres, ferrs := loaderFor(c.MaxDepth, c.MaxSize).LoadFromContent(l.path(op.Root), content)
			steps = append(steps, fmt.Sprintf("(mkStep (OLoadContent %d %s) (Some %s) (Some %s))", op.Root, l.gFile(*op.File, exists()), l.gObs(res, errs), l.gObs(fres, ferrs)))
		case "write":
			files[op.File.ID] = *op.File
			if err := l.write(*op.File); err != nil {
				return "", err
			}
			shared.InvalidateFile(l.path(op.File.ID))
			steps = append(steps, fmt.Sprintf("(mkStep (OWrite %d (Some %s)) None None)", op.File.ID, l.gFile(*op.File, exists())))
		case "delete":
			delete(files, op.ID)
			_ = os.Remove(l.path(op.ID))
			shared.InvalidateFile(l.path(op.ID))
			steps = append(steps, fmt.Sprintf("(mkStep (OWrite %d None) None None)", op.ID))
		case "clear":
			shared.ClearCache()
			steps = append(steps, "(mkStep OClear None None)")
		}
	}
	return fmt.Sprintf("(mkCase11 %s (mkLim %d %d) %s [])", fs0, c.MaxSize, c.MaxDepth, gList(steps)), nil
}

func runC11(o opts) error {
	st := newStats("C11", o.seed, "case = (75%) 2..7 operations (load root_i via Load / LoadFromContent, rewrite or delete a file + InvalidateFile, ClearCache) on one shared loader over a directory of 1..5 files; after every load a fresh loader is run on the same files; (25%) the same kind of history at server level: a root document that includes 1..3 files, some of them open, 3..9 notifications (didChange of an include, didSave of an open include after writing its buffer, didSave of a rewritten file that is not open, re-analysis of the root), the root's resolved tree compared file by file with a fresh loader after every re-analysis; non-trivial = at least two loads with a write or clear between or a repeated load; distinct by hash")
	return runGeneric(o, st, "case11", func(raw json.RawMessage) (string, bool, string, error) {
		var c c11Case
		if err := json.Unmarshal(raw, &c); err != nil {
			return "", false, "", err
		}
		t, err := c11Run(c)
		return t, true, string(raw), err
	}, func(r *rng, i int) (interface{}, string, bool, error) {
		c := c11Gen(r, st)
		st.count("source:generated")
		loads := 0
		for _, op := range c.Ops {
			if op.Op == "load" || op.Op == "loadcontent" {
				loads++
			}
		}
		t, err := c11Run(c)
		return c, t, loads >= 2 || c.Server, err
	})
}
